import BV.Lemmas.StreamStep
/-
The documented call contract of the streaming encoder as a 6-state automaton (spec side,
written from `c/brotli/encode.h`, independent of the model's control flow), the abstraction
function from model states, and the refinement proof for the main loop.
-/
namespace BV.Stream
open BV.Bits

/-- states of the contract automaton -/
inductive CState where
  | fresh                 -- nothing processed yet: parameters may still change
  | processing            -- accepting input
  | flushing              -- a flush has been accepted, its output is not drained yet
  | finishing             -- finish accepted, output pending
  | finished              -- finish accepted, everything delivered
  | metadata (n : Nat)    -- inside a metadata block, `n` payload bytes still owed
deriving Repr, DecidableEq

/-- does the contract allow `compress_stream(op, n bytes offered)` in state `c`?
(op: 0 PROCESS, 1 FLUSH, 2 FINISH, 3 EMIT_METADATA) -/
def Contract.accepts (c : CState) (op n : Nat) : Bool :=
  match c with
  | .metadata r => op == 3 && n == r
  | .fresh | .processing => if op == 3 then decide (n ≤ 16777216) else true
  | .flushing | .finishing | .finished => op != 3 && n == 0

/-- allowed successor of an accepted call that consumed `k` of the `n` bytes offered -/
def Contract.succ (c : CState) (op n k : Nat) (c' : CState) : Prop :=
  match c with
  | .metadata r => (∃ r', c' = .metadata r' ∧ r' ≤ r ∧ k = r - r') ∨ (c' = .processing ∧ k = r)
  | .fresh | .processing =>
    if op = 3 then (∃ r', c' = .metadata r' ∧ r' ≤ n ∧ k = n - r') ∨ (c' = .processing ∧ k = n)
    else if op = 0 then c' = .processing
    else if op = 1 then c' = .processing ∨ (c' = .flushing ∧ k = n)
    else c' = .processing ∨ ((c' = .finishing ∨ c' = .finished) ∧ k = n)
  | .flushing => k = 0 ∧ (c' = .flushing ∨ c' = .processing)
  | .finishing => k = 0 ∧ (c' = .finishing ∨ c' = .finished)
  | .finished => k = 0 ∧ c' = .finished

/-- abstraction: which contract state a model state is in -/
def absC (s : St) : CState :=
  if s.isInitialized = false then .fresh
  else if s.remainingMetadata ≠ u32Max then .metadata s.remainingMetadata
  else match s.streamState with
    | .flushRequested => .flushing
    | .finished => if s.pending.length ≠ 0 then .finishing else .finished
    | .metadataHead | .metadataBody => .metadata s.remainingMetadata
    | .processing => .processing

/-! ### the main loop -/

theorem slowLoop_induct {o : Oracle} {op : Nat} (P : St → Io → Prop)
    (hstep : ∀ s io s' io' c, P s io → slowStep o op s io = .ok (s', io', c) → c ≠ .fail ∧ P s' io') :
    ∀ fuel s io s' io' r, P s io → slowLoop o op fuel s io = .ok (s', io', r) →
      r = true ∧ ∃ s1, P s1 io' ∧ s' = checkFlushComplete s1 := by
  intro fuel
  induction fuel with
  | zero => intro s io s' io' r _ h; simp [slowLoop] at h
  | succ k ih =>
    intro s io s' io' r hP h
    unfold slowLoop at h
    split at h
    · simp at h
    · simp at h
    · rename_i s1 io1 hs
      exact absurd rfl (hstep _ _ _ _ _ hP hs).1
    · rename_i s1 io1 hs
      exact ih _ _ _ _ _ (hstep _ _ _ _ _ hP hs).2 h
    · rename_i s1 io1 hs
      simp only [Out.ok.injEq, Prod.mk.injEq] at h
      obtain ⟨rfl, rfl, rfl⟩ := h
      exact ⟨rfl, s1, (hstep _ _ _ _ _ hP hs).2, rfl⟩

/-- loop invariant of `compress_stream`'s main loop, relative to the stream state `c0` at entry -/
structure SlowInv (op : Nat) (c0 : SState) (n total : Nat) (s : St) (io : Io) : Prop where
  inv : Inv s
  sum : s.inputPos + io.availIn = total
  nowrap : total < two64
  rm : s.remainingMetadata = u32Max
  availLe : io.availIn ≤ n
  nonproc : c0 ≠ .processing → io.availIn = 0
  st : s.streamState = c0 ∨ (c0 = .processing ∧ io.availIn = 0 ∧
        ((op = 1 ∧ s.streamState = .flushRequested) ∨ (op = 2 ∧ s.streamState = .finished)))

theorem slowInv_step {o : Oracle} {op : Nat} {c0 : SState} {n total : Nat} {s s' : St} {io io' : Io} {c : Ctl}
    (hP : SlowInv op c0 n total s io) (h : slowStep o op s io = .ok (s', io', c)) :
    c ≠ .fail ∧ SlowInv op c0 n total s' io' := by
  have hnp : s.streamState ≠ .processing → io.availIn = 0 := by
    intro hne
    rcases hP.st with h1 | ⟨_, h2, _⟩
    · exact hP.nonproc (by rw [← h1]; exact hne)
    · exact h2
  obtain ⟨i1, i2, i3, i4, i5, i6⟩ := slowStep_spec hP.inv (by rw [hP.sum]; exact hP.nowrap) hnp h
  refine ⟨i3, ⟨i1, i2.trans hP.sum, hP.nowrap, i4.trans hP.rm, Nat.le_trans i5 hP.availLe, ?_, ?_⟩⟩
  · intro hc
    have := hP.nonproc hc
    omega
  · rcases i6 with h6 | ⟨h6, h7, h8⟩
    · rcases hP.st with h9 | ⟨h9, h10, h11⟩
      · exact Or.inl (h6.trans h9)
      · refine Or.inr ⟨h9, by omega, ?_⟩
        rw [h6]; exact h11
    · rcases hP.st with h9 | ⟨h9, h10, h11⟩
      · exact Or.inr ⟨h9.symm.trans h6, h7, h8⟩
      · rcases h11 with ⟨_, h12⟩ | ⟨_, h12⟩ <;> rw [h6] at h12 <;> cases h12

end BV.Stream
