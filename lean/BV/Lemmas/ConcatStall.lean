/-
Look-ahead exactness and "a call that makes no progress changes nothing
observable" (C12).
-/
import BV.Lemmas.ConcatStream

namespace BV.Concat
open Outcome BV.Gen

/-! ### the look-ahead loop -/

/-- number of header bytes `sufficient()` asks for, as a function of the first byte -/
def need (b0 : Nat) : Nat := if 127 &&& b0 = 17 then 5 else 4

theorem headerLoop_cons (nsp : NewStreamData) (x : Nat) (l : List Nat) (off : Nat) :
    headerLoop nsp (x :: l) off =
      if nsp.sufficient then ok (nsp, off) else
      match nsp.bytes_so_far.set? nsp.num_bytes_read x with
      | none => Outcome.panic .streamBsfIndex
      | some bsf =>
        if nsp.num_bytes_read + 1 ≥ 256 then Outcome.panic .streamReadAdd else
        headerLoop { nsp with bytes_so_far := bsf, num_bytes_read := nsp.num_bytes_read + 1 } l (off + 1) := by
  rfl

/-- feeding the look-ahead loop `a ++ b` is feeding it `a`, then `b` -/
theorem headerLoop_append : ∀ (a b : List Nat) (nsp : NewStreamData) (off : Nat),
    headerLoop nsp (a ++ b) off = (headerLoop nsp a off).bind (fun r => headerLoop r.1 b r.2) := by
  intro a
  induction a with
  | nil => intro b nsp off; simp [headerLoop]
  | cons x rest ih =>
    intro b nsp off
    rw [List.cons_append, headerLoop_cons, headerLoop_cons]
    by_cases hs : nsp.sufficient = true
    · simp only [hs, if_true, bind_ok]
      cases b with
      | nil => rfl
      | cons y t => rw [headerLoop_cons]; simp [hs]
    · simp only [hs, Bool.false_eq_true, if_false]
      cases nsp.bytes_so_far.set? nsp.num_bytes_read x with
      | none => simp
      | some bsf =>
        dsimp only
        by_cases ho : nsp.num_bytes_read + 1 ≥ 256
        · simp [ho]
        · simp only [ho, if_false]
          exact ih b _ _

theorem headerLoop_sufficient (nsp : NewStreamData) (h : nsp.sufficient = true) (l : List Nat) (off : Nat) :
    headerLoop nsp l off = ok (nsp, off) := by
  cases l with
  | nil => rfl
  | cons a t => simp [headerLoop, h]

/-- 4-byte look-ahead: the result does not depend on what follows -/
theorem headerLoop_new_4 (a b c d : Nat) (rest : List Nat) (h : 127 &&& a ≠ 17) :
    headerLoop NewStreamData.new (a :: b :: c :: d :: rest) 0
      = ok (⟨⟨a, b, c, d, 0⟩, 4, none⟩, 4) := by
  have hs : (⟨⟨a, b, c, d, 0⟩, 4, none⟩ : NewStreamData).sufficient = true := by
    simp [NewStreamData.sufficient, h]
  have := headerLoop_append [a, b, c, d] rest NewStreamData.new 0
  simp only [List.cons_append, List.nil_append] at this
  rw [this]
  have e : headerLoop NewStreamData.new [a, b, c, d] 0 = ok (⟨⟨a, b, c, d, 0⟩, 4, none⟩, 4) := by
    simp [headerLoop, NewStreamData.new, NewStreamData.sufficient, B5.set?, B5.zero]
  rw [e]
  simp only [bind_ok]
  exact headerLoop_sufficient _ hs rest 4

/-- 5-byte look-ahead (`byte0 & 127 = 17`, the large-window form) -/
theorem headerLoop_new_5 (a b c d e : Nat) (rest : List Nat) (h : 127 &&& a = 17) :
    headerLoop NewStreamData.new (a :: b :: c :: d :: e :: rest) 0
      = ok (⟨⟨a, b, c, d, e⟩, 5, none⟩, 5) := by
  have hs : (⟨⟨a, b, c, d, e⟩, 5, none⟩ : NewStreamData).sufficient = true := by
    simp [NewStreamData.sufficient]
  have := headerLoop_append [a, b, c, d, e] rest NewStreamData.new 0
  simp only [List.cons_append, List.nil_append] at this
  rw [this]
  have e : headerLoop NewStreamData.new [a, b, c, d, e] 0 = ok (⟨⟨a, b, c, d, e⟩, 5, none⟩, 5) := by
    simp [headerLoop, NewStreamData.new, NewStreamData.sufficient, B5.set?, B5.zero, h]
  rw [e]
  simp only [bind_ok]
  exact headerLoop_sufficient _ hs rest 5

/-! ### calls that cannot make progress -/

theorem state_eta_pending (s : State) (d : NewStreamData) (h : s.new_stream_pending = some d) :
    { s with new_stream_pending := some d } = s := by
  cases s; simp_all

/-- no member pending: a call without output room changes nothing -/
theorem stream_none_nocap (s : State) (inp : List Nat) (hp : s.new_stream_pending = none) :
    stream s inp 0 = ok ⟨s, NEEDS_MORE_OUTPUT, 0, []⟩ := by
  unfold stream
  rw [hp]
  dsimp only
  unfold streamTail
  rw [hp]
  by_cases h2 : s.last_bytes_len ≠ 2
  · simp [h2]
  · simp [h2, streamCopy]

/-- no member pending: a call without input changes nothing -/
theorem stream_none_noinput (s : State) (cap : Nat) (hp : s.new_stream_pending = none) :
    stream s [] cap = ok ⟨s, if cap = 0 then NEEDS_MORE_OUTPUT else NEEDS_MORE_INPUT, 0, []⟩ := by
  unfold stream
  rw [hp]
  dsimp only
  unfold streamTail
  rw [hp]
  by_cases hc : cap = 0
  · by_cases h2 : s.last_bytes_len ≠ 2
    · simp [h2, hc]
    · simp [h2, streamCopy, hc]
  · by_cases h2 : s.last_bytes_len ≠ 2
    · simp [h2, hc]
    · simp [h2, streamCopy, hc]

/-- a failed / stalled flush returns its arguments unchanged -/
theorem flush_sat_unchanged (s s1 : State) (out1 : List Nat) (code : Nat)
    (h : flushPreviousStream s [] 0 = ok (s1, out1, code)) (hc : code ≠ SUCCESS) : s1 = s ∧ out1 = [] := by
  cases hs : s.last_byte_sanitized with
  | true =>
    unfold flushPreviousStream at h
    simp [hs] at h
    exact absurd h.2.2.symm hc
  | false =>
    by_cases h0 : s.last_bytes_len = 0
    · unfold flushPreviousStream at h
      simp [hs, h0] at h
      exact absurd h.2.2.symm hc
    · rw [flush_unsanitized s [] 0 hs h0] at h
      split at h
      · simp at h
      split at h
      · simp at h
      cases hf : findHighLoop (s.last_bytes.1 + (s.last_bytes.2 <<< 8)) (s.last_bytes_len * 8)
          (s.last_bytes_len * 8) 0 (s.last_bytes_len * 8 - 1) with
      | panic t => rw [hf] at h; simp at h
      | ok index =>
        rw [hf] at h
        simp only [bind_ok] at h
        split at h
        · simp only [Outcome.ok.injEq, Prod.mk.injEq] at h; exact ⟨h.1.symm, h.2.1.symm⟩
        split at h
        · simp only [Outcome.ok.injEq, Prod.mk.injEq] at h; exact ⟨h.1.symm, h.2.1.symm⟩
        by_cases h8 : index - 1 ≥ 8
        · rw [flushStrip_ge8_nocap _ _ _ h8] at h
          simp only [Outcome.ok.injEq, Prod.mk.injEq] at h; exact ⟨h.1.symm, h.2.1.symm⟩
        · rw [flushStrip_lt8 _ _ _ _ _ (by omega), flushFin_lt8 _ _ _ (by omega)] at h
          simp only [Outcome.ok.injEq, Prod.mk.injEq] at h
          exact absurd h.2.2.symm hc

/-- a flush that succeeded without output room succeeds identically with any room,
and is idempotent -/
theorem flush_stall (s s1 : State) (out1 : List Nat) (h : flushPreviousStream s [] 0 = ok (s1, out1, SUCCESS)) :
    out1 = [] ∧ s1.last_byte_sanitized = true ∧ s1.new_stream_pending = s.new_stream_pending ∧
    ∀ out cap, flushPreviousStream s out cap = ok (s1, out, SUCCESS) := by
  cases hs : s.last_byte_sanitized with
  | true =>
    unfold flushPreviousStream at h
    simp only [hs, not_true_eq_false, if_false, Outcome.ok.injEq, Prod.mk.injEq] at h
    obtain ⟨rfl, rfl, _⟩ := h
    refine ⟨rfl, hs, rfl, fun out cap => ?_⟩
    unfold flushPreviousStream
    simp [hs]
  | false =>
    by_cases h0 : s.last_bytes_len = 0
    · unfold flushPreviousStream at h
      simp only [hs, Bool.false_eq_true, not_false_eq_true, if_true, h0, Outcome.ok.injEq, Prod.mk.injEq] at h
      obtain ⟨rfl, rfl, _⟩ := h
      refine ⟨rfl, rfl, rfl, fun out cap => ?_⟩
      unfold flushPreviousStream
      simp [hs, h0]
    · rw [flush_unsanitized s [] 0 hs h0] at h
      by_cases hm : s.last_bytes_len * 8 ≥ 256
      · simp [hm] at h
      by_cases hm1 : s.last_bytes_len * 8 < 1
      · simp [hm, hm1] at h
      simp only [hm, hm1, if_false] at h
      cases hf : findHighLoop (s.last_bytes.1 + (s.last_bytes.2 <<< 8)) (s.last_bytes_len * 8)
          (s.last_bytes_len * 8) 0 (s.last_bytes_len * 8 - 1) with
      | panic t => rw [hf] at h; simp at h
      | ok index =>
        rw [hf] at h
        simp only [bind_ok] at h
        by_cases hi0 : index = 0
        · simp [hi0] at h
        by_cases h3 : (s.last_bytes.1 + (s.last_bytes.2 <<< 8)) >>> (index - 1) ≠ 3
        · simp [hi0, h3] at h
        simp only [hi0, h3, if_false] at h
        by_cases h8 : index - 1 ≥ 8
        · rw [flushStrip_ge8_nocap _ _ _ h8] at h; simp at h
        rw [flushStrip_lt8 _ _ _ _ _ (by omega), flushFin_lt8 _ _ _ (by omega)] at h
        simp only [Outcome.ok.injEq, Prod.mk.injEq] at h
        obtain ⟨rfl, rfl, _⟩ := h
        refine ⟨rfl, rfl, ?_, fun out cap => ?_⟩
        · dsimp only; split <;> rfl
        rw [flush_unsanitized s out cap hs h0]
        simp only [hm, hm1, if_false, hf, bind_ok, hi0, h3]
        rw [flushStrip_lt8 _ _ _ _ _ (by omega), flushFin_lt8 _ _ _ (by omega)]

/-- `stream` when a member is pending and the tail is already sanitised, written
without the (no-op) flush -/
theorem stream_of_flushed (s s1 : State) (nsp0 : NewStreamData) (inp : List Nat) (cap : Nat)
    (hp : s.new_stream_pending = some nsp0)
    (hf : flushPreviousStream s [] cap = ok (s1, [], SUCCESS)) :
    stream s inp cap =
      ((if nsp0.num_bytes_written.isNone ∧ nsp0.num_bytes_read < NUM_STREAM_HEADER_BYTES then
          (headerLoop nsp0 inp 0).bind fun x => ok (x.1, x.2, { s1 with new_stream_pending := some x.1 })
        else ok (nsp0, 0, s1)).bind fun x =>
      if x.1.num_bytes_written.isNone ∧ ¬ x.1.sufficient then ok ⟨x.2.2, NEEDS_MORE_INPUT, x.2.1, []⟩ else
      if cap = 0 then ok ⟨x.2.2, NEEDS_MORE_OUTPUT, x.2.1, []⟩ else
      (shiftAndCheckNewStreamHeader x.2.2 x.1 [] cap).bind fun y =>
      if y.2.2 ≠ SUCCESS then ok ⟨y.1, y.2.2, x.2.1, y.2.1⟩ else
      if y.2.1.length = cap then ok ⟨y.1, NEEDS_MORE_OUTPUT, x.2.1, y.2.1⟩ else
      streamTail y.1 inp x.2.1 y.2.1 cap) := by
  unfold stream
  rw [hp]
  dsimp only
  rw [hf]
  simp only [bind_ok, SUCCESS, ne_eq, not_true_eq_false, if_false, List.length_nil]

/-- A call that is offered neither input nor output room returns without touching
the cursors, and whatever it did to the state (at most: strip the previous
member's end marker) is invisible to every later call. -/
theorem stall_transparent (s : State) (r : Ret) (h : stream s [] 0 = ok r) :
    r.consumed = 0 ∧ r.produced = [] ∧ (∀ inp cap, stream r.st inp cap = stream s inp cap) ∧
    stream r.st [] 0 = ok r := by
  cases hp : s.new_stream_pending with
  | none =>
    rw [stream_none_nocap s [] hp] at h
    simp only [Outcome.ok.injEq] at h
    subst h
    exact ⟨rfl, rfl, fun _ _ => rfl, stream_none_nocap s [] hp⟩
  | some nsp0 =>
    cases hfl : flushPreviousStream s [] 0 with
    | panic t =>
      unfold stream at h; rw [hp] at h; dsimp only at h; rw [hfl] at h; simp at h
    | ok fr =>
      obtain ⟨s1, out1, code⟩ := fr
      by_cases hc : code = SUCCESS
      · subst hc
        obtain ⟨rfl, hsan, hpend, hall⟩ := flush_stall s s1 out1 hfl
        have hp1 : s1.new_stream_pending = some nsp0 := by rw [hpend, hp]
        have hidem : ∀ out cap, flushPreviousStream s1 out cap = ok (s1, out, SUCCESS) := by
          intro out cap; unfold flushPreviousStream; simp [hsan]
        -- the stalled call returns s1
        have hr : r.st = s1 ∧ r.consumed = 0 ∧ r.produced = [] := by
          rw [stream_of_flushed s s1 nsp0 [] 0 hp (hall [] 0)] at h
          simp only [headerLoop, bind_ok, state_eta_pending s1 nsp0 hp1] at h
          have e : (if nsp0.num_bytes_written.isNone = true ∧ nsp0.num_bytes_read < NUM_STREAM_HEADER_BYTES
              then ok (nsp0, 0, s1) else ok (nsp0, 0, s1)) = ok (nsp0, 0, s1) := by split <;> rfl
          rw [e] at h
          simp only [bind_ok] at h
          split at h
          · simp only [Outcome.ok.injEq] at h; subst h; exact ⟨rfl, rfl, rfl⟩
          · simp only [if_true, Outcome.ok.injEq] at h; subst h; exact ⟨rfl, rfl, rfl⟩
        obtain ⟨e1, e2, e3⟩ := hr
        have hsame : ∀ inp cap, stream s1 inp cap = stream s inp cap := by
          intro inp cap
          rw [stream_of_flushed s s1 nsp0 inp cap hp (hall [] cap),
              stream_of_flushed s1 s1 nsp0 inp cap hp1 (hidem [] cap)]
        refine ⟨e2, e3, ?_, ?_⟩
        · rw [e1]; exact hsame
        · rw [e1, hsame, h]
      · -- the flush stalled or failed: nothing changed
        have hr : r = ⟨s1, code, 0, out1⟩ := by
          unfold stream at h; rw [hp] at h; dsimp only at h; rw [hfl] at h
          simp only [bind_ok, ne_eq, hc, not_false_eq_true, if_true, Outcome.ok.injEq] at h
          exact h.symm
        have hpost := flush_sat_unchanged s s1 out1 code hfl hc
        obtain ⟨rfl, rfl⟩ := hpost
        subst hr
        exact ⟨rfl, rfl, fun _ _ => rfl, h⟩

end BV.Concat
