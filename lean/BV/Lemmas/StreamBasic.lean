import BV.Model.Stream
/-
Frame lemmas for the primitives of the stream model: which fields each of them can change.
Everything here is by unfolding one small function, splitting its branches and `simp`.
-/
namespace BV.Stream
open BV.Bits

/-- fields neither the output-side primitives nor `encode_data` touch -/
structure Frame where
  params : Params
  inputPos : Nat
  remainingMetadata : Nat
  streamState : SState
  isInitialized : Bool
  ring : Ring
  first2 : Bytes

def St.frame (s : St) : Frame :=
  ⟨s.params, s.inputPos, s.remainingMetadata, s.streamState, s.isInitialized, s.ring, s.first2⟩

theorem St.frame_eq_iff {a b : St} : a.frame = b.frame ↔
    a.params = b.params ∧ a.inputPos = b.inputPos ∧ a.remainingMetadata = b.remainingMetadata ∧
    a.streamState = b.streamState ∧ a.isInitialized = b.isInitialized ∧ a.ring = b.ring ∧ a.first2 = b.first2 := by
  simp [St.frame]

macro "split_all" h:ident : tactic => `(tactic| repeat' (split at $h:ident))

-- close goals of the shape "`h : f … = .ok (a, b, c)` after splitting ⊢ facts about `a b c`"
set_option hygiene false in
macro "frame_close3" h:ident : tactic =>
  `(tactic| first
    | (simp only [Out.ok.injEq, Prod.mk.injEq] at $h:ident; obtain ⟨rfl, rfl, rfl⟩ := $h:ident; simp [St.frame])
    | (simp at $h:ident))
set_option hygiene false in
macro "frame_close2" h:ident : tactic =>
  `(tactic| first
    | (simp only [Out.ok.injEq, Prod.mk.injEq] at $h:ident; obtain ⟨rfl, rfl⟩ := $h:ident; simp [St.frame])
    | (simp at $h:ident))
set_option hygiene false in
macro "frame_close1" h:ident : tactic =>
  `(tactic| first
    | (simp only [Out.ok.injEq] at $h:ident; subst $h:ident; simp [St.frame])
    | (simp at $h:ident))

theorem wsub64_eq {a b : Nat} (h : b ≤ a) (ha : a < two64) : wsub64 a b = a - b := by
  unfold wsub64
  have hb : b % two64 = b := Nat.mod_eq_of_lt (by omega)
  rw [hb]
  have : a + two64 - b = (a - b) + two64 := by omega
  rw [this, Nat.add_mod_right, Nat.mod_eq_of_lt (by omega)]

/-! ### output side -/

theorem pad_result {s s' : St} (h : injectBytePaddingBlock s = .ok s') :
    ∃ nx, s' = padResult s nx := by
  unfold injectBytePaddingBlock at h
  split_all h
  all_goals first
    | (simp only [Out.ok.injEq] at h; exact ⟨_, h.symm⟩)
    | (simp at h)

theorem pad_frame {s s' : St} (h : injectBytePaddingBlock s = .ok s') :
    s'.frame = s.frame ∧ s'.lastFlushPos = s.lastFlushPos ∧ s'.lastProcessedPos = s.lastProcessedPos
    ∧ s'.isLastBlockEmitted = s.isLastBlockEmitted ∧ s'.lastBytesBits = 0 ∧ s'.storageSize = s.storageSize
    ∧ s'.isFirstMb = s.isFirstMb ∧ s'.totalOut = s.totalOut ∧ s'.nEnc = s.nEnc := by
  obtain ⟨nx, rfl⟩ := pad_result h
  simp [padResult, St.frame]

theorem pad_pending {s s' : St} (h : injectBytePaddingBlock s = .ok s') :
    s'.pending = s.pending ++ sealBytes (s.lastBytes ||| (6 * 2 ^ s.lastBytesBits)) ((s.lastBytesBits + 6 + 7) / 8) := by
  obtain ⟨nx, rfl⟩ := pad_result h
  rfl

theorem push_frame {s s' : St} {io io' : Io} {b : Bool} (h : injectFlushOrPushOutput s io = .ok (s', io', b)) :
    s'.frame = s.frame ∧ s'.lastFlushPos = s.lastFlushPos ∧ s'.lastProcessedPos = s.lastProcessedPos
    ∧ s'.isLastBlockEmitted = s.isLastBlockEmitted ∧ s'.storageSize = s.storageSize ∧ s'.isFirstMb = s.isFirstMb
    ∧ s'.nEnc = s.nEnc ∧ io'.input = io.input ∧ io'.availIn = io.availIn ∧ io'.reqs = io.reqs := by
  unfold injectFlushOrPushOutput at h
  split at h
  · split at h
    · rename_i s1 hp
      simp only [Out.ok.injEq, Prod.mk.injEq] at h
      obtain ⟨rfl, rfl, rfl⟩ := h
      have := pad_frame hp
      simp [this]
    · simp at h
    · simp at h
  · simp only at h
    split_all h
    all_goals frame_close3 h

/-- when `inject_flush_or_push_output` declines (`false`), nothing changed -/
theorem push_false {s s' : St} {io io' : Io} (h : injectFlushOrPushOutput s io = .ok (s', io', false)) :
    s' = s ∧ io' = io ∧ ¬ (s.streamState = .flushRequested ∧ s.lastBytesBits ≠ 0) ∧ ¬ (s.pending.length ≠ 0 ∧ io.availOut ≠ 0) := by
  unfold injectFlushOrPushOutput at h
  split at h
  · split at h <;> simp at h
  · simp only at h
    split_all h
    all_goals first
      | (simp at h; done)
      | (simp only [Out.ok.injEq, Prod.mk.injEq] at h; obtain ⟨rfl, rfl, _⟩ := h; simp_all)

theorem checkFlushComplete_frame (s : St) :
    (checkFlushComplete s).params = s.params ∧ (checkFlushComplete s).inputPos = s.inputPos
    ∧ (checkFlushComplete s).remainingMetadata = s.remainingMetadata ∧ (checkFlushComplete s).isInitialized = s.isInitialized
    ∧ (checkFlushComplete s).lastFlushPos = s.lastFlushPos ∧ (checkFlushComplete s).lastProcessedPos = s.lastProcessedPos
    ∧ (checkFlushComplete s).isLastBlockEmitted = s.isLastBlockEmitted ∧ (checkFlushComplete s).pending = s.pending
    ∧ (checkFlushComplete s).lastBytes = s.lastBytes ∧ (checkFlushComplete s).lastBytesBits = s.lastBytesBits
    ∧ (checkFlushComplete s).totalOut = s.totalOut ∧ (checkFlushComplete s).storageSize = s.storageSize := by
  unfold checkFlushComplete
  split <;> simp

theorem checkFlushComplete_state (s : St) :
    (checkFlushComplete s).streamState =
      if s.streamState = .flushRequested ∧ s.pending.length = 0 then .processing else s.streamState := by
  unfold checkFlushComplete
  split <;> simp_all

/-! ### encode_data -/

theorem growStorage_frame (s : St) (n : Nat) :
    (growStorage s n).frame = s.frame ∧ (growStorage s n).lastFlushPos = s.lastFlushPos
    ∧ (growStorage s n).lastProcessedPos = s.lastProcessedPos ∧ (growStorage s n).isLastBlockEmitted = s.isLastBlockEmitted
    ∧ (growStorage s n).pending = s.pending ∧ (growStorage s n).nextOut = s.nextOut
    ∧ (growStorage s n).isFirstMb = s.isFirstMb ∧ (growStorage s n).lastBytes = s.lastBytes
    ∧ (growStorage s n).lastBytesBits = s.lastBytesBits ∧ (growStorage s n).totalOut = s.totalOut
    ∧ (growStorage s n).nEnc = s.nEnc ∧ s.storageSize ≤ (growStorage s n).storageSize ∧ n ≤ (growStorage s n).storageSize := by
  unfold growStorage
  split <;> simp [St.frame] <;> omega

theorem encMagic_frame (s : St) (w0 : Writer) :
    (encMagic s w0).1.frame = s.frame ∧ (encMagic s w0).1.lastFlushPos = s.lastFlushPos
    ∧ (encMagic s w0).1.lastProcessedPos = s.lastProcessedPos ∧ (encMagic s w0).1.isLastBlockEmitted = s.isLastBlockEmitted
    ∧ (encMagic s w0).1.pending = s.pending ∧ (encMagic s w0).1.storageSize = s.storageSize
    ∧ (encMagic s w0).1.totalOut = s.totalOut ∧ (encMagic s w0).1.nEnc = s.nEnc := by
  unfold encMagic
  split <;> simp [St.frame]

theorem encPrelude_frame {s s' : St} {w w' : Writer} {hdr hdr' bytes : Nat}
    (h : encPrelude s w hdr bytes = .ok (s', w', hdr')) :
    s'.frame = s.frame ∧ s'.isLastBlockEmitted = s.isLastBlockEmitted ∧ s'.pending = s.pending
    ∧ s'.storageSize = s.storageSize ∧ s'.totalOut = s.totalOut ∧ s'.nEnc = s.nEnc := by
  unfold encPrelude at h
  simp only at h
  split_all h
  all_goals frame_close3 h

/-- the prelude moves both positions by the same `n ≤ min 2 bytes` -/
theorem encPrelude_pos {s s' : St} {w w' : Writer} {hdr hdr' bytes : Nat}
    (h : encPrelude s w hdr bytes = .ok (s', w', hdr')) :
    (s'.lastFlushPos = s.lastFlushPos ∧ s'.lastProcessedPos = s.lastProcessedPos) ∨
    (s'.lastFlushPos = s.lastFlushPos + min 2 bytes ∧ s'.lastProcessedPos = s.lastProcessedPos + min 2 bytes) := by
  unfold encPrelude at h
  simp only at h
  split_all h
  all_goals first
    | (simp only [Out.ok.injEq, Prod.mk.injEq] at h; obtain ⟨rfl, rfl, rfl⟩ := h; simp; done)
    | (simp at h; done)

theorem encPayload_frame {s s' : St} {ans : Ans} {w0 w : Writer} {hdr : Nat} {il ff res : Bool}
    (h : encPayload s ans w0 w hdr il ff = .ok (s', res)) :
    s'.frame = s.frame ∧ res = true ∧ s'.isLastBlockEmitted = s.isLastBlockEmitted
    ∧ s'.storageSize = s.storageSize ∧ s'.totalOut = s.totalOut ∧ s'.nEnc = s.nEnc ∧ s'.isFirstMb = s.isFirstMb := by
  unfold encPayload at h
  simp only at h
  split_all h
  all_goals frame_close2 h

/-- where `encode_data` leaves the two positions (everything else about them is oracle) -/
theorem encPayload_pos {s s' : St} {ans : Ans} {w0 w : Writer} {hdr : Nat} {il ff res : Bool}
    (h : encPayload s ans w0 w hdr il ff = .ok (s', res)) :
    (s'.lastFlushPos = s.lastFlushPos ∨ s'.lastFlushPos = s.inputPos)
    ∧ (s'.lastProcessedPos = s.lastProcessedPos ∨ s'.lastProcessedPos = s.inputPos)
    ∧ (s'.lastFlushPos = s.inputPos → s'.lastProcessedPos = s.inputPos ∨ s.inputPos = s.lastFlushPos) := by
  unfold encPayload at h
  simp only at h
  split_all h
  all_goals first
    | (simp only [Out.ok.injEq, Prod.mk.injEq] at h; obtain ⟨rfl, rfl⟩ := h; simp_all; done)
    | (simp at h; done)

theorem encRest_frame {m : St × Writer × Nat} {ans : Ans} {w0 : Writer} {bytes : Nat} {il ff res : Bool} {s' : St}
    (h : encRest m ans w0 bytes il ff = .ok (s', res)) :
    s'.frame = m.1.frame ∧ res = true ∧ s'.isLastBlockEmitted = m.1.isLastBlockEmitted
    ∧ s'.storageSize = m.1.storageSize ∧ s'.totalOut = m.1.totalOut ∧ s'.nEnc = m.1.nEnc := by
  unfold encRest at h
  split at h
  · simp at h
  · simp at h
  · rename_i s2 w hdr hpre
    obtain ⟨p1, p2, _, p4, p5, p6⟩ := encPrelude_frame hpre
    obtain ⟨q1, q2, q3, q4, q5, q6, _⟩ := encPayload_frame h
    exact ⟨q1.trans p1, q2, q3.trans p2, q4.trans p4, q5.trans p5, q6.trans p6⟩

/-- the state `encode_data` hands to the magic-block step -/
def encEntry (s : St) (il : Bool) : St := growStorage (encStart s il) (wantStorage s)

theorem encEntry_fields (s : St) (il : Bool) :
    (encEntry s il).frame = s.frame ∧ (encEntry s il).lastFlushPos = s.lastFlushPos
    ∧ (encEntry s il).lastProcessedPos = s.lastProcessedPos
    ∧ (encEntry s il).isLastBlockEmitted = (s.isLastBlockEmitted || il)
    ∧ (encEntry s il).pending = s.pending ∧ (encEntry s il).nextOut = s.nextOut
    ∧ (encEntry s il).isFirstMb = s.isFirstMb ∧ (encEntry s il).lastBytes = s.lastBytes
    ∧ (encEntry s il).lastBytesBits = s.lastBytesBits ∧ (encEntry s il).totalOut = s.totalOut
    ∧ (encEntry s il).nEnc = s.nEnc + 1 ∧ s.storageSize ≤ (encEntry s il).storageSize
    ∧ wantStorage s ≤ (encEntry s il).storageSize := by
  obtain ⟨g1, g2, g3, g4, g5, g6, g7, g8, g9, g10, g11, g12, g13⟩ := growStorage_frame (encStart s il) (wantStorage s)
  unfold encEntry
  refine ⟨?_, ?_, ?_, ?_, ?_, ?_, ?_, ?_, ?_, ?_, ?_, ?_, g13⟩
  · rw [g1]; simp [St.frame, encStart]
  · rw [g2]; simp [encStart]
  · rw [g3]; simp [encStart]
  · rw [g4]; simp [encStart]
  · rw [g5]; simp [encStart]
  · rw [g6]; simp [encStart]
  · rw [g7]; simp [encStart]
  · rw [g8]; simp [encStart]
  · rw [g9]; simp [encStart]
  · rw [g10]; simp [encStart]
  · rw [g11]; simp [encStart]
  · simpa [encStart] using g12

/-- the three ways `encodeData` can return a value -/
theorem encodeData_ok_cases {o : Oracle} {s s' : St} {site : Nat} {il ff res : Bool} {req : Req}
    (h : encodeData o s site il ff = .ok (s', res, req)) :
    req = reqOf s site il ff ∧
    ((s.isLastBlockEmitted = true ∧ res = false ∧ s' = encFail s (o s.nEnc (reqOf s site il ff)) false) ∨
     (s.isLastBlockEmitted = false ∧ s.unprocessed > s.blockSize ∧ res = false ∧ s' = encFail s (o s.nEnc (reqOf s site il ff)) il) ∨
     (s.isLastBlockEmitted = false ∧ ¬ s.unprocessed > s.blockSize ∧
       encRest (encMagic (encEntry s il) s.carry) (o s.nEnc (reqOf s site il ff)) s.carry (s.unprocessed % two32) il ff = .ok (s', res))) := by
  unfold encodeData at h
  split at h
  · rename_i h1
    simp only [Out.ok.injEq, Prod.mk.injEq] at h; obtain ⟨rfl, rfl, rfl⟩ := h
    exact ⟨rfl, Or.inl ⟨h1, rfl, rfl⟩⟩
  · rename_i h1
    have h1' : s.isLastBlockEmitted = false := by simpa using h1
    split at h
    · rename_i h2
      simp only [Out.ok.injEq, Prod.mk.injEq] at h; obtain ⟨rfl, rfl, rfl⟩ := h
      exact ⟨rfl, Or.inr (Or.inl ⟨h1', h2, rfl, rfl⟩)⟩
    · rename_i h2
      split at h
      · simp at h
      · split at h
        · simp at h
        · simp at h
        · rename_i s3 r3 hrest
          simp only [Out.ok.injEq, Prod.mk.injEq] at h
          obtain ⟨rfl, rfl, rfl⟩ := h
          exact ⟨rfl, Or.inr (Or.inr ⟨h1', h2, hrest⟩)⟩

theorem encFail_fields (s : St) (a : Ans) (l : Bool) :
    (encFail s a l).frame = s.frame ∧ (encFail s a l).lastFlushPos = s.lastFlushPos
    ∧ (encFail s a l).lastProcessedPos = s.lastProcessedPos ∧ (encFail s a l).pending = s.pending
    ∧ (encFail s a l).nextOut = s.nextOut ∧ (encFail s a l).lastBytes = s.lastBytes
    ∧ (encFail s a l).lastBytesBits = s.lastBytesBits ∧ (encFail s a l).storageSize = s.storageSize
    ∧ (encFail s a l).isLastBlockEmitted = (s.isLastBlockEmitted || l) ∧ (encFail s a l).totalOut = s.totalOut
    ∧ (encFail s a l).isFirstMb = s.isFirstMb ∧ (encFail s a l).nEnc = s.nEnc + 1 := by
  simp [encFail, St.frame]

theorem encodeData_frame {o : Oracle} {s s' : St} {site : Nat} {il ff res : Bool} {req : Req}
    (h : encodeData o s site il ff = .ok (s', res, req)) :
    s'.frame = s.frame ∧ req = reqOf s site il ff ∧ s'.totalOut = s.totalOut ∧ s'.nEnc = s.nEnc + 1
    ∧ s.storageSize ≤ s'.storageSize := by
  obtain ⟨hreq, hc⟩ := encodeData_ok_cases h
  rcases hc with ⟨_, _, rfl⟩ | ⟨_, _, _, rfl⟩ | ⟨_, _, hrest⟩
  · obtain ⟨f1, _, _, _, _, _, _, f8, _, f10, _, f12⟩ := encFail_fields s (o s.nEnc (reqOf s site il ff)) false
    exact ⟨f1, hreq, f10, f12, by omega⟩
  · obtain ⟨f1, _, _, _, _, _, _, f8, _, f10, _, f12⟩ := encFail_fields s (o s.nEnc (reqOf s site il ff)) il
    exact ⟨f1, hreq, f10, f12, by omega⟩
  · obtain ⟨r1, _, _, r4, r5, r6⟩ := encRest_frame hrest
    obtain ⟨m1, _, _, _, _, m6, m7, m8⟩ := encMagic_frame (encEntry s il) s.carry
    obtain ⟨e1, _, _, _, _, _, _, _, _, e10, e11, e12, _⟩ := encEntry_fields s il
    exact ⟨r1.trans (m1.trans e1), hreq, r5.trans (m7.trans e10), r6.trans (m8.trans e11), by rw [r4, m6]; exact e12⟩

end BV.Stream
