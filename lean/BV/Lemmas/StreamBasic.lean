import BV.Model.Stream
/-
Frame lemmas for the primitives of the stream model: which fields each of them can change.
Everything here is by unfolding one small function, splitting its branches and `simp`.
-/
namespace BV.Stream
open BV.Bits

/-- fields neither the output-side primitives nor `encode_data` touch -/
structure Frame where
  params : Params
  inputPos : Nat
  remainingMetadata : Nat
  streamState : SState
  isInitialized : Bool
  ring : Ring
  first2 : Bytes

def St.frame (s : St) : Frame :=
  ⟨s.params, s.inputPos, s.remainingMetadata, s.streamState, s.isInitialized, s.ring, s.first2⟩

theorem St.frame_eq_iff {a b : St} : a.frame = b.frame ↔
    a.params = b.params ∧ a.inputPos = b.inputPos ∧ a.remainingMetadata = b.remainingMetadata ∧
    a.streamState = b.streamState ∧ a.isInitialized = b.isInitialized ∧ a.ring = b.ring ∧ a.first2 = b.first2 := by
  simp [St.frame]

macro "split_all" h:ident : tactic => `(tactic| repeat' (split at $h:ident))

-- close goals of the shape "`h : f … = .ok (a, b, c)` after splitting ⊢ facts about `a b c`"
set_option hygiene false in
macro "frame_close3" h:ident : tactic =>
  `(tactic| first
    | (simp only [Out.ok.injEq, Prod.mk.injEq] at $h:ident; obtain ⟨rfl, rfl, rfl⟩ := $h:ident; simp [St.frame])
    | (simp at $h:ident))
set_option hygiene false in
macro "frame_close2" h:ident : tactic =>
  `(tactic| first
    | (simp only [Out.ok.injEq, Prod.mk.injEq] at $h:ident; obtain ⟨rfl, rfl⟩ := $h:ident; simp [St.frame])
    | (simp at $h:ident))
set_option hygiene false in
macro "frame_close1" h:ident : tactic =>
  `(tactic| first
    | (simp only [Out.ok.injEq] at $h:ident; subst $h:ident; simp [St.frame])
    | (simp at $h:ident))

theorem wsub64_eq {a b : Nat} (h : b ≤ a) (ha : a < two64) : wsub64 a b = a - b := by
  unfold wsub64
  have hb : b % two64 = b := Nat.mod_eq_of_lt (by omega)
  rw [hb]
  have : a + two64 - b = (a - b) + two64 := by omega
  rw [this, Nat.add_mod_right, Nat.mod_eq_of_lt (by omega)]

/-! ### output side -/

theorem pad_frame {s s' : St} (h : injectBytePaddingBlock s = .ok s') :
    s'.frame = s.frame ∧ s'.lastFlushPos = s.lastFlushPos ∧ s'.lastProcessedPos = s.lastProcessedPos
    ∧ s'.isLastBlockEmitted = s.isLastBlockEmitted ∧ s'.lastBytesBits = 0 ∧ s'.storageSize = s.storageSize
    ∧ s'.isFirstMb = s.isFirstMb ∧ s'.totalOut = s.totalOut ∧ s'.nEnc = s.nEnc := by
  unfold injectBytePaddingBlock at h
  simp only at h
  split_all h
  all_goals frame_close1 h

theorem pad_pending {s s' : St} (h : injectBytePaddingBlock s = .ok s') :
    s'.pending = s.pending ++ sealBytes (s.lastBytes ||| (6 * 2 ^ s.lastBytesBits)) ((s.lastBytesBits + 6 + 7) / 8) := by
  unfold injectBytePaddingBlock at h
  simp only at h
  split_all h
  all_goals frame_close1 h

theorem push_frame {s s' : St} {io io' : Io} {b : Bool} (h : injectFlushOrPushOutput s io = .ok (s', io', b)) :
    s'.frame = s.frame ∧ s'.lastFlushPos = s.lastFlushPos ∧ s'.lastProcessedPos = s.lastProcessedPos
    ∧ s'.isLastBlockEmitted = s.isLastBlockEmitted ∧ s'.storageSize = s.storageSize ∧ s'.isFirstMb = s.isFirstMb
    ∧ s'.nEnc = s.nEnc ∧ io'.input = io.input ∧ io'.availIn = io.availIn ∧ io'.reqs = io.reqs := by
  unfold injectFlushOrPushOutput at h
  split at h
  · split at h
    · rename_i s1 hp
      simp only [Out.ok.injEq, Prod.mk.injEq] at h
      obtain ⟨rfl, rfl, rfl⟩ := h
      have := pad_frame hp
      simp [this]
    · simp at h
    · simp at h
  · simp only at h
    split_all h
    all_goals frame_close3 h

/-- when `inject_flush_or_push_output` declines (`false`), nothing changed -/
theorem push_false {s s' : St} {io io' : Io} (h : injectFlushOrPushOutput s io = .ok (s', io', false)) :
    s' = s ∧ io' = io ∧ ¬ (s.streamState = .flushRequested ∧ s.lastBytesBits ≠ 0) ∧ ¬ (s.pending.length ≠ 0 ∧ io.availOut ≠ 0) := by
  unfold injectFlushOrPushOutput at h
  split at h
  · split at h <;> simp at h
  · simp only at h
    split_all h
    all_goals first
      | (simp at h; done)
      | (simp only [Out.ok.injEq, Prod.mk.injEq] at h; obtain ⟨rfl, rfl, _⟩ := h; simp_all)

theorem checkFlushComplete_frame (s : St) :
    (checkFlushComplete s).params = s.params ∧ (checkFlushComplete s).inputPos = s.inputPos
    ∧ (checkFlushComplete s).remainingMetadata = s.remainingMetadata ∧ (checkFlushComplete s).isInitialized = s.isInitialized
    ∧ (checkFlushComplete s).lastFlushPos = s.lastFlushPos ∧ (checkFlushComplete s).lastProcessedPos = s.lastProcessedPos
    ∧ (checkFlushComplete s).isLastBlockEmitted = s.isLastBlockEmitted ∧ (checkFlushComplete s).pending = s.pending
    ∧ (checkFlushComplete s).lastBytes = s.lastBytes ∧ (checkFlushComplete s).lastBytesBits = s.lastBytesBits
    ∧ (checkFlushComplete s).totalOut = s.totalOut ∧ (checkFlushComplete s).storageSize = s.storageSize := by
  unfold checkFlushComplete
  split <;> simp

theorem checkFlushComplete_state (s : St) :
    (checkFlushComplete s).streamState =
      if s.streamState = .flushRequested ∧ s.pending.length = 0 then .processing else s.streamState := by
  unfold checkFlushComplete
  split <;> simp_all

/-! ### encode_data -/

theorem growStorage_frame (s : St) (n : Nat) :
    (growStorage s n).frame = s.frame ∧ (growStorage s n).lastFlushPos = s.lastFlushPos
    ∧ (growStorage s n).lastProcessedPos = s.lastProcessedPos ∧ (growStorage s n).isLastBlockEmitted = s.isLastBlockEmitted
    ∧ (growStorage s n).pending = s.pending ∧ (growStorage s n).nextOut = s.nextOut
    ∧ (growStorage s n).isFirstMb = s.isFirstMb ∧ (growStorage s n).lastBytes = s.lastBytes
    ∧ (growStorage s n).lastBytesBits = s.lastBytesBits ∧ (growStorage s n).totalOut = s.totalOut
    ∧ (growStorage s n).nEnc = s.nEnc ∧ s.storageSize ≤ (growStorage s n).storageSize ∧ n ≤ (growStorage s n).storageSize := by
  unfold growStorage
  split <;> simp [St.frame] <;> omega

theorem encMagic_frame (s : St) (w0 : Writer) :
    (encMagic s w0).1.frame = s.frame ∧ (encMagic s w0).1.lastFlushPos = s.lastFlushPos
    ∧ (encMagic s w0).1.lastProcessedPos = s.lastProcessedPos ∧ (encMagic s w0).1.isLastBlockEmitted = s.isLastBlockEmitted
    ∧ (encMagic s w0).1.pending = s.pending ∧ (encMagic s w0).1.storageSize = s.storageSize
    ∧ (encMagic s w0).1.totalOut = s.totalOut ∧ (encMagic s w0).1.nEnc = s.nEnc := by
  unfold encMagic
  split <;> simp [St.frame]

theorem encPrelude_frame {s s' : St} {w w' : Writer} {hdr hdr' bytes : Nat}
    (h : encPrelude s w hdr bytes = .ok (s', w', hdr')) :
    s'.frame = s.frame ∧ s'.isLastBlockEmitted = s.isLastBlockEmitted ∧ s'.pending = s.pending
    ∧ s'.storageSize = s.storageSize ∧ s'.totalOut = s.totalOut ∧ s'.nEnc = s.nEnc := by
  unfold encPrelude at h
  simp only at h
  split_all h
  all_goals frame_close3 h

/-- the prelude moves both positions by the same `n ≤ min 2 bytes` -/
theorem encPrelude_pos {s s' : St} {w w' : Writer} {hdr hdr' bytes : Nat}
    (h : encPrelude s w hdr bytes = .ok (s', w', hdr')) :
    (s'.lastFlushPos = s.lastFlushPos ∧ s'.lastProcessedPos = s.lastProcessedPos) ∨
    (s'.lastFlushPos = s.lastFlushPos + min 2 bytes ∧ s'.lastProcessedPos = s.lastProcessedPos + min 2 bytes) := by
  unfold encPrelude at h
  simp only at h
  split_all h
  all_goals first
    | (simp only [Out.ok.injEq, Prod.mk.injEq] at h; obtain ⟨rfl, rfl, rfl⟩ := h; simp; done)
    | (simp at h; done)

theorem encPayload_frame {s s' : St} {ans : Ans} {w0 w : Writer} {hdr : Nat} {il ff res : Bool}
    (h : encPayload s ans w0 w hdr il ff = .ok (s', res)) :
    s'.frame = s.frame ∧ res = true ∧ s'.isLastBlockEmitted = s.isLastBlockEmitted
    ∧ s'.storageSize = s.storageSize ∧ s'.totalOut = s.totalOut ∧ s'.nEnc = s.nEnc ∧ s'.isFirstMb = s.isFirstMb := by
  unfold encPayload at h
  simp only at h
  split_all h
  all_goals frame_close2 h

/-- where `encode_data` leaves the two positions (everything else about them is oracle) -/
theorem encPayload_pos {s s' : St} {ans : Ans} {w0 w : Writer} {hdr : Nat} {il ff res : Bool}
    (h : encPayload s ans w0 w hdr il ff = .ok (s', res)) :
    (s'.lastFlushPos = s.lastFlushPos ∨ s'.lastFlushPos = s.inputPos)
    ∧ (s'.lastProcessedPos = s.lastProcessedPos ∨ s'.lastProcessedPos = s.inputPos)
    ∧ (s'.lastFlushPos = s.inputPos → s'.lastProcessedPos = s.inputPos ∨ s.inputPos = s.lastFlushPos) := by
  unfold encPayload at h
  simp only at h
  split_all h
  all_goals first
    | (simp only [Out.ok.injEq, Prod.mk.injEq] at h; obtain ⟨rfl, rfl⟩ := h; simp_all; done)
    | (simp at h; done)

theorem encodeData_frame {o : Oracle} {s s' : St} {site : Nat} {il ff res : Bool} {req : Req}
    (h : encodeData o s site il ff = .ok (s', res, req)) :
    s'.frame = s.frame ∧ req = reqOf s site il ff ∧ s'.totalOut = s.totalOut ∧ s'.nEnc = s.nEnc + 1
    ∧ s.storageSize ≤ s'.storageSize := by
  unfold encodeData at h
  split at h
  · simp only [Out.ok.injEq, Prod.mk.injEq] at h; obtain ⟨rfl, rfl, rfl⟩ := h; simp [St.frame, encFail]
  · split at h
    · simp only [Out.ok.injEq, Prod.mk.injEq] at h; obtain ⟨rfl, rfl, rfl⟩ := h; simp [St.frame, encFail]
    · split at h
      · simp at h
      · split at h
        · simp at h
        · simp at h
        · rename_i s2 w hdr hpre
          split at h
          · simp at h
          · simp at h
          · rename_i s3 r3 hpay
            simp only [Out.ok.injEq, Prod.mk.injEq] at h
            obtain ⟨rfl, rfl, rfl⟩ := h
            have h1 := encPrelude_frame hpre
            have h2 := encPayload_frame hpay
            have h3 := encMagic_frame (growStorage (encStart s il) (wantStorage s)) (bitsOf s.lastBytesBits s.lastBytes)
            have h4 := growStorage_frame (encStart s il) (wantStorage s)
            obtain ⟨p1, _, _, p4, p5, p6⟩ := h1
            obtain ⟨q1, _, _, q4, q5, q6, _⟩ := h2
            obtain ⟨m1, _, _, _, _, m6, m7, m8⟩ := h3
            obtain ⟨g1, _, _, _, _, _, _, _, _, g10, g11, g12, _⟩ := h4
            refine ⟨?_, rfl, ?_, ?_, ?_⟩
            · rw [q1, p1, m1, g1]; simp [St.frame, encStart]
            · rw [q5, p5, m7, g10]; simp [encStart]
            · rw [q6, p6, m8, g11]; simp [encStart]
            · rw [q4, p4, m6]; simpa [encStart] using g12

end BV.Stream
