import BV.Lemmas.StreamExit
import BV.Lemmas.StreamMdHeader
/-
Metadata payload is carried verbatim, for every slicing of the output: a conservation law for
"bytes delivered ++ bytes still owed".
-/
namespace BV.Stream
open BV.Bits

/-- what the encoder still owes the caller of a metadata block: the pending bytes, then (while
the header has not been staged) the header bytes, then the payload bytes not yet consumed -/
def mdOwed (s : St) (inputLeft : Bytes) : Bytes :=
  s.pending ++ (if s.streamState = .metadataHead then toBytes (metadataHeaderBits s.remainingMetadata s.carry) else []) ++ inputLeft

/-- pushing output (no padding possible outside FLUSH_REQUESTED) only moves bytes from `pending`
to the caller -/
theorem push_conserve {s s' : St} {io io' : Io} {b : Bool} (hst : s.streamState ≠ .flushRequested)
    (h : injectFlushOrPushOutput s io = .ok (s', io', b)) :
    io'.out ++ s'.pending = io.out ++ s.pending ∧ s'.streamState = s.streamState
    ∧ s'.remainingMetadata = s.remainingMetadata ∧ s'.lastBytes = s.lastBytes ∧ s'.lastBytesBits = s.lastBytesBits
    ∧ io'.input = io.input ∧ io'.availIn = io.availIn ∧ s'.inputPos = s.inputPos ∧ s'.lastFlushPos = s.lastFlushPos := by
  unfold injectFlushOrPushOutput at h
  split at h
  · rename_i hc; exact absurd hc.1 hst
  · simp only at h
    split_all h
    all_goals first
      | (simp at h; done)
      | (simp only [Out.ok.injEq, Prod.mk.injEq] at h; obtain ⟨rfl, rfl, rfl⟩ := h
         simp only [List.append_assoc, List.take_append_drop, and_self])

theorem mdStep_conserve {o : Oracle} {n : Nat} {s s' : St} {io io' : Io} {c : Ctl} (hP : MdInv n s io)
    (hlf : s.inputPos = s.lastFlushPos) (hin : io.input.length = io.availIn)
    (h : processMetadataStep o s io = .ok (s', io', c)) :
    io'.out ++ mdOwed s' io'.input = io.out ++ mdOwed s io.input
    ∧ s'.inputPos = s'.lastFlushPos ∧ io'.input.length = io'.availIn := by
  have hnfl : s.streamState ≠ .flushRequested := by rcases hP.st with h1 | h1 <;> rw [h1] <;> simp
  unfold processMetadataStep at h
  split at h
  · simp at h
  · simp at h
  · rename_i s1 io1 hp
    simp only [Out.ok.injEq, Prod.mk.injEq] at h
    obtain ⟨rfl, rfl, rfl⟩ := h
    obtain ⟨c1, c2, c3, c4, c5, c6, c7, c8, c9⟩ := push_conserve hnfl hp
    refine ⟨?_, by rw [c8, c9]; exact hlf, by rw [c6, c7]; exact hin⟩
    unfold mdOwed St.carry
    rw [c2, c3, c4, c5, c6]
    simp only [← List.append_assoc]
    rw [c1]
  · rename_i s1 io1 hp
    obtain ⟨e1, e2, _, _⟩ := push_false hp
    have e1' := e1.symm; have e2' := e2.symm
    subst e1' e2'
    split at h
    · simp only [Out.ok.injEq, Prod.mk.injEq] at h
      obtain ⟨rfl, rfl, rfl⟩ := h
      exact ⟨rfl, hlf, hin⟩
    · rename_i hpend
      have hp0 : s.pending = [] := List.eq_nil_of_length_eq_zero (by simpa using hpend)
      rw [if_neg (by simp [hlf])] at h
      split at h
      · rename_i hhead
        simp only at h
        split at h
        · simp at h
        · simp only [Out.ok.injEq, Prod.mk.injEq] at h
          obtain ⟨rfl, rfl, rfl⟩ := h
          refine ⟨?_, hlf, hin⟩
          unfold mdOwed St.carry
          simp [hhead, hp0]
      · rename_i hnhead
        split at h
        · simp only [Out.ok.injEq, Prod.mk.injEq] at h
          obtain ⟨rfl, rfl, rfl⟩ := h
          refine ⟨?_, hlf, hin⟩
          unfold mdOwed
          simp [hnhead]
        · have hrm32 := lt_two32_of_le hP.rmLe
          have hav64 : io.availIn < two64 := by rw [hP.avail]; exact lt_two64_of_le hP.rmLe
          split at h
          · simp only at h
            split at h
            · simp at h
            · simp only [Out.ok.injEq, Prod.mk.injEq] at h
              obtain ⟨rfl, rfl, rfl⟩ := h
              have hcopy : (min s.remainingMetadata io.availOut) % two32 = min s.remainingMetadata io.availOut :=
                Nat.mod_eq_of_lt (Nat.lt_of_le_of_lt (Nat.min_le_left _ _) hrm32)
              have hle2 : min s.remainingMetadata io.availOut ≤ io.availIn := by rw [hP.avail]; exact Nat.min_le_left _ _
              refine ⟨?_, hlf, ?_⟩
              · unfold mdOwed
                simp only [hnhead, ↓reduceIte, hp0, List.nil_append, List.append_nil, List.append_assoc, List.take_append_drop]
              · simp only [List.length_drop, hcopy, sub_mod_two64 hle2 hav64, hin]
          · simp only at h
            split at h
            · simp at h
            · simp only [Out.ok.injEq, Prod.mk.injEq] at h
              obtain ⟨rfl, rfl, rfl⟩ := h
              have hle2 : min s.remainingMetadata 16 ≤ io.availIn := by rw [hP.avail]; exact Nat.min_le_left _ _
              refine ⟨?_, hlf, ?_⟩
              · unfold mdOwed
                simp only [hnhead, ↓reduceIte, List.append_nil, List.take_append_drop, hp0, List.nil_append]
              · simp only [List.length_drop, sub_mod_two64 hle2 hav64, hin]

theorem mdLoop_conserve {o : Oracle} {n : Nat} :
    ∀ fuel s io s' io' r, MdInv n s io → s.inputPos = s.lastFlushPos → io.input.length = io.availIn →
      processMetadataLoop o fuel s io = .ok (s', io', r) →
      io'.out ++ mdOwed s' io'.input = io.out ++ mdOwed s io.input ∧ io'.input.length = io'.availIn := by
  intro fuel
  induction fuel with
  | zero => intro s io s' io' r _ _ _ h; simp [processMetadataLoop] at h
  | succ k ih =>
    intro s io s' io' r hP hlf hin h
    unfold processMetadataLoop at h
    split at h
    · simp at h
    · simp at h
    · rename_i s1 io1 hs
      exact absurd rfl (mdStep_spec hP hs).1
    · rename_i s1 io1 hs
      obtain ⟨c1, c2, c3⟩ := mdStep_conserve hP hlf hin hs
      rcases (mdStep_spec hP hs).2 with h1 | ⟨h1, _⟩
      · obtain ⟨d1, d2⟩ := ih _ _ _ _ _ h1 c2 c3 h
        exact ⟨d1.trans c1, d2⟩
      · cases h1
    · rename_i s1 io1 hs
      simp only [Out.ok.injEq, Prod.mk.injEq] at h
      obtain ⟨rfl, rfl, rfl⟩ := h
      obtain ⟨c1, _, c3⟩ := mdStep_conserve hP hlf hin hs
      exact ⟨c1, c3⟩

theorem mdOwed_congr {s t : St} (h1 : t.pending = s.pending) (h2 : t.streamState = s.streamState)
    (h3 : t.remainingMetadata = s.remainingMetadata) (h4 : t.lastBytes = s.lastBytes)
    (h5 : t.lastBytesBits = s.lastBytesBits) (inp : Bytes) : mdOwed t inp = mdOwed s inp := by
  unfold mdOwed St.carry
  rw [h1, h2, h3, h4, h5]

theorem mdEnter_fields (s : St) (n : Nat) :
    (mdEnter s n).pending = s.pending ∧ (mdEnter s n).lastBytes = s.lastBytes ∧ (mdEnter s n).lastBytesBits = s.lastBytesBits
    ∧ (mdEnter s n).inputPos = s.inputPos ∧ (mdEnter s n).lastFlushPos = s.lastFlushPos := by
  unfold mdEnter
  split <;> simp

/-- one EMIT_METADATA call: what it delivers, plus what is still owed afterwards, is what was
owed at entry — whatever the output capacity.  (Stated for a state with nothing buffered,
`input_pos_ = last_flush_pos_`; buffered input is first flushed through the payload encoder.) -/
theorem metadata_call_conserve {o : Oracle} {fuel cap : Nat} {input : Bytes} {s s' : St} {io' : Io}
    (hI : Inv s) (hlf : s.inputPos = s.lastFlushPos) (hw : s.inputPos + input.length < two64)
    (h : compressStream o fuel s 3 input cap = .ok (s', io', true)) :
    io'.out ++ mdOwed s' io'.input = mdOwed (mdEnter s input.length) input ∧ io'.input.length = io'.availIn := by
  have href := compressStream_refines (by omega) hI hw h
  unfold compressStream at h
  rw [ensureInitialized_id hI.init] at h
  simp only at h
  split at h
  · simp at h
  · rename_i hg
    simp only [↓reduceIte] at h
    have hIu := inv_updateSizeHint hI 0
    obtain ⟨_, _, _, _, _, u6, u7, _, u9, u10, _, _, u13, u14, u15⟩ := updateSizeHint_fields s 0
    have hle : input.length ≤ 16777216 := by
      have hacc := href.1
      by_cases hrm : s.remainingMetadata = u32Max
      · rcases absC_cases hI hrm with ⟨_, hs⟩ | ⟨_, hs⟩ | ⟨_, hs | hs⟩ <;> rw [hs] at hacc <;> simp [Contract.accepts] at hacc
        exact hacc
      · rw [absC_md hI.init hrm] at hacc
        simp [Contract.accepts] at hacc
        rw [hacc]; exact hI.mdLe hrm
    have hentry : ((updateSizeHint s 0).remainingMetadata ≠ u32Max ∧ input.length = (updateSizeHint s 0).remainingMetadata) ∨
        ((updateSizeHint s 0).remainingMetadata = u32Max ∧ (updateSizeHint s 0).streamState = .processing ∧ input.length ≤ 16777216) := by
      have hacc := href.1
      by_cases hrm : s.remainingMetadata = u32Max
      · rcases absC_cases hI hrm with ⟨hst, hs⟩ | ⟨_, hs⟩ | ⟨_, hs | hs⟩ <;> rw [hs] at hacc <;> simp [Contract.accepts] at hacc
        exact Or.inr ⟨u7.trans hrm, u9.trans hst, hle⟩
      · rw [absC_md hI.init hrm] at hacc
        simp [Contract.accepts] at hacc
        exact Or.inl ⟨by rw [u7]; exact hrm, by rw [u7]; exact hacc⟩
    unfold processMetadata at h
    rw [if_neg (by simpa using hle)] at h
    -- the loop is entered with the invariant
    have hP : MdInv input.length (mdEnter (updateSizeHint s 0) input.length) { input := input, availIn := input.length, availOut := cap } := by
      unfold mdEnter
      rcases hentry with ⟨h1, h2⟩ | ⟨h1, h2, h3⟩
      · have hst := hIu.mdIff.mpr h1
        have hnp : (updateSizeHint s 0).streamState ≠ .processing := by rcases hst with h | h <;> rw [h] <;> simp
        rw [if_neg hnp]
        exact ⟨hIu, hst, hIu.mdLe h1, h2, Nat.le_refl _⟩
      · rw [if_pos h2]
        have hmod : input.length % two32 = input.length := Nat.mod_eq_of_lt (lt_two32_of_le h3)
        refine ⟨?_, Or.inl (by simp), ?_, ?_, Nat.le_refl _⟩
        · refine ⟨hIu.init, hIu.fl_le, hIu.lp_le, hIu.ip_lt, hIu.blk, ?_, ?_, ?_, hIu.q01, ?_⟩
          · intro hle2
            have := hIu.lastFin hle2
            rw [h2] at this; cases this
          · simp only [hmod]
            constructor
            · intro _; have := u32Max_gt; omega
            · intro _; exact Or.inl trivial
          · intro _; simp only [hmod]; exact h3
          · intro hfl; cases hfl
        · simp only [hmod]; exact h3
        · simp only [hmod]
    split at h
    · simp at h
    · obtain ⟨m1, m2, m3, m4, m5⟩ := mdEnter_fields (updateSizeHint s 0) input.length
      have hc := mdLoop_conserve fuel _ _ s' io' true hP (by rw [m4, m5, u6, u10]; exact hlf) rfl h
      refine ⟨?_, hc.2⟩
      rw [hc.1]
      simp only [List.nil_append]
      -- the entered state owes the same with or without the size-hint update
      unfold mdEnter
      rw [u9]
      split
      · unfold mdOwed St.carry
        simp only [u13, u14, u15]
      · exact mdOwed_congr u13 u9 u7 u15 u14 input

/-- `take_output` only moves bytes from `pending` to the caller -/
theorem takeOutput_conserve {s s' : St} {size : Nat} {out inp : Bytes} (hI : Inv s)
    (hst : s.streamState = .metadataHead ∨ s.streamState = .metadataBody)
    (h : takeOutput s size = .ok (s', out)) : out ++ mdOwed s' inp = mdOwed s inp := by
  obtain ⟨_, hp, hrm, hs⟩ := takeOutput_spec hI h
  have hst' : s'.streamState = s.streamState := by
    rcases hs with h1 | ⟨h1, _⟩
    · exact h1
    · rcases hst with h2 | h2 <;> rw [h2] at h1 <;> cases h1
  have hlb : s'.lastBytes = s.lastBytes ∧ s'.lastBytesBits = s.lastBytesBits := by
    unfold takeOutput at h
    split at h
    · simp at h
    · split at h
      · simp only [Out.ok.injEq, Prod.mk.injEq] at h
        obtain ⟨rfl, _⟩ := h
        obtain ⟨_, _, _, _, _, _, _, _, k9, k10, _⟩ := checkFlushComplete_frame (takeAdvance s (takeCount s size))
        exact ⟨k9, k10⟩
      · simp only [Out.ok.injEq, Prod.mk.injEq] at h
        obtain ⟨rfl, _⟩ := h
        exact ⟨rfl, rfl⟩
  unfold mdOwed St.carry
  rw [hst', hrm, hlb.1, hlb.2, hp]
  simp only [List.append_assoc]

end BV.Stream
