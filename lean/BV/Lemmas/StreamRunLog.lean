import BV.Lemmas.StreamRunPos
import BV.Lemmas.StreamLtsCall
/-
From atomic steps to sequences of steps and whole calls: the LOG of a call (its list of events)
determines the emitted bits, the positions, the requests and the input consumed.
-/
namespace BV.Stream
open BV.Bits

/-- positions after a log -/
def logPos (p : Pos) (log : List Ev) : Pos := log.foldl (fun p e => e.step p) p

/-- every event of the log carries the request the positions dictate -/
def LogOK : Pos → List Ev → Prop
  | _, [] => True
  | p, e :: es => e.ok p ∧ LogOK (e.step p) es

/-- no stream-header event -/
def NoWindow (log : List Ev) : Prop := ∀ e ∈ log, ∀ b, e ≠ .window b

theorem noWindow_append {a b : List Ev} (h1 : NoWindow a) (h2 : NoWindow b) : NoWindow (a ++ b) := by
  intro e he
  rcases List.mem_append.mp he with h | h
  · exact h1 e h
  · exact h2 e h

def logBits (o : Oracle) (log : List Ev) : List Bool := log.flatMap (Ev.bits o)
def logReqs (log : List Ev) : List Req := log.filterMap Ev.req
def logUsed (log : List Ev) : Nat := (log.map Ev.used).sum

theorem logPos_append (p : Pos) (a b : List Ev) : logPos p (a ++ b) = logPos (logPos p a) b := by
  unfold logPos; rw [List.foldl_append]

theorem logOK_append {p : Pos} {a b : List Ev} (h1 : LogOK p a) (h2 : LogOK (logPos p a) b) : LogOK p (a ++ b) := by
  induction a generalizing p with
  | nil => exact h2
  | cons e es ih => exact ⟨h1.1, ih h1.2 h2⟩

theorem logBits_append (o : Oracle) (a b : List Ev) : logBits o (a ++ b) = logBits o a ++ logBits o b := by
  unfold logBits; rw [List.flatMap_append]

theorem logReqs_append (a b : List Ev) : logReqs (a ++ b) = logReqs a ++ logReqs b := by
  unfold logReqs; rw [List.filterMap_append]

theorem logUsed_append (a b : List Ev) : logUsed (a ++ b) = logUsed a + logUsed b := by
  unfold logUsed; rw [List.map_append, List.sum_append]

/-- everything a sequence of atomic steps does, read off its log -/
structure StepsFacts (o : Oracle) (d : Bytes) (c c' : St × Io) (log : List Ev) : Prop where
  frame : FrameInv c'.1
  bits : emitted (d ++ c'.2.out) c'.1 = emitted (d ++ c.2.out) c.1 ++ logBits o log
  pos : c'.1.pos = logPos c.1.pos log
  ok : LogOK c.1.pos log
  reqs : c'.2.reqs = c.2.reqs ++ logReqs log
  input : c'.2.input = c.2.input.drop (logUsed log)
  used : logUsed log ≤ c.2.input.length
  initd : c.1.isInitialized = true → c'.1.isInitialized = true ∧ NoWindow log

theorem steps_facts {o : Oracle} {op : Nat} {c c' : St × Io} {log : List Ev} (h : Steps o op c log c')
    (hF : FrameInv c.1) (d : Bytes) : StepsFacts o d c c' log := by
  induction h with
  | nil c =>
    exact ⟨hF, by simp [logBits], rfl, trivial, by simp [logReqs], by simp [logUsed], by simp [logUsed],
      fun hi => ⟨hi, fun _ he => by cases he⟩⟩
  | @cons c c1 c2 e es hs _ ih =>
    obtain ⟨s, io⟩ := c
    obtain ⟨s1, io1⟩ := c1
    have hF1 := step_frameInv hF hs
    have hb := step_emitted hF hs d
    obtain ⟨p1, p2, p3, p4, p5⟩ := step_pos hs
    have r := ih hF1
    obtain ⟨i1, i2⟩ := step_initialized hs
    refine ⟨r.frame, ?_, ?_, ⟨p2, ?_⟩, ?_, ?_, ?_, ?_⟩
    rotate_right 1
    · intro hi
      obtain ⟨j1, j2⟩ := r.initd i1
      refine ⟨j1, ?_⟩
      intro e' he' b hwb
      rcases List.mem_cons.mp he' with h1 | h1
      · subst h1
        have := i2 b hwb
        have hi' : s.isInitialized = true := hi
        rw [hi'] at this; cases this
      · exact j2 e' h1 b hwb
    · rw [r.bits, hb]
      simp [logBits, List.append_assoc]
    · rw [r.pos]
      show logPos s1.pos es = logPos s.pos (e :: es)
      rw [p1]; rfl
    · have := r.ok
      rw [p1] at this
      exact this
    · rw [r.reqs]
      show io1.reqs ++ logReqs es = io.reqs ++ logReqs (e :: es)
      rw [p3]
      cases he : e.req <;> simp [logReqs, he]
    · rw [r.input]
      show io1.input.drop (logUsed es) = io.input.drop (logUsed (e :: es))
      rw [p4, List.drop_drop]
      simp [logUsed]
    · have h1 := r.used
      have : io1.input.length = io.input.length - e.used := by rw [p4, List.length_drop]
      show logUsed (e :: es) ≤ io.input.length
      simp only [logUsed, List.map_cons, List.sum_cons] at h1 ⊢
      omega

end BV.Stream
