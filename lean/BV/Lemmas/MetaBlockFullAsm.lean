/-
C01 / meta-block writers, part 19: assembling `BrotliStoreMetaBlock` (`store_meta_block`).  Header, three
block-split codes, NPOSTFIX / NDIRECT, the context modes, two context maps, three families of prefix codes,
the command loop, the final padding — against `readMetaBlockFullG`.
-/
import BV.Lemmas.MetaBlockFullSim
import BV.Lemmas.MetaBlockTrivMap
import BV.Lemmas.MetaBlockTrivial

namespace BV.MetaBlock
open BV.Gen BV.Bits BV.Huffman BV.PrefixArith BV.Recoder BV.HeaderSpec
open BV.Header (skipPad_pad writeBits_ok)
open BV.Lemmas.HuffmanRead (takeBits_bitsOf)

/-- the context modes: the same two bits once per literal block type -/
theorem modes_roundtrip (mode : Nat) (hm : mode < 4) : ∀ (l : List Nat) (w : Writer),
    ∃ mbits, l.foldlM (fun w _ => writeBits 2 mode w) w = .ok (w ++ mbits) ∧
      ∀ rest, readModes l.length (mbits ++ rest) = some (List.replicate l.length mode, rest) := by
  intro l
  induction l with
  | nil => intro w; exact ⟨[], by simp, fun rest => rfl⟩
  | cons x xs ih =>
    intro w
    obtain ⟨mbits, e, r⟩ := ih (w ++ bitsOf 2 mode)
    refine ⟨bitsOf 2 mode ++ mbits, ?_, ?_⟩
    · rw [List.foldlM_cons, writeBits_ok 2 mode w hm (by decide), Out.bind_ok, e, List.append_assoc]
    · intro rest
      rw [List.length_cons, readModes, List.append_assoc, takeBits_bitsOf 2 mode _ hm]
      simp only
      rw [r, List.replicate_succ]

/-- the per-cluster histograms of one category -/
structure HistosOK (histos : List (List Nat)) (size H A : Nat) : Prop where
  sz : size ≤ histos.length
  sz1 : 1 ≤ size
  sz256 : size ≤ 256
  each : ∀ i, i < size → H ≤ (histos.getD i []).length ∧ (histos.getD i []).sum ≤ 2 ^ 25 ∧
    ∀ k, A ≤ k → (histos.getD i []).getD k 0 = 0

/-- a `MetaBlockSplit` the format can express -/
structure MBOK (mbs : MBSplit) (A : Nat) : Prop where
  lit : SplitOK mbs.lit
  cmd : SplitOK mbs.cmd
  dist : SplitOK mbs.dist
  hl : HistosOK mbs.litHistos mbs.litHistosSize 256 256
  hc : HistosOK mbs.cmdHistos mbs.cmdHistosSize 704 704
  hd : HistosOK mbs.distHistos mbs.distHistosSize A A
  csz : mbs.cmdHistosSize = mbs.cmd.numTypes
  l0 : mbs.litCmapSize = 0 → mbs.litHistosSize = mbs.lit.numTypes
  l1 : mbs.litCmapSize ≠ 0 → mbs.litCmapSize = 64 * mbs.lit.numTypes ∧ mbs.litCmap.length = mbs.litCmapSize ∧
    ∀ x ∈ mbs.litCmap, x < mbs.litHistosSize
  d0 : mbs.distCmapSize = 0 → mbs.distHistosSize = mbs.dist.numTypes
  d1 : mbs.distCmapSize ≠ 0 → mbs.distCmapSize = 4 * mbs.dist.numTypes ∧ mbs.distCmap.length = mbs.distCmapSize ∧
    ∀ x ∈ mbs.distCmap, x < mbs.distHistosSize

theorem new_blockLen (H : Nat) (s : BSplit) (h : SplitOK s) : (BEnc.new H s).blockLen = s.lengths.getD 0 0 := by
  unfold BEnc.new
  simp only
  rw [if_pos (by rw [h.nb]; have := h.pos; omega)]
  have hl := h.nl
  have hp := h.pos
  cases hls : s.lengths with
  | nil => rw [hls] at hl; simp at hl; omega
  | cons l ls => rfl

/-- the block encoder right after `BuildAndStoreBlockSplitCode` and `build_and_store_entropy_codes` -/
theorem encAt_new (C : CatEnv) (hs : SplitOK C.s) (c : BSCode) (cat : Cat) (hci : CatInv C.s c cat 0)
    (hcnt : 2 ≤ C.s.numTypes → cat.count = C.s.lengths.getD 0 0) :
    EncAt C { BEnc.new C.H C.s with code := c, depths := C.d, bits := C.b } cat 0 := by
  have hb := new_blockLen C.H C.s hs
  refine ⟨⟨rfl, rfl, hci, fun h2 => ?_, ?_, ?_⟩, rfl, rfl, rfl⟩
  · rw [hcnt h2]; exact hb.symm
  · show 0 = _; rw [hs.t0, Nat.zero_mul]
  · show (BEnc.new C.H C.s).blockLen ≤ _
    rw [hb]; exact (hs.len 0 hs.pos).2

/-- either context map writer against `readContextMap` -/
theorem cmap_roundtrip (cmap : List Nat) (cmapSize nt size cb : Nat) (hcb2 : 2 ≤ cb) (hcb6 : cb ≤ 6)
    (hnt1 : 1 ≤ nt) (hnt : nt ≤ 256) (hs1 : 1 ≤ size) (hs : size ≤ 256)
    (h0 : cmapSize = 0 → size = nt)
    (h1 : cmapSize ≠ 0 → cmapSize = 2 ^ cb * nt ∧ cmap.length = cmapSize ∧ ∀ x ∈ cmap, x < size) (w : Writer) :
    ∃ bits, (if cmapSize = 0 then storeTrivialContextMap size cb w else encodeContextMap cmap cmapSize size w)
        = .ok (w ++ bits) ∧
      ∀ rest, readContextMap (2 ^ cb * nt) (bits ++ rest) = some (size, effMap cmap cmapSize nt (2 ^ cb), rest) := by
  by_cases hz : cmapSize = 0
  · rw [if_pos hz, h0 hz]
    obtain ⟨bits, e, r⟩ := storeTrivialContextMap_roundtrip nt cb hcb2 hcb6 hnt1 hnt w
    refine ⟨bits, e, fun rest => ?_⟩
    rw [Nat.mul_comm, r]
    unfold effMap
    rw [if_pos hz]
  · rw [if_neg hz]
    obtain ⟨c1, c2, c3⟩ := h1 hz
    have hpow : 2 ^ cb ≤ 2 ^ 6 := Nat.pow_le_pow_right (by decide) hcb6
    have hlen : cmap.length ≤ 2 ^ 24 := by
      rw [c2, c1]
      have : 2 ^ cb * nt ≤ 2 ^ 6 * 256 := Nat.mul_le_mul hpow hnt
      have : (2 : Nat) ^ 6 * 256 ≤ 2 ^ 24 := by decide
      omega
    obtain ⟨bits, e, r⟩ := encodeContextMap_roundtrip cmap size w (by
      rw [c2, c1]; exact Nat.mul_pos (Nat.pow_pos (by decide)) hnt1) hlen hs1 hs c3
    refine ⟨bits, by rw [← c2]; exact e, fun rest => ?_⟩
    rw [← c1, ← c2, r]
    unfold effMap
    rw [if_neg (by rw [c2]; exact hz)]

/-- **assembly** for the general writer: it does not panic, and what it appends is read back -/
theorem full_core (wo : WordOracle) (window : Nat) (ring : Bytes) (start mask prevByte prevByte2 : Nat)
    (mb : Bytes) (isLast : Bool) (dp : DistP) (mode : Nat) (cmds : List Cmd) (mbs : MBSplit) (hist : Bytes)
    (dc : List Int) (w : List Bool)
    (hR : RingHolds ring mask start mb) (h256 : ∀ b ∈ mb, b < 256) (hh256 : ∀ b ∈ hist, b < 256)
    (h1 : 1 ≤ mb.length) (h2 : mb.length ≤ 2 ^ 24) (h64 : start + mb.length < two64)
    (hIP : inputPairCheck ring start mb.length mask = .ok ())
    (hprev : prevByte = lastB hist ∧ prevByte2 = last2B hist) (hmode : mode < 4)
    (hnp : dp.npostfix ≤ 3) (hnd1 : dp.ndirect % 2 ^ dp.npostfix = 0) (hnd2 : dp.ndirect / 2 ^ dp.npostfix < 16)
    (hA : dp.alphabetSize = distAlphabetSize dp.large dp.npostfix dp.ndirect) (hA544 : dp.alphabetSize ≤ 544)
    (hok : ∀ c ∈ cmds, cmdOK dp.alphabetSize dp.npostfix dp.ndirect c = true)
    (hcl2 : ∀ c ∈ cmds, copyLen c ≠ 0 → 2 ≤ copyLen c)
    (hlock : lockstep wo dp.npostfix dp.ndirect window mb ⟨hist, dc, 0⟩ 0 cmds = true)
    (hfa : faithful wo dp.npostfix dp.ndirect window mb hist ⟨hist, dc, 0⟩ cmds)
    (hM : MBOK mbs dp.alphabetSize)
    (hcL : Covers mbs.litHistos (effMap mbs.litCmap mbs.litCmapSize mbs.lit.numTypes (2 ^ 6)) (2 ^ 6)
      (remTypes mbs.lit 0 (mbs.lit.lengths.getD 0 0)) (litSymsOf mode hist mb 0 cmds))
    (hcI : Covers mbs.cmdHistos (effMap [] 0 mbs.cmd.numTypes (2 ^ 0)) (2 ^ 0)
      (remTypes mbs.cmd 0 (mbs.cmd.lengths.getD 0 0)) (cmds.map fun c => (0, c.cmdPrefix)))
    (hcD : Covers mbs.distHistos (effMap mbs.distCmap mbs.distCmapSize mbs.dist.numTypes (2 ^ 2)) (2 ^ 2)
      (remTypes mbs.dist 0 (mbs.dist.lengths.getD 0 0)) (distSymsOf cmds)) :
    ∃ bits fin, storeMetaBlockFull ring start mb.length mask prevByte prevByte2 isLast dp mode cmds mbs w
        = .ok (w ++ bits) ∧
      decSteps wo dp.npostfix dp.ndirect window mb ⟨hist, dc, 0⟩ cmds = some fin ∧ fin.cursor = mb.length ∧
      ∀ rest, readMetaBlockFullG wo window dp.large w.length ⟨hist, dc⟩ (bits ++ rest)
        = some (⟨fin.out, fin.ring⟩, isLast, (w ++ bits).length, rest) := by
  have p24 : (2 : Nat) ^ 24 = 16777216 := by decide
  have hA1 : 1 ≤ dp.alphabetSize := by rw [hA]; unfold distAlphabetSize; split <;> omega
  have hconst : BROTLI_NUM_LITERAL_SYMBOLS = 256 ∧ BROTLI_NUM_COMMAND_SYMBOLS = 704 ∧
      BROTLI_NUM_HISTOGRAM_DISTANCE_SYMBOLS = 544 := by decide
  obtain ⟨c1, c2, c3⟩ := hconst
  have hsl := hM.lit
  have hsc := hM.cmd
  have hsd := hM.dist
  -- the three block-split codes
  obtain ⟨bL, lc, catL, eL, rL, iL, kL⟩ := blockSplitCode_roundtrip mbs.lit hsl (w ++ headerBits isLast mb.length)
  obtain ⟨bI, cc, catI, eI, rI, iI, kI⟩ := blockSplitCode_roundtrip mbs.cmd hsc (w ++ headerBits isLast mb.length ++ bL)
  obtain ⟨bD, dcd, catD, eD, rD, iD, kD⟩ := blockSplitCode_roundtrip mbs.dist hsd
    (w ++ headerBits isLast mb.length ++ bL ++ bI)
  obtain ⟨w3, hw3⟩ : ∃ w3, w3 = w ++ headerBits isLast mb.length ++ bL ++ bI ++ bD := ⟨_, rfl⟩
  -- NPOSTFIX, NDIRECT, modes
  have hnpw := writeBits_ok 2 dp.npostfix w3 (by omega) (by decide)
  have hndw := writeBits_ok 4 (dp.ndirect / 2 ^ dp.npostfix) (w3 ++ bitsOf 2 dp.npostfix) hnd2 (by decide)
  obtain ⟨mbits, eM, rM⟩ := modes_roundtrip mode hmode (List.range mbs.lit.numTypes)
    (w3 ++ bitsOf 2 dp.npostfix ++ bitsOf 4 (dp.ndirect / 2 ^ dp.npostfix))
  rw [List.length_range] at rM
  obtain ⟨w4, hw4⟩ : ∃ w4, w4 = w3 ++ bitsOf 2 dp.npostfix ++ bitsOf 4 (dp.ndirect / 2 ^ dp.npostfix) ++ mbits := ⟨_, rfl⟩
  -- the two context maps
  obtain ⟨mL, eCL, rCL⟩ := cmap_roundtrip mbs.litCmap mbs.litCmapSize mbs.lit.numTypes mbs.litHistosSize 6 (by decide)
    (by decide) hsl.nt1 hsl.nt hM.hl.sz1 hM.hl.sz256 hM.l0 hM.l1 w4
  obtain ⟨mD, eCD, rCD⟩ := cmap_roundtrip mbs.distCmap mbs.distCmapSize mbs.dist.numTypes mbs.distHistosSize 2 (by decide)
    (by decide) hsd.nt1 hsd.nt hM.hd.sz1 hM.hd.sz256 hM.d0 hM.d1 (w4 ++ mL)
  -- the prefix codes
  obtain ⟨dL, bLt, cbL, codesL, eEL, rEL, clL, _, _, ioL⟩ := buildEntropyCodes_facts 256 256 mbs.litHistosSize mbs.litHistos
    (w4 ++ mL ++ mD) hM.hl.sz hM.hl.sz256 (by omega) (by omega) (by omega) hM.hl.each
  obtain ⟨dI, bIt, cbI, codesI, eEI, rEI, clI, _, _, ioI⟩ := buildEntropyCodes_facts 704 704 mbs.cmdHistosSize mbs.cmdHistos
    (w4 ++ mL ++ mD ++ cbL) hM.hc.sz hM.hc.sz256 (by omega) (by omega) (by omega) hM.hc.each
  obtain ⟨dD, bDt, cbD, codesD, eED, rED, clD, _, _, ioD⟩ := buildEntropyCodes_facts dp.alphabetSize dp.alphabetSize
    mbs.distHistosSize mbs.distHistos (w4 ++ mL ++ mD ++ cbL ++ cbI) hM.hd.sz hM.hd.sz256 (by omega) hA1 (Nat.le_refl _)
    hM.hd.each
  -- the environments of the command loop
  obtain ⟨L, hL⟩ : ∃ L : CatEnv, L = ⟨mbs.lit, 256, 6, mbs.litCmap, mbs.litCmapSize, mbs.litHistos, mbs.litHistosSize,
    codesL, dL, bLt⟩ := ⟨_, rfl⟩
  obtain ⟨I, hI⟩ : ∃ I : CatEnv, I = ⟨mbs.cmd, 704, 0, [], 0, mbs.cmdHistos, mbs.cmdHistosSize, codesI, dI, bIt⟩ := ⟨_, rfl⟩
  obtain ⟨D, hD⟩ : ∃ D : CatEnv, D = ⟨mbs.dist, dp.alphabetSize, 2, mbs.distCmap, mbs.distCmapSize, mbs.distHistos,
    mbs.distHistosSize, codesD, dD, bDt⟩ := ⟨_, rfl⟩
  have hLok : L.OK := by
    rw [hL]
    refine ⟨hsl, by show (6 : Nat) ≤ 6; omega, by show (256 : Nat) ≤ 704; omega, ioL, hM.hl.sz256, clL, fun hz => by rw [hM.l0 hz]; exact Nat.le_refl _, ?_, ?_⟩
    · intro hz
      obtain ⟨q1, q2, _⟩ := hM.l1 hz
      show mbs.lit.numTypes * 2 ^ 6 ≤ mbs.litCmap.length
      rw [q2, q1, Nat.mul_comm]; exact Nat.le_refl _
    · intro hz k hk
      obtain ⟨q1, q2, q3⟩ := hM.l1 hz
      exact q3 _ (getD_mem _ _ (by
        show k < mbs.litCmap.length
        rw [q2, q1, Nat.mul_comm]; exact hk))
  have hIok : I.OK := by
    rw [hI]
    exact ⟨hsc, by show (0 : Nat) ≤ 6; omega, by show (704 : Nat) ≤ 704; omega, ioI, hM.hc.sz256, clI, fun _ => by rw [hM.csz]; exact Nat.le_refl _,
      fun hz => absurd rfl hz, fun hz => absurd rfl hz⟩
  have hDok : D.OK := by
    rw [hD]
    refine ⟨hsd, by show (2 : Nat) ≤ 6; omega, by show dp.alphabetSize ≤ 704; omega, ioD, hM.hd.sz256, clD,
      fun hz => by rw [hM.d0 hz]; exact Nat.le_refl _, ?_, ?_⟩
    · intro hz
      obtain ⟨q1, q2, _⟩ := hM.d1 hz
      show mbs.dist.numTypes * 2 ^ 2 ≤ mbs.distCmap.length
      rw [q2, q1, Nat.mul_comm]; exact Nat.le_refl _
    · intro hz k hk
      obtain ⟨q1, q2, q3⟩ := hM.d1 hz
      exact q3 _ (getD_mem _ _ (by
        show k < mbs.distCmap.length
        rw [q2, q1, Nat.mul_comm]; exact hk))
  obtain ⟨T, hT⟩ : ∃ T : Trees, T = ⟨dp.npostfix, dp.ndirect, List.replicate mbs.lit.numTypes mode, L.eff, D.eff,
    codesL, codesI, codesD⟩ := ⟨_, rfl⟩
  obtain ⟨E, hE⟩ : ∃ E : LitEnv, E = ⟨L, ring, mask, start, mb, mode, mbs, T⟩ := ⟨_, rfl⟩
  obtain ⟨F, hF⟩ : ∃ F : FullEnv, F = ⟨E, I, D, wo, window, dp.npostfix, dp.ndirect, dp.alphabetSize, hist⟩ := ⟨_, rfl⟩
  have hEok : E.OK := by
    rw [hE]
    exact ⟨hLok, by rw [hL], by rw [hL], hR, hmode, by rw [hL], by rw [hL], by rw [hT, hL], by rw [hT], by rw [hT, hL], h256⟩
  have hFok : F.OK := by
    rw [hF]
    exact ⟨hEok, hIok, hDok, by rw [hI], by rw [hI], by rw [hI], by rw [hD], by rw [hD]; exact Nat.le_refl _,
      by rw [hE, hD], by rw [hE, hD], by rw [hE, hT, hI], by rw [hE, hT, hD], by rw [hE, hT], by rw [hE, hT], by rw [hE, hT],
      hh256, by rw [hE]; exact h64⟩
  -- the initial encoders
  have aL := encAt_new L (by rw [hL]; exact hsl) lc catL (by rw [hL]; exact iL) (by rw [hL]; exact kL)
  have aI := encAt_new I (by rw [hI]; exact hsc) cc catI (by rw [hI]; exact iI) (by rw [hI]; exact kI)
  have aD := encAt_new D (by rw [hD]; exact hsd) dcd catD (by rw [hD]; exact iD) (by rw [hD]; exact kD)
  obtain ⟨w7, hw7⟩ : ∃ w7, w7 = w4 ++ mL ++ mD ++ cbL ++ cbI ++ cbD := ⟨_, rfl⟩
  obtain ⟨st0, hst0⟩ : ∃ st0 : FullSt, st0 = ⟨start, prevByte, prevByte2,
      { BEnc.new L.H L.s with code := lc, depths := L.d, bits := L.b },
      { BEnc.new I.H I.s with code := cc, depths := I.d, bits := I.b },
      { BEnc.new D.H D.s with code := dcd, depths := D.d, bits := D.b }, w7⟩ := ⟨_, rfl⟩
  have hstart : start = posOf start 0 := (posOf_zero start (by omega)).symm
  obtain ⟨db, fin, st', hs1, hs2, hdec, hfin, hrd⟩ := fullCmds_sim F hFok cmds ⟨hist, dc, 0⟩ st0 catL catI catD 0 0 0
    (by rw [hF, hE]; exact hlock) (by rw [hF, hE]; exact hfa) (by rw [hF, hE]; simp)
    (by rw [hF]; exact hok) hcl2 (by rw [hst0, hF, hE]; exact hstart)
    (by rw [hst0, hF, hE]; exact aL) (by rw [hst0, hF]; exact aI) (by rw [hst0, hF]; exact aD)
    (fun _ => by rw [hst0]; exact hprev)
    (by
      rw [hst0, hF, hE]
      show Covers L.histos L.eff (2 ^ L.cb) (remTypes L.s 0 (BEnc.new L.H L.s).blockLen) _
      rw [new_blockLen L.H L.s (by rw [hL]; exact hsl), hL]
      exact hcL)
    (by
      rw [hst0, hF]
      show Covers I.histos I.eff (2 ^ I.cb) (remTypes I.s 0 (BEnc.new I.H I.s).blockLen) _
      rw [new_blockLen I.H I.s (by rw [hI]; exact hsc), hI]
      exact hcI)
    (by
      rw [hst0, hF]
      show Covers D.histos D.eff (2 ^ D.cb) (remTypes D.s 0 (BEnc.new D.H D.s).blockLen) _
      rw [new_blockLen D.H D.s (by rw [hD]; exact hsd), hD]
      exact hcD)
  rw [hF, hE] at hs1 hdec hfin hrd
  simp only at hs1 hdec hfin hrd
  have hs2' : st'.w = w7 ++ db := by rw [hs2, hst0]
  -- everything the writer appends
  obtain ⟨body, hbody⟩ : ∃ body, body = bL ++ (bI ++ (bD ++ (bitsOf 2 dp.npostfix ++ (bitsOf 4 (dp.ndirect / 2 ^ dp.npostfix) ++
    (mbits ++ (mL ++ (mD ++ (cbL ++ (cbI ++ (cbD ++ db)))))))))) := ⟨_, rfl⟩
  have hwfin : w7 ++ db = w ++ (headerBits isLast mb.length ++ body) := by
    rw [hw7, hw4, hw3, hbody]; simp [List.append_assoc]
  refine ⟨headerBits isLast mb.length ++ (body ++
    (if isLast then List.replicate ((8 - (w7 ++ db).length % 8) % 8) false else [])), fin, ?_, hdec, hfin, ?_⟩
  · unfold storeMetaBlockFull
    rw [hIP, Out.bind_ok]
    dsimp only
    rw [if_neg (by rw [c3]; omega), storeHeader_ok isLast mb.length w h1 h2, Out.bind_ok]
    have hnewL : (BEnc.new BROTLI_NUM_LITERAL_SYMBOLS mbs.lit).code = BSCode.init := rfl
    have hnewI : (BEnc.new BROTLI_NUM_COMMAND_SYMBOLS mbs.cmd).code = BSCode.init := rfl
    have hnewD : (BEnc.new dp.alphabetSize mbs.dist).code = BSCode.init := rfl
    rw [hnewL, hnewI, hnewD, eL, Out.bind_ok]
    dsimp only
    rw [eI, Out.bind_ok]
    dsimp only
    rw [eD, Out.bind_ok]
    dsimp only
    rw [← hw3, hnpw, Out.bind_ok, if_neg (by omega), hndw, Out.bind_ok, eM, Out.bind_ok, ← hw4, eCL, Out.bind_ok,
      eCD, Out.bind_ok, c1, c2, eEL, Out.bind_ok]
    dsimp only
    rw [eEI, Out.bind_ok]
    dsimp only
    rw [eED, Out.bind_ok]
    dsimp only
    rw [← hw7]
    have hst : (⟨start, prevByte, prevByte2, { BEnc.new 256 mbs.lit with code := lc, depths := dL, bits := bLt },
        { BEnc.new 704 mbs.cmd with code := cc, depths := dI, bits := bIt },
        { BEnc.new dp.alphabetSize mbs.dist with code := dcd, depths := dD, bits := bDt }, w7⟩ : FullSt)
        = st0 := by rw [hst0, hL, hI, hD]
    rw [hst, hs1, Out.bind_ok, hs2']
    cases isLast
    · simp only [Bool.false_eq_true, if_false, List.append_nil]; rw [hwfin]
    · simp only [if_true, jumpToByteBoundary]; rw [hwfin]; simp [List.append_assoc]
  · intro rest
    have hrd := hrd ((if isLast then List.replicate ((8 - (w7 ++ db).length % 8) % 8) false else []) ++ rest)
      (mb.length + 1) (by have := lockstep_length _ _ _ _ _ _ _ _ hlock; simp at this; omega)
    unfold readMetaBlockFullG
    simp only [List.append_assoc]
    rw [readHeader_ok isLast mb.length w.length _ h1 h2]
    simp only
    have hbodyR : ∀ PR, readCompressedBodyG wo window dp.large mb.length ⟨hist, dc⟩ (body ++ PR)
        = readCommandsG wo window T mb.length (mb.length + 1) 0 catL catI catD ⟨hist, dc⟩ (db ++ PR) := by
      intro PR
      unfold readCompressedBodyG
      rw [hbody]
      simp only [List.append_assoc]
      rw [rL]
      simp only
      rw [rI]
      simp only
      rw [rD]
      simp only
      rw [takeBits_bitsOf 2 _ _ (by omega)]
      simp only
      rw [takeBits_bitsOf 4 _ _ hnd2]
      simp only
      have hndm : dp.ndirect / 2 ^ dp.npostfix * 2 ^ dp.npostfix = dp.ndirect :=
        Nat.div_mul_cancel (Nat.dvd_of_mod_eq_zero hnd1)
      rw [hndm, iL.nbl, iI.nbl, iD.nbl, rM]
      simp only
      have e64 : (64 : Nat) = 2 ^ 6 := by decide
      have e4 : (4 : Nat) = 2 ^ 2 := by decide
      rw [e64, rCL]
      simp only
      rw [e4, rCD]
      simp only
      rw [rEL]
      simp only
      rw [← hM.csz, rEI]
      simp only
      rw [← hA, rED]
      simp only
      rw [hT, hL, hD]
      rfl
    rw [hbodyR, hrd]
    simp only
    have hpos : ∀ PR : List Bool, w.length + (headerBits isLast mb.length).length +
        ((body ++ PR).length - PR.length) = (w7 ++ db).length := by
      intro PR
      rw [hwfin]
      simp only [List.length_append]
      omega
    rw [hpos]
    cases isLast
    · simp [hwfin, List.append_assoc]
    · simp only [if_true]
      rw [skipPad_pad]
      simp [hwfin, List.append_assoc]
      omega

end BV.MetaBlock
