import BV.Lemmas.StreamSched3
/-
Schedule independence (C05), part 4: EMIT_METADATA requests.

The metadata loop copies the payload in portions whose size IS the output capacity (or 16, through
`tiny_buf_`), so its atomic steps are not a function of the abstract configuration of part 1.  They
are after one more normalisation: in METADATA_BODY the payload bytes not yet consumed are counted
as already produced (`absM`).  On normalised configurations the metadata machine is the function
`ustepM` (entry, flush of buffered input through the payload encoder, header, completion); every
atomic step of a metadata call is a stutter or exactly `ustepM`; so every run of a metadata
request — any capacities, any `take_output`s — walks along the one trajectory of `ustepM`, and two
complete runs end in the same configuration.
-/
namespace BV.Stream
open BV.Bits

/-- abstract configuration of a metadata request: in METADATA_BODY the rest of the payload counts
as produced -/
def absM (s : St) (io : Io) (del : Bytes) : Abs :=
  if s.streamState = .metadataBody then
    ⟨{ core s with remainingMetadata := 0 }, del ++ io.out ++ s.pending ++ io.input, [], 0⟩
  else absOf s io del

def uMdEncOut (r : Option (St × Bytes)) (a : Abs) : Option Abs :=
  match r with
  | some (s', pend) => some ⟨s', a.out ++ pend, a.input, a.availIn⟩
  | none => none

/-- **the abstract machine of an EMIT_METADATA request** (on normalised configurations): no output
capacity, cursor or buffer size occurs in it -/
def ustepM (o : Oracle) (a : Abs) : Option Abs :=
  if a.s.isInitialized = false then some { a with s := core (ensureInitialized a.s) }
  else if a.s.streamState = .processing then some { a with s := mdEnter (updateSizeHint a.s 0) a.availIn }
  else if a.s.inputPos ≠ a.s.lastFlushPos then uMdEncOut (uEnc o a.s 1 false true) a
  else if a.s.streamState = .metadataHead then
    some ⟨{ a.s with lastBytes := 0, lastBytesBits := 0, streamState := .metadataBody, remainingMetadata := 0 },
          a.out ++ toBytes (metadataHeaderBits a.s.remainingMetadata a.s.carry) ++ a.input, [], 0⟩
  else if a.s.streamState = .metadataBody then
    some { a with s := { a.s with remainingMetadata := u32Max, streamState := .processing } }
  else none

/-- the size hint has settled: `update_size_hint(0)` at the entry of a further call changes nothing -/
abbrev HintSettled (s : St) : Prop := s.streamState ≠ .processing → (s.params.sizeHint ≠ 0 ∨ s.unprocessed = 0)

/-- the header is only written once everything buffered has been flushed -/
abbrev BodyFlushed (s : St) : Prop := s.streamState = .metadataBody → s.inputPos = s.lastFlushPos

theorem absM_state (s : St) (io : Io) (del : Bytes) : (absM s io del).s.streamState = s.streamState := by
  unfold absM
  split <;> rfl

theorem absM_of_not_body {s : St} (h : s.streamState ≠ .metadataBody) (io : Io) (del : Bytes) :
    absM s io del = absOf s io del := by
  unfold absM
  rw [if_neg h]

theorem core_mdEnter (s : St) (n : Nat) : core (mdEnter s n) = mdEnter (core s) n := by
  unfold mdEnter core
  split <;> rfl

theorem updateSizeHint_settled {s : St} (h : s.params.sizeHint ≠ 0 ∨ s.unprocessed = 0) : updateSizeHint s 0 = s := by
  unfold updateSizeHint
  split
  · rename_i h0
    rcases h with h | h
    · exact absurd h0 h
    · have : sizeHintTotal s.unprocessed 0 = 0 := by
        unfold sizeHintTotal
        rw [h]; simp [two64]
      rw [this]
      have hp : ∀ p : Params, p.sizeHint = 0 → ({ p with sizeHint := 0 } : Params) = p := by
        intro p hp; cases p; simp_all
      rw [hp _ h0]
  · rfl

theorem sizeHintTotal_ne (d : Nat) (h : d ≠ 0) : sizeHintTotal d 0 ≠ 0 := by
  unfold sizeHintTotal
  by_cases hc : d ≥ 1073741824 ∨ 0 ≥ 1073741824 ∨ (d + 0) % two64 ≥ 1073741824
  · rw [if_pos hc]; omega
  · rw [if_neg hc]; omega

theorem settled_after_update (s : St) : (updateSizeHint s 0).params.sizeHint ≠ 0 ∨ (updateSizeHint s 0).unprocessed = 0 := by
  by_cases h0 : s.params.sizeHint = 0
  · by_cases hu : s.unprocessed = 0
    · right
      have : (updateSizeHint s 0).unprocessed = s.unprocessed := by
        unfold St.unprocessed
        rw [(updateSizeHint_fields s 0).2.2.2.2.2.1, (updateSizeHint_fields s 0).2.2.2.2.2.2.2.2.2.2.1]
      rw [this]; exact hu
    · left
      have : (updateSizeHint s 0).params.sizeHint = sizeHintTotal s.unprocessed 0 := by
        unfold updateSizeHint
        rw [if_pos h0]
      rw [this]; exact sizeHintTotal_ne _ hu
  · left
    have : updateSizeHint s 0 = s := by
      unfold updateSizeHint
      rw [if_neg h0]
    rw [this]; exact h0

set_option maxRecDepth 4000 in
/-- **every atomic step of a metadata call is a stutter or exactly one step of `ustepM`**; the
side invariants are kept, and the block can only be completed with nothing pending -/
theorem step_absM {o : Oracle} {s s' : St} {io io' : Io} {e : Ev}
    (h : Step o 3 (s, io) e (s', io'))
    (hst : s.streamState ≠ .flushRequested) (hj : HintSettled s) (hk : BodyFlushed s)
    (hin : io.availIn = io.input.length) (del : Bytes) :
    (absM s' io' del = absM s io del ∨ ustepM o (absM s io del) = some (absM s' io' del))
    ∧ HintSettled s' ∧ BodyFlushed s' ∧ io'.availIn = io'.input.length
    ∧ (s.streamState ≠ .processing → s'.streamState = .processing → s'.pending = []) := by
  cases h with
  | init hf =>
    have hpr : s.streamState = .processing := by obtain ⟨p, rfl⟩ := hf; rfl
    have hpr' : (ensureInitialized s).streamState = .processing := by
      obtain ⟨p, rfl⟩ := hf; simp [ensureInitialized, St.new]
    refine ⟨Or.inr ?_, fun hh => absurd hpr' hh, (fun hh => by rw [hpr'] at hh; cases hh), hin, fun hh => absurd hpr hh⟩
    rw [absM_of_not_body (by rw [hpr]; simp), absM_of_not_body (by rw [hpr']; simp)]
    have hi : (absOf s io del).s.isInitialized = false := by
      show s.isInitialized = false
      exact isFreshInit hf
    unfold ustepM
    rw [if_pos hi]
    simp only [absOf, core_ensure, ensure_pending]
  | copy hI hw hop hnf hst' hrm hc hn h => omega
  | pad hI hc hz h => exact absurd hc.1 hst
  | push hI hc h =>
    obtain ⟨c1, c2, _, _, c5, c6⟩ := push_conserve' hc h
    obtain ⟨f, a1, a2, _, _, _, _, a8, a9, _⟩ := push_frame h
    rw [St.frame_eq_iff] at f
    have hu : s'.unprocessed = s.unprocessed := by unfold St.unprocessed; rw [c5, a2]
    refine ⟨Or.inl ?_, ?_, ?_, by rw [a8, a9]; exact hin, ?_⟩
    · unfold absM
      rw [c2]
      split
      · simp only [push_core hc h, a8, List.append_assoc, Abs.mk.injEq, true_and, and_true]
        rw [← List.append_assoc io'.out, c1, List.append_assoc]
      · simp only [absOf, push_core hc h, a8, a9, List.append_assoc, c1]
    · intro hh; rw [c2] at hh; rw [f.1, hu]; exact hj hh
    · intro hh; rw [c2] at hh; rw [c5, c6]; exact hk hh
    · intro h1 h2; rw [c2] at h2; exact absurd h2 h1
  | encSlow hI hop hnf hrm hnc hnp hpend hst' hgo h => omega
  | cfc hI hop hrm hnp hfl => omega
  | fastFlush hI hfm hrm hnp hpend hst' hop1 hz => omega
  | fastBlock hI hfm hop hrm hnp hpend hst' hgo hnf hcap hin' hfit => omega
  | mdEnter hI hop hentry =>
    rcases hentry with ⟨h1, h2⟩ | ⟨h1, h2, h3⟩
    · -- a further call inside the block: nothing changes
      have hmd := hI.mdIff.mpr h1
      have hnp : s.streamState ≠ .processing := by rcases hmd with h | h <;> rw [h] <;> simp
      have hid : mdEnter (updateSizeHint s 0) io.availIn = s := by
        rw [updateSizeHint_settled (hj hnp)]
        unfold mdEnter
        rw [if_neg hnp]
      rw [hid]
      exact ⟨Or.inl rfl, hj, hk, hin, fun _ hh => absurd hh hnp⟩
    · -- the block is opened
      have hsp := mdEnter_state (updateSizeHint s 0) io.availIn
      have u9 := (updateSizeHint_fields s 0).2.2.2.2.2.2.2.2.1
      rw [u9, if_pos h2] at hsp
      refine ⟨Or.inr ?_, ?_, (fun hh => by rw [hsp] at hh; cases hh), hin, fun hh => absurd h2 hh⟩
      · rw [absM_of_not_body (by rw [h2]; simp), absM_of_not_body (by rw [hsp]; simp)]
        have hi : ¬ ((absOf s io del).s.isInitialized = false) := by
          show ¬ (s.isInitialized = false); rw [hI.init]; simp
        have hp : (absOf s io del).s.streamState = .processing := h2
        unfold ustepM
        rw [if_neg hi, if_pos hp]
        have hpe : (mdEnter (updateSizeHint s 0) io.availIn).pending = s.pending := by
          rw [(mdEnter_fields _ _).1, (updateSizeHint_fields s 0).2.2.2.2.2.2.2.2.2.2.2.2.1]
        simp only [absOf, core_mdEnter, core_updateSizeHint, hpe]
      · intro _
        have hset := settled_after_update s
        have hpar : (mdEnter (updateSizeHint s 0) io.availIn).params = (updateSizeHint s 0).params := mdEnter_params _ _
        have hun : (mdEnter (updateSizeHint s 0) io.availIn).unprocessed = (updateSizeHint s 0).unprocessed := by
          unfold St.unprocessed
          rw [(mdEnter_fields _ _).2.2.2.1]
          unfold mdEnter
          split <;> rfl
        rw [hpar, hun]; exact hset
  | mdEnc hM hop hpend hne h =>
    rename_i req n
    have hI := hM.inv
    obtain ⟨f, _, _, _, _⟩ := encodeData_frame h
    rw [St.frame_eq_iff] at f
    obtain ⟨f1, f2, f3, f4, f5, _, _⟩ := f
    have hhead : s.streamState = .metadataHead := by
      rcases hM.st with h1 | h1
      · exact h1
      · exact absurd (hk h1) hne
    have hhead' : s'.streamState = .metadataHead := by rw [f4]; exact hhead
    obtain ⟨p1, p2, p3, p4⟩ := encodeData_pos h hI.fl_le hI.lp_le hI.ip_lt
    have hI' := inv_encode hI h rfl
    refine ⟨Or.inr ?_, ?_, (fun hh => by rw [hhead'] at hh; cases hh), hin, (fun _ hh => by rw [hhead'] at hh; cases hh)⟩
    · rw [absM_of_not_body (by rw [hhead]; simp), absM_of_not_body (by rw [hhead']; simp)]
      have hi : ¬ ((absOf s io del).s.isInitialized = false) := by
        show ¬ (s.isInitialized = false); rw [hI.init]; simp
      have hp : ¬ ((absOf s io del).s.streamState = .processing) := by
        show ¬ (s.streamState = .processing); rw [hhead]; simp
      have hne' : (absOf s io del).s.inputPos ≠ (absOf s io del).s.lastFlushPos := hne
      unfold ustepM
      rw [if_neg hi, if_neg hp, if_pos hne']
      have hu := encode_abs h
      have hu' : uEnc o (absOf s io del).s 1 false true = some (core s', s'.pending) := hu
      rw [hu']
      simp only [uMdEncOut, absOf, hpend, List.append_nil]
    · intro _
      rcases hj (by rw [hhead]; simp) with h1 | h1
      · left; rw [f1]; exact h1
      · right
        rw [hI.unprocessed] at h1
        rw [hI'.unprocessed, f2]
        have := hI.lp_le
        omega
  | mdHead hM hop hpend hlf hst' hok =>
    have hI := hM.inv
    refine ⟨Or.inr ?_, ?_, fun _ => hlf, hin, (fun _ hh => by cases hh)⟩
    · rw [absM_of_not_body (by rw [hst']; simp)]
      have hi : ¬ ((absOf s io del).s.isInitialized = false) := by
        show ¬ (s.isInitialized = false); rw [hI.init]; simp
      have hp : ¬ ((absOf s io del).s.streamState = .processing) := by
        show ¬ (s.streamState = .processing); rw [hst']; simp
      have hne' : ¬ ((absOf s io del).s.inputPos ≠ (absOf s io del).s.lastFlushPos) := by
        show ¬ (s.inputPos ≠ s.lastFlushPos); simp [hlf]
      have hh : (absOf s io del).s.streamState = .metadataHead := hst'
      unfold ustepM
      rw [if_neg hi, if_neg hp, if_neg hne', if_pos hh]
      simp [absM, mdHeadSt, absOf, core, hpend, St.carry]
    · intro _
      exact hj (by rw [hst']; simp)
  | mdDone hM hop hpend hlf hst' hz =>
    have hI := hM.inv
    have hav : io.availIn = 0 := by rw [hM.avail, hz]
    have hinp : io.input = [] := List.eq_nil_of_length_eq_zero (by rw [← hin, hav])
    refine ⟨Or.inr ?_, (fun hh => absurd rfl hh), (fun hh => by cases hh), hin, fun _ _ => hpend⟩
    have hb : absM s io del = ⟨{ core s with remainingMetadata := 0 }, del ++ io.out ++ s.pending ++ io.input, [], 0⟩ := by
      unfold absM; rw [if_pos hst']
    rw [hb, absM_of_not_body (by simp [mdDoneSt])]
    unfold ustepM
    simp only [core_init, hI.init, Bool.true_eq_false, ↓reduceIte, core_state, hst', reduceCtorEq, ne_eq]
    simp [absOf, mdDoneSt, core, hpend, hinp, hav, hlf, hI.init]
  | mdOut hM hop hpend hlf hst' hnz hao hle =>
    have hrm32 := lt_two32_of_le hM.rmLe
    have hav64 : io.availIn < two64 := by rw [hM.avail]; exact lt_two64_of_le hM.rmLe
    have hcopy : mdOutN s io = min s.remainingMetadata io.availOut :=
      Nat.mod_eq_of_lt (Nat.lt_of_le_of_lt (Nat.min_le_left _ _) hrm32)
    have hle2 : mdOutN s io ≤ io.availIn := by rw [hcopy, hM.avail]; exact Nat.min_le_left _ _
    refine ⟨Or.inl ?_, ?_, fun _ => hlf, ?_, (fun _ hh => by simp [mdOutSt, hst'] at hh)⟩
    · unfold absM
      have e1 : (mdOutSt s io).streamState = .metadataBody := hst'
      rw [if_pos e1, if_pos hst']
      simp [mdOutSt, mdOutIo, core, hpend, List.append_assoc]
    · intro _
      exact hj (by rw [hst']; simp)
    · simp only [mdOutIo, List.length_drop]
      rw [sub_mod_two64 hle2 hav64, hin]
  | mdTiny hM hop hpend hlf hst' hnz hao hle =>
    have hav64 : io.availIn < two64 := by rw [hM.avail]; exact lt_two64_of_le hM.rmLe
    have hle2 : mdTinyN s ≤ io.availIn := by rw [hM.avail]; exact Nat.min_le_left _ _
    refine ⟨Or.inl ?_, ?_, fun _ => hlf, ?_, (fun _ hh => by simp [mdTinySt, hst'] at hh)⟩
    · unfold absM
      have e1 : (mdTinySt s io).streamState = .metadataBody := hst'
      rw [if_pos e1, if_pos hst']
      simp [mdTinySt, mdTinyIo, core, hpend, List.append_assoc]
    · intro _
      exact hj (by rw [hst']; simp)
    · simp only [mdTinyIo, List.length_drop]
      rw [sub_mod_two64 hle2 hav64, hin]

end BV.Stream
