import BV.Lemmas.AdaptersInner
/-
The wrapped reader (`Source.read`) and the refill loop `fillBuf` shared by `CompressorReader`
and the copy function: what it moves, that it moves it in order and exactly once, and that over
a wrapped reader that never fails its result does not depend on the script at all.
-/
namespace BV.Adapters

/-- a wrapped reader that may be slow (short reads, `Interrupted`) but never fails and never
answers `Ok(0)` while it still has data -/
def Source.faultFree (s : Source) : Prop := (∀ b ∈ s.script, b.faultFree = true) ∧ s.tail.faultFree = true

theorem retryCall_faultFree_ok (tail : Tail) (kind req avail : Nat) (script : List Beh) (log : List LogE)
    (hs : ∀ b ∈ script, b.faultFree = true) (ht : tail.faultFree = true) :
    ∃ k, (retryCall tail kind req avail script log).2.2 = .ok k := by
  induction script generalizing log with
  | nil =>
    cases tail with
    | full => exact ⟨avail, by simp [retryCall, tailRes]⟩
    | atMost m => exact ⟨min avail m, by simp [retryCall, tailRes]⟩
    | err c => simp [Tail.faultFree] at ht
    | zero => simp [Tail.faultFree] at ht
  | cons b rest ih =>
    have hb := hs b (List.mem_cons_self ..)
    have hr : ∀ b ∈ rest, b.faultFree = true := fun b h => hs b (List.mem_cons_of_mem _ h)
    cases b with
    | full => exact ⟨avail, by simp [retryCall, behRes]⟩
    | atMost m => exact ⟨min avail m, by simp [retryCall, behRes]⟩
    | intr => simpa only [retryCall, behRes] using ih _ hr
    | err c => simp [Beh.faultFree] at hb
    | zero => simp [Beh.faultFree] at hb

def readRes : Except Nat Bytes → Res
  | .ok bs => .n bs.length
  | .error c => .err c

theorem Source.read_cases (s s' : Source) (n : Nat) (r : Except Nat Bytes) (h : s.read n = (s', r)) :
    s'.tail = s.tail ∧
    (∃ pre, s'.log = ⟨1, n, readRes r⟩ :: (pre ++ s.log) ∧ ∀ e ∈ pre, e = ⟨1, n, .intr⟩) ∧
    (∃ used, s.script = used ++ s'.script) ∧
    (match r with
     | .ok bs => bs.length ≤ n ∧ s.data = bs ++ s'.data
     | .error _ => s'.data = s.data) := by
  unfold Source.read at h
  obtain ⟨pre, hp, hq⟩ := retryCall_log s.tail 1 n (min n s.data.length) s.script s.log
  obtain ⟨used, hu⟩ := retryCall_script s.tail 1 n (min n s.data.length) s.script s.log
  have hle := retryCall_le s.tail 1 n (min n s.data.length) s.script s.log
  split at h
  · next sc lg k heq =>
    simp only [Prod.mk.injEq] at h
    obtain ⟨h1, h2⟩ := h
    subst h1 h2
    have hk := hle k (by rw [heq])
    simp only [heq] at hp hu
    refine ⟨rfl, ⟨pre, ?_, hq⟩, ⟨used, hu⟩, ?_, ?_⟩
    · simp only [readRes, List.length_take]
      have : min k s.data.length = k := by omega
      rw [this]; simpa [exceptToRes] using hp
    · simp [List.length_take]; omega
    · simp
  · next sc lg c heq =>
    simp only [Prod.mk.injEq] at h
    obtain ⟨h1, h2⟩ := h
    subst h1 h2
    simp only [heq] at hp hu
    exact ⟨rfl, ⟨pre, by simpa [exceptToRes, readRes] using hp, hq⟩, ⟨used, hu⟩, rfl⟩

/-- over a fault-free wrapped reader a read into a non-empty slice returns at least one byte
unless the source is exhausted, and then it returns `Ok(0)` -/
theorem Source.read_faultFree (s : Source) (n : Nat) (hf : s.faultFree) (hn : 0 < n) :
    ∃ bs, (s.read n).2 = .ok bs ∧ (s.data ≠ [] → bs ≠ []) ∧ (s.read n).1.faultFree := by
  obtain ⟨k, hk⟩ := retryCall_faultFree_ok s.tail 1 n (min n s.data.length) s.script s.log hf.1 hf.2
  obtain ⟨used, hu⟩ := retryCall_script s.tail 1 n (min n s.data.length) s.script s.log
  have hff : ∀ b ∈ (retryCall s.tail 1 n (min n s.data.length) s.script s.log).1, b.faultFree = true := by
    intro b hb; apply hf.1; rw [hu]; exact List.mem_append_right _ hb
  unfold Source.read
  split
  · next sc lg k' heq =>
    simp only [heq] at hk hff
    simp only [Except.ok.injEq] at hk
    subst hk
    refine ⟨s.data.take k', rfl, ?_, ⟨hff, hf.2⟩⟩
    intro hd
    have hpos : 0 < min n s.data.length := by
      have : 0 < s.data.length := List.length_pos_iff.mpr hd
      omega
    obtain ⟨k2, hk2, hk2pos⟩ := retryCall_faultFree s.tail 1 n (min n s.data.length) s.script s.log hf.1 hf.2 hpos
    rw [heq] at hk2; simp at hk2; subst hk2
    intro hnil
    have : (s.data.take k').length = 0 := by rw [hnil]; rfl
    have hle := retryCall_le s.tail 1 n (min n s.data.length) s.script s.log k' (by rw [heq])
    have h0 : min k' s.data.length = 0 := by rw [← List.length_take]; exact this
    have hdl : 0 < s.data.length := List.length_pos_iff.mpr hd
    omega
  · next sc lg c heq => simp [heq] at hk

theorem storeAt_take (buf : Bytes) (len : Nat) (bs : Bytes) (h1 : len + bs.length ≤ buf.length) :
    (storeAt buf len bs).take (len + bs.length) = buf.take len ++ bs := by
  have hl : (buf.take len).length = len := by simp [List.length_take]; omega
  unfold storeAt
  rw [List.take_take, Nat.min_eq_left h1, List.append_assoc, List.take_append]
  simp only [hl]
  rw [List.take_of_length_le (by omega)]
  simp

/-- the refill loop, whatever the wrapped reader does: the buffer keeps its length, the valid
prefix only grows, and it grows by exactly the bytes that left the source, in order -/
theorem fillBuf_spec (buf : Bytes) (len : Nat) (eof : Bool) (src : Source) (reads : Nat)
    (hlen : len ≤ buf.length) :
    (fillBuf buf len eof src reads).buf.length = buf.length ∧
    (fillBuf buf len eof src reads).len ≤ buf.length ∧
    (fillBuf buf len eof src reads).src.tail = src.tail ∧
    (eof = true → (fillBuf buf len eof src reads).eof = true) ∧
    ((fillBuf buf len eof src reads).err = none →
        ¬((fillBuf buf len eof src reads).len < buf.length ∧ (fillBuf buf len eof src reads).eof = false)) ∧
    ∃ (moved : Bytes) (newL : List LogE),
      (fillBuf buf len eof src reads).len = len + moved.length ∧
      (fillBuf buf len eof src reads).buf.take (fillBuf buf len eof src reads).len = buf.take len ++ moved ∧
      src.data = moved ++ (fillBuf buf len eof src reads).src.data ∧
      (fillBuf buf len eof src reads).src.log = newL ++ src.log ∧
      (∀ c, (fillBuf buf len eof src reads).err = some c → ⟨1, buf.length - (fillBuf buf len eof src reads).len, .err c⟩ ∈ newL) ∧
      ((fillBuf buf len eof src reads).err = none → ∀ e ∈ newL, ∀ c, e.res ≠ .err c) := by
  fun_induction fillBuf buf len eof src reads
  case case1 buf len eof src reads h src' c hx =>
    obtain ⟨t1, ⟨pre, hl, hp⟩, _, hd⟩ := Source.read_cases _ _ _ _ hx
    refine ⟨rfl, hlen, t1, fun h' => h', by simp, [], ⟨1, buf.length - len, .err c⟩ :: pre, by simp, by simp, by simpa using hd.symm, by simpa [readRes] using hl, ?_, by simp⟩
    intro c' hc'; simp at hc'; subst hc'; simp
  case case2 buf len eof src reads h src' bs hx hz ih =>
    obtain ⟨t1, ⟨pre, hl, hp⟩, _, hble, hd⟩ := Source.read_cases _ _ _ _ hx
    have hbs : bs = [] := List.eq_nil_of_length_eq_zero hz
    subst hbs
    obtain ⟨i1, i2, i3, i4, i5, moved, newL, k1, k2, k3, k4, k5, k6⟩ := ih hlen
    refine ⟨i1, i2, by rw [i3, t1], fun _ => i4 rfl, i5, moved, newL ++ ⟨1, buf.length - len, .n 0⟩ :: pre, k1, k2, ?_, ?_, ?_, ?_⟩
    · rw [hd]; simpa using k3
    · rw [k4, hl]; simp [readRes]
    · intro c hc; exact List.mem_append_left _ (k5 c hc)
    · intro hn e he c
      rcases List.mem_append.mp he with h' | h'
      · exact k6 hn e h' c
      · rcases List.mem_cons.mp h' with h' | h'
        · subst h'; simp
        · rw [hp e h']; simp
  case case3 buf len eof src reads h src' bs hx hz ih =>
    obtain ⟨t1, ⟨pre, hl, hp⟩, _, hble, hd⟩ := Source.read_cases _ _ _ _ hx
    have hfit : len + bs.length ≤ buf.length := by omega
    obtain ⟨i1, i2, i3, i4, i5, moved, newL, k1, k2, k3, k4, k5, k6⟩ := ih (by rw [storeAt_length]; exact hfit)
    rw [storeAt_length] at i1 i2 i5 k5
    refine ⟨i1, i2, by rw [i3, t1], fun he => absurd he (by simp [h.2]), i5, bs ++ moved, newL ++ ⟨1, buf.length - len, .n bs.length⟩ :: pre, ?_, ?_, ?_, ?_, ?_, ?_⟩
    · rw [k1]; simp; omega
    · rw [k2, storeAt_take _ _ _ hfit]; simp
    · rw [hd, k3]; simp
    · rw [k4, hl]; simp [readRes]
    · intro c hc; exact List.mem_append_left _ (k5 c hc)
    · intro hn e he c
      rcases List.mem_append.mp he with h' | h'
      · exact k6 hn e h' c
      · rcases List.mem_cons.mp h' with h' | h'
        · subst h'; simp
        · rw [hp e h']; simp
  case case4 buf len eof src reads h =>
    refine ⟨rfl, hlen, rfl, fun h' => h', fun _ => h, [], [], by simp, by simp, by simp, by simp, by simp, by simp⟩
/-- how many bytes the refill loop moves when nothing goes wrong -/
def fillAmount (bufLen len : Nat) (eof : Bool) (avail : Nat) : Nat :=
  if eof then 0 else min (bufLen - len) avail

/-- over a wrapped reader that never fails the result of the refill loop is a function of the
buffer, the fill level, the EOF flag and the remaining source bytes only — not of the script -/
theorem fillBuf_faultFree (buf : Bytes) (len : Nat) (eof : Bool) (src : Source) (reads : Nat)
    (hlen : len ≤ buf.length) (hf : src.faultFree) :
    (fillBuf buf len eof src reads).err = none ∧
    (fillBuf buf len eof src reads).buf.length = buf.length ∧
    (fillBuf buf len eof src reads).len = len + fillAmount buf.length len eof src.data.length ∧
    (fillBuf buf len eof src reads).buf.take (fillBuf buf len eof src reads).len
        = buf.take len ++ src.data.take (fillAmount buf.length len eof src.data.length) ∧
    (fillBuf buf len eof src reads).src.data = src.data.drop (fillAmount buf.length len eof src.data.length) ∧
    (fillBuf buf len eof src reads).eof = (eof || decide (src.data.length < buf.length - len)) ∧
    (fillBuf buf len eof src reads).src.faultFree := by
  fun_induction fillBuf buf len eof src reads
  case case1 buf len eof src reads h src' c hx =>
    obtain ⟨bs, hb, _⟩ := Source.read_faultFree src (buf.length - len) hf (by omega)
    rw [hx] at hb; simp at hb
  case case2 buf len eof src reads h src' bs hx hz ih =>
    obtain ⟨bs', hb, hne, hff⟩ := Source.read_faultFree src (buf.length - len) hf (by omega)
    rw [hx] at hb hff; simp at hb hff; subst hb
    obtain ⟨t1, _, _, hble, hd⟩ := Source.read_cases _ _ _ _ hx
    have hbs : bs = [] := List.eq_nil_of_length_eq_zero hz
    subst hbs
    have hdnil : src.data = [] := by
      cases hsd : src.data with
      | nil => rfl
      | cons a t => exact absurd rfl (hne (by simp [hsd]))
    have hd' : src'.data = [] := by rw [hdnil] at hd; simpa using hd.symm
    obtain ⟨i1, i2, i3, i4, i5, i6, i7⟩ := ih hlen hff
    refine ⟨i1, i2, ?_, ?_, ?_, ?_, i7⟩
    · rw [i3]; simp [fillAmount, hdnil]
    · rw [i4]; simp [fillAmount, hdnil, hd']
    · rw [i5]; simp [fillAmount, hdnil, hd']
    · rw [i6]; simp [h.2, hdnil]; omega
  case case3 buf len eof src reads h src' bs hx hz ih =>
    obtain ⟨bs', hb, hne, hff⟩ := Source.read_faultFree src (buf.length - len) hf (by omega)
    rw [hx] at hb hff; simp at hb hff; subst hb
    obtain ⟨t1, _, _, hble, hd⟩ := Source.read_cases _ _ _ _ hx
    have hfit : len + bs.length ≤ buf.length := by omega
    obtain ⟨i1, i2, i3, i4, i5, i6, i7⟩ := ih (by rw [storeAt_length]; exact hfit) hff
    rw [storeAt_length] at i2 i3 i4 i5 i6
    have he : eof = false := h.2
    subst he
    have hdl : src.data.length = bs.length + src'.data.length := by rw [hd]; simp
    have hbt : bs = src.data.take bs.length := by rw [hd]; simp
    have hdd : src'.data = src.data.drop bs.length := by rw [hd]; simp
    have hm : fillAmount buf.length len false src.data.length
        = bs.length + fillAmount buf.length (len + bs.length) false src'.data.length := by
      simp only [fillAmount, Bool.false_eq_true, if_false]; omega
    refine ⟨i1, i2, ?_, ?_, ?_, ?_, i7⟩
    · rw [i3, hm]; omega
    · rw [i4, storeAt_take _ _ _ hfit, hm, List.take_add, ← hbt, ← hdd, List.append_assoc]
    · rw [i5, hm, hdd, List.drop_drop]
    · rw [i6]; simp; omega
  case case4 buf len eof src reads h =>
    refine ⟨rfl, rfl, ?_, ?_, ?_, ?_, hf⟩
    · cases eof
      · have : ¬ len < buf.length := by simpa using h
        simp [fillAmount]; omega
      · simp [fillAmount]
    · cases eof
      · have : ¬ len < buf.length := by simpa using h
        have h0 : buf.length - len = 0 := by omega
        simp [fillAmount, h0]
      · simp [fillAmount]
    · cases eof
      · have : ¬ len < buf.length := by simpa using h
        have h0 : buf.length - len = 0 := by omega
        simp [fillAmount, h0]
      · simp [fillAmount]
    · cases eof
      · have : ¬ len < buf.length := by simpa using h
        simp; omega
      · simp
end BV.Adapters
