/-
Lemmas for C17 part 7: `BrotliStoreHuffmanTreeToBitMask` / RFC reader round trip
for an abstract "symbol I/O" (covers the ordinary code-length code and the
single-symbol code whose code word has zero length).
-/
import BV.Lemmas.HuffmanStoreRead

namespace BV.Lemmas.HuffmanStoreIO
open BV.Bits BV.Huffman BV.Lemmas.HuffmanBits BV.Lemmas.HuffmanCanon BV.Lemmas.HuffmanPrefix
open BV.Lemmas.HuffmanRead BV.Lemmas.HuffmanRle BV.Lemmas.HuffmanStoreRead

/-- what the entry-level round trip needs from the code-length code: the writer's
tables `clW`/`clBits` emit `symBits s` for a used symbol `s`, and the reader's
table `clR` decodes exactly that -/
structure SymIO (clW clR clBits : List Nat) (symBits : Nat → List Bool) (used : Nat → Prop) :
    Prop where
  hlenW : clW.length = 18
  hlenB : clBits.length = 18
  hw : ∀ s (w : Writer), s < 18 → used s →
    writeBits (clW.getD s 0) (clBits.getD s 0) w = .ok (w ++ symBits s)
  hr : ∀ s (rest : List Bool), s < 18 → used s → readSym clR (symBits s ++ rest) = some (s, rest)

def ValidEntryU (used : Nat → Prop) (e : Nat × Nat) : Prop :=
  e.1 < 18 ∧ used e.1 ∧ (e.1 = 16 → e.2 < 4) ∧ (e.1 = 17 → e.2 < 8)

def entryBitsU (symBits : Nat → List Bool) (e : Nat × Nat) : List Bool :=
  symBits e.1 ++ (if e.1 = 16 then bitsOf 2 e.2 else if e.1 = 17 then bitsOf 3 e.2 else [])

theorem storeEntriesU {clW clR clBits : List Nat} {symBits : Nat → List Bool} {used : Nat → Prop}
    (hc : SymIO clW clR clBits symBits used) :
    ∀ (E : List (Nat × Nat)) (w : Writer), (∀ e ∈ E, ValidEntryU used e) →
    storeHuffmanTreeToBitMask clW clBits E w = .ok (w ++ (E.map (entryBitsU symBits)).flatten) := by
  intro E
  induction E with
  | nil => intro w _; simp [storeHuffmanTreeToBitMask]
  | cons e E ih =>
    intro w hv
    obtain ⟨ix, extra⟩ := e
    obtain ⟨h18, hused, h16, h17⟩ := hv (ix, extra) (by simp)
    simp only at h18 hused h16 h17
    simp only [storeHuffmanTreeToBitMask, getAt_getD clW ix (by rw [hc.hlenW]; exact h18),
      getAt_getD clBits ix (by rw [hc.hlenB]; exact h18), Out.bind_ok, hc.hw ix w h18 hused]
    by_cases e16 : ix = 16
    · subst e16
      simp only [↓reduceIte, writeBits_ok 2 extra _ (h16 rfl) (by omega), Out.bind_ok]
      rw [ih _ (fun e he => hv e (List.mem_cons_of_mem _ he))]
      simp [entryBitsU]
    · by_cases e17 : ix = 17
      · subst e17
        simp only [e16, ↓reduceIte, writeBits_ok 3 extra _ (h17 rfl) (by omega), Out.bind_ok]
        rw [ih _ (fun e he => hv e (List.mem_cons_of_mem _ he))]
        simp [entryBitsU]
      · simp only [e16, e17, ↓reduceIte]
        rw [ih _ (fun e he => hv e (List.mem_cons_of_mem _ he))]
        simp [entryBitsU, e16, e17]

theorem readEntriesU {clW clR clBits : List Nat} {symBits : Nat → List Bool} {used : Nat → Prop}
    (hc : SymIO clW clR clBits symBits used) (A : Nat) :
    ∀ (E : List (Nat × Nat)) (s0 : ExpandState) (f : Nat) (rest : List Bool),
    (∀ e ∈ E, ValidEntryU used e) → E.length + 1 ≤ f →
    (∀ k, k < E.length → (run s0 (E.take k)).out.length < A ∧
        kraftSum 15 (run s0 (E.take k)).out < 32768) →
    (run s0 E).out.length ≤ A → kraftSum 15 (run s0 E).out = 32768 →
    readLensGo clR A f s0 ((E.map (entryBitsU symBits)).flatten ++ rest)
      = some ((run s0 E).out ++ List.replicate (A - (run s0 E).out.length) 0, rest) := by
  intro E
  induction E with
  | nil =>
    intro s0 f rest _ hf _ hlen hkr
    obtain ⟨f', rfl⟩ : ∃ f', f = f' + 1 := ⟨f - 1, by simp at hf; omega⟩
    simp only [run_nil] at hlen hkr
    simp only [List.map_nil, List.flatten_nil, List.nil_append, readLensGo, run_nil, hkr]
    simp [show ¬ s0.out.length > A by omega]
  | cons e E ih =>
    intro s0 f rest hv hf hpre hlen hkr
    obtain ⟨f', rfl⟩ : ∃ f', f = f' + 1 := ⟨f - 1, by simp at hf; omega⟩
    obtain ⟨ix, extra⟩ := e
    obtain ⟨h18, hused, h16, h17⟩ := hv (ix, extra) (by simp)
    simp only at h18 hused h16 h17
    have h0 := hpre 0 (by simp)
    simp only [List.take_zero, run_nil] at h0
    have hgo : ¬ (s0.out.length ≥ A ∨ kraftSum 15 s0.out ≥ 32768) := by omega
    simp only [List.map_cons, List.flatten_cons, readLensGo, hgo, ↓reduceIte]
    have hsym := hc.hr ix
      ((if ix = 16 then bitsOf 2 extra else if ix = 17 then bitsOf 3 extra else []) ++
        ((E.map (entryBitsU symBits)).flatten ++ rest)) h18 hused
    have hassoc : entryBitsU symBits (ix, extra) ++ (List.map (entryBitsU symBits) E).flatten ++ rest
        = symBits ix ++
          ((if ix = 16 then bitsOf 2 extra else if ix = 17 then bitsOf 3 extra else []) ++
            ((E.map (entryBitsU symBits)).flatten ++ rest)) := by
      simp [entryBitsU, List.append_assoc]
    rw [hassoc, hsym]
    simp only
    have hrec : ∀ s1, s1 = expandStep s0 ix extra →
        readLensGo clR A f' s1 ((E.map (entryBitsU symBits)).flatten ++ rest)
          = some ((run s0 ((ix, extra) :: E)).out ++
              List.replicate (A - (run s0 ((ix, extra) :: E)).out.length) 0, rest) := by
      intro s1 hs1
      subst hs1
      apply ih (expandStep s0 ix extra) f' rest (fun e he => hv e (List.mem_cons_of_mem _ he))
        (by simp at hf; omega)
      · intro k hk
        have := hpre (k + 1) (by simp; omega)
        simpa using this
      · simpa using hlen
      · simpa using hkr
    by_cases hlit : ix < 16
    · have e16 : ¬ ix = 16 := by omega
      have e17 : ¬ ix = 17 := by omega
      simp only [hlit, ↓reduceIte, e16, e17, List.nil_append]
      have hes : expandStep s0 ix 0 = expandStep s0 ix extra := by
        simp [expandStep, hlit]
      rw [hes]
      exact hrec _ rfl
    · simp only [hlit, ↓reduceIte]
      by_cases e16 : ix = 16
      · subst e16
        simp only [↓reduceIte, takeBits_bitsOf 2 extra _ (h16 rfl)]
        exact hrec _ rfl
      · have e17 : ix = 17 := by omega
        subst e17
        simp only [show ¬ (17 = 16) by decide, ↓reduceIte, takeBits_bitsOf 3 extra _ (h17 rfl)]
        exact hrec _ rfl

/-- entry-level round trip for any symbol I/O -/
theorem store_entries_roundtripU {clW clR clBits : List Nat} {symBits : Nat → List Bool}
    {used : Nat → Prop} (hc : SymIO clW clR clBits symBits used) (d : List Nat)
    (hd : ∀ x ∈ d, x ≤ 15) (hlen : d.length < 2 ^ 64) (hk : kraftSum 15 d = 32768)
    (useNZ useZ : Bool)
    (hvalid : ∀ e ∈ writeHuffmanTreeWith useNZ useZ d, ValidEntryU used e) (w rest : List Bool) :
    storeHuffmanTreeToBitMask clW clBits (writeHuffmanTreeWith useNZ useZ d) w
        = .ok (w ++ ((writeHuffmanTreeWith useNZ useZ d).map (entryBitsU symBits)).flatten) ∧
      readLensGo clR d.length (d.length + 1) ⟨[], 8, none⟩
        (((writeHuffmanTreeWith useNZ useZ d).map (entryBitsU symBits)).flatten ++ rest)
        = some (d, rest) := by
  refine ⟨storeEntriesU hc _ w hvalid, ?_⟩
  have hd' : ∀ x ∈ trimTrailingZeros d, x < 16 :=
    trim_lt d (fun x hx => Nat.lt_succ_of_le (hd x hx))
  have hl := trim_length_le d
  have hrt := writeLoop_roundtrip useNZ useZ _ (trimTrailingZeros d) rfl
    (by unfold u64; omega) hd' 8 ⟨[], 8, none⟩ rfl (by intro x _; rfl)
  have hout : (run ⟨[], 8, none⟩ (writeHuffmanTreeWith useNZ useZ d)).out = trimTrailingZeros d := by
    simpa [writeHuffmanTreeWith] using hrt
  have hkt : kraftSum 15 (trimTrailingZeros d) = 32768 := by rw [kraftSum_trim]; exact hk
  have hne : trimTrailingZeros d ≠ [] := by
    intro h; rw [h] at hkt; simp [kraftSum] at hkt
  have hwl := writeLoop_length useNZ useZ _ (trimTrailingZeros d) rfl (by unfold u64; omega) 8
  have hElen : (writeHuffmanTreeWith useNZ useZ d).length ≤ d.length := by
    unfold writeHuffmanTreeWith; omega
  have hwf : WF ⟨[], 8, none⟩ := fun v c h => by simp at h
  have hpre := prefix_conditions (writeHuffmanTreeWith useNZ useZ d) ⟨[], 8, none⟩ hwf d.length
    (by rw [hout]; exact hne)
    (by
      have := trim_last d hne
      simpa [hout] using this)
    (by rw [hout]; intro x hx; have := hd' x hx; omega)
    (by rw [hout]; exact hl) (by rw [hout]; exact hkt)
  have := readEntriesU hc d.length (writeHuffmanTreeWith useNZ useZ d) ⟨[], 8, none⟩
    (d.length + 1) rest hvalid (by omega) hpre (by rw [hout]; exact hl) (by rw [hout]; exact hkt)
  rw [this, hout, trim_pad]

theorem trim_getD (d : List Nat) (i : Nat) (h : i < (trimTrailingZeros d).length) :
    (trimTrailingZeros d).getD i 0 = d.getD i 0 := by
  conv => rhs; rw [← trim_pad d]
  rw [List.getD_eq_getElem?_getD, List.getD_eq_getElem?_getD, List.getElem?_append_left h]

/-- a vector that is zero from `A` on has its non-zero part within `A` -/
theorem trim_length_le_of_zeros (d : List Nat) (A : Nat)
    (hz : ∀ i, A ≤ i → i < d.length → d.getD i 0 = 0) : (trimTrailingZeros d).length ≤ A := by
  by_cases hne : trimTrailingZeros d = []
  · rw [hne]; exact Nat.zero_le _
  · by_cases hle : (trimTrailingZeros d).length ≤ A
    · exact hle
    · exfalso
      have hlast := trim_last d hne
      have hl := trim_length_le d
      have hpos : 0 < (trimTrailingZeros d).length := List.length_pos_iff.mpr hne
      have hg := trim_getD d ((trimTrailingZeros d).length - 1) (by omega)
      rw [hz _ (by omega) (by omega)] at hg
      apply hlast
      rw [List.getLast_eq_getElem]
      have : (trimTrailingZeros d).getD ((trimTrailingZeros d).length - 1) 0
          = (trimTrailingZeros d)[(trimTrailingZeros d).length - 1]'(by omega) := by
        rw [List.getD_eq_getElem?_getD, List.getElem?_eq_getElem (by omega)]; rfl
      rw [← this]; exact hg

theorem trim_take (d : List Nat) (A : Nat) (hA : A ≤ d.length)
    (hz : ∀ i, A ≤ i → i < d.length → d.getD i 0 = 0) :
    trimTrailingZeros d ++ List.replicate (A - (trimTrailingZeros d).length) 0 = d.take A := by
  have hle := trim_length_le_of_zeros d A hz
  have hl := trim_length_le d
  conv => rhs; rw [← trim_pad d]
  rw [List.take_append, List.take_of_length_le hle, List.take_replicate]
  congr 2
  omega

/-- entry-level round trip read with an alphabet size `A` that may be smaller than
the vector (whose entries from `A` on are zero) -/
theorem store_entries_roundtripA {clW clR clBits : List Nat} {symBits : Nat → List Bool}
    {used : Nat → Prop} (hc : SymIO clW clR clBits symBits used) (d : List Nat) (A : Nat)
    (hd : ∀ x ∈ d, x ≤ 15) (hlen : d.length < 2 ^ 64) (hk : kraftSum 15 d = 32768)
    (hA : A ≤ d.length) (hz : ∀ i, A ≤ i → i < d.length → d.getD i 0 = 0)
    (useNZ useZ : Bool)
    (hvalid : ∀ e ∈ writeHuffmanTreeWith useNZ useZ d, ValidEntryU used e) (w rest : List Bool) :
    storeHuffmanTreeToBitMask clW clBits (writeHuffmanTreeWith useNZ useZ d) w
        = .ok (w ++ ((writeHuffmanTreeWith useNZ useZ d).map (entryBitsU symBits)).flatten) ∧
      readLensGo clR A (A + 1) ⟨[], 8, none⟩
        (((writeHuffmanTreeWith useNZ useZ d).map (entryBitsU symBits)).flatten ++ rest)
        = some (d.take A, rest) := by
  refine ⟨storeEntriesU hc _ w hvalid, ?_⟩
  have hd' : ∀ x ∈ trimTrailingZeros d, x < 16 :=
    trim_lt d (fun x hx => Nat.lt_succ_of_le (hd x hx))
  have hl := trim_length_le d
  have hlA := trim_length_le_of_zeros d A hz
  have hrt := writeLoop_roundtrip useNZ useZ _ (trimTrailingZeros d) rfl
    (by unfold u64; omega) hd' 8 ⟨[], 8, none⟩ rfl (by intro x _; rfl)
  have hout : (run ⟨[], 8, none⟩ (writeHuffmanTreeWith useNZ useZ d)).out = trimTrailingZeros d := by
    simpa [writeHuffmanTreeWith] using hrt
  have hkt : kraftSum 15 (trimTrailingZeros d) = 32768 := by rw [kraftSum_trim]; exact hk
  have hne : trimTrailingZeros d ≠ [] := by
    intro h; rw [h] at hkt; simp [kraftSum] at hkt
  have hwl := writeLoop_length useNZ useZ _ (trimTrailingZeros d) rfl (by unfold u64; omega) 8
  have hElen : (writeHuffmanTreeWith useNZ useZ d).length ≤ A := by
    unfold writeHuffmanTreeWith; omega
  have hwf : WF ⟨[], 8, none⟩ := fun v c h => by simp at h
  have hpre := prefix_conditions (writeHuffmanTreeWith useNZ useZ d) ⟨[], 8, none⟩ hwf A
    (by rw [hout]; exact hne)
    (by
      have := trim_last d hne
      simpa [hout] using this)
    (by rw [hout]; intro x hx; have := hd' x hx; omega)
    (by rw [hout]; exact hlA) (by rw [hout]; exact hkt)
  have := readEntriesU hc A (writeHuffmanTreeWith useNZ useZ d) ⟨[], 8, none⟩
    (A + 1) rest hvalid (by omega) hpre (by rw [hout]; exact hlA) (by rw [hout]; exact hkt)
  rw [this, hout, trim_take d A hA hz]

/-- the ordinary code-length code as a symbol I/O -/
theorem symIO_of_clCode (cl clBits : List Nat) (hc : ClCode cl clBits) :
    SymIO cl cl clBits (fun s => bitsOf (cl.getD s 0) (clBits.getD s 0))
      (fun s => cl.getD s 0 ≠ 0) :=
  { hlenW := hc.hlen, hlenB := hc.hblen,
    hw := by
      intro s w h18 hused
      have hmem : cl.getD s 0 ∈ cl := by
        rw [List.getD_eq_getElem?_getD, List.getElem?_eq_getElem (by rw [hc.hlen]; exact h18)]; simp
      have hl15 := hc.hall _ hmem
      apply writeBits_ok _ _ w _ (by omega)
      rw [hc.hbits s h18 hused, reverseBits_eq _ _ (by omega) (by omega)]
      exact revSpec_lt _ _,
    hr := by
      intro s rest h18 hused
      have := readSym_spec cl s rest (by rw [hc.hlen]; exact h18) hc.hall hc.hk hused hc.h2
      rw [← hc.hbits s h18 hused] at this
      exact this }

end BV.Lemmas.HuffmanStoreIO
