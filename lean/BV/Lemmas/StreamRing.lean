import BV.Lemmas.StreamRunClosed
/-
Ring-buffer CONTENT: what `RingBufferInitBuffer` / `RingBufferWriteTail` / `RingBufferWrite` /
`copy_input_to_ring_buffer` leave in `data_mo` — the 2-byte prefix, the data, the tail mirror and
the 7 bytes of slack — and the invariant `RingOK`: every position within the last `size_` bytes
lives at its offset modulo `size_`, wrapped positions are mirrored in the tail, through every lap
and across the position fold.
-/
namespace BV.Stream
open BV.Bits

theorem cellsGet_write (cells : List (Nat × Nat)) (bs : Bytes) : ∀ (start i : Nat),
    cellsGet (cellsWrite cells start bs) i =
      if start ≤ i ∧ i < start + bs.length then bs.getD (i - start) 0 else cellsGet cells i := by
  induction bs with
  | nil =>
    intro start i
    simp only [cellsWrite, List.length_nil, Nat.add_zero]
    rw [if_neg (by omega)]
  | cons b rest ih =>
    intro start i
    simp only [cellsWrite, cellsGet, List.length_cons]
    by_cases h0 : start = i
    · subst h0
      rw [if_pos rfl, if_pos ⟨Nat.le_refl _, by omega⟩]
      simp
    · rw [if_neg h0, ih]
      by_cases h1 : start + 1 ≤ i ∧ i < start + 1 + rest.length
      · rw [if_pos h1, if_pos ⟨by omega, by omega⟩]
        have : i - start = (i - (start + 1)) + 1 := by omega
        rw [this, List.getD_cons_succ]
      · rw [if_neg h1, if_neg (by omega)]

/-- position arithmetic: a step forward inside / across the end of the ring -/
theorem mod_fwd {P size mp j : Nat} (hs : 0 < size) (hmp : P % size = mp) (hj : mp + j < 2 * size) :
    (P + j) % size = if mp + j < size then mp + j else mp + j - size := by
  have e : (P + j) % size = (P % size + j) % size := (Nat.mod_add_mod P size j).symm
  rw [e, hmp]
  split
  · rename_i h; exact Nat.mod_eq_of_lt h
  · rename_i h
    have h1 : size ≤ mp + j := by omega
    rw [Nat.mod_eq_sub_mod h1, Nat.mod_eq_of_lt (by omega)]

/-- position arithmetic: a step back of at most one ring -/
theorem mod_back {P size mp d : Nat} (hs : 0 < size) (hmp : P % size = mp) (hd : d ≤ P) (hds : d ≤ size) :
    (P - d) % size = if d ≤ mp then mp - d else mp + size - d := by
  have hP : P = size * (P / size) + mp := by rw [← hmp]; exact (Nat.div_add_mod P size).symm
  have hlt : mp < size := by rw [← hmp]; exact Nat.mod_lt _ hs
  generalize P / size = q at hP
  split
  · rename_i h
    have : P - d = size * q + (mp - d) := by omega
    rw [this, Nat.mul_add_mod, Nat.mod_eq_of_lt (by omega)]
  · rename_i h
    cases q with
    | zero => simp at hP; omega
    | succ q' =>
      have e1 : size * (q' + 1) = size * q' + size := by rw [Nat.mul_add, Nat.mul_one]
      have : P - d = size * q' + (mp + size - d) := by omega
      rw [this, Nat.mul_add_mod, Nat.mod_eq_of_lt (by omega)]

theorem getD_take {bs : Bytes} {m j : Nat} (h : j < m) : (bs.take m).getD j 0 = bs.getD j 0 := by
  simp only [List.getD_eq_getElem?_getD, List.getElem?_take, if_pos h]

theorem getD_drop_take {bs : Bytes} {a b j : Nat} (h : j < b) : ((bs.drop a).take b).getD j 0 = bs.getD (a + j) 0 := by
  simp only [List.getD_eq_getElem?_getD, List.getElem?_take, if_pos h, List.getElem?_drop]

/-- which cells `RingBufferWrite` leaves alone (indices from 2 on) -/
def Untouched (size tail mp n i : Nat) : Prop :=
  ¬ (2 + mp ≤ i ∧ i < 2 + mp + n) ∧ ¬ (size < mp + n ∧ i < 2 + (mp + n - size))
  ∧ ¬ (mp < tail ∧ 2 + size + mp ≤ i ∧ i < 2 + size + mp + min n (tail - mp))

/-- the content after one `RingBufferWrite` (tail mirror, body, prefix), cell by cell -/
theorem ringWriteCells_spec (rb : Ring) (bytes : Bytes) (hmask : rb.mask + 1 = rb.size)
    (htot : rb.totalSize = rb.size + rb.tailSize) (ht : 2 * rb.tailSize ≤ rb.size) (hn : bytes.length ≤ rb.tailSize)
    (hs4 : 4 ≤ rb.size) :
    (∀ i, 2 ≤ i → Untouched rb.size rb.tailSize (rb.pos % rb.size) bytes.length i →
        cellsGet (ringWriteCells rb bytes) i = cellsGet rb.cells i)
    ∧ (∀ j, j < bytes.length →
        cellsGet (ringWriteCells rb bytes) (2 + (if rb.pos % rb.size + j < rb.size then rb.pos % rb.size + j else rb.pos % rb.size + j - rb.size))
          = bytes.getD j 0)
    ∧ (∀ j, j < bytes.length → (rb.size ≤ rb.pos % rb.size + j ∨ rb.pos % rb.size + j < rb.tailSize) →
        cellsGet (ringWriteCells rb bytes) (2 + rb.size + (if rb.pos % rb.size + j < rb.size then rb.pos % rb.size + j else rb.pos % rb.size + j - rb.size))
          = bytes.getD j 0)
    ∧ cellsGet (ringWriteCells rb bytes) 0 = cellsGet (ringWriteCells rb bytes) (2 + rb.size - 2)
    ∧ cellsGet (ringWriteCells rb bytes) 1 = cellsGet (ringWriteCells rb bytes) (2 + rb.size - 1) := by
  have hmp : rb.pos % rb.size < rb.size := Nat.mod_lt _ (by omega)
  unfold ringWriteCells
  rw [hmask, htot]
  generalize rb.pos % rb.size = mp at *
  generalize hnn : bytes.length = n at *
  generalize rb.size = size at *
  generalize rb.tailSize = tail at *
  generalize rb.cells = c0 at *
  simp only
  -- the content after the tail-mirror write
  have hc1 : ∀ i, cellsGet (if mp < tail then cellsWrite c0 (2 + size + mp) (bytes.take (min n (tail - mp))) else c0) i =
      if mp < tail ∧ 2 + size + mp ≤ i ∧ i < 2 + size + mp + min n (tail - mp) then bytes.getD (i - (2 + size + mp)) 0 else cellsGet c0 i := by
    intro i
    by_cases hm : mp < tail
    · rw [if_pos hm, cellsGet_write, List.length_take, hnn]
      have hmin : min (min n (tail - mp)) n = min n (tail - mp) := by omega
      rw [hmin]
      by_cases hr : 2 + size + mp ≤ i ∧ i < 2 + size + mp + min n (tail - mp)
      · have hr' : mp < tail ∧ 2 + size + mp ≤ i ∧ i < 2 + size + mp + min n (tail - mp) := ⟨hm, hr⟩
        rw [if_pos hr, if_pos hr', getD_take (by omega)]
      · have hr' : ¬ (mp < tail ∧ 2 + size + mp ≤ i ∧ i < 2 + size + mp + min n (tail - mp)) := fun hh => hr hh.2
        rw [if_neg hr, if_neg hr']
    · have hr' : ¬ (mp < tail ∧ 2 + size + mp ≤ i ∧ i < 2 + size + mp + min n (tail - mp)) := fun hh => hm hh.1
      rw [if_neg hm, if_neg hr']
  generalize (if mp < tail then cellsWrite c0 (2 + size + mp) (bytes.take (min n (tail - mp))) else c0) = c1 at hc1
  -- the content after the body write(s)
  have hc2 : ∀ i, cellsGet (if mp + n ≤ size then cellsWrite c1 (2 + mp) bytes
        else cellsWrite (cellsWrite c1 (2 + mp) (bytes.take (min n (size + tail - mp)))) 2 ((bytes.drop (size - mp)).take (n - (size - mp)))) i =
      if size < mp + n ∧ 2 ≤ i ∧ i < 2 + (mp + n - size) then bytes.getD (size - mp + (i - 2)) 0
      else if 2 + mp ≤ i ∧ i < 2 + mp + n then bytes.getD (i - (2 + mp)) 0 else cellsGet c1 i := by
    intro i
    by_cases hw : mp + n ≤ size
    · have hnw : ¬ (size < mp + n ∧ 2 ≤ i ∧ i < 2 + (mp + n - size)) := by omega
      rw [if_pos hw, cellsGet_write, hnn, if_neg hnw]
    · rw [if_neg hw, cellsGet_write, cellsGet_write]
      have hl1 : ((bytes.drop (size - mp)).take (n - (size - mp))).length = n - (size - mp) := by
        rw [List.length_take, List.length_drop, hnn]; omega
      have hl2 : (bytes.take (min n (size + tail - mp))).length = n := by
        rw [List.length_take, hnn]; omega
      rw [hl1, hl2]
      by_cases hr : 2 ≤ i ∧ i < 2 + (n - (size - mp))
      · have hr' : size < mp + n ∧ 2 ≤ i ∧ i < 2 + (mp + n - size) := ⟨by omega, hr.1, by omega⟩
        rw [if_pos hr, if_pos hr', getD_drop_take (by omega)]
      · have hr' : ¬ (size < mp + n ∧ 2 ≤ i ∧ i < 2 + (mp + n - size)) := by omega
        rw [if_neg hr, if_neg hr']
        by_cases hr2 : 2 + mp ≤ i ∧ i < 2 + mp + n
        · rw [if_pos hr2, if_pos hr2, getD_take (by omega)]
        · rw [if_neg hr2, if_neg hr2]
  generalize (if mp + n ≤ size then cellsWrite c1 (2 + mp) bytes
        else cellsWrite (cellsWrite c1 (2 + mp) (bytes.take (min n (size + tail - mp)))) 2 ((bytes.drop (size - mp)).take (n - (size - mp)))) = c2 at hc2
  -- the prefix mirror only touches cells 0 and 1
  have hc3 : ∀ i, 2 ≤ i → cellsGet (cellsWrite (cellsWrite c2 0 [cellsGet c2 (2 + size - 2)]) 1 [cellsGet c2 (2 + size - 1)]) i = cellsGet c2 i := by
    intro i hi
    rw [cellsGet_write, cellsGet_write]
    simp only [List.length_cons, List.length_nil]
    have h1 : ¬ (1 ≤ i ∧ i < 1 + (0 + 1)) := by omega
    have h0 : ¬ (0 ≤ i ∧ i < 0 + (0 + 1)) := by omega
    rw [if_neg h1, if_neg h0]
  refine ⟨?_, ?_, ?_, ?_, ?_⟩
  · intro i hi hu
    obtain ⟨u1, u2, u3⟩ := hu
    have u2' : ¬ (size < mp + n ∧ 2 ≤ i ∧ i < 2 + (mp + n - size)) := fun hh => u2 ⟨hh.1, hh.2.2⟩
    rw [hc3 i hi, hc2, if_neg u2', if_neg u1, hc1, if_neg u3]
  · intro j hj
    by_cases hlt : mp + j < size
    · have a1 : ¬ (size < mp + n ∧ 2 ≤ 2 + (mp + j) ∧ 2 + (mp + j) < 2 + (mp + n - size)) := by omega
      have a2 : 2 + mp ≤ 2 + (mp + j) ∧ 2 + (mp + j) < 2 + mp + n := by omega
      rw [if_pos hlt, hc3 _ (by omega), hc2, if_neg a1, if_pos a2]
      congr 1; omega
    · have a1 : size < mp + n ∧ 2 ≤ 2 + (mp + j - size) ∧ 2 + (mp + j - size) < 2 + (mp + n - size) := by omega
      rw [if_neg hlt, hc3 _ (by omega), hc2, if_pos a1]
      congr 1; omega
  · intro j hj hcase
    by_cases hlt : mp + j < size
    · -- mirrored by the tail write
      have hmt : mp + j < tail := by rcases hcase with h | h <;> omega
      have a1 : ¬ (size < mp + n ∧ 2 ≤ 2 + size + (mp + j) ∧ 2 + size + (mp + j) < 2 + (mp + n - size)) := by omega
      have a2 : ¬ (2 + mp ≤ 2 + size + (mp + j) ∧ 2 + size + (mp + j) < 2 + mp + n) := by omega
      have a3 : mp < tail ∧ 2 + size + mp ≤ 2 + size + (mp + j) ∧ 2 + size + (mp + j) < 2 + size + mp + min n (tail - mp) := by omega
      rw [if_pos hlt, hc3 _ (by omega), hc2, if_neg a1, if_neg a2, hc1, if_pos a3]
      congr 1; omega
    · -- the wrapping write runs into the tail
      have a1 : ¬ (size < mp + n ∧ 2 ≤ 2 + size + (mp + j - size) ∧ 2 + size + (mp + j - size) < 2 + (mp + n - size)) := by omega
      have a2 : 2 + mp ≤ 2 + size + (mp + j - size) ∧ 2 + size + (mp + j - size) < 2 + mp + n := by omega
      rw [if_neg hlt, hc3 _ (by omega), hc2, if_neg a1, if_pos a2]
      congr 1; omega
  · rw [cellsGet_write, cellsGet_write, hc3 _ (by omega)]
    simp
  · rw [cellsGet_write, hc3 _ (by omega)]
    simp

theorem or_pow_eq_add {x k : Nat} (h : x < 2 ^ k) : x ||| 2 ^ k = 2 ^ k + x := by
  have := Nat.two_pow_add_eq_or_of_lt h 1
  rw [Nat.mul_one] at this
  rw [Nat.or_comm, ← this]

/-- geometry of the ring buffer after `RingBufferSetup` -/
structure RingGeom (rb : Ring) : Prop where
  mask : rb.mask + 1 = rb.size
  total : rb.totalSize = rb.size + rb.tailSize
  tail : 2 * rb.tailSize ≤ rb.size
  pow : ∃ k, rb.size = 2 ^ k ∧ 2 ≤ k ∧ k ≤ 31

/-- the lap length of the position fold -/
def Ring.lap (rb : Ring) : Nat := max 1073741824 rb.size

theorem RingGeom.lap_facts {rb : Ring} (g : RingGeom rb) :
    (∃ j, rb.lap = 2 ^ j) ∧ rb.size ∣ rb.lap ∧ rb.size ≤ rb.lap ∧ 1073741824 ≤ rb.lap ∧ rb.lap ≤ 2147483648 ∧ 4 ≤ rb.size := by
  obtain ⟨k, hk, h2, h31⟩ := g.pow
  unfold Ring.lap
  have h30 : (1073741824 : Nat) = 2 ^ 30 := by decide
  have h31' : (2147483648 : Nat) = 2 ^ 31 := by decide
  have hs4 : 4 ≤ rb.size := by
    rw [hk]
    have : 2 ^ 2 ≤ 2 ^ k := Nat.pow_le_pow_right (by omega) h2
    simpa using this
  by_cases hle : k ≤ 30
  · have hsz : rb.size ≤ 1073741824 := by rw [hk, h30]; exact Nat.pow_le_pow_right (by omega) hle
    rw [Nat.max_eq_left hsz]
    refine ⟨⟨30, h30⟩, ?_, hsz, Nat.le_refl _, by omega, hs4⟩
    rw [hk, h30]
    exact Nat.pow_dvd_pow 2 hle
  · have hk31 : k = 31 := by omega
    subst hk31
    have hsz : rb.size = 2147483648 := by rw [hk, h31']
    rw [hsz]
    refine ⟨⟨31, by decide⟩, by decide, by decide, by decide, by decide, by omega⟩


/-- the position fold of `RingBufferWrite` keeps `pos_` equal to the stream position up to one lap,
and congruent to it modulo the lap (hence modulo `size_`) and above the first lap afterwards -/
theorem fold_pos {lap pos n P : Nat} (hl : ∃ j, lap = 2 ^ j) (h30 : 1073741824 ≤ lap) (h31 : lap ≤ 2147483648)
    (hn : n ≤ 1073741824)
    (hS : P ≤ lap → pos = P) (hB : lap < P → lap ≤ pos ∧ pos < 2 * lap ∧ pos % lap = P % lap) :
    (P + n ≤ lap → (if (pos + n) % two64 > lap then (((pos + n) % two64 % lap) ||| lap) % two32 else (pos + n) % two64 % two32) = P + n)
    ∧ (lap < P + n →
        lap ≤ (if (pos + n) % two64 > lap then (((pos + n) % two64 % lap) ||| lap) % two32 else (pos + n) % two64 % two32)
        ∧ (if (pos + n) % two64 > lap then (((pos + n) % two64 % lap) ||| lap) % two32 else (pos + n) % two64 % two32) < 2 * lap
        ∧ (if (pos + n) % two64 > lap then (((pos + n) % two64 % lap) ||| lap) % two32 else (pos + n) % two64 % two32) % lap = (P + n) % lap) := by
  obtain ⟨j, hj⟩ := hl
  have hlpos : 0 < lap := by omega
  have hposlt : pos < 2 * lap := by
    by_cases hc : P ≤ lap
    · rw [hS hc]; omega
    · exact (hB (by omega)).2.1
  have hp64 : (pos + n) % two64 = pos + n := Nat.mod_eq_of_lt (by unfold two64; omega)
  rw [hp64]
  have hor : ∀ x, x < lap → (x ||| lap) % two32 = lap + x := by
    intro x hx
    rw [hj] at hx ⊢
    rw [or_pow_eq_add hx]
    apply Nat.mod_eq_of_lt
    rw [← hj]; unfold two32; omega
  have hmodlt : (pos + n) % lap < lap := Nat.mod_lt _ hlpos
  have hcong : (pos + n) % lap = (P + n) % lap := by
    by_cases hc : P ≤ lap
    · rw [hS hc]
    · have := (hB (by omega)).2.2
      rw [Nat.add_mod, this, ← Nat.add_mod]
  constructor
  · intro hle
    have hPle : P ≤ lap := by omega
    have hpe := hS hPle
    rw [hpe, if_neg (by omega)]
    apply Nat.mod_eq_of_lt
    unfold two32; omega
  · intro hgt
    by_cases hbig : pos + n > lap
    · rw [if_pos hbig, hor _ hmodlt]
      refine ⟨by omega, by omega, ?_⟩
      rw [Nat.add_mod_left, Nat.mod_mod, hcong]
    · -- `pos + n = lap` exactly: nothing written past the lap boundary yet
      rw [if_neg hbig]
      have hPgt : lap < P := by
        by_cases hc : P ≤ lap
        · have := hS hc; omega
        · omega
      obtain ⟨b1, b2, b3⟩ := hB hPgt
      have hpe : pos + n = lap := by omega
      have hmod32 : (pos + n) % two32 = pos + n := Nat.mod_eq_of_lt (by unfold two32; omega)
      rw [hmod32]
      refine ⟨by omega, by omega, hcong⟩


/-- **the ring-buffer invariant**: `input` = every byte written so far -/
structure RingOK (rb : Ring) (input : Bytes) : Prop where
  geom : RingGeom rb
  posSmall : input.length ≤ rb.lap → rb.pos = input.length
  posBig : rb.lap < input.length → rb.lap ≤ rb.pos ∧ rb.pos < 2 * rb.lap ∧ rb.pos % rb.lap = input.length % rb.lap
  alloc : rb.curSize = rb.totalSize ∨ (rb.curSize = input.length ∧ input.length < rb.tailSize)
  main : ∀ p, p < input.length → input.length - p ≤ rb.size → rb.get (2 + p % rb.size) = input.getD p 0
  mirror : ∀ p, p < input.length → rb.size ≤ p → input.length - p ≤ rb.size → p % rb.size < rb.tailSize →
    rb.get (2 + rb.size + p % rb.size) = input.getD p 0

theorem RingOK.pos_mod {rb : Ring} {input : Bytes} (h : RingOK rb input) : rb.pos % rb.size = input.length % rb.size := by
  obtain ⟨_, hd, _⟩ := h.geom.lap_facts
  by_cases hc : input.length ≤ rb.lap
  · rw [h.posSmall hc]
  · have := (h.posBig (by omega)).2.2
    rw [← Nat.mod_mod_of_dvd rb.pos hd, this, Nat.mod_mod_of_dvd _ hd]

theorem RingOK.pos_zero {rb : Ring} {input : Bytes} (h : RingOK rb input) (h0 : rb.pos = 0) : input = [] := by
  obtain ⟨_, _, _, h30, _⟩ := h.geom.lap_facts
  by_cases hc : input.length ≤ rb.lap
  · have := h.posSmall hc
    rw [h0] at this
    exact List.eq_nil_of_length_eq_zero this.symm
  · have := (h.posBig (by omega)).1
    omega

/-- cells of `RingBufferInitBuffer`: only the prefix and the new slack are (re)written -/
theorem initBuffer_get {rb rb' : Ring} {buflen : Nat} (h : ringInitBuffer rb buflen = .ok rb') :
    rb'.curSize = buflen ∧ rb'.size = rb.size ∧ rb'.mask = rb.mask ∧ rb'.tailSize = rb.tailSize ∧ rb'.totalSize = rb.totalSize
    ∧ rb'.pos = rb.pos
    ∧ ∀ i, 2 ≤ i → ¬ (2 + buflen ≤ i ∧ i < 2 + buflen + 7) → rb'.get i = rb.get i := by
  unfold ringInitBuffer at h
  simp only at h
  split at h
  · simp at h
  · split at h
    · simp at h
    · simp only [Out.ok.injEq] at h
      subst h
      refine ⟨rfl, rfl, rfl, rfl, rfl, rfl, ?_⟩
      intro i hi hni
      unfold Ring.get
      simp only
      rw [cellsGet_write, cellsGet_write]
      simp only [List.length_replicate, List.length_cons, List.length_nil]
      have a1 : ¬ (2 + buflen ≤ i ∧ i < 2 + buflen + 7) := hni
      have a2 : ¬ (0 ≤ i ∧ i < 0 + (0 + 1 + 1)) := by omega
      rw [if_neg a1, if_neg a2]


theorem getD_app_left {a b : Bytes} {i : Nat} (h : i < a.length) : (a ++ b).getD i 0 = a.getD i 0 := by
  simp only [List.getD_eq_getElem?_getD, List.getElem?_append_left h]

theorem getD_app_right {a b : Bytes} {i : Nat} (h : a.length ≤ i) : (a ++ b).getD i 0 = b.getD (i - a.length) 0 := by
  simp only [List.getD_eq_getElem?_getD, List.getElem?_append_right h]

/-- the content claims after the write proper (tail mirror, body, prefix), given them before -/
theorem write_content {rb : Ring} {input bytes : Bytes} (g : RingGeom rb)
    (hposm : rb.pos % rb.size = input.length % rb.size) (hn : bytes.length ≤ rb.tailSize)
    (hmain : ∀ p, p < input.length → input.length - p ≤ rb.size → cellsGet rb.cells (2 + p % rb.size) = input.getD p 0)
    (hmir : ∀ p, p < input.length → rb.size ≤ p → input.length - p ≤ rb.size → p % rb.size < rb.tailSize →
      cellsGet rb.cells (2 + rb.size + p % rb.size) = input.getD p 0) :
    (∀ p, p < (input ++ bytes).length → (input ++ bytes).length - p ≤ rb.size →
      cellsGet (ringWriteCells rb bytes) (2 + p % rb.size) = (input ++ bytes).getD p 0)
    ∧ (∀ p, p < (input ++ bytes).length → rb.size ≤ p → (input ++ bytes).length - p ≤ rb.size → p % rb.size < rb.tailSize →
      cellsGet (ringWriteCells rb bytes) (2 + rb.size + p % rb.size) = (input ++ bytes).getD p 0) := by
  obtain ⟨_, _, _, _, _, hs4⟩ := g.lap_facts
  obtain ⟨sp1, sp2, sp3, _, _⟩ := ringWriteCells_spec rb bytes g.mask g.total g.tail hn hs4
  have hspos : 0 < rb.size := by omega
  have hmplt : rb.pos % rb.size < rb.size := Nat.mod_lt _ hspos
  have htail := g.tail
  rw [List.length_append]
  generalize hP : input.length = P at *
  generalize hN : bytes.length = n at *
  generalize hmp : rb.pos % rb.size = mp at *
  generalize rb.size = size at *
  generalize rb.tailSize = tail at *
  have hPm : P % size = mp := hposm.symm
  constructor
  · intro p hp hwin
    by_cases hold : p < P
    · -- an older position: its cell is not touched
      have hd : P - p ≤ size := by omega
      have hb := mod_back (d := P - p) hspos hPm (by omega) hd
      have hpe : P - (P - p) = p := by omega
      rw [hpe] at hb
      rw [getD_app_left (by rw [hP]; exact hold), ← hmain p hold hd, hb]
      apply sp1
      · omega
      · unfold Untouched
        split <;> omega
    · -- a byte of this write
      have hj : p - P < n := by omega
      have hf := mod_fwd (j := p - P) hspos hPm (by omega)
      have hpe : P + (p - P) = p := by omega
      rw [hpe] at hf
      rw [getD_app_right (by rw [hP]; omega), hP, hf]
      exact sp2 (p - P) hj
  · intro p hp hps hwin hr
    by_cases hold : p < P
    · have hd : P - p ≤ size := by omega
      have hb := mod_back (d := P - p) hspos hPm (by omega) hd
      have hpe : P - (P - p) = p := by omega
      rw [hpe] at hb
      have hr' := hr
      rw [hb] at hr'
      rw [getD_app_left (by rw [hP]; exact hold), ← hmir p hold hps hd hr, hb]
      apply sp1
      · omega
      · unfold Untouched
        split at hr' <;> split <;> omega
    · have hj : p - P < n := by omega
      have hf := mod_fwd (j := p - P) hspos hPm (by omega)
      have hpe : P + (p - P) = p := by omega
      rw [hpe] at hf
      have hr' := hr
      rw [hf] at hr'
      rw [getD_app_right (by rw [hP]; omega), hP, hf]
      apply sp3 (p - P) hj
      split at hr' <;> omega


theorem geom_of_eq {rb rb' : Ring} (g : RingGeom rb) (h1 : rb'.size = rb.size) (h2 : rb'.mask = rb.mask)
    (h3 : rb'.tailSize = rb.tailSize) (h4 : rb'.totalSize = rb.totalSize) : RingGeom rb' := by
  refine ⟨by rw [h1, h2]; exact g.mask, by rw [h4, h1, h3]; exact g.total, by rw [h3, h1]; exact g.tail, ?_⟩
  rw [h1]; exact g.pow

theorem lap_of_eq {rb rb' : Ring} (h1 : rb'.size = rb.size) : rb'.lap = rb.lap := by
  unfold Ring.lap; rw [h1]

/-- the growth step keeps the geometry and the content claims, and leaves the full-size buffer -/
theorem ringGrow_ok {rb rbg : Ring} {input : Bytes} (hR : RingOK rb input) (hg : ringGrow rb = .ok rbg) :
    rbg.size = rb.size ∧ rbg.mask = rb.mask ∧ rbg.tailSize = rb.tailSize ∧ rbg.totalSize = rb.totalSize ∧ rbg.pos = rb.pos
    ∧ rbg.curSize = rbg.totalSize
    ∧ (∀ p, p < input.length → input.length - p ≤ rb.size → rbg.get (2 + p % rb.size) = input.getD p 0)
    ∧ (∀ p, p < input.length → rb.size ≤ p → input.length - p ≤ rb.size → p % rb.size < rb.tailSize →
        rbg.get (2 + rb.size + p % rb.size) = input.getD p 0) := by
  have g := hR.geom
  obtain ⟨_, _, _, _, _, hs4⟩ := g.lap_facts
  have htail := g.tail
  have htot := g.total
  unfold ringGrow at hg
  split at hg
  · rename_i hlt
    have hsmall : rb.curSize = input.length ∧ input.length < rb.tailSize := by
      rcases hR.alloc with ha | ha
      · omega
      · exact ha
    split at hg
    · rename_i rbi hinit
      split at hg
      · simp at hg
      · simp only [Out.ok.injEq] at hg
        subst hg
        obtain ⟨i1, i2, i3, i4, i5, i6, i7⟩ := initBuffer_get hinit
        refine ⟨i2, i3, i4, i5, i6, by show rbi.curSize = rbi.totalSize; rw [i1, i5], ?_, ?_⟩
        · intro p hp hw
          have hps : p % rb.size = p := Nat.mod_eq_of_lt (by omega)
          rw [hps]
          show cellsGet (cellsWrite rbi.cells (2 + rbi.size - 2) [0, 0]) (2 + p) = _
          rw [cellsGet_write]
          simp only [List.length_cons, List.length_nil]
          have a1 : ¬ (2 + rbi.size - 2 ≤ 2 + p ∧ 2 + p < 2 + rbi.size - 2 + (0 + 1 + 1)) := by rw [i2]; omega
          rw [if_neg a1]
          have := i7 (2 + p) (by omega) (by omega)
          unfold Ring.get at this
          rw [this]
          have hm := hR.main p hp hw
          rw [hps] at hm
          exact hm
        · intro p hp hps _ _
          omega
    · rename_i hno
      exact absurd hg (hno _)
  · rename_i hge
    simp only [Out.ok.injEq] at hg
    subst hg
    have hfull : rb.curSize = rb.totalSize := by
      rcases hR.alloc with ha | ha
      · exact ha
      · omega
    exact ⟨rfl, rfl, rfl, rfl, rfl, hfull, hR.main, hR.mirror⟩

/-- the write proper on the full-size buffer -/
theorem ringWriteMain_ok {rb rbg rb' : Ring} {input bytes : Bytes} {avail : Nat} (hR : RingOK rb input)
    (hG : rbg.size = rb.size ∧ rbg.mask = rb.mask ∧ rbg.tailSize = rb.tailSize ∧ rbg.totalSize = rb.totalSize ∧ rbg.pos = rb.pos
      ∧ rbg.curSize = rbg.totalSize
      ∧ (∀ p, p < input.length → input.length - p ≤ rb.size → rbg.get (2 + p % rb.size) = input.getD p 0)
      ∧ (∀ p, p < input.length → rb.size ≤ p → input.length - p ≤ rb.size → p % rb.size < rb.tailSize →
          rbg.get (2 + rb.size + p % rb.size) = input.getD p 0))
    (hn : bytes.length ≤ rb.tailSize) (h : ringWriteMain rbg bytes avail = .ok rb') : RingOK rb' (input ++ bytes) := by
  have g := hR.geom
  obtain ⟨hlp, hdvd, hsl, h30, h31, hs4⟩ := g.lap_facts
  have htail := g.tail
  obtain ⟨e1, e2, e3, e4, e5, e6, hmain, hmir⟩ := hG
  have hres : rb' = { rbg with pos := ringPosAfter rbg bytes.length, cells := ringWriteCells rbg bytes } := by
    unfold ringWriteMain at h
    simp only at h
    split_all h
    all_goals first
      | (simp at h; done)
      | (simp only [Out.ok.injEq] at h; exact h.symm)
  subst hres
  have gg : RingGeom rbg := geom_of_eq g e1 e2 e3 e4
  have hposm : rbg.pos % rbg.size = input.length % rbg.size := by rw [e5, e1]; exact hR.pos_mod
  have hn' : bytes.length ≤ rbg.tailSize := by rw [e3]; exact hn
  obtain ⟨w1, w2⟩ := write_content (input := input) gg hposm hn'
    (by intro p hp hw; rw [e1] at hw ⊢; exact hmain p hp hw)
    (by intro p hp hps hw hr; rw [e1] at hps hw ⊢; rw [e1, e3] at hr; exact hmir p hp hps hw hr)
  have hfold := fold_pos (lap := rb.lap) (pos := rb.pos) (n := bytes.length) (P := input.length) hlp h30 h31
    (by omega) hR.posSmall hR.posBig
  have hpa : ringPosAfter rbg bytes.length =
      (if (rb.pos + bytes.length) % two64 > rb.lap then (((rb.pos + bytes.length) % two64 % rb.lap) ||| rb.lap) % two32
       else (rb.pos + bytes.length) % two64 % two32) := by
    unfold ringPosAfter Ring.lap
    rw [e5, e1]
  have hlap' : ({ rbg with pos := ringPosAfter rbg bytes.length, cells := ringWriteCells rbg bytes } : Ring).lap = rb.lap :=
    lap_of_eq e1
  refine ⟨geom_of_eq gg rfl rfl rfl rfl, ?_, ?_, Or.inl e6, ?_, ?_⟩
  · intro hle
    rw [hlap', List.length_append] at hle
    rw [List.length_append]
    show ringPosAfter rbg bytes.length = _
    rw [hpa]
    exact hfold.1 hle
  · intro hgt
    rw [hlap', List.length_append] at hgt
    rw [hlap', List.length_append]
    show rb.lap ≤ ringPosAfter rbg bytes.length ∧ ringPosAfter rbg bytes.length < 2 * rb.lap ∧ ringPosAfter rbg bytes.length % rb.lap = _
    rw [hpa]
    exact hfold.2 hgt
  · intro p hp hw
    exact w1 p hp hw
  · intro p hp hps hw hr
    exact w2 p hp hps hw hr

/-- **one `RingBufferWrite` keeps the ring-buffer invariant** (writes of at most a tail's length —
`copy_input_to_ring_buffer` never writes more than the rest of the input block) -/
theorem ringWrite_ok {rb rb' : Ring} {input bytes : Bytes} {avail : Nat} (hR : RingOK rb input)
    (hn : bytes.length ≤ rb.tailSize) (h : ringWrite rb bytes avail = .ok rb') : RingOK rb' (input ++ bytes) := by
  have g := hR.geom
  obtain ⟨hlp, hdvd, hsl, h30, h31, hs4⟩ := g.lap_facts
  have htail := g.tail
  unfold ringWrite at h
  simp only at h
  split at h
  · -- the very first, small write: a buffer of exactly that size
    rename_i hfirst
    have hin : input = [] := hR.pos_zero hfirst.1
    subst hin
    split at h
    · rename_i rbi hinit
      split at h
      · simp at h
      · simp only [Out.ok.injEq] at h
        subst h
        obtain ⟨i1, i2, i3, i4, i5, i6, i7⟩ := initBuffer_get hinit
        have g' : RingGeom { rbi with cells := cellsWrite rbi.cells 2 bytes } := geom_of_eq g i2 i3 i4 i5
        have hlap' : ({ rbi with cells := cellsWrite rbi.cells 2 bytes } : Ring).lap = rb.lap := lap_of_eq i2
        have hsz' : ({ rbi with cells := cellsWrite rbi.cells 2 bytes } : Ring).size = rb.size := i2
        have hts' : ({ rbi with cells := cellsWrite rbi.cells 2 bytes } : Ring).tailSize = rb.tailSize := i4
        refine ⟨g', ?_, ?_, Or.inr ⟨?_, ?_⟩, ?_, ?_⟩
        · intro _; simp only [List.nil_append]; exact i6
        · intro hh; simp only [List.nil_append] at hh; rw [hlap'] at hh; omega
        · simp only [List.nil_append]; exact i1
        · simp only [List.nil_append]; rw [hts']; exact hfirst.2
        · intro p hp _
          simp only [List.nil_append] at hp ⊢
          rw [hsz']
          have hps : p % rb.size = p := Nat.mod_eq_of_lt (by omega)
          rw [hps]
          unfold Ring.get
          simp only
          rw [cellsGet_write, if_pos ⟨by omega, by omega⟩]
          congr 1; omega
        · intro p hp hps _ _
          simp only [List.nil_append] at hp
          rw [hsz'] at hps
          omega
    · rename_i hno
      exact absurd h (hno _)
  · split at h
    · rename_i rbg hg
      exact ringWriteMain_ok hR (ringGrow_ok hR hg) hn h
    · rename_i hno
      exact absurd h (hno _)

end BV.Stream
