import BV.Lemmas.StreamTiny2
/-
The stream machine as a labelled transition system: every iteration of the three loops of
`compress_stream` is ONE atomic step (`Step`) — or none, when the loop breaks — and a call is a
sequence of atomic steps (`Steps`).  Each atom carries the guard under which the code takes it
and the state invariant at its source, so that facts about whole calls and whole histories are
proved atom by atom (framing, tiling, capacity, schedule independence).

The labels (`Ev`) say what the step contributes to the emitted bit stream.
-/
namespace BV.Stream
open BV.Bits

inductive Ev where
  | window (bits : List Bool)                 -- first use: the stream header bits become the carry
  | copy (chunk : Bytes)                      -- input copied into the ring buffer
  | push                                      -- pending bytes handed to the caller
  | pad (lbb : Nat)                           -- byte-padding (sync) block behind a carry of `lbb` bits
  | enc (k : Nat) (req : Req) (pre : Nat) (skel : List Bool) (taken : Bool)
        -- `encode_data`, invocation `k`, request `req`: the skeleton wrote `skel` (magic-number block,
        -- stored prelude of `pre` input bytes); `taken`: the payload encoder's bits behind it were emitted
  | fast (k : Nat) (req : Req)                -- one block of the quality 0/1 one-shot path
  | mdHeader (n lbb : Nat)                    -- metadata block header for `n` bytes behind `lbb` carry bits
  | mdBody (bytes : Bytes)                    -- metadata payload bytes
  | tau (k : Nat)                             -- bookkeeping only: 0 check_flush_complete, 1 flush request on an empty block, 2 metadata entry, 3 metadata block complete
deriving Repr, DecidableEq

/-! ### what `encode_data` writes itself -/

def encPre3 (m : St × Writer × Nat) (bytes : Nat) : Out (St × Writer × Nat) := encPrelude m.1 m.2.1 m.2.2 bytes

/-- state and storage bit string after the magic block and the prelude -/
def encMidOf (r : Out (St × Writer × Nat)) (s : St) : St × Writer :=
  match r with
  | .ok (s2, w, _) => (s2, w)
  | _ => (s, s.carry)

def encMid (s : St) (il : Bool) : St × Writer :=
  encMidOf (encPre3 (encMagic (encEntry s il) s.carry) (s.unprocessed % two32)) s

/-- are the payload encoder's bits emitted by this invocation (or only the skeleton's)? -/
def encTakes (s : St) (ans : Ans) (il ff : Bool) : Bool :=
  if s.params.quality = 0 ∨ s.params.quality = 1 then !(decide (s.unprocessed = 0) && !il)
  else !((!il && !ff && !ans.emit) || (!il && decide (s.inputPos = s.lastFlushPos)))

/-- the event of `encodeData o s site il ff` -/
def encEv (o : Oracle) (s : St) (site : Nat) (il ff : Bool) : Ev :=
  .enc s.nEnc (reqOf s site il ff) ((encMid s il).1.lastFlushPos - s.lastFlushPos)
    ((encMid s il).2.drop s.carry.length) (encTakes (encMid s il).1 (o s.nEnc (reqOf s site il ff)) il ff)

def padBits (lbb : Nat) : List Bool := syncBits ++ List.replicate (8 * ((lbb + 6 + 7) / 8) - lbb - 6) false

def mdHeaderTail (n lbb : Nat) : List Bool :=
  mdHeader n ++ List.replicate ((8 - (lbb + (mdHeader n).length) % 8) % 8) false

/-- the bits an event appends to the emitted stream -/
def Ev.bits (o : Oracle) : Ev → List Bool
  | .window b => b
  | .pad lbb => padBits lbb
  | .enc k req _ skel taken => skel ++ (if taken then (o k req).bits.drop skel.length else [])
  | .fast k req => (o k req).bits
  | .mdHeader n lbb => mdHeaderTail n lbb
  | .mdBody bytes => bytesBits bytes
  | _ => []

/-- the request of an event, if it is a payload-encoder invocation -/
def Ev.req : Ev → Option Req
  | .enc _ r _ _ _ => some r
  | .fast _ r => some r
  | _ => none

/-! ### named pieces of the step functions -/

abbrev slowIl (op : Nat) (io : Io) : Bool := decide (io.availIn = 0 ∧ op = 2)
abbrev slowFf (op : Nat) (io : Io) : Bool := decide (io.availIn = 0 ∧ op = 1)

def copyN (s : St) (io : Io) : Nat := min (remainingInputBlockSize s) io.availIn

def fastBs (s : St) (io : Io) : Nat := min (2 ^ s.params.lgwin.toNat) io.availIn
def fastReq (op : Nat) (s : St) (io : Io) : Req :=
  { site := 2, lo := fastBs s io, hi := s.inputPos, isLast := decide (io.availIn = fastBs s io ∧ op = 2),
    forceFlush := decide (io.availIn = fastBs s io ∧ op = 1) }
def fastMaxOut (s : St) (io : Io) : Nat := (2 * fastBs s io + 503) % two64
def fastInplace (s : St) (io : Io) : Bool := decide (fastMaxOut s io ≤ io.availOut)
def fastS1 (s : St) (io : Io) : St := fastStorage s (fastInplace s io) (fastMaxOut s io)
def fastRes (o : Oracle) (op : Nat) (s : St) (io : Io) : St × Io :=
  fastEncode (fastS1 s io) io (o s.nEnc (fastReq op s io)) (fastReq op s io) (fastBs s io) (fastInplace s io)
    (fastReq op s io).isLast (fastReq op s io).forceFlush

def mdHeadSt (s : St) : St :=
  { s with nextOut := .tiny 0, pending := toBytes (metadataHeaderBits s.remainingMetadata s.carry), lastBytes := 0,
           lastBytesBits := 0, streamState := .metadataBody }
def mdDoneSt (s : St) : St := { s with remainingMetadata := u32Max, streamState := .processing }
def mdOutN (s : St) (io : Io) : Nat := (min s.remainingMetadata io.availOut) % two32
def mdOutSt (s : St) (io : Io) : St :=
  { s with remainingMetadata := (s.remainingMetadata + two32 - mdOutN s io) % two32, totalOut := (s.totalOut + mdOutN s io) % two64 }
def mdOutIo (s : St) (io : Io) : Io :=
  { io with input := io.input.drop (mdOutN s io), availIn := (io.availIn + two64 - mdOutN s io) % two64,
            availOut := io.availOut - mdOutN s io, out := io.out ++ io.input.take (mdOutN s io) }
def mdTinyN (s : St) : Nat := min s.remainingMetadata 16
def mdTinySt (s : St) (io : Io) : St :=
  { s with nextOut := .tiny 0, pending := io.input.take (mdTinyN s),
           remainingMetadata := (s.remainingMetadata + two32 - mdTinyN s) % two32 }
def mdTinyIo (s : St) (io : Io) : Io :=
  { io with input := io.input.drop (mdTinyN s), availIn := (io.availIn + two64 - mdTinyN s) % two64 }

def PadDue (s : St) : Prop := s.streamState = .flushRequested ∧ s.lastBytesBits ≠ 0

/-! ### atomic steps -/

inductive Step (o : Oracle) (op : Nat) : St × Io → Ev → St × Io → Prop
  | init {s : St} {io : Io} (hf : IsFresh s) :
      Step o op (s, io) (.window (ensureInitialized s).carry) (ensureInitialized s, io)
  | copy {s s1 : St} {io : Io} (hI : Inv s) (hw : s.inputPos + io.availIn < two64) (hop : op ≤ 2) (hnf : ¬ fastMode s.params)
      (hst : s.streamState = .processing) (hrm : s.remainingMetadata = u32Max)
      (hc : remainingInputBlockSize s ≠ 0 ∧ io.availIn ≠ 0) (hn : copyN s io ≤ io.input.length)
      (h : copyInputToRingBuffer s (io.input.take (copyN s io)) io.input.length = .ok s1) :
      Step o op (s, io) (.copy (io.input.take (copyN s io)))
        (s1, { io with input := io.input.drop (copyN s io), availIn := io.availIn - copyN s io })
  | pad {s s1 : St} {io : Io} (hI : Inv s) (hc : PadDue s) (hz : io.availIn = 0)
      (h : injectBytePaddingBlock s = .ok s1) : Step o op (s, io) (.pad s.lastBytesBits) (s1, io)
  | push {s s1 : St} {io io1 : Io} (hI : Inv s) (hc : ¬ PadDue s)
      (h : injectFlushOrPushOutput s io = .ok (s1, io1, true)) : Step o op (s, io) .push (s1, io1)
  | encSlow {s s2 : St} {io : Io} {req : Req} (hI : Inv s) (hop : op ≤ 2) (hnf : ¬ fastMode s.params) (hrm : s.remainingMetadata = u32Max)
      (hnc : ¬ (remainingInputBlockSize s ≠ 0 ∧ io.availIn ≠ 0)) (hnp : ¬ PadDue s)
      (hpend : s.pending = []) (hst : s.streamState = .processing)
      (hgo : remainingInputBlockSize s = 0 ∨ op ≠ 0)
      (h : encodeData o (updateSizeHint s io.availIn) 0 (slowIl op io) (slowFf op io) = .ok (s2, true, req)) :
      Step o op (s, io) (encEv o (updateSizeHint s io.availIn) 0 (slowIl op io) (slowFf op io))
        (markAfterEncode s2 (slowIl op io) (slowFf op io), { io with reqs := io.reqs ++ [req] })
  | cfc {s : St} {io : Io} (hI : Inv s) (hop : op ≤ 2) (hrm : s.remainingMetadata = u32Max) (hnp : ¬ PadDue s)
      (hfl : s.streamState ≠ .processing → io.availIn = 0) :
      Step o op (s, io) (.tau 0) (checkFlushComplete s, io)
  | fastFlush {s : St} {io : Io} (hI : Inv s) (hfm : fastMode s.params) (hrm : s.remainingMetadata = u32Max)
      (hnp : ¬ PadDue s) (hpend : s.pending = [])
      (hst : s.streamState = .processing) (hop1 : op = 1) (hz : io.availIn = 0) :
      Step o op (s, io) (.tau 1) ({ s with streamState := .flushRequested }, io)
  | fastBlock {s : St} {io : Io} (hI : Inv s) (hfm : fastMode s.params) (hop : op ≤ 2) (hrm : s.remainingMetadata = u32Max)
      (hnp : ¬ PadDue s) (hpend : s.pending = [])
      (hst : s.streamState = .processing) (hgo : io.availIn ≠ 0 ∨ op ≠ 0)
      (hnf : ¬ ((fastReq op s io).forceFlush = true ∧ fastBs s io = 0))
      (hcap : ¬ fastCap (fastS1 s io) io (fastInplace s io) < 2) (hin : ¬ fastBs s io > io.input.length)
      (hfit : ¬ (s.lastBytesBits + (o s.nEnc (fastReq op s io)).bits.length) / 8 + 2 > fastCap (fastS1 s io) io (fastInplace s io)) :
      Step o op (s, io) (.fast s.nEnc (fastReq op s io)) ((fastRes o op s io).1, (fastRes o op s io).2)
  | mdEnter {s : St} {io : Io} (hI : Inv s) (hop : op = 3)
      (hentry : (s.remainingMetadata ≠ u32Max ∧ io.availIn = s.remainingMetadata) ∨
                (s.remainingMetadata = u32Max ∧ s.streamState = .processing ∧ io.availIn ≤ 16777216)) :
      Step o op (s, io) (.tau 2) (mdEnter (updateSizeHint s 0) io.availIn, io)
  | mdEnc {s s' : St} {io : Io} {req : Req} {n : Nat} (hM : MdInv n s io) (hop : op = 3) (hpend : s.pending = [])
      (hne : s.inputPos ≠ s.lastFlushPos) (h : encodeData o s 1 false true = .ok (s', true, req)) :
      Step o op (s, io) (encEv o s 1 false true) (s', { io with reqs := io.reqs ++ [req] })
  | mdHead {s : St} {io : Io} {n : Nat} (hM : MdInv n s io) (hop : op = 3) (hpend : s.pending = [])
      (hlf : s.inputPos = s.lastFlushPos) (hst : s.streamState = .metadataHead)
      (hok : ¬ (s.carry.length + 6) / 8 + 8 > 16) :
      Step o op (s, io) (.mdHeader s.remainingMetadata s.lastBytesBits) (mdHeadSt s, io)
  | mdDone {s : St} {io : Io} {n : Nat} (hM : MdInv n s io) (hop : op = 3) (hpend : s.pending = [])
      (hlf : s.inputPos = s.lastFlushPos) (hst : s.streamState = .metadataBody) (hz : s.remainingMetadata = 0) :
      Step o op (s, io) (.tau 3) (mdDoneSt s, io)
  | mdOut {s : St} {io : Io} {n : Nat} (hM : MdInv n s io) (hop : op = 3) (hpend : s.pending = [])
      (hlf : s.inputPos = s.lastFlushPos) (hst : s.streamState = .metadataBody) (hnz : s.remainingMetadata ≠ 0)
      (hao : io.availOut ≠ 0) (hle : ¬ mdOutN s io > io.input.length) :
      Step o op (s, io) (.mdBody (io.input.take (mdOutN s io))) (mdOutSt s io, mdOutIo s io)
  | mdTiny {s : St} {io : Io} {n : Nat} (hM : MdInv n s io) (hop : op = 3) (hpend : s.pending = [])
      (hlf : s.inputPos = s.lastFlushPos) (hst : s.streamState = .metadataBody) (hnz : s.remainingMetadata ≠ 0)
      (hao : io.availOut = 0) (hle : ¬ mdTinyN s > io.input.length) :
      Step o op (s, io) (.mdBody (io.input.take (mdTinyN s))) (mdTinySt s io, mdTinyIo s io)

theorem isFreshInit {s : St} (h : IsFresh s) : s.isInitialized = false := by
  obtain ⟨p, rfl⟩ := h
  rfl

inductive Steps (o : Oracle) (op : Nat) : St × Io → List Ev → St × Io → Prop
  | nil (c : St × Io) : Steps o op c [] c
  | cons {c c1 c2 : St × Io} {e : Ev} {es : List Ev} : Step o op c e c1 → Steps o op c1 es c2 → Steps o op c (e :: es) c2

theorem Steps.one {o : Oracle} {op : Nat} {c c1 : St × Io} {e : Ev} (h : Step o op c e c1) : Steps o op c [e] c1 :=
  .cons h (.nil _)

theorem Steps.append {o : Oracle} {op : Nat} {c c1 c2 : St × Io} {es fs : List Ev}
    (h1 : Steps o op c es c1) (h2 : Steps o op c1 fs c2) : Steps o op c (es ++ fs) c2 := by
  induction h1 with
  | nil _ => exact h2
  | cons hs _ ih => exact .cons hs (ih h2)

/-- proving something of every sequence of steps from a step-wise invariant -/
theorem Steps.induct {o : Oracle} {op : Nat} (P : St × Io → Prop)
    (hstep : ∀ c e c1, P c → Step o op c e c1 → P c1)
    {c c1 : St × Io} {es : List Ev} (h : Steps o op c es c1) (h0 : P c) : P c1 := by
  induction h with
  | nil _ => exact h0
  | cons hs _ ih => exact ih (hstep _ _ _ h0 hs)

end BV.Stream
