/-
C08: the hypothesis `BlocksOK` of the stream bound, derived from the control skeleton of the
stream machine (`BV/Model/Stream.lean`, w-stream's model; imported, not edited):

* `slowStep_nonfinal_request_full_block`: in the main loop of `compress_stream`, with an
  operation other than FLUSH, a payload-encoder invocation that is not the last one is made
  only when a whole input block is waiting: `hi - lo = 2^lgblock`, `force_flush = false`;
  the meta-block it may close covers `[lf, hi)` with `lf ≤ lo`, i.e. at least that block;
* `blockSize_ge`: after `ensure_initialized`, at quality ≥ 2 the block is ≥ 2^14 bytes;
* `blocksOK_of_cover`: lengths that each (but the last) cover a block — the first one up to the
  `extra` prelude bytes — satisfy `BlocksOK`.
-/
import BV.Lemmas.HeaderStreamBound
import BV.Lemmas.StreamStep
namespace BV.StreamBlocks
open BV.Stream BV.Bits

/-- meta-block lengths of which every one but the last reaches `2^14` (the first one counted
with the `extra` prelude bytes stored in front of it) satisfy `BlocksOK` -/
theorem blocksOK_of_cover : ∀ (lens : List Nat) (extra : Nat),
    (∀ i, i + 1 < lens.length → 2 ^ 14 ≤ lens.getD i 0 + (if i = 0 then extra else 0)) → BV.Header.BlocksOK extra lens := by
  intro lens
  induction lens with
  | nil => intro _ _; trivial
  | cons len rest ih =>
    intro extra h
    cases rest with
    | nil => trivial
    | cons l2 r2 =>
      refine ⟨by simpa using h 0 (by simp), ih 0 ?_⟩
      intro i hi
      have := h (i + 1) (by simp at hi ⊢; omega)
      simpa using this

/-- after `ensure_initialized` the input block of the quality ≥ 2 path is at least 2^14 bytes -/
theorem blockSize_ge (s : St) (hni : s.isInitialized = false)
    (hq : ¬ ((ensureInitialized s).params.quality = 0 ∨ (ensureInitialized s).params.quality = 1)) :
    2 ^ 14 ≤ (ensureInitialized s).blockSize := by
  simp only [ensureInitialized, hni, Bool.false_eq_true, if_false] at hq ⊢
  simp only [St.blockSize]
  have hl : 14 ≤ (computeLgBlock (sanitize s.params)) := by
    simp only [computeLgBlock] at hq ⊢
    split
    · rename_i h; exact absurd h hq
    · split
      · omega
      · split
        · split <;> omega
        · omega
  have : 14 ≤ (computeLgBlock (sanitize s.params)).toNat := by omega
  exact Nat.pow_le_pow_right (by decide) this

/-- a non-final payload-encoder invocation of the main loop (no FLUSH operation) sees exactly
one full input block, is not forced, and the meta-block `[lf, hi)` it may close contains it -/
theorem slowStep_nonfinal_request_full_block {o : Oracle} {op : Nat} {s s' : St} {io io' : Io} {c : Ctl}
    (hI : Inv s) (hop : op = 0 ∨ op = 2) (h : slowStep o op s io = .ok (s', io', c)) :
    io'.reqs = io.reqs ∨
    ∃ req, io'.reqs = io.reqs ++ [req] ∧ req.site = 0 ∧ req.forceFlush = false ∧
      req.lo = s.lastProcessedPos ∧ req.hi = s.inputPos ∧ req.lf = s.lastFlushPos ∧ req.lf ≤ req.lo ∧
      (req.isLast = false → req.hi - req.lo = s.blockSize ∧ s.blockSize ≤ req.hi - req.lf) := by
  unfold slowStep at h
  simp only at h
  split at h
  · -- copy input: no request
    left
    split at h
    · simp at h
    · split at h
      · simp only [Out.ok.injEq, Prod.mk.injEq] at h
        obtain ⟨_, rfl, _⟩ := h
        rfl
      · simp at h
      · simp at h
  · rename_i hcopy
    split at h
    · simp at h
    · simp at h
    · rename_i s1 io1 hp
      simp only [Out.ok.injEq, Prod.mk.injEq] at h
      obtain ⟨_, rfl, _⟩ := h
      left
      exact (push_frame hp).2.2.2.2.2.2.2.2.2
    · rename_i s1 io1 hp
      obtain ⟨rfl, rfl, _, _⟩ := push_false hp
      split at h
      · rename_i hcond
        split at h
        · simp at h
        · simp at h
        · rename_i s2 res req henc
          right
          obtain ⟨_, hreq, _⟩ := encodeData_frame henc
          obtain ⟨u1, u2, u3, u4, u5, u6, u7, u8, u9, u10, u11, _⟩ := updateSizeHint_fields s1 io1.availIn
          have hreqs : io'.reqs = io1.reqs ++ [req] := by
            split at h <;> (simp only [Out.ok.injEq, Prod.mk.injEq] at h; obtain ⟨_, rfl, _⟩ := h; rfl)
          refine ⟨req, hreqs, ?_⟩
          subst hreq
          have hff : decide (io1.availIn = 0 ∧ op = 1) = false := by
            rcases hop with h0 | h0 <;> simp [h0]
          refine ⟨rfl, hff, u11, u6, u10, ?_, ?_⟩
          · show (updateSizeHint s1 io1.availIn).lastFlushPos ≤ (updateSizeHint s1 io1.availIn).lastProcessedPos
            rw [u10, u11]; exact hI.fl_le
          intro hil
          show (updateSizeHint s1 io1.availIn).inputPos - (updateSizeHint s1 io1.availIn).lastProcessedPos = s1.blockSize ∧
            s1.blockSize ≤ (updateSizeHint s1 io1.availIn).inputPos - (updateSizeHint s1 io1.availIn).lastFlushPos
          rw [u6, u10, u11]
          have hnl : ¬ (io1.availIn = 0 ∧ op = 2) := by
            have hil' : decide (io1.availIn = 0 ∧ op = 2) = false := hil
            simpa using hil'
          -- a full block is waiting
          have hrbs : remainingInputBlockSize s1 = 0 := by
            by_cases hr : remainingInputBlockSize s1 = 0
            · exact hr
            · exfalso
              rcases hcond.2.2 with h0 | h0
              · exact hr h0
              · have h2 : op = 2 := by rcases hop with h | h; exact absurd h h0; exact h
                have ha : io1.availIn ≠ 0 := fun ha => hnl ⟨ha, h2⟩
                exact hcopy ⟨hr, ha⟩
          have hu : s1.unprocessed = s1.inputPos - s1.lastProcessedPos := wsub64_eq hI.lp_le hI.ip_lt
          have hbpos : 0 < s1.blockSize := Nat.pow_pos (by decide)
          have hge : s1.blockSize ≤ s1.inputPos - s1.lastProcessedPos := by
            simp only [remainingInputBlockSize] at hrbs
            split at hrbs
            · rw [← hu]; assumption
            · omega
          have hle := hI.blk
          have hfl := hI.fl_le
          constructor <;> omega
      · simp only [Out.ok.injEq, Prod.mk.injEq] at h
        obtain ⟨_, rfl, _⟩ := h
        left; rfl
end BV.StreamBlocks
