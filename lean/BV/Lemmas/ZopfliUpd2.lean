import BV.Lemmas.ZopfliUpd
/-! `UpdateNodes`, continued: the distance-cache probes and the matches of the match finder. -/
namespace BV.Zopfli
open BV.Hasher BV.MatchFinder BV.Recoder BV.PrefixArith BV.MetaBlock BV.Cbr BV

/-- **what the match finder must deliver** at block offset `pos` (the conclusion of the H10 soundness
theorem, on the text): a match within `min(position, window)` is a real match of its length in the text;
a match beyond it is a static-dictionary reference whose word (length code 4..24, at most 9 bytes longer
than the match) the decoder's oracle expands to the next `length` bytes of the text -/
def MatchOK (C : ZC) (pos : Nat) (x : Match) : Prop :=
  (x.distance ≤ min (C.base + pos) C.window →
     1 ≤ x.distance ∧ pos + x.length ≤ C.numBytes ∧
     ∀ j, j < x.length → C.T.getD (C.base + pos - x.distance + j) 0 = C.T.getD (C.base + pos + j) 0) ∧
  (x.distance > min (C.base + pos) C.window →
     x.distance ≤ C.md ∧ pos + x.length ≤ C.numBytes ∧ 4 ≤ x.lengthCode ∧ x.lengthCode ≤ 24 ∧
     x.lengthCode ≤ x.length + 9 ∧ x.length ≤ x.lengthCode + 64 ∧
     C.wo x.lengthCode ((x.distance - min (C.base + pos) C.window - 1) % 2 ^ dictSizeBits.getD x.lengthCode 0)
         ((x.distance - min (C.base + pos) C.window - 1) / 2 ^ dictSizeBits.getD x.lengthCode 0)
       = some ((C.T.drop (C.base + pos)).take x.length))

theorem getElem?_take4 (l : List Int) (i : Nat) (hi : i < 4) : (l.take 4)[i]? = l[i]? := by
  rw [List.getElem?_take, if_pos hi]

theorem and3_lt (x : Nat) : x &&& 3 < 4 := by
  have := @Nat.and_le_right x 3
  omega

/-- one distance-cache probe keeps the invariant -/
theorem cacheProbe_inv {K : Type} {C : ZC} {inf : K} {lim : Nat} {q : Queue K} {data : ByteArray} {k tail lo : Nat}
    (hz : ZOK C data k tail lo) (ops : CostOps K) (m : CostModel K) (pos : Nat) (hlim : lim = pos + 1)
    (hpos : pos ≤ C.numBytes) (pd : PosData K) (hpdq : ∀ nodes, Inv2 C inf lim q nodes → PDOK C nodes lim pd)
    (inscode : Nat) (baseCost : K) (j : Nat) (hj : j < 16) (bestLen : Nat) (hbl : 1 ≤ bestLen) (s s' : UN K)
    (brk : Bool) (bl' : Nat) (hinv : Inv2 C inf lim q s.nodes)
    (h : cacheProbe ops m data (2 ^ k - 1) (C.base + pos) (min (C.base + pos) C.window) (wsub C.numBytes pos) pos pd.pos
      inscode pd.cache baseCost j bestLen s = some (brk, bl', s')) :
    Inv2 C inf lim q s'.nodes ∧ 1 ≤ bl' := by
  have hU : U64 = 18446744073709551616 := rfl
  have hp30 : (2 : Nat) ^ 30 = 1073741824 := by decide
  have hp24 : (2 : Nat) ^ 24 = 16777216 := by decide
  have hnb := hz.nb
  have hwin := hz.win
  have h63 := hz.pos63
  have hml : wsub C.numBytes pos = C.numBytes - pos := by
    rw [wsub_eq (by omega) (by omega), if_pos hpos]
  unfold cacheProbe at h
  extract_lets cm at h
  have exit_ok : ∀ (bk : Bool), some (bk, bestLen, s) = some (brk, bl', s') → Inv2 C inf lim q s'.nodes ∧ 1 ≤ bl' := by
    intro bk he
    simp only [Option.some.injEq, Prod.mk.injEq] at he
    obtain ⟨_, rfl, rfl⟩ := he
    exact ⟨hinv, hbl⟩
  by_cases h1 : bestLen ≥ wsub C.numBytes pos
  · rw [if_pos h1] at h
    exact exit_ok _ h
  rw [if_neg h1] at h
  cases hci : pd.cache[(kDistanceCacheIndex.getD j 0) &&& 3]? with
  | none => simp -zeta only [hci] at h <;> cases h
  | some ci =>
  simp -zeta only [hci] at h
  extract_lets b backward prevIx prevM at h
  by_cases h2 : b < -(2 ^ 31 : Int) ∨ b ≥ (2 ^ 31 : Int)
  · rw [if_pos h2] at h; cases h
  rw [if_neg h2] at h
  cases hcont : byteAt data (cm + bestLen) with
  | none => simp -zeta only [hcont] at h <;> cases h
  | some continuation =>
  simp -zeta only [hcont] at h
  by_cases h3 : cm + bestLen > 2 ^ k - 1
  · rw [if_pos h3] at h
    exact exit_ok _ h
  rw [if_neg h3] at h
  by_cases h4 : backward > min (C.base + pos) C.window
  · rw [if_pos h4] at h
    exact exit_ok _ h
  rw [if_neg h4] at h
  by_cases h5 : prevIx ≥ C.base + pos
  · rw [if_pos h5] at h
    exact exit_ok _ h
  rw [if_neg h5] at h
  by_cases h6 : prevM + bestLen > 2 ^ k - 1
  · rw [if_pos h6] at h
    exact exit_ok _ h
  rw [if_neg h6] at h
  cases hpb : byteAt data (prevM + bestLen) with
  | none => simp -zeta only [hpb] at h <;> cases h
  | some pb =>
  simp -zeta only [hpb] at h
  by_cases h7 : continuation ≠ pb
  · rw [if_pos h7] at h
    exact exit_ok _ h
  rw [if_neg h7] at h
  cases hfm : findMatchLengthWithLimit data prevM cm (wsub C.numBytes pos) with
  | none => simp -zeta only [hfm] at h <;> cases h
  | some len =>
  cases hdc : m.costDist[j]? with
  | none => simp -zeta only [hfm, hdc] at h <;> cases h
  | some dcost =>
  simp -zeta only [hfm, hdc] at h
  extract_lets distCost at h
  cases hcl : cacheLens ops m pos pd.pos inscode j backward baseCost distCost (len - bestLen) (bestLen + 1) s with
  | none => simp -zeta only [hcl] at h <;> cases h
  | some s2 =>
  simp -zeta only [hcl, Option.some.injEq, Prod.mk.injEq] at h
  obtain ⟨_, rfl, rfl⟩ := h
  refine ⟨?_, by omega⟩
  -- the facts about the probe
  have hbdef : b = ci + kDistanceCacheOffset.getD j 0 := rfl
  have hbwdef : backward = i32ToUsize b := rfl
  have hprevdef : prevIx = wsub (C.base + pos) backward := rfl
  have hpmdef : prevM = prevIx &&& (2 ^ k - 1) := rfl
  have hcmdef : cm = (C.base + pos) &&& (2 ^ k - 1) := rfl
  clear_value b backward prevIx prevM cm distCost
  have hbInt : ((backward : Nat) : Int) = b := by
    rcases i32ToUsize_cases b (by omega) with ⟨_, e⟩ | ⟨_, e⟩
    · rw [hbwdef]; exact e
    · rw [← hbwdef] at e
      have : backward ≤ C.window := by have := Nat.min_le_right (C.base + pos) C.window; omega
      omega
  have hble : backward ≤ min (C.base + pos) C.window := by omega
  have hbcur : backward ≤ C.base + pos := Nat.le_trans hble (Nat.min_le_left _ _)
  have hbwin : backward ≤ C.window := Nat.le_trans hble (Nat.min_le_right _ _)
  have hprev : prevIx = C.base + pos - backward := by
    rw [hprevdef, wsub_eq (by omega) (by omega), if_pos hbcur]
  have hb1 : 1 ≤ backward := by omega
  rw [hpmdef, hcmdef, hprev, and_ringmask, and_ringmask, hml] at hfm
  obtain ⟨hlen, hag⟩ := findMatchLengthWithLimit_sound hfm
  have hlole := hz.lo_le
  have htext := ring_match_is_text_match hz.ring hz.tail_le hbcur (by omega) (by rw [hz.tlen]; omega)
    (by have := hz.block_le; omega) hag
  have hcode : rfcDistance 0 0 (pd.cache.take 4) j 0 = some ((backward : Int), decide (j ≠ 0)) := by
    rw [hbInt, hbdef]
    exact zopfli_short_code _ j hj ci (by rw [getElem?_take4 _ _ (and3_lt _)]; exact hci)
  refine cacheLens_inv (Inv2 C inf lim q) ops m pos pd.pos inscode j backward baseCost distCost
    (len - bestLen) (bestLen + 1) s s2 hcl hinv ?_
  intro l' nodes cost hl1 hl2 hP hsz
  exact hP.write_copy hz pd (hpdq nodes hP) pos l' backward (j + 1) cost hlim (by omega)
    (by have := hP.dp.size; omega) hb1 hble (fun jj hjj => htext jj (by omega))
    (Or.inr ⟨by omega, _, by simpa using hcode⟩)

/-- the loop over the sixteen probes -/
theorem cacheLoop_inv {K : Type} {C : ZC} {inf : K} {lim : Nat} {q : Queue K} {data : ByteArray} {k tail lo : Nat}
    (hz : ZOK C data k tail lo) (ops : CostOps K) (m : CostModel K) (pos : Nat) (hlim : lim = pos + 1)
    (hpos : pos ≤ C.numBytes) (pd : PosData K) (hpdq : ∀ nodes, Inv2 C inf lim q nodes → PDOK C nodes lim pd)
    (inscode : Nat) (baseCost : K) :
    ∀ (cnt j bestLen : Nat) (s s' : UN K), j + cnt ≤ 16 → 1 ≤ bestLen → Inv2 C inf lim q s.nodes →
      cacheLoop ops m data (2 ^ k - 1) (C.base + pos) (min (C.base + pos) C.window) (wsub C.numBytes pos) pos pd.pos
        inscode pd.cache baseCost cnt j bestLen s = some s' →
      Inv2 C inf lim q s'.nodes := by
  intro cnt
  induction cnt with
  | zero =>
    intro j bestLen s s' _ _ hinv h
    rw [cacheLoop] at h
    injection h with h; subst h; exact hinv
  | succ cnt ih =>
    intro j bestLen s s' hj hbl hinv h
    rw [cacheLoop] at h
    cases hp : cacheProbe ops m data (2 ^ k - 1) (C.base + pos) (min (C.base + pos) C.window) (wsub C.numBytes pos) pos pd.pos
        inscode pd.cache baseCost j bestLen s with
    | none => simp only [hp] at h; cases h
    | some r =>
      obtain ⟨brk, bl', s1⟩ := r
      obtain ⟨hi1, hb1⟩ := cacheProbe_inv hz ops m pos hlim hpos pd hpdq inscode baseCost j (by omega) bestLen hbl s s1
        brk bl' hinv hp
      cases brk with
      | true =>
        simp only [hp, Option.some.injEq] at h
        subst h; exact hi1
      | false =>
        simp only [hp] at h
        exact ih (j + 1) bl' s1 s' (by omega) hb1 hi1 h

/-- one match of the match finder -/
theorem matchStep_inv {K : Type} {C : ZC} {inf : K} {lim : Nat} {q : Queue K} {data : ByteArray} {k tail lo : Nat}
    (hz : ZOK C data k tail lo) (ops : CostOps K) (m : CostModel K) (p : Params) (pos : Nat) (hlim : lim = pos + 1)
    (pd : PosData K) (hpdq : ∀ nodes, Inv2 C inf lim q nodes → PDOK C nodes lim pd)
    (inscode : Nat) (baseCost : K) (x : Match) (hx : MatchOK C pos x) (len len' : Nat) (hlen : 2 ≤ len) (s s' : UN K)
    (hinv : Inv2 C inf lim q s.nodes)
    (h : matchStep ops m p (min (C.base + pos) C.window) pos pd.pos inscode baseCost x len s = some (len', s')) :
    Inv2 C inf lim q s'.nodes ∧ 2 ≤ len' := by
  unfold matchStep at h
  simp only [] at h
  cases hdc : m.costDist[(prefixEncodeCopyDistance (x.distance + 15) p.ndirect p.npostfix).packed &&& 0x3ff]? with
  | none => simp only [hdc] at h; cases h
  | some dcost =>
  simp only [hdc] at h
  generalize hlen2 : (if len < x.length ∧ (decide (x.distance > min (C.base + pos) C.window) = true ∨ x.length > maxZopfliLen p)
      then x.length else len) = len2 at h
  have hlen2le : 2 ≤ len2 := by rw [← hlen2]; split <;> omega
  cases hml : matchLens ops m pos pd.pos inscode (decide (x.distance > min (C.base + pos) C.window)) x.lengthCode x.distance
      (ops.add (ops.add baseCost (ops.ofNat ((prefixEncodeCopyDistance (x.distance + 15) p.ndirect p.npostfix).packed >>> 10))) dcost)
      (x.length + 1 - len2) len2 s with
  | none => simp only [hml] at h; cases h
  | some s2 =>
  simp only [hml, Option.some.injEq, Prod.mk.injEq] at h
  obtain ⟨rfl, rfl⟩ := h
  refine ⟨?_, by omega⟩
  refine matchLens_inv (Inv2 C inf lim q) ops m pos pd.pos inscode _ x.lengthCode x.distance _ (x.length + 1 - len2) len2 s s2
    hml hinv ?_
  intro l' nodes cost hl1 hl2 hP hsz
  have hsize := hP.dp.size
  by_cases hd : x.distance > min (C.base + pos) C.window
  · -- a dictionary reference: only `l' = x.length` is written
    obtain ⟨d1, d2, d3, d4, d5, d6, d7⟩ := hx.2 hd
    have hl' : l' = x.length := by
      have hdt : decide (x.distance > min (C.base + pos) C.window) = true := decide_eq_true hd
      rw [hdt] at hlen2
      by_cases hc : len < x.length
      · rw [if_pos ⟨hc, Or.inl rfl⟩] at hlen2; omega
      · rw [if_neg (fun hh => hc hh.1)] at hlen2; omega
    subst hl'
    have hdt : decide (x.distance > min (C.base + pos) C.window) = true := decide_eq_true hd
    rw [hdt]
    simp only [if_true]
    exact hP.write_dict hz pd (hpdq nodes hP) pos x.length x.lengthCode x.distance cost hlim (by omega) d2 hd d1 d3 d4 d5 d6 d7
  · -- a copy
    obtain ⟨c1, c2, c3⟩ := hx.1 (by omega)
    have hdf : decide (x.distance > min (C.base + pos) C.window) = false := decide_eq_false hd
    rw [hdf]
    simp only [Bool.false_eq_true, if_false]
    exact hP.write_copy hz pd (hpdq nodes hP) pos l' x.distance 0 cost hlim (by omega) (by omega) c1 (by omega)
      (fun jj hjj => c3 jj (by omega)) (Or.inl rfl)

theorem matchLoop_inv {K : Type} {C : ZC} {inf : K} {lim : Nat} {q : Queue K} {data : ByteArray} {k tail lo : Nat}
    (hz : ZOK C data k tail lo) (ops : CostOps K) (m : CostModel K) (p : Params) (pos : Nat) (hlim : lim = pos + 1)
    (pd : PosData K) (hpdq : ∀ nodes, Inv2 C inf lim q nodes → PDOK C nodes lim pd)
    (inscode : Nat) (baseCost : K) :
    ∀ (ms : List Match) (len : Nat) (s s' : UN K), (∀ x ∈ ms, MatchOK C pos x) → 2 ≤ len → Inv2 C inf lim q s.nodes →
      matchLoop ops m p (min (C.base + pos) C.window) pos pd.pos inscode baseCost ms len s = some s' →
      Inv2 C inf lim q s'.nodes := by
  intro ms
  induction ms with
  | nil =>
    intro len s s' _ _ hinv h
    rw [matchLoop] at h
    injection h with h; subst h; exact hinv
  | cons x xs ih =>
    intro len s s' hms hlen hinv h
    rw [matchLoop] at h
    cases hst : matchStep ops m p (min (C.base + pos) C.window) pos pd.pos inscode baseCost x len s with
    | none => simp only [hst] at h; cases h
    | some r =>
      obtain ⟨len1, s1⟩ := r
      simp only [hst] at h
      obtain ⟨hi1, hl1⟩ := matchStep_inv hz ops m p pos hlim pd hpdq inscode baseCost x (hms x (by simp)) len len1 hlen s s1
        hinv hst
      exact ih len1 s1 s' (fun y hy => hms y (by simp [hy])) hl1 hi1 h

end BV.Zopfli
