/-
Bit-level lemmas shared by the C15 / C08 proofs: `bitsOf` / `valOf`, the bit
writer on in-range values, whole-byte payloads, padding to a byte boundary, and
the matching primitives of the specification reader (`BV.HeaderSpec`).
-/
import BV.Model.Header
import BV.Lemmas.HeaderSpec
namespace BV.Header
open BV.Bits BV.HeaderSpec BV.Bits.Out
@[simp] theorem length_bitsOf (n v : Nat) : (bitsOf n v).length = n := by
  induction n generalizing v with
  | zero => rfl
  | succ n ih => simp [bitsOf, ih]

theorem valOf_bitsOf (n v : Nat) : valOf (bitsOf n v) = v % 2 ^ n := by
  induction n generalizing v with
  | zero => simp [bitsOf, valOf, Nat.mod_one]
  | succ n ih =>
    simp only [bitsOf, valOf, ih]
    have h2 : v % 2 ^ (n + 1) = v % 2 + 2 * (v / 2 % 2 ^ n) := by
      rw [Nat.pow_succ, Nat.mul_comm, Nat.mod_mul]
    rw [h2]
    rcases Nat.mod_two_eq_zero_or_one v with h | h <;> simp [h]

theorem takeVal_bitsOf (n v : Nat) (r : List Bool) (h : v < 2 ^ n) :
    takeVal n (bitsOf n v ++ r) = some (v, r) := by
  simp [takeVal, valOf_bitsOf, Nat.mod_eq_of_lt h]

theorem bitsOf_add (m n v : Nat) : bitsOf (m + n) v = bitsOf m v ++ bitsOf n (v / 2 ^ m) := by
  induction m generalizing v with
  | zero => simp [bitsOf]
  | succ m ih =>
    rw [show m + 1 + n = (m + n) + 1 by omega]
    simp only [bitsOf, ih, List.cons_append]
    rw [Nat.div_div_eq_div_mul, Nat.pow_succ, Nat.mul_comm]

theorem writeBits_ok (n v : Nat) (w : Writer) (h1 : v < 2 ^ n) (h2 : n ≤ 56) :
    writeBits n v w = ok (w ++ bitsOf n v) := by
  simp [writeBits, Nat.div_eq_of_lt h1]
  omega

theorem writeBytes_ok (bs : List Nat) (w : Writer) (h : ∀ b ∈ bs, b < 256) :
    writeBytes 8 bs w = ok (w ++ bs.flatMap (bitsOf 8)) := by
  induction bs generalizing w with
  | nil => simp [writeBytes]
  | cons b bs ih =>
    have hb : b < 2 ^ 8 := h b (by simp)
    simp only [writeBytes, writeBits_ok 8 b w hb (by decide)]
    show writeBytes 8 bs (w ++ bitsOf 8 b) = _
    rw [ih _ (fun x hx => h x (by simp [hx]))]
    simp

theorem takeBytes_bytes (bs : List Nat) (r : List Bool) (h : ∀ b ∈ bs, b < 256) :
    takeBytes bs.length (bs.flatMap (bitsOf 8) ++ r) = some (bs, r) := by
  induction bs with
  | nil => simp [takeBytes]
  | cons b bs ih =>
    have hb : b < 2 ^ 8 := h b (by simp)
    simp only [List.length_cons, takeBytes, List.flatMap_cons, List.append_assoc]
    rw [takeVal_bitsOf 8 b _ hb]
    simp only [ih (fun x hx => h x (by simp [hx]))]

theorem jump_eq (w : Writer) : jumpToByteBoundary w = w ++ List.replicate ((8 - w.length % 8) % 8) false := by
  simp only [jumpToByteBoundary, lit, BV.Gen.lits_JumpToByteBoundary, List.getD_cons_zero, List.getD_cons_succ]
  congr 2
  omega

theorem skipPad_pad (pos : Nat) (r : List Bool) :
    skipPad pos (List.replicate ((8 - pos % 8) % 8) false ++ r) = some r := by
  simp [skipPad]
end BV.Header
