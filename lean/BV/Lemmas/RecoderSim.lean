/-
C14, the simulation: one iteration of `process_command_queue` (model `BV.Recoder.step`) against one command
of the RFC 7932 decoder (`BV.Recoder.decStep`), for every command, block-split description, literal split and
wrap position — relation `Sim`: same bytes replayed, recoder position = decoder position, same distance ring.
-/
import BV.Lemmas.RecoderAux
namespace BV.Recoder
open BV.PrefixArith

/-- facts needed to take another step -/
structure Live (mb : Bytes) (s : St) (t : DecSt) : Prop where
  rep : Rep mb s.iter t.cursor
  iterLen : s.iter.len = mb.length - t.cursor
  mbLen : s.mbLen = mb.length - t.cursor
  cache : s.cache = t.ring
  cacheOk : CacheOk s.cache

/-- simulation relation between the recoder loop state and the RFC decoder state -/
structure Sim (w : WordOracle) (window : Nat) (mb h : Bytes) (s : St) (t : DecSt) : Prop where
  cursorLe : t.cursor ≤ mb.length
  nbe : s.nbe = t.out.length
  out : replayIR w window mb s.out h = some t.out
  live : t.cursor < mb.length → Live mb s t

structure EnvOK (e : Env) (w : WordOracle) (window : Nat) : Prop where
  win : window = windowSize e.lgwin
  win31 : window < 2 ^ 31
  oracle : OracleOK e.expand w

/-- the copy / dictionary part, non-terminal case -/
theorem copyPart_sim (w : WordOracle) (window : Nat) (mb : Bytes) (h32 : mb.length < 2 ^ 32)
    (e : Env) (hE : EnvOK e w window) (cache : List Int) (hc : CacheOk cache) (interim : Pair) (c : Nat)
    (_hrep : Rep mb interim c) (hlen : interim.len = mb.length - c) (hc' : c < mb.length)
    (mbLen : Nat) (hmb : mbLen = mb.length - c) (out : List IR) (idx : Nat) (off : Int) (copyLen : Nat)
    (d : Int) (upd : Bool) (hd : 0 < d) (hupd : upd = true ↔ (idx ≠ 1 ∨ off ≠ 0))
    (o : Bytes) (actual mbLen' : Nat) (cache' : List Int) (out' : List IR)
    (hm : copyPart e cache interim mbLen out idx off d.toNat (min o.length window) copyLen = some (actual, mbLen', cache', out'))
    (t' : DecSt)
    (hspec : (if d.toNat ≤ min o.length window then
        if c + copyLen > mb.length then none else
        some ({ out := copyBytes copyLen d.toNat o, cursor := c + copyLen,
                ring := if upd then d :: cache.take 3 else cache } : DecSt)
      else
        if copyLen < 4 ∨ copyLen > 24 then none else
        match w copyLen ((d.toNat - min o.length window - 1) % 2 ^ (dictSizeBits.getD copyLen 0))
                ((d.toNat - min o.length window - 1) / 2 ^ (dictSizeBits.getD copyLen 0)) with
        | none => none
        | some word =>
          if c + word.length > mb.length then none else
          some { out := o ++ word, cursor := c + word.length, ring := cache }) = some t') :
    ∃ xs, out' = out ++ xs ∧ replayIR w window mb xs o = some t'.out ∧
      t'.cursor = c + actual ∧ actual ≤ interim.len ∧ mbLen' = mbLen - actual ∧ t'.out.length = o.length + actual ∧
      cache' = t'.ring ∧ CacheOk cache' := by
  unfold copyPart at hm
  by_cases hle : d.toNat ≤ min o.length window
  · -- LZ77 copy
    rw [if_pos hle] at hspec
    rw [if_neg (by omega)] at hm
    by_cases hover : c + copyLen > mb.length
    · rw [if_pos hover] at hspec; cases hspec
    · rw [if_neg hover] at hspec
      cases hspec
      simp only at hm
      have hact : min mbLen copyLen = copyLen := by omega
      rw [hact] at hm
      cases hm
      have hdpos : 1 ≤ d.toNat := by omega
      have hdI : ((d.toNat : Nat) : Int) = d := by omega
      refine ⟨if copyLen ≠ 0 then [IR.copy (d.toNat % 2 ^ 32) (copyLen % 2 ^ 32)] else [], ?_, ?_, rfl, by omega, rfl,
        by simp [copyBytes_length], ?_, ?_⟩
      · split <;> simp
      · by_cases hz : copyLen ≠ 0
        · rw [if_pos hz]
          simp only [replayIR]
          rw [Nat.mod_eq_of_lt (by have := hE.win31; omega), Nat.mod_eq_of_lt (by omega), if_pos ⟨hdpos, by omega, by omega⟩]
        · rw [if_neg hz]
          have : copyLen = 0 := by omega
          simp [replayIR, this, copyBytes]
      · show (if idx ≠ 1 ∨ off ≠ 0 then toI32 d.toNat :: cache.take 3 else cache) = if upd then d :: cache.take 3 else cache
        by_cases hu : upd = true
        · rw [if_pos (hupd.mp hu), hu, if_pos rfl, toI32_small _ (by have := hE.win31; omega), hdI]
        · have hu' : upd = false := by cases upd <;> simp_all
          rw [if_neg (fun hh => hu (hupd.mpr hh)), hu']
          simp
      · show CacheOk (if idx ≠ 1 ∨ off ≠ 0 then toI32 d.toNat :: cache.take 3 else cache)
        split
        · refine ⟨by simp [hc.1], ?_⟩
          intro x hx
          rcases List.mem_cons.mp hx with rfl | hx
          · exact toI32_range _
          · exact hc.2 x (List.mem_of_mem_take hx)
        · exact hc
  · -- static dictionary word
    rw [if_neg hle] at hspec
    rw [if_pos (by omega)] at hm
    by_cases hcl : copyLen < 4 ∨ copyLen > 24
    · rw [if_pos hcl] at hspec; cases hspec
    · rw [if_neg hcl] at hspec
      rw [if_neg (by omega)] at hm
      simp only at hm
      by_cases hwi : (d.toNat - min o.length window - 1) % 2 ^ dictSizeBits.getD copyLen 0 * copyLen + dictOffsets.getD copyLen 0 + copyLen > dictLen
      · rw [if_pos hwi] at hm; cases hm
      · rw [if_neg hwi, hE.oracle.agree copyLen _ (by omega) (by omega)] at hm
        cases hw : w copyLen ((d.toNat - min o.length window - 1) % 2 ^ dictSizeBits.getD copyLen 0)
            ((d.toNat - min o.length window - 1) / 2 ^ dictSizeBits.getD copyLen 0) with
        | none => rw [hw] at hspec; cases hspec
        | some word =>
          rw [hw] at hspec hm
          simp only at hspec hm
          by_cases hover : c + word.length > mb.length
          · rw [if_pos hover] at hspec; cases hspec
          · rw [if_neg hover] at hspec
            cases hspec
            rw [if_pos (by omega)] at hm
            by_cases heq : word = (interim.splitAt word.length).1.bytes
            · rw [if_pos heq] at hm
              cases hm
              obtain ⟨htr, hwl⟩ := hE.oracle.small _ _ _ _ hw
              have hbits := dictSizeBits_le copyLen
              have hid : (d.toNat - min o.length window - 1) % 2 ^ dictSizeBits.getD copyLen 0 < 2 ^ 32 := by
                have h1 : (d.toNat - min o.length window - 1) % 2 ^ dictSizeBits.getD copyLen 0 < 2 ^ dictSizeBits.getD copyLen 0 :=
                  Nat.mod_lt _ (Nat.two_pow_pos _)
                have h2 : 2 ^ dictSizeBits.getD copyLen 0 ≤ 2 ^ 11 := Nat.pow_le_pow_right (by decide) hbits
                omega
              refine ⟨_, rfl, ?_, rfl, by omega, rfl, by simp, rfl, hc⟩
              simp only [replayIR]
              rw [Nat.mod_eq_of_lt (by omega : copyLen < 256), Nat.mod_eq_of_lt htr, Nat.mod_eq_of_lt hwl,
                Nat.mod_eq_of_lt hid, hw]
              simp
            · rw [if_neg heq] at hm; cases hm


/-- the copy / dictionary part once the meta-block is exhausted (`mb_len = 0`): nothing that produces bytes
is emitted -/
theorem copyPart_terminal (w : WordOracle) (window : Nat) (mb : Bytes)
    (e : Env) (hE : EnvOK e w window) (cache : List Int) (interim : Pair) (_hlen : interim.len = 0)
    (out : List IR) (idx : Nat) (off : Int) (fd maxd copyLen : Nat)
    (actual mbLen' : Nat) (cache' : List Int) (out' : List IR)
    (hm : copyPart e cache interim 0 out idx off fd maxd copyLen = some (actual, mbLen', cache', out')) :
    ∃ xs, out' = out ++ xs ∧ Emits w window mb xs [] ∧ mbLen' = 0 := by
  unfold copyPart at hm
  by_cases hgt : fd > maxd
  · rw [if_pos hgt] at hm
    by_cases hcl : copyLen < 4 ∨ copyLen ≥ 25
    · rw [if_pos hcl] at hm; cases hm
    · rw [if_neg hcl] at hm
      simp only at hm
      by_cases hwi : (fd - maxd - 1) % 2 ^ dictSizeBits.getD copyLen 0 * copyLen + dictOffsets.getD copyLen 0 + copyLen > dictLen
      · rw [if_pos hwi] at hm; cases hm
      · rw [if_neg hwi, hE.oracle.agree copyLen _ (by omega) (by omega)] at hm
        cases hw : w copyLen ((fd - maxd - 1) % 2 ^ dictSizeBits.getD copyLen 0)
            ((fd - maxd - 1) / 2 ^ dictSizeBits.getD copyLen 0) with
        | none => rw [hw] at hm; cases hm
        | some word =>
          rw [hw] at hm
          simp only at hm
          by_cases hz : word.length ≤ 0
          · rw [if_pos hz] at hm
            by_cases heq : word = (interim.splitAt word.length).1.bytes
            · rw [if_pos heq] at hm
              cases hm
              obtain ⟨htr, hwl⟩ := hE.oracle.small _ _ _ _ hw
              have hbits := dictSizeBits_le copyLen
              have hid : (fd - maxd - 1) % 2 ^ dictSizeBits.getD copyLen 0 < 2 ^ 32 := by
                have h1 : (fd - maxd - 1) % 2 ^ dictSizeBits.getD copyLen 0 < 2 ^ dictSizeBits.getD copyLen 0 :=
                  Nat.mod_lt _ (Nat.two_pow_pos _)
                have h2 : 2 ^ dictSizeBits.getD copyLen 0 ≤ 2 ^ 11 := Nat.pow_le_pow_right (by decide) hbits
                omega
              have hnil : word = [] := List.length_eq_zero_iff.mp (by omega)
              refine ⟨_, rfl, ?_, by omega⟩
              intro o
              simp only [replayIR]
              rw [Nat.mod_eq_of_lt (by omega : copyLen < 256), Nat.mod_eq_of_lt htr, Nat.mod_eq_of_lt hwl,
                Nat.mod_eq_of_lt hid, hw]
              simp [hnil]
            · rw [if_neg heq] at hm; cases hm
          · rw [if_neg hz, if_neg (by omega)] at hm
            cases hm
            exact ⟨[], by simp, Emits.nil w window mb, rfl⟩
  · rw [if_neg hgt] at hm
    simp only [Nat.zero_min, ne_eq, not_true_eq_false, if_false] at hm
    cases hm
    exact ⟨[], by simp, Emits.nil w window mb, rfl⟩


theorem step_sim (w : WordOracle) (window : Nat) (mb h : Bytes) (h32 : mb.length < 2 ^ 32)
    (e : Env) (hE : EnvOK e w window) (s s' : St) (t t' : DecSt) (cmd : Cmd)
    (hs : Sim w window mb h s t) (wf : DistWF cmd e.dp) (hins : cmd.insertLen < 2 ^ 32)
    (hm : step e s cmd = some s')
    (hd : decStep w e.dp.npostfix e.dp.ndirect window mb t cmd = some t') :
    Sim w window mb h s' t' := by
  unfold decStep at hd
  simp only at hd
  by_cases hrem : mb.length - t.cursor = 0
  · rw [if_pos hrem] at hd; cases hd
  rw [if_neg hrem] at hd
  by_cases hbig : cmd.insertLen > mb.length - t.cursor
  · rw [if_pos hbig] at hd; cases hd
  rw [if_neg hbig] at hd
  have hL := hs.live (by omega)
  -- the split of the input iterator
  have hk : min (cmd.insertLen % 2 ^ 32) s.mbLen = cmd.insertLen := by
    rw [Nat.mod_eq_of_lt hins, hL.mbLen]; omega
  obtain ⟨rIns, rInt⟩ := hL.rep.splitAt cmd.insertLen (by rw [hL.iterLen]; omega)
  obtain ⟨lIns, lInt⟩ := s.iter.splitAt_len cmd.insertLen
  have lIns' : (s.iter.splitAt cmd.insertLen).1.len = cmd.insertLen := by rw [lIns, hL.iterLen]; omega
  have lInt' : (s.iter.splitAt cmd.insertLen).2.len = mb.length - (t.cursor + cmd.insertLen) := by
    rw [lInt, hL.iterLen]; omega
  have hbytes : (s.iter.splitAt cmd.insertLen).1.bytes = (mb.drop t.cursor).take cmd.insertLen := by
    rw [rIns.bytes, lIns']
  -- the model step
  unfold step at hm
  simp only [hk] at hm
  cases hdi : distanceIndexAndOffset cmd e.dp with
  | none => rw [hdi] at hm; cases hm
  | some io =>
    obtain ⟨idx, off⟩ := io
    rw [hdi] at hm
    simp only at hm
    cases hfd : finalDistance s.cache idx off with
    | none => rw [hfd] at hm; cases hm
    | some fd =>
      rw [hfd] at hm
      simp only at hm
      rw [if_neg (by rw [lIns', hL.mbLen]; omega)] at hm
      cases hlp : litPart e s (s.iter.splitAt cmd.insertLen).1 with
      | none => rw [hlp] at hm; cases hm
      | some lp =>
        obtain ⟨lsub, lc, mbLen1, out1⟩ := lp
        rw [hlp] at hm
        simp only at hm
        obtain ⟨lits, eo1, em1, emL⟩ := litPart_spec w window mb h32 e s _ t.cursor lsub lc mbLen1 out1 rIns hlp
        rw [lIns'] at em1
        have hout1 : replayIR w window mb out1 h = some (t.out ++ (mb.drop t.cursor).take cmd.insertLen) := by
          rw [eo1, replayIR_append_some w window mb _ _ _ _ hs.out, emL, hbytes]
        have hnbe1 : s.nbe + (s.iter.splitAt cmd.insertLen).1.len =
            (t.out ++ (mb.drop t.cursor).take cmd.insertLen).length := by
          rw [lIns', hs.nbe]
          simp
          omega
        cases hcp : copyPart e s.cache (s.iter.splitAt cmd.insertLen).2 mbLen1 out1 idx off fd
            (min (s.nbe + (s.iter.splitAt cmd.insertLen).1.len) (windowSize e.lgwin)) (copyLenCode cmd.copyLenField) with
        | none => rw [hcp] at hm; cases hm
        | some cp =>
          obtain ⟨actual, mbLen2, cache2, out2⟩ := cp
          rw [hcp] at hm
          simp only at hm
          cases hb1 : bumpBlock e.btc IR.bsc s.csub s.cc out2 with
          | none => rw [hb1] at hm; cases hm
          | some b1 =>
            obtain ⟨csub, cc, out3⟩ := b1
            rw [hb1] at hm
            simp only at hm
            obtain ⟨xs3, eo3, em3⟩ := bumpBlock_spec w window mb e.btc IR.bsc (Emits.bsc w window mb) _ _ _ _ _ _ hb1
            cases hb2 : (if copyLenCode cmd.copyLenField ≠ 0 ∧ cmd.cmdPrefix ≥ 128 then bumpBlock e.btd IR.bsd s.dsub s.dc out3
                else some (s.dsub, s.dc, out3)) with
            | none => rw [hb2] at hm; cases hm
            | some b2 =>
              obtain ⟨dsub, dc, out4⟩ := b2
              rw [hb2] at hm
              simp only at hm
              cases hm
              have hx4 : ∃ xs4, out4 = out3 ++ xs4 ∧ Emits w window mb xs4 [] := by
                by_cases hcond : copyLenCode cmd.copyLenField ≠ 0 ∧ cmd.cmdPrefix ≥ 128
                · rw [if_pos hcond] at hb2
                  exact bumpBlock_spec w window mb e.btd IR.bsd (Emits.bsd w window mb) _ _ _ _ _ _ hb2
                · rw [if_neg hcond] at hb2
                  cases hb2
                  exact ⟨[], by simp, Emits.nil w window mb⟩
              obtain ⟨xs4, eo4, em4⟩ := hx4
              -- terminal or not
              by_cases hterm : t.cursor + cmd.insertLen = mb.length
              · rw [if_pos hterm] at hd
                cases hd
                have hmb1 : mbLen1 = 0 := by rw [hL.mbLen] at em1; omega
                rw [hmb1] at hcp
                obtain ⟨xs2, eo2, em2, hmb2⟩ := copyPart_terminal w window mb e hE s.cache _ (by rw [lInt']; omega)
                  out1 idx off fd _ _ actual mbLen2 cache2 out2 hcp
                have hcl : ((s.iter.splitAt cmd.insertLen).2.splitAt actual).1.len = 0 := by
                  have := ((s.iter.splitAt cmd.insertLen).2.splitAt_len actual).1
                  rw [this, lInt']; omega
                refine ⟨by show t.cursor + cmd.insertLen ≤ mb.length; omega, ?_, ?_, ?_⟩
                · show s.nbe + (s.iter.splitAt cmd.insertLen).1.len + ((s.iter.splitAt cmd.insertLen).2.splitAt actual).1.len = _
                  rw [hcl, hnbe1]; rfl
                · show replayIR w window mb out4 h = some (t.out ++ (mb.drop t.cursor).take cmd.insertLen)
                  rw [eo4, eo3, eo2, List.append_assoc, List.append_assoc,
                    replayIR_append_some w window mb _ _ _ _ hout1, (em2.append (em3.append em4))]
                  simp
                · intro hlt
                  exfalso
                  have : t.cursor + cmd.insertLen < mb.length := hlt
                  omega
              · rw [if_neg hterm] at hd
                cases hrd : rfcDistance e.dp.npostfix e.dp.ndirect t.ring (cmd.distPrefix % 1024) cmd.distExtra with
                | none => rw [hrd] at hd; cases hd
                | some du =>
                  obtain ⟨d, upd⟩ := du
                  rw [hrd] at hd
                  simp only at hd
                  by_cases hdpos : d ≤ 0
                  · rw [if_pos hdpos] at hd; cases hd
                  · rw [if_neg hdpos] at hd
                    rw [← hL.cache] at hrd hd
                    obtain ⟨hfd', hupd⟩ := dist_agree cmd e.dp wf s.cache hL.cacheOk idx off hdi d upd hrd (by omega)
                    rw [hfd] at hfd'
                    cases hfd'
                    rw [hnbe1, ← hE.win] at hcp
                    have hmb1 : mbLen1 = mb.length - (t.cursor + cmd.insertLen) := by rw [hL.mbLen] at em1; omega
                    obtain ⟨xs2, eo2, hr2, hcur, hact, hmb2, hlen2, hca, hcok⟩ :=
                      copyPart_sim w window mb h32 e hE s.cache hL.cacheOk _ (t.cursor + cmd.insertLen) rInt lInt'
                        (by omega) mbLen1 hmb1 out1 idx off (copyLenCode cmd.copyLenField) d upd (by omega) hupd
                        (t.out ++ (mb.drop t.cursor).take cmd.insertLen) actual mbLen2 cache2 out2 hcp t' hd
                    obtain ⟨rC, rR⟩ := rInt.splitAt actual hact
                    obtain ⟨lC, lR⟩ := (s.iter.splitAt cmd.insertLen).2.splitAt_len actual
                    refine ⟨by rw [hcur]; rw [lInt'] at hact; omega, ?_, ?_, ?_⟩
                    · show s.nbe + (s.iter.splitAt cmd.insertLen).1.len + ((s.iter.splitAt cmd.insertLen).2.splitAt actual).1.len = _
                      rw [lC, hnbe1, hlen2, Nat.min_eq_left hact]
                    · show replayIR w window mb out4 h = some t'.out
                      rw [eo4, eo3, eo2, List.append_assoc, List.append_assoc,
                        replayIR_append_some w window mb _ _ _ _ hout1,
                        replayIR_append_some w window mb _ _ _ _ hr2, (em3.append em4)]
                      simp
                    · intro _
                      refine ⟨by rw [hcur]; exact rR, ?_, ?_, hca, hcok⟩
                      · show ((s.iter.splitAt cmd.insertLen).2.splitAt actual).2.len = _
                        rw [lR, lInt', hcur]; omega
                      · show mbLen2 = _
                        rw [hmb2, hmb1, hcur]; omega

/-- all commands carry well-formed distance fields and a u32 insert length -/
def CmdsWF (cmds : List Cmd) (dp : DistParams) : Prop := ∀ c ∈ cmds, DistWF c dp ∧ c.insertLen < 2 ^ 32

theorem stepAll_sim (w : WordOracle) (window : Nat) (mb h : Bytes) (h32 : mb.length < 2 ^ 32)
    (e : Env) (hE : EnvOK e w window) :
    ∀ (cmds : List Cmd) (s s' : St) (t t' : DecSt), Sim w window mb h s t → CmdsWF cmds e.dp →
      stepAll e s cmds = some s' → decSteps w e.dp.npostfix e.dp.ndirect window mb t cmds = some t' →
      Sim w window mb h s' t' := by
  intro cmds
  induction cmds with
  | nil => intro s s' t t' hs _ hm hd; simp [stepAll] at hm; simp [decSteps] at hd; subst hm; subst hd; exact hs
  | cons c cs ih =>
    intro s s' t t' hs wf hm hd
    unfold stepAll at hm
    unfold decSteps at hd
    cases h1 : step e s c with
    | none => rw [h1] at hm; cases hm
    | some s1 =>
      cases h2 : decStep w e.dp.npostfix e.dp.ndirect window mb t c with
      | none => rw [h2] at hd; cases hd
      | some t1 =>
        rw [h1] at hm; rw [h2] at hd
        have hc := wf c (by simp)
        exact ih s1 s' t1 t' (step_sim w window mb h h32 e hE s s1 t t1 c hs hc.1 hc.2 h1 h2)
          (fun x hx => wf x (by simp [hx])) hm hd

/-- the decoder's output grows exactly with its cursor -/
theorem decStep_length (w : WordOracle) (np nd window : Nat) (mb : Bytes) (t t' : DecSt) (c : Cmd)
    (h : decStep w np nd window mb t c = some t') :
    t.cursor ≤ t'.cursor ∧ t'.out.length + t.cursor = t.out.length + t'.cursor ∧ t'.cursor ≤ mb.length := by
  unfold decStep at h
  simp only at h
  split at h
  · cases h
  split at h
  · cases h
  rename_i hrem hbig
  have hl : ((mb.drop t.cursor).take c.insertLen).length = c.insertLen := by
    simp; omega
  split at h
  · cases h; simp only [List.length_append, hl]; omega
  · split at h
    · cases h
    · rename_i d upd hr
      split at h
      · cases h
      · split at h
        · split at h
          · cases h
          · cases h
            simp only [copyBytes_length, List.length_append, hl]
            omega
        · split at h
          · cases h
          · split at h
            · cases h
            · split at h
              · cases h
              · cases h
                simp only [List.length_append, hl]
                omega

theorem decSteps_length (w : WordOracle) (np nd window : Nat) (mb : Bytes) :
    ∀ (cmds : List Cmd) (t t' : DecSt), decSteps w np nd window mb t cmds = some t' → t.cursor ≤ mb.length →
      t.cursor ≤ t'.cursor ∧ t'.out.length + t.cursor = t.out.length + t'.cursor ∧ t'.cursor ≤ mb.length := by
  intro cmds
  induction cmds with
  | nil => intro t t' h hle; simp [decSteps] at h; subst h; omega
  | cons c cs ih =>
    intro t t' h hle
    unfold decSteps at h
    cases h1 : decStep w np nd window mb t c with
    | none => rw [h1] at h; cases h
    | some t1 =>
      rw [h1] at h
      obtain ⟨a1, a2, a3⟩ := decStep_length w np nd window mb t t1 c h1
      obtain ⟨b1, b2, b3⟩ := ih t1 t' h a3
      omega


end BV.Recoder
