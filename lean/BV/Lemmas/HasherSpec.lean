import BV.Lemmas.HasherLoop
/-!
Reference semantics of a `BasicHasher` index (written independently of the update code):
the table is a map slot ↦ position, and indexing a range of positions leaves in every slot the
LAST position of the range that is filed under that slot; slots no position is filed under keep
their old content.
-/
namespace BV.Hasher
namespace Basic

/-- the slot position `ix` is filed under: hash of the 8 bytes at its (masked) offset plus the
sweep offset `(ix / 8) mod sweep`; `none` if the bytes do not exist -/
def slotOf (P : BasicP) (data : ByteArray) (mask ix : Nat) : Option Nat :=
  match win data (ix &&& mask) 8 with
  | none => none
  | some w => some ((P.hash w % U32 + (ix / 8) % P.sweep % U32) % U32)

/-- the last position in `[s, s+n)` filed under slot `t` -/
def lastWriter (slot : Nat → Option Nat) (s : Nat) : Nat → Nat → Option Nat
  | 0, _ => none
  | n + 1, t => if slot (s + n) = some t then some (s + n) else lastWriter slot s n t

theorem forRange_snoc {σ : Type} (f : Nat → σ → Option σ) (s n : Nat) (x : σ) :
    forRange f s (n + 1) x = (forRange f s n x).bind (f (s + n)) := by
  rw [forRange_add]
  congr 1
  funext y
  rw [forRange_succ]
  cases f (s + n) y <;> rfl

theorem store_some {P : BasicP} {data : ByteArray} {mask ix : Nat} {b b' : Tab}
    (h : store P data mask ix b = some b') :
    ∃ t, slotOf P data mask ix = some t ∧ ∃ ht : t < b.size, b' = b.set t (ix % U32) ht := by
  unfold store hashAt at h
  unfold slotOf
  cases hw : win data (ix &&& mask) 8 with
  | none => simp [hw] at h
  | some w =>
    simp only [hw, Option.map_some] at h
    split at h
    · cases h
    · refine ⟨_, rfl, ?_⟩
      rw [Nat.shiftRight_eq_div_pow] at h
      unfold wr at h
      split at h
      · rename_i hlt
        exact ⟨hlt, by injection h with h; exact h.symm⟩
      · cases h

/-- one-at-a-time indexing realises the reference semantics -/
theorem fold_store_spec (P : BasicP) (data : ByteArray) (mask s : Nat) :
    ∀ (n : Nat) (b b' : Tab), forRange (store P data mask) s n b = some b' →
      b'.size = b.size ∧ ∀ t,
        (∀ ix, lastWriter (slotOf P data mask) s n t = some ix → b'[t]? = some (ix % U32)) ∧
        (lastWriter (slotOf P data mask) s n t = none → b'[t]? = b[t]?) := by
  intro n
  induction n with
  | zero =>
    intro b b' h
    simp only [forRange_zero, Option.some.injEq] at h
    subst h
    exact ⟨rfl, fun t => ⟨fun ix hix => by simp [lastWriter] at hix, fun _ => rfl⟩⟩
  | succ n ih =>
    intro b b' h
    rw [forRange_snoc] at h
    cases h1 : forRange (store P data mask) s n b with
    | none => simp [h1] at h
    | some b1 =>
      simp only [h1, Option.bind_some] at h
      obtain ⟨hsz, hsp⟩ := ih b b1 h1
      obtain ⟨t0, hslot, ht0, rfl⟩ := store_some h
      refine ⟨by simp [hsz], fun t => ?_⟩
      simp only [lastWriter, hslot, Option.some.injEq]
      by_cases htt : t0 = t
      · subst htt
        simp only [if_true, Option.some.injEq]
        exact ⟨fun ix hix => by subst hix; simp, fun hc => by cases hc⟩
      · simp only [htt, if_false]
        rw [Array.getElem?_set_ne ht0 htt]
        exact hsp t

end Basic
end BV.Hasher
