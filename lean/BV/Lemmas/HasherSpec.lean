import BV.Lemmas.HasherLoop
/-!
Reference semantics of a `BasicHasher` index (written independently of the update code):
the table is a map slot ↦ position, and indexing a range of positions leaves in every slot the
LAST position of the range that is filed under that slot; slots no position is filed under keep
their old content.
-/
namespace BV.Hasher
namespace Basic

/-- the slot position `ix` is filed under: hash of the 8 bytes at its (masked) offset plus the
sweep offset `(ix / 8) mod sweep`; `none` if the bytes do not exist -/
def slotOf (P : BasicP) (data : ByteArray) (mask ix : Nat) : Option Nat :=
  match win data (ix &&& mask) 8 with
  | none => none
  | some w => some ((P.hash w % U32 + (ix / 8) % P.sweep % U32) % U32)

/-- the last position in `[s, s+n)` filed under slot `t` -/
def lastWriter (slot : Nat → Option Nat) (s : Nat) : Nat → Nat → Option Nat
  | 0, _ => none
  | n + 1, t => if slot (s + n) = some t then some (s + n) else lastWriter slot s n t

theorem forRange_snoc {σ : Type} (f : Nat → σ → Option σ) (s n : Nat) (x : σ) :
    forRange f s (n + 1) x = (forRange f s n x).bind (f (s + n)) := by
  rw [forRange_add]
  congr 1
  funext y
  rw [forRange_succ]
  cases f (s + n) y <;> rfl

theorem store_some {P : BasicP} {data : ByteArray} {mask ix : Nat} {b b' : Tab}
    (h : store P data mask ix b = some b') :
    ∃ t, slotOf P data mask ix = some t ∧ ∃ ht : t < b.size, b' = b.set t (ix % U32) ht := by
  unfold store hashAt at h
  unfold slotOf
  cases hw : win data (ix &&& mask) 8 with
  | none => simp [hw] at h
  | some w =>
    simp only [hw, Option.map_some] at h
    split at h
    · cases h
    · refine ⟨_, rfl, ?_⟩
      rw [Nat.shiftRight_eq_div_pow] at h
      unfold wr at h
      split at h
      · rename_i hlt
        exact ⟨hlt, by injection h with h; exact h.symm⟩
      · cases h

/-- one-at-a-time indexing realises the reference semantics -/
theorem fold_store_spec (P : BasicP) (data : ByteArray) (mask s : Nat) :
    ∀ (n : Nat) (b b' : Tab), forRange (store P data mask) s n b = some b' →
      b'.size = b.size ∧ ∀ t,
        (∀ ix, lastWriter (slotOf P data mask) s n t = some ix → b'[t]? = some (ix % U32)) ∧
        (lastWriter (slotOf P data mask) s n t = none → b'[t]? = b[t]?) := by
  intro n
  induction n with
  | zero =>
    intro b b' h
    simp only [forRange_zero, Option.some.injEq] at h
    subst h
    exact ⟨rfl, fun t => ⟨fun ix hix => by simp [lastWriter] at hix, fun _ => rfl⟩⟩
  | succ n ih =>
    intro b b' h
    rw [forRange_snoc] at h
    cases h1 : forRange (store P data mask) s n b with
    | none => simp [h1] at h
    | some b1 =>
      simp only [h1, Option.bind_some] at h
      obtain ⟨hsz, hsp⟩ := ih b b1 h1
      obtain ⟨t0, hslot, ht0, rfl⟩ := store_some h
      refine ⟨by simp [hsz], fun t => ?_⟩
      simp only [lastWriter, hslot, Option.some.injEq]
      by_cases htt : t0 = t
      · subst htt
        simp only [if_true, Option.some.injEq]
        exact ⟨fun ix hix => by subst hix; simp, fun hc => by cases hc⟩
      · simp only [htt, if_false]
        rw [Array.getElem?_set_ne ht0 htt]
        exact hsp t

end Basic

/-!
Reference semantics of an `AdvHasher` index: every key owns a ring of `block_size` slots and a
16-bit counter; the `j`-th position (counting from 0) with a given key that is indexed after the
counter stood at `c` goes to ring slot `(c + j) mod 2^16 & block_mask` of that key's block, the
counter ends at `(c + number of positions with that key) mod 2^16`, and a slot keeps the LAST
position that was sent to it.
-/
namespace Adv

/-- key of a position: hash of the bytes at its (masked) offset; `none` if they do not exist -/
def keyOf (P : AdvP) (data : ByteArray) (mask ix : Nat) : Option Nat :=
  match win data (ix &&& mask) P.lookahead with
  | none => none
  | some w => some ((P.mixWord w >>> P.shift) % U32)

/-- number of positions in `[s, s+n)` with key `key` -/
def countKey (keyOf : Nat → Option Nat) (s : Nat) : Nat → Nat → Nat
  | 0, _ => 0
  | n + 1, key => countKey keyOf s n key + (if keyOf (s + n) = some key then 1 else 0)

/-- slot of position `ix ≥ s` when `[s, …)` is indexed starting from counters `num0` -/
def slotOf (P : AdvP) (keyOf : Nat → Option Nat) (num0 : Tab) (s ix : Nat) : Option Nat :=
  match keyOf ix with
  | none => none
  | some key =>
    some ((key <<< P.blockBits) +
      (((num0.getD key 0 + countKey keyOf s (ix - s) key) % U16) &&& P.blockMask))

theorem store_some {P : AdvP} {data : ByteArray} {mask ix : Nat} {num b : Tab} {st' : AdvSt}
    (h : store P data mask ix ⟨num, b⟩ = some st') :
    ∃ key, keyOf P data mask ix = some key ∧ ∃ hk : key < num.size,
      ∃ hi : (num[key] &&& P.blockMask) + (key <<< P.blockBits) % U32 < b.size,
        st' = ⟨num.set key ((num[key] + 1) % U16) hk,
               b.set ((num[key] &&& P.blockMask) + (key <<< P.blockBits) % U32) (ix % U32) hi⟩ := by
  simp only [store, hashAt] at h
  unfold keyOf
  cases hw : win data (ix &&& mask) P.lookahead with
  | none => simp [hw] at h
  | some w =>
    simp only [hw, Option.map_some] at h
    refine ⟨_, rfl, ?_⟩
    by_cases hk : (P.mixWord w >>> P.shift) % U32 < num.size
    · refine ⟨hk, ?_⟩
      simp only [rd, hk, dite_true] at h
      unfold wr at h
      split at h
      · cases h
      · rename_i b1 hb
        split at hb
        · rename_i hi
          refine ⟨hi, ?_⟩
          injection hb with hb
          subst hb
          simp only [hk, dite_true] at h
          injection h with h
          exact h.symm
        · cases hb
    · simp [rd, hk] at h

/-- one-at-a-time indexing realises the reference semantics (counters are `u16`) -/
theorem fold_store_spec (P : AdvP) (hk : ∀ w, ((P.mixWord w >>> P.shift) % U32) <<< P.blockBits < U32)
    (data : ByteArray) (mask s : Nat) (num0 b0 : Tab) (hu16 : ∀ key, num0.getD key 0 < U16) :
    ∀ (n : Nat) (st' : AdvSt), forRange (store P data mask) s n ⟨num0, b0⟩ = some st' →
      st'.num.size = num0.size ∧ st'.buckets.size = b0.size ∧
      (∀ key, key < num0.size →
        st'.num[key]? = some ((num0.getD key 0 + countKey (keyOf P data mask) s n key) % U16)) ∧
      ∀ t,
        (∀ ix, Basic.lastWriter (slotOf P (keyOf P data mask) num0 s) s n t = some ix →
          st'.buckets[t]? = some (ix % U32)) ∧
        (Basic.lastWriter (slotOf P (keyOf P data mask) num0 s) s n t = none →
          st'.buckets[t]? = b0[t]?) := by
  intro n
  induction n with
  | zero =>
    intro st' h
    simp only [forRange_zero, Option.some.injEq] at h
    subst h
    refine ⟨rfl, rfl, fun key hkey => ?_, fun t => ⟨fun ix hix => by simp [Basic.lastWriter] at hix, fun _ => rfl⟩⟩
    simp only [countKey, Nat.add_zero, Nat.mod_eq_of_lt (hu16 key)]
    simp [Array.getD, hkey]
  | succ n ih =>
    intro st' h
    rw [Basic.forRange_snoc] at h
    cases h1 : forRange (store P data mask) s n ⟨num0, b0⟩ with
    | none => simp [h1] at h
    | some st1 =>
      obtain ⟨num1, b1⟩ := st1
      simp only [h1, Option.bind_some] at h
      obtain ⟨hsn, hsb, hnum, hbk⟩ := ih ⟨num1, b1⟩ h1
      simp only at hsn hsb hnum hbk
      obtain ⟨key, hkey, hklt, hi, rfl⟩ := store_some h
      have hv : num1[key] = (num0.getD key 0 + countKey (keyOf P data mask) s n key) % U16 := by
        have := hnum key (hsn ▸ hklt)
        rw [Array.getElem?_eq_getElem hklt] at this
        exact Option.some.inj this
      obtain ⟨w, hw⟩ : ∃ w, key = (P.mixWord w >>> P.shift) % U32 := by
        unfold keyOf at hkey
        split at hkey
        · cases hkey
        · rename_i w _; exact ⟨w, (Option.some.inj hkey).symm⟩
      have hkb : (key <<< P.blockBits) % U32 = key <<< P.blockBits := by
        rw [hw]; exact Nat.mod_eq_of_lt (hk w)
      refine ⟨by simp [hsn], by simp [hsb], fun key' hkey' => ?_, fun t => ?_⟩
      · simp only [countKey, hkey, Option.some.injEq]
        by_cases hkk : key = key'
        · subst hkk
          simp only [if_true, Array.getElem?_set_self, hv]
          rw [Nat.mod_add_mod, Nat.add_assoc]
        · simp only [hkk, if_false, Nat.add_zero]
          rw [Array.getElem?_set_ne hklt hkk]
          exact hnum key' hkey'
      · have hslot : slotOf P (keyOf P data mask) num0 s (s + n)
            = some ((num1[key] &&& P.blockMask) + (key <<< P.blockBits) % U32) := by
          simp only [slotOf, hkey, Nat.add_sub_cancel_left, hkb, hv, Nat.add_comm]
        simp only [Basic.lastWriter, hslot, Option.some.injEq]
        by_cases htt : (num1[key] &&& P.blockMask) + (key <<< P.blockBits) % U32 = t
        · subst htt
          simp only [if_true, Option.some.injEq]
          exact ⟨fun ix hix => by subst hix; simp, fun hc => by cases hc⟩
        · simp only [htt, if_false]
          rw [Array.getElem?_set_ne hi htt]
          exact hbk t

end Adv
end BV.Hasher
