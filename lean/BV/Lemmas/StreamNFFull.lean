import BV.Lemmas.StreamRunSim
import BV.Lemmas.HeaderBlocks
import BV.Model.StreamNF
/-
C08, run level: `BlocksOK` DERIVED from the run.  In a never-flushed history (PROCESS / FINISH only)
at quality ≥ 2, every payload-encoder request is an `encode_data` request from `compress_stream`
(site 0), is not a forced flush, starts its meta-block no later than its own range (`lf ≤ lo`), and —
unless it is the final one — sees a full input block of at least 2^14 bytes.  Proved as an instance of
the run-level simulation (`run_sim`): abstract state = {only parameters set, initialised at quality
0/1 (nothing claimed), initialised at quality ≥ 2 with a block of ≥ 2^14 bytes}.
-/
namespace BV.Stream
open BV.Bits

inductive NFq where
  | pre | junk | good
deriving DecidableEq

/-- what a never-flushed quality ≥ 2 history allows an event to be -/
def EvFull : Ev → Prop
  | .enc _ req _ _ _ => req.site = 0 ∧ req.forceFlush = false ∧ req.lf ≤ req.lo ∧ (req.isLast = false → 2 ^ 14 ≤ req.hi - req.lo)
  | .fast _ _ => False
  | .pad _ => True
  | .mdHeader _ _ => False
  | .mdBody _ => False
  | _ => True

def nfqT : NFq → Ev → NFq → Prop
  | .pre, e, b => (∃ w, e = .window w) ∧ (b = .junk ∨ b = .good)
  | .junk, _, b => b = .junk
  | .good, e, b => b = .good ∧ EvFull e

def nfqR : NFq → St → Prop
  | .pre, s => IsFresh s
  | .junk, s => s.isInitialized = true ∧ s.q01 = true
  | .good, s => s.isInitialized = true ∧ s.q01 = false ∧ 2 ^ 14 ≤ s.blockSize

theorem q01_of_fastMode {s : St} (h : fastMode s.params) : s.q01 = true := by
  unfold St.q01
  simp [h.1]

theorem good_of_params {s s' : St} (hp : s'.params = s.params) (hi : s'.isInitialized = true) (h : nfqR .good s) : nfqR .good s' := by
  obtain ⟨_, h2, h3⟩ := h
  refine ⟨hi, ?_, ?_⟩
  · unfold St.q01 at h2 ⊢; rw [hp]; exact h2
  · unfold St.blockSize at h3 ⊢; rw [hp]; exact h3

set_option maxRecDepth 4000 in
theorem nfq_step {o : Oracle} {op : Nat} {s s' : St} {io io' : Io} {e : Ev} {a : NFq} (hop : op = 0 ∨ op = 2)
    (ha : nfqR a s) (h : Step o op (s, io) e (s', io')) : ∃ a', nfqR a' s' ∧ nfqT a e a' := by
  obtain ⟨hi', hwin⟩ := step_initialized h
  cases a with
  | junk =>
    obtain ⟨hi, hq⟩ := ha
    exact ⟨.junk, ⟨hi', (q01_congr (step_quality h hi)).trans hq⟩, rfl⟩
  | pre =>
    have hni := isFreshInit ha
    have hw : ∃ w, e = .window w := by
      cases h with
      | init hf => exact ⟨_, rfl⟩
      | copy hI hw hop hnf hst hrm hc hn h => rw [hI.init] at hni; cases hni
      | pad hI hc hz h => rw [hI.init] at hni; cases hni
      | push hI hc h => rw [hI.init] at hni; cases hni
      | encSlow hI hop hnf hrm hnc hnp hpend hst hgo h => rw [hI.init] at hni; cases hni
      | cfc hI hop hrm hnp hfl => rw [hI.init] at hni; cases hni
      | fastFlush hI hfm hrm hnp hpend hst hop1 hz => rw [hI.init] at hni; cases hni
      | fastBlock hI hfm hop hrm hnp hpend hst hgo hnf hcap hin hfit => rw [hI.init] at hni; cases hni
      | mdEnter hI hop hentry => rw [hI.init] at hni; cases hni
      | mdEnc hM hop hpend hne h => rw [hM.inv.init] at hni; cases hni
      | mdHead hM hop hpend hlf hst hok => rw [hM.inv.init] at hni; cases hni
      | mdDone hM hop hpend hlf hst hz => rw [hM.inv.init] at hni; cases hni
      | mdOut hM hop hpend hlf hst hnz hao hle => rw [hM.inv.init] at hni; cases hni
      | mdTiny hM hop hpend hlf hst hnz hao hle => rw [hM.inv.init] at hni; cases hni
    cases hq : s'.q01 with
    | true => exact ⟨.junk, ⟨hi', hq⟩, hw, Or.inl rfl⟩
    | false =>
      refine ⟨.good, ⟨hi', hq, ?_⟩, hw, Or.inr rfl⟩
      -- the state after the `init` atom is `ensureInitialized s`
      cases h with
      | init hf =>
        apply BV.StreamBlocks.blockSize_ge s hni
        intro hc
        unfold St.q01 at hq
        simp [hc] at hq
      | copy hI hw hop hnf hst hrm hc hn h => rw [hI.init] at hni; cases hni
      | pad hI hc hz h => rw [hI.init] at hni; cases hni
      | push hI hc h => rw [hI.init] at hni; cases hni
      | encSlow hI hop hnf hrm hnc hnp hpend hst hgo h => rw [hI.init] at hni; cases hni
      | cfc hI hop hrm hnp hfl => rw [hI.init] at hni; cases hni
      | fastFlush hI hfm hrm hnp hpend hst hop1 hz => rw [hI.init] at hni; cases hni
      | fastBlock hI hfm hop hrm hnp hpend hst hgo hnf hcap hin hfit => rw [hI.init] at hni; cases hni
      | mdEnter hI hop hentry => rw [hI.init] at hni; cases hni
      | mdEnc hM hop hpend hne h => rw [hM.inv.init] at hni; cases hni
      | mdHead hM hop hpend hlf hst hok => rw [hM.inv.init] at hni; cases hni
      | mdDone hM hop hpend hlf hst hz => rw [hM.inv.init] at hni; cases hni
      | mdOut hM hop hpend hlf hst hnz hao hle => rw [hM.inv.init] at hni; cases hni
      | mdTiny hM hop hpend hlf hst hnz hao hle => rw [hM.inv.init] at hni; cases hni
  | good =>
    have hg := ha
    obtain ⟨hi, hq, hb⟩ := ha
    have hop3 : op ≠ 3 := by omega
    cases h with
    | init hf => rw [isFreshInit hf] at hi; cases hi
    | copy hI hw hop' hnf hst hrm hc hn h =>
      obtain ⟨c1, _⟩ := copy_fields hI.init h
      exact ⟨.good, good_of_params c1 hi' hg, rfl, trivial⟩
    | pad hI hc hz h =>
      obtain ⟨f, _⟩ := pad_frame h
      rw [St.frame_eq_iff] at f
      exact ⟨.good, good_of_params f.1 hi' hg, rfl, trivial⟩
    | push hI hc h =>
      obtain ⟨f, _⟩ := push_frame h
      rw [St.frame_eq_iff] at f
      exact ⟨.good, good_of_params f.1 hi' hg, rfl, trivial⟩
    | cfc hI hop' hrm hnp hfl =>
      obtain ⟨c1, _⟩ := checkFlushComplete_frame s
      exact ⟨.good, good_of_params c1 hi' hg, rfl, trivial⟩
    | fastFlush hI hfm hrm hnp hpend hst hop1 hz => rw [q01_of_fastMode hfm] at hq; cases hq
    | fastBlock hI hfm hop' hrm hnp hpend hst hgo hnf hcap hin hfit => rw [q01_of_fastMode hfm] at hq; cases hq
    | mdEnter hI hop' hentry => exact absurd hop' hop3
    | mdEnc hM hop' hpend hne h => exact absurd hop' hop3
    | mdHead hM hop' hpend hlf hst hok => exact absurd hop' hop3
    | mdDone hM hop' hpend hlf hst hz => exact absurd hop' hop3
    | mdOut hM hop' hpend hlf hst hnz hao hle => exact absurd hop' hop3
    | mdTiny hM hop' hpend hlf hst hnz hao hle => exact absurd hop' hop3
    | encSlow hI hop' hnf hrm hnc hnp hpend hst hgo h =>
      rename_i s2 req
      obtain ⟨u1, u2, _, _, _, u6, _, _, _, u10, u11, _⟩ := updateSizeHint_fields s io.availIn
      refine ⟨.good, ⟨hi', ?_, ?_⟩, rfl, ?_⟩
      · exact (q01_congr (step_quality (Step.encSlow hI hop' hnf hrm hnc hnp hpend hst hgo h) hi)).trans hq
      · obtain ⟨f, _⟩ := encodeData_frame h
        rw [St.frame_eq_iff] at f
        have k1 := (markAfterEncode_fields s2 (slowIl op io) (slowFf op io)).1
        have hbs : (markAfterEncode s2 (slowIl op io) (slowFf op io)).blockSize = s.blockSize :=
          blockSize_congr (by rw [k1, f.1, u1])
        rw [hbs]; exact hb
      · -- the event
        show EvFull (encEv o (updateSizeHint s io.availIn) 0 (slowIl op io) (slowFf op io))
        unfold encEv EvFull reqOf
        simp only
        have hff : slowFf op io = false := by
          rcases hop with h0 | h0 <;> simp [slowFf, h0]
        refine ⟨trivial, hff, by rw [u10, u11]; exact hI.fl_le, ?_⟩
        intro hil
        rw [u6, u11]
        have hnl : ¬ (io.availIn = 0 ∧ op = 2) := by
          have hil' : decide (io.availIn = 0 ∧ op = 2) = false := hil
          simpa using hil'
        have hrbs : remainingInputBlockSize s = 0 := by
          by_cases hr : remainingInputBlockSize s = 0
          · exact hr
          · exfalso
            rcases hgo with h0 | h0
            · exact hr h0
            · have h2 : op = 2 := by rcases hop with hh | hh; exact absurd hh h0; exact hh
              have hav : io.availIn ≠ 0 := fun hz => hnl ⟨hz, h2⟩
              exact hnc ⟨hr, hav⟩
        have hu : s.unprocessed = s.inputPos - s.lastProcessedPos := wsub64_eq hI.lp_le hI.ip_lt
        have hge : s.blockSize ≤ s.inputPos - s.lastProcessedPos := by
          simp only [remainingInputBlockSize] at hrbs
          split at hrbs
          · rw [← hu]; assumption
          · have hbpos : 0 < s.blockSize := Nat.pow_pos (by decide)
            omega
        omega

theorem takeOutput_params {s s' : St} {size : Nat} {out : Bytes} (h : takeOutput s size = .ok (s', out)) :
    s'.params = s.params ∧ s'.isInitialized = s.isInitialized := by
  unfold takeOutput at h
  split at h
  · simp at h
  · split at h
    · simp only [Out.ok.injEq, Prod.mk.injEq] at h
      obtain ⟨rfl, _⟩ := h
      obtain ⟨k1, _, _, k4, _⟩ := checkFlushComplete_frame (takeAdvance s (takeCount s size))
      exact ⟨k1, k4⟩
    · simp only [Out.ok.injEq, Prod.mk.injEq] at h
      obtain ⟨rfl, _⟩ := h
      exact ⟨rfl, rfl⟩

theorem nfq_take {s s' : St} {size : Nat} {out : Bytes} {a : NFq} (ha : nfqR a s)
    (h : takeOutput s size = .ok (s', out)) : nfqR a s' := by
  cases a with
  | pre =>
    obtain ⟨_, hp0, _, hno, _⟩ := isFresh_fields ha
    have : takeOutput s size = .ok (s, []) := by
      unfold takeOutput takeSliceOk takeCount
      rw [hno, hp0]
      simp
    rw [this] at h
    simp only [Out.ok.injEq, Prod.mk.injEq] at h
    rw [← h.1]; exact ha
  | junk =>
    obtain ⟨p1, p2⟩ := takeOutput_params h
    exact ⟨p2.trans ha.1, by unfold St.q01; rw [p1]; exact ha.2⟩
  | good =>
    obtain ⟨p1, p2⟩ := takeOutput_params h
    exact good_of_params p1 (p2.trans ha.1) ha

theorem nfq_setp {s : St} {id v : Nat} {a : NFq} (ha : nfqR a s) : nfqR a (setParameter s id v).1 := by
  cases a with
  | pre => exact setParameter_fresh ha id v
  | junk =>
    have : setParameter s id v = (s, false) := by simp [setParameter, ha.1]
    rw [this]; exact ha
  | good =>
    have : setParameter s id v = (s, false) := by simp [setParameter, ha.1]
    rw [this]; exact ha

theorem nfq_hint {s : St} {a : NFq} (ha : nfqR a s) : nfqR a (updateSizeHint s 0) := by
  obtain ⟨u1, u2, _, _, _, _, _, u8, _⟩ := updateSizeHint_fields s 0
  cases a with
  | pre =>
    obtain ⟨p, rfl⟩ := ha
    unfold updateSizeHint
    split
    · exact ⟨_, rfl⟩
    · exact ⟨p, rfl⟩
  | junk => exact ⟨u8.trans ha.1, (q01_congr u2).trans ha.2⟩
  | good =>
    refine ⟨u8.trans ha.1, (q01_congr u2).trans ha.2.1, ?_⟩
    rw [blockSize_congr u1]; exact ha.2.2

/-- the never-flushed simulation -/
def nfqSim (o : Oracle) : Sim o NFq where
  T := nfqT
  R := nfqR
  opOK := fun op => op = 0 ∨ op = 2
  step := fun hop ha h => nfq_step hop ha h
  take := fun ha h => nfq_take ha h
  setp := fun ha => nfq_setp ha
  hint := fun ha => nfq_hint ha

theorem path_junk {log : List Ev} {b : NFq} (h : Path nfqT .junk log b) : b = .junk := by
  induction log with
  | nil => exact h.symm
  | cons e es ih =>
    obtain ⟨a1, t1, p1⟩ := h
    have : a1 = .junk := t1
    subst this
    exact ih p1

theorem path_good {log : List Ev} {b : NFq} (h : Path nfqT .good log b) : b = .good ∧ ∀ e ∈ log, EvFull e := by
  induction log with
  | nil => exact ⟨h.symm, fun _ he => by cases he⟩
  | cons e es ih =>
    obtain ⟨a1, t1, p1⟩ := h
    obtain ⟨ha1, hev⟩ : a1 = .good ∧ EvFull e := t1
    subst ha1
    obtain ⟨r1, r2⟩ := ih p1
    refine ⟨r1, ?_⟩
    intro e' he'
    rcases List.mem_cons.mp he' with rfl | h2
    · exact hev
    · exact r2 e' h2

theorem path_pre {log : List Ev} {b : NFq} (h : Path nfqT .pre log b) :
    (b = .pre ∧ log = []) ∨ b = .junk ∨ (b = .good ∧ ∃ w rest, log = .window w :: rest ∧ ∀ e ∈ rest, EvFull e) := by
  cases log with
  | nil => exact Or.inl ⟨h.symm, rfl⟩
  | cons e es =>
    obtain ⟨a1, t1, p1⟩ := h
    obtain ⟨⟨w, rfl⟩, hj | hg⟩ : (∃ w, e = .window w) ∧ (a1 = .junk ∨ a1 = .good) := t1
    · subst hj
      exact Or.inr (Or.inl (path_junk p1))
    · subst hg
      obtain ⟨r1, r2⟩ := path_good p1
      exact Or.inr (Or.inr ⟨r1, w, es, rfl, r2⟩)

theorem histOK_of_neverFlushed {calls : List Call} (h : NeverFlushed calls) : HistOK calls ∧ HistOp (fun op => op = 0 ∨ op = 2) calls := by
  induction calls with
  | nil => exact ⟨trivial, trivial⟩
  | cons c cs ih =>
    cases c with
    | stream op chunk cap =>
      obtain ⟨h1, h2⟩ := h
      obtain ⟨i1, i2⟩ := ih h2
      exact ⟨⟨by omega, i1⟩, ⟨h1, i2⟩⟩
    | setParam id v =>
      obtain ⟨i1, i2⟩ := ih h
      exact ⟨i1, ⟨trivial, i2⟩⟩
    | take n =>
      obtain ⟨i1, i2⟩ := ih h
      exact ⟨i1, ⟨trivial, i2⟩⟩

/-- **every request of a never-flushed quality ≥ 2 history**: an `encode_data` request of the main loop,
never a forced flush, its meta-block starts no later than its range, and unless it is the final one it
sees a full input block of at least 2^14 bytes -/
theorem nf_requests_full {o : Oracle} {fuel : Nat} {calls : List Call} {s0 s : St} {t : Trace}
    (hf : IsFresh s0) (hnf : NeverFlushed calls) (hw : histLen calls < two64)
    (h : run o fuel calls s0 {} = .ok (s, t)) (hq : s.q01 = false) :
    ∀ r ∈ t.reqs, r.site = 0 ∧ r.forceFlush = false ∧ r.lf ≤ r.lo ∧ (r.isLast = false → 2 ^ 14 ≤ r.hi - r.lo) := by
  obtain ⟨hk1, hk2⟩ := histOK_of_neverFlushed hnf
  have hip : s0.inputPos = 0 := (isFresh_fields hf).2.2.1
  obtain ⟨log, hsim, f⟩ := run_sim (nfqSim o) (fuel := fuel) (t0 := {}) (runOK_fresh hf) hk1 hk2 (by rw [hip]; omega) h
  obtain ⟨b, hb, hpath⟩ := hsim .pre hf
  have hreqs : t.reqs = logReqs log := by
    have := f.reqs
    simpa using this
  intro r hr
  rw [hreqs] at hr
  rcases path_pre hpath with ⟨_, hl⟩ | hj | ⟨_, w, rest, hl, hfull⟩
  · subst hl; simp [logReqs] at hr
  · subst hj
    have : s.q01 = true := hb.2
    rw [hq] at this; cases this
  · subst hl
    obtain ⟨e, he, her⟩ : ∃ e ∈ (Ev.window w :: rest), e.req = some r := by
      unfold logReqs at hr
      exact List.mem_filterMap.mp hr
    rcases List.mem_cons.mp he with rfl | he2
    · simp [Ev.req] at her
    · have hE := hfull e he2
      cases e with
      | enc k req pre skel taken =>
        simp only [Ev.req, Option.some.injEq] at her
        subst her
        exact hE
      | fast k req => exact absurd hE (by simp [EvFull])
      | window b => simp [Ev.req] at her
      | copy c => simp [Ev.req] at her
      | push => simp [Ev.req] at her
      | pad l => simp [Ev.req] at her
      | mdHeader n l => simp [Ev.req] at her
      | mdBody bb => simp [Ev.req] at her
      | tau j => simp [Ev.req] at her

end BV.Stream
