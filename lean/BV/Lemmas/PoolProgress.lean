/-
Helper lemmas for C07, part 7: a runnable thread really can take a step
(`step` returns `.ok`, not `bad-choice` / `bad-prog` / a panic).
-/
import BV.Lemmas.PoolLive

namespace BV.Lemmas.Pool
open BV.Gen BV.FixedQueue BV.Pool BV.Lemmas.FixedQueue

theorem worker_step_ok {s : State} (I : Inv s) {i : Nat} {p : WPc} (hw : s.workers[i]? = some p)
    (hr : p.runnable = true) : ∃ s', step s (.run (i + 1)) = .ok s' := by
  cases hs : step s (.run (i + 1)) with
  | ok s' => exact ⟨s', rfl⟩
  | error e =>
    exfalso
    have key : ∃ site, e = .panic site := by
      simp only [step, stepWorker, hw] at hs
      cases p with
      | atLockA =>
        simp only [stepLockA] at hs
        split at hs
        · cases hs
        · split at hs
          · cases hs
          · split at hs <;> cases hs
      | atRun j => simp [stepRun] at hs
      | atLockB r =>
        simp only [stepLockB] at hs
        split at hs
        · cases hs; exact ⟨_, rfl⟩
        · split at hs
          · cases hs; exact ⟨_, rfl⟩
          · cases hs
      | woken => simp [stepWoken] at hs
      | waiting => simp [WPc.runnable] at hr
      | exited => simp [WPc.runnable] at hr
    obtain ⟨site, rfl⟩ := key
    exact no_panic_of_inv I _ site hs

theorem sub_step_ok {s : State} (I : Inv s) (L : InvL s) (hr : s.subRunnable = true) :
    ∃ s', step s (.run 0) = .ok s' := by
  cases hs : step s (.run 0) with
  | ok s' => exact ⟨s', rfl⟩
  | error e =>
    exfalso
    have hlen : s.spawned.length = s.curWorkId := by
      have := congrArg List.length I.spawnedIds
      simpa using this
    -- ready / woken: the op at the head of the program
    have sub : (s.spc = .ready ∨ s.spc = .woken) → ∀ (hh : (match s.prog with
          | [] => (.error .badChoice : Except Err State)
          | .spawn idx :: rest => stepSpawn s idx rest
          | .join n :: rest => stepJoin s n rest
          | .unwrapInput :: rest =>
            .ok ({ s with spc := .ready, prog := rest }.log 0 (.unwrap (s.arc == 1)))
          | .dropPool :: rest => stepDrop s rest) = .error e), ∃ site, e = .panic site := by
      intro hspc hh
      have hne : s.prog ≠ [] := by
        rcases hspc with h | h <;> simpa [State.subRunnable, h] using hr
      have hd := dropped_of_spc hspc
      have hc := I.contr
      cases hp : s.prog with
      | nil => exact absurd hp hne
      | cons op rest =>
        simp only [hp] at hh
        cases op with
        | spawn idx =>
          simp only [stepSpawn] at hh
          split at hh
          · split at hh
            · cases hh; exact ⟨_, rfl⟩
            · cases hh
          · cases hh
        | join n =>
          rw [hp, hd] at hc
          simp only [contractFrom, Bool.and_eq_true, decide_eq_true_eq] at hc
          have hlt : n < s.spawned.length := by omega
          simp only [stepJoin, List.getElem?_eq_getElem hlt] at hh
          split at hh
          · cases hh; exact ⟨_, rfl⟩
          · cases hh
          · cases hh
        | unwrapInput => cases hh
        | dropPool => simp [stepDrop] at hh
    have key : ∃ site, e = .panic site := by
      simp only [step, stepSub] at hs
      cases hspc : s.spc with
      | waiting => simp [State.subRunnable, hspc] at hr
      | joining t =>
        simp only [State.subRunnable, hspc, beq_iff_eq] at hr
        obtain ⟨_, _, ⟨rest, hp⟩, _⟩ := L.joining t hspc
        simp [hspc, hp, hr] at hs
      | ready => simp only [hspc] at hs; exact sub (.inl hspc) hs
      | woken => simp only [hspc] at hs; exact sub (.inr hspc) hs
    obtain ⟨site, rfl⟩ := key
    exact no_panic_of_inv I _ site hs

/-- if some thread is runnable, scheduling it succeeds -/
theorem step_ok_of_anyRunnable {s : State} (I : Inv s) (L : InvL s) (h : s.anyRunnable = true) :
    ∃ t s', step s (.run t) = .ok s' := by
  unfold State.anyRunnable at h
  rw [Bool.or_eq_true, List.any_eq_true] at h
  rcases h with h | ⟨p, hp, hr⟩
  · obtain ⟨s', hs⟩ := sub_step_ok I L h
    exact ⟨0, s', hs⟩
  · obtain ⟨i, hi⟩ := List.mem_iff_getElem?.mp hp
    obtain ⟨s', hs⟩ := worker_step_ok I hi hr
    exact ⟨i + 1, s', hs⟩

end BV.Lemmas.Pool
