/-
C01 / greedy builder, part 10: `MapStaticContexts`.
-/
import BV.Lemmas.GreedyBuild

namespace BV.Greedy
open BV.Bits BV.Recoder BV.MetaBlock

/-- a loop of writes to consecutive cells -/
theorem fill_range (v : Nat → Nat) : ∀ (n : Nat) (m : List Nat) (base : Nat), base + n ≤ m.length →
    (List.range n).foldlM (fun m j => setAt m (base + j) (v j)) m
      = Out.ok (m.take base ++ (List.range n).map v ++ m.drop (base + n))
  | 0, m, base, _ => by simp
  | n + 1, m, base, h => by
    rw [show List.range (n + 1) = List.range n ++ [n] from List.range_succ, foldlM_append_out, fill_range v n m base (by omega)]
    simp only [Out.bind_ok, List.foldlM_cons, List.foldlM_nil, List.map_append, List.map_cons, List.map_nil]
    have hl : (m.take base ++ (List.range n).map v).length = base + n := by
      simp [List.length_take, Nat.min_eq_left (by omega : base ≤ m.length)]
    rw [setAt_ok' _ _ _ (by rw [List.length_append, hl, List.length_drop]; omega)]
    show Out.ok _ = Out.ok _
    congr 1
    rw [List.set_append_right _ _ (by rw [hl]; exact Nat.le_refl _), hl, Nat.sub_self]
    have hd : m.drop (base + n) = m.getD (base + n) 0 :: m.drop (base + (n + 1)) := by
      rw [List.drop_eq_getElem_cons (by omega), List.getD_eq_getElem?_getD, List.getElem?_eq_getElem (by omega)]
      rfl
    rw [hd]
    simp [List.append_assoc]

theorem foldlM_congr_range {α : Type} (f g : α → Nat → Out α) (n : Nat) (h : ∀ a j, j < n → f a j = g a j) (a : α) :
    (List.range n).foldlM f a = (List.range n).foldlM g a := by
  induction n generalizing a with
  | zero => rfl
  | succ n ih =>
    rw [show List.range (n + 1) = List.range n ++ [n] from List.range_succ, foldlM_append_out, foldlM_append_out, ih (fun a j hj => h a j (by omega))]
    cases (List.range n).foldlM g a with
    | ok b => simp only [Out.bind_ok, List.foldlM_cons, List.foldlM_nil]; rw [h b n (by omega)]
    | panic => rfl
    | fuel => rfl

/-- the literal context map `MapStaticContexts` builds -/
def cmapOf (nc : Nat) (scm : List Nat) (nt : Nat) : List Nat :=
  (List.range nt).flatMap (fun i => (List.range 64).map (fun j => i * nc + scm.getD j 0))

theorem cmapOf_succ (nc : Nat) (scm : List Nat) (nt : Nat) :
    cmapOf nc scm (nt + 1) = cmapOf nc scm nt ++ (List.range 64).map (fun j => nt * nc + scm.getD j 0) := by
  unfold cmapOf
  rw [show List.range (nt + 1) = List.range nt ++ [nt] from List.range_succ, List.flatMap_append]
  simp

theorem cmapOf_length (nc : Nat) (scm : List Nat) (nt : Nat) : (cmapOf nc scm nt).length = nt * 64 := by
  induction nt with
  | zero => rfl
  | succ n ih => rw [cmapOf_succ, List.length_append, ih]; simp; omega

theorem cmapOf_get (nc : Nat) (scm : List Nat) (nt t c : Nat) (ht : t < nt) (hc : c < 64) :
    (cmapOf nc scm nt).getD (t * 64 + c) 0 = t * nc + scm.getD c 0 := by
  induction nt with
  | zero => omega
  | succ n ih =>
    rw [cmapOf_succ, List.getD_eq_getElem?_getD]
    rcases Nat.lt_or_ge t n with h | h
    · rw [List.getElem?_append_left (by rw [cmapOf_length]; omega), ← List.getD_eq_getElem?_getD]
      exact ih h
    · have htn : t = n := by omega
      subst htn
      rw [List.getElem?_append_right (by rw [cmapOf_length]; omega), cmapOf_length, Nat.add_sub_cancel_left]
      simp [hc]

theorem mapStaticContexts_spec (nc nt : Nat) (scm : List Nat) (hscm : 64 ≤ scm.length) (hnt : nt ≤ 256) (hnc : nc ≤ 13)
    (hv : ∀ x ∈ scm, x < nc) : mapStaticContexts nc nt scm = .ok (cmapOf nc scm nt) := by
  unfold mapStaticContexts
  have hsz : (nt * 64) % two64 = nt * 64 := Nat.mod_eq_of_lt (by unfold two64; omega)
  rw [hsz]
  -- rows `0 .. k` filled, the rest still zero
  have key : ∀ k, k ≤ nt → (List.range k).foldlM (fun m i =>
      (List.range 64).foldlM (fun m j => do
        let v ← getAt scm j
        setAt m (((i * 64) % two64 + j) % two64) (((i * nc) % two32 + v) % two32)) m)
      (List.replicate (nt * 64) 0) = Out.ok (cmapOf nc scm k ++ List.replicate ((nt - k) * 64) 0) := by
    intro k
    induction k with
    | zero => intro _; simp [cmapOf]
    | succ k ih =>
      intro hk
      rw [show List.range (k + 1) = List.range k ++ [k] from List.range_succ, foldlM_append_out, ih (by omega)]
      simp only [Out.bind_ok, List.foldlM_cons, List.foldlM_nil]
      have hinner : ∀ (m : List Nat), (List.range 64).foldlM (fun m j => do
            let v ← getAt scm j
            setAt m (((k * 64) % two64 + j) % two64) (((k * nc) % two32 + v) % two32)) m
          = (List.range 64).foldlM (fun m j => setAt m (k * 64 + j) (k * nc + scm.getD j 0)) m := by
        intro m
        apply foldlM_congr_range
        intro a j hj
        have hx : scm.getD j 0 < nc := hv _ (getD_mem' scm j 0 (by omega))
        have hkn : k * nc ≤ 256 * 13 := Nat.mul_le_mul (by omega) hnc
        rw [getAt_getD' scm j 0 (by omega), Out.bind_ok, Nat.mod_eq_of_lt (by unfold two64; omega : k * 64 < two64),
          Nat.mod_eq_of_lt (by unfold two64; omega : k * 64 + j < two64),
          Nat.mod_eq_of_lt (by unfold two32; omega : k * nc < two32),
          Nat.mod_eq_of_lt (by unfold two32; omega : k * nc + scm.getD j 0 < two32)]
      rw [hinner]
      have hlen : (cmapOf nc scm k ++ List.replicate ((nt - k) * 64) 0).length = nt * 64 := by
        rw [List.length_append, cmapOf_length, List.length_replicate, ← Nat.add_mul]
        congr 1; omega
      have h1 : (nt - k) * 64 = 64 + (nt - (k + 1)) * 64 := by
        have : nt - k = (nt - (k + 1)) + 1 := by omega
        rw [this, Nat.add_mul]; omega
      rw [fill_range (fun j => k * nc + scm.getD j 0) 64 _ (k * 64) (by rw [hlen]; have : (k + 1) * 64 ≤ nt * 64 := Nat.mul_le_mul_right _ hk; omega)]
      have ht : (cmapOf nc scm k ++ List.replicate ((nt - k) * 64) 0).take (k * 64) = cmapOf nc scm k := by
        rw [List.take_append_of_le_length (by rw [cmapOf_length]; exact Nat.le_refl _), ← cmapOf_length nc scm k, List.take_length]
      have hd : (cmapOf nc scm k ++ List.replicate ((nt - k) * 64) 0).drop (k * 64 + 64) = List.replicate ((nt - (k + 1)) * 64) 0 := by
        rw [List.drop_append, List.drop_eq_nil_of_le (by rw [cmapOf_length]; omega), List.nil_append, cmapOf_length,
          show k * 64 + 64 - k * 64 = 64 by omega, h1, List.drop_replicate, Nat.add_sub_cancel_left]
      rw [ht, hd, cmapOf_succ]
      rfl
  have := key nt (Nat.le_refl _)
  rw [Nat.sub_self, Nat.zero_mul, List.replicate_zero, List.append_nil] at this
  exact this

end BV.Greedy
