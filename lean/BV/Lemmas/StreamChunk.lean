import BV.Lemmas.StreamSched3
/-
Input-chunking independence (C05), part 1: the ring-free machine.

The skeleton of `compress_stream` writes the ring buffer but never reads it (the payload encoder
does, and it is an oracle asked with positions).  How the ring buffer looks DOES depend on how the
input was cut (a small first chunk allocates a small buffer, the 7 bytes of slack are zeroed behind
every chunk, …), so chunking independence is a statement modulo the ring buffer.  `er` erases it;
`vstep` is the main-loop machine `ustep` on erased configurations, in which copying a chunk only
moves `input_pos_` (the ghost `first2` is erased too: the theorems are for non-catable streams); every step of `ustep` from an initialised,
non-fast-path configuration is exactly `vstep` on the erased configurations (`ustep_er`).
-/
namespace BV.Stream
open BV.Bits

/-- the state with the ring buffer (and the ghost copy of its first bytes, which only the catable
prelude reads) erased -/
def er (s : St) : St := { s with ring := {}, first2 := [] }

def erA (a : Abs) : Abs := { a with s := er a.s }

/-- `copy_input_to_ring_buffer` of `n` bytes without the ring buffer -/
def vCopySt (s : St) (n : Nat) : St := { s with inputPos := (s.inputPos + n) % two64 }

def vCopy (a : Abs) : Option Abs :=
  if min (remainingInputBlockSize a.s) a.availIn > a.input.length then none
  else some ⟨core (vCopySt a.s (min (remainingInputBlockSize a.s) a.availIn)), a.out,
             a.input.drop (min (remainingInputBlockSize a.s) a.availIn), a.availIn - min (remainingInputBlockSize a.s) a.availIn⟩

/-- **the ring-free main-loop machine** (initialised, not the quality 0/1 one-shot path) -/
def vstep (o : Oracle) (op : Nat) (a : Abs) : Option Abs :=
  if a.s.isInitialized = false then none
  else if fastMode a.s.params then none
  else if remainingInputBlockSize a.s ≠ 0 ∧ a.availIn ≠ 0 then vCopy a
  else if PadDue a.s then some (uPad a)
  else if a.s.streamState = .processing ∧ (remainingInputBlockSize a.s = 0 ∨ op ≠ 0) then uEncStep o op a
  else if a.s.streamState = .flushRequested then some (uCfc a)
  else none

/-! ### `encode_data` does not read the ring buffer -/

theorem encMagic_er (x : St) (w : Writer) :
    encMagic (er x) w = (er (encMagic x w).1, (encMagic x w).2) := by
  unfold encMagic er
  split <;> rfl

theorem encPrelude_er {x x' : St} {w w' : Writer} {hdr hdr' bytes : Nat} (hcat : x.params.catable = false)
    (hx : encPrelude x w hdr bytes = .ok (x', w', hdr')) :
    encPrelude (er x) w hdr bytes = .ok (er x', w', hdr') := by
  unfold encPrelude at hx ⊢
  unfold er
  simp only at hx ⊢
  split_all hx
  all_goals first
    | (simp at hx; done)
    | (simp only [Out.ok.injEq, Prod.mk.injEq] at hx; obtain ⟨rfl, rfl, rfl⟩ := hx
       simp_all [Nat.not_lt_of_le, Nat.not_le_of_lt])

theorem encPayloadPure_er (s : St) (ans : Ans) (w0 w : Writer) (hdr : Nat) (il ff : Bool) :
    encPayloadPure (er s) ans w0 w hdr il ff = er (encPayloadPure s ans w0 w hdr il ff) := by
  unfold encPayloadPure
  simp only [apply_ite er]
  unfold er
  simp only [St.unprocessed]
  split <;> rfl

theorem core_er (s : St) : core (er s) = er (core s) := rfl

theorem uEnc_er {o : Oracle} {s s' : St} {site : Nat} {il ff : Bool} {p : Bytes} (hcat : s.params.catable = false)
    (h : uEnc o s site il ff = some (s', p)) : uEnc o (er s) site il ff = some (er s', p) := by
  unfold uEnc at h ⊢
  have e1 : encStart (er s) il = er (encStart s il) := rfl
  have e2 : (er s).carry = s.carry := rfl
  have e3 : (er s).unprocessed = s.unprocessed := rfl
  have e4 : (er s).nEnc = s.nEnc := rfl
  have e5 : reqOf (er s) site il ff = reqOf s site il ff := rfl
  rw [e1, e2, e3, e4, e5, encMagic_er]
  unfold encPre3 at h ⊢
  simp only at h ⊢
  cases hr : encPrelude (encMagic (encStart s il) s.carry).1 (encMagic (encStart s il) s.carry).2.1
      (encMagic (encStart s il) s.carry).2.2 (s.unprocessed % two32) with
  | ok r =>
    obtain ⟨a2, w, hdr⟩ := r
    rw [hr] at h
    have hcm : (encMagic (encStart s il) s.carry).1.params.catable = false := by
      have f := (encMagic_frame (encStart s il) s.carry).1
      rw [St.frame_eq_iff] at f
      rw [f.1]; exact hcat
    rw [encPrelude_er hcm hr]
    simp only [uEncOf, Option.some.injEq, Prod.mk.injEq] at h ⊢
    obtain ⟨rfl, rfl⟩ := h
    rw [encPayloadPure_er]
    exact ⟨rfl, rfl⟩
  | panic => rw [hr] at h; simp [uEncOf] at h
  | fuel => rw [hr] at h; simp [uEncOf] at h

theorem er_updateSizeHint (s : St) (n : Nat) : er (updateSizeHint s n) = updateSizeHint (er s) n := by
  unfold updateSizeHint er
  split <;> rfl

theorem er_markAfterEncode (s : St) (a b : Bool) : er (markAfterEncode s a b) = markAfterEncode (er s) a b := by
  unfold markAfterEncode er
  cases a <;> cases b <;> rfl

theorem uEncStep_er {o : Oracle} {op : Nat} {a a' : Abs} (hcat : a.s.params.catable = false) (h : uEncStep o op a = some a') :
    uEncStep o op (erA a) = some (erA a') := by
  unfold uEncStep at h ⊢
  have e1 : (erA a).availIn = a.availIn := rfl
  have e2 : (erA a).s = er a.s := rfl
  rw [e1, e2, ← er_updateSizeHint]
  cases hu : uEnc o (updateSizeHint a.s a.availIn) 0 (decide (a.availIn = 0 ∧ op = 2)) (decide (a.availIn = 0 ∧ op = 1)) with
  | none => rw [hu] at h; simp [uEncOut] at h
  | some r =>
    obtain ⟨s', p⟩ := r
    rw [hu] at h
    have hcu : (updateSizeHint a.s a.availIn).params.catable = false := by
      rw [(updateSizeHint_fields a.s a.availIn).2.2.1]; exact hcat
    rw [uEnc_er hcu hu]
    simp only [uEncOut, Option.some.injEq] at h ⊢
    subst h
    simp only [erA]
    rw [← er_markAfterEncode, core_er]

/-- **`ustep` is `vstep` on erased configurations** (initialised, main loop) -/
theorem ustep_er {o : Oracle} {op : Nat} {a a' : Abs} (hi : a.s.isInitialized = true) (hnf : ¬ fastMode a.s.params)
    (hcat : a.s.params.catable = false) (h : ustep o op a = some a') : vstep o op (erA a) = some (erA a') := by
  have hi' : ¬ (a.s.isInitialized = false) := by rw [hi]; simp
  have hie : ¬ ((erA a).s.isInitialized = false) := hi'
  have hnfe : ¬ fastMode (erA a).s.params := hnf
  unfold ustep at h
  unfold vstep
  rw [if_neg hi', if_neg hnf] at h
  rw [if_neg hie, if_neg hnfe]
  have r1 : remainingInputBlockSize (erA a).s = remainingInputBlockSize a.s := rfl
  have r2 : (erA a).availIn = a.availIn := rfl
  have r3 : PadDue (erA a).s ↔ PadDue a.s := Iff.rfl
  have r4 : (erA a).s.streamState = a.s.streamState := rfl
  rw [r1, r2, r4]
  by_cases hc : remainingInputBlockSize a.s ≠ 0 ∧ a.availIn ≠ 0
  · rw [if_pos hc] at h ⊢
    unfold uCopy at h
    unfold vCopy
    rw [r1, r2]
    have r5 : (erA a).input = a.input := rfl
    rw [r5]
    split at h
    · simp at h
    · rename_i hn
      rw [if_neg hn]
      generalize min (remainingInputBlockSize a.s) a.availIn = n at h hn ⊢
      have hmn : min n a.input.length = n := Nat.min_eq_left (by omega)
      unfold copyInputToRingBuffer at h
      rw [ensureInitialized_id hi] at h
      simp only at h
      split at h
      · rename_i rb hrw
        split at h
        · simp [uCopyOf] at h
        · simp only [uCopyOf, Option.some.injEq] at h
          subst h
          simp only [erA, Option.some.injEq, Abs.mk.injEq, and_true]
          simp [core, er, vCopySt, List.length_take, hmn]
      · simp [uCopyOf] at h
      · simp [uCopyOf] at h
  · rw [if_neg hc] at h ⊢
    by_cases hp : PadDue a.s
    · rw [if_pos hp] at h
      rw [if_pos (r3.mpr hp)]
      simp only [Option.some.injEq] at h ⊢
      subst h
      rfl
    · rw [if_neg hp] at h
      rw [if_neg (fun hh => hp (r3.mp hh))]
      by_cases he : a.s.streamState = .processing ∧ (remainingInputBlockSize a.s = 0 ∨ op ≠ 0)
      · rw [if_pos he] at h ⊢
        exact uEncStep_er hcat h
      · rw [if_neg he] at h ⊢
        by_cases hf : a.s.streamState = .flushRequested
        · rw [if_pos hf] at h ⊢
          simp only [Option.some.injEq] at h ⊢
          subst h
          rfl
        · rw [if_neg hf] at h
          cases h

end BV.Stream
