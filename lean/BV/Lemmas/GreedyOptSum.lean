/-
C01 / greedy builder, part 12: `BrotliOptimizeHuffmanCountsForRle` (model of C17, `BV/Model/Huffman.lean`) raises the total
of a histogram by at most `2 · length + 1` and leaves the entries from `length` on alone.  (That it keeps every
non-zero count non-zero is C17's `optimize_keep`.)
-/
import BV.Lemmas.HuffmanOptRle
import BV.Lemmas.GreedyHist

namespace BV.Greedy
open BV.Bits BV.Huffman BV.Lemmas.HuffmanOptRle

/-- sum of `s` entries from `a` -/
def rs (l : List Nat) (a s : Nat) : Nat := ((l.drop a).take s).sum

theorem sum_split (l : List Nat) (a s : Nat) : l.sum = (l.take a).sum + rs l a s + (l.drop (a + s)).sum := by
  unfold rs
  conv => lhs; rw [← List.take_append_drop a l]
  rw [List.sum_append, Nat.add_assoc]
  congr 1
  conv => lhs; rw [← List.take_append_drop s (l.drop a)]
  rw [List.sum_append, List.drop_drop]

theorem ext_getD (l1 l2 : List Nat) (hlen : l1.length = l2.length) (h : ∀ p, p < l1.length → l1.getD p 0 = l2.getD p 0) :
    l1 = l2 := by
  apply List.ext_getElem hlen
  intro i h1 h2
  have := h i h1
  rw [List.getD_eq_getElem?_getD, List.getD_eq_getElem?_getD, List.getElem?_eq_getElem h1, List.getElem?_eq_getElem h2] at this
  exact this

/-- a run of `s` cells from `a` overwritten with `v` -/
theorem sum_overwrite (l r : List Nat) (a s v : Nat) (hlen : r.length = l.length) (has : a + s ≤ l.length)
    (h : ∀ p, r.getD p 0 = if a ≤ p ∧ p < a + s then v else l.getD p 0) : r.sum + rs l a s = l.sum + s * v := by
  have e1 : r.take a = l.take a := by
    apply ext_getD _ _ (by simp [hlen])
    intro p hp
    have hp' : p < a := by simp at hp; omega
    rw [List.getD_eq_getElem?_getD, List.getD_eq_getElem?_getD, List.getElem?_take_of_lt hp', List.getElem?_take_of_lt hp',
      ← List.getD_eq_getElem?_getD, ← List.getD_eq_getElem?_getD, h p, if_neg (by omega)]
  have e2 : r.drop (a + s) = l.drop (a + s) := by
    apply ext_getD _ _ (by simp [hlen])
    intro p _
    rw [List.getD_eq_getElem?_getD, List.getD_eq_getElem?_getD, List.getElem?_drop, List.getElem?_drop,
      ← List.getD_eq_getElem?_getD, ← List.getD_eq_getElem?_getD, h (a + s + p), if_neg (by omega)]
  have e3 : (r.drop a).take s = List.replicate s v := by
    apply ext_getD _ _ (by simp [hlen]; omega)
    intro p hp
    have hp' : p < s := by simp at hp; omega
    rw [List.getD_eq_getElem?_getD, List.getD_eq_getElem?_getD, List.getElem?_take_of_lt hp', List.getElem?_drop,
      ← List.getD_eq_getElem?_getD, h (a + p), if_pos (by omega), List.getElem?_replicate, if_pos hp']
    rfl
  have hr := sum_split r a s
  have hl := sum_split l a s
  unfold rs at hr
  rw [e1, e2, e3, List.sum_replicate_nat] at hr
  omega

theorem rs_succ (l : List Nat) (a s : Nat) (h : a + s < l.length) : rs l a (s + 1) = rs l a s + l.getD (a + s) 0 := by
  unfold rs
  rw [List.take_succ, List.sum_append, List.getElem?_drop, List.getElem?_eq_getElem h, List.getD_eq_getElem?_getD,
    List.getElem?_eq_getElem h]
  simp

theorem rs_zero (l : List Nat) (a : Nat) : rs l a 0 = 0 := by simp [rs]

theorem rs_le (l : List Nat) (a s : Nat) : rs l a s ≤ l.sum := by
  have := sum_split l a s; omega

theorem strideCount_mul_le (stride sum : Nat) (hs : 1 ≤ stride) (hb : sum + stride < u64) :
    stride * strideCount stride sum ≤ sum + stride := by
  unfold strideCount
  simp only
  by_cases h0 : sum = 0
  · rw [if_pos h0]; omega
  · rw [if_neg h0, Nat.mod_eq_of_lt (by have := Nat.div_le_self stride 2; omega)]
    by_cases hc : (sum + stride / 2) / stride = 0
    · rw [if_pos hc]; omega
    · rw [if_neg hc]
      have := Nat.mul_div_le (sum + stride / 2) stride
      have := Nat.div_le_self stride 2
      omega

/-- the smoothing loop -/
theorem strideLoop_sum (good : List Nat) (length B : Nat) (hB : B + length + 1 < 2 ^ 40) :
    ∀ (c i : Nat) (cur : List Nat) (stride limit sum : Nat) (r : List Nat),
    i + c = length + 1 → length ≤ cur.length → stride ≤ i → sum = rs cur (i - stride) stride → cur.sum ≤ B + (i - stride) →
    strideLoop good length c i cur stride limit sum = .ok r →
    r.sum ≤ B + length + 1 ∧ r.length = cur.length ∧ ∀ p, length ≤ p → r.getD p 0 = cur.getD p 0 := by
  intro c
  induction c with
  | zero =>
    intro i cur stride limit sum r hic _ hst _ hs h
    simp only [strideLoop] at h; injection h with h; subst h
    exact ⟨by omega, rfl, fun _ _ => rfl⟩
  | succ c ih =>
    intro i cur stride limit sum r hic hlen hst hsum hs h
    have hi : i ≤ length := by omega
    simp only [strideLoop] at h
    cases hb : strideBreak cur good length i limit with
    | panic => rw [hb] at h; cases h
    | fuel => rw [hb] at h; cases h
    | ok brk =>
    rw [hb] at h
    simp only [Out.bind_ok] at h
    -- the counts after the optional rewrite of the finished stride
    obtain ⟨cur1, hcur1, hl1, hs1, hrs1, hfr1⟩ : ∃ cur1,
        (if brk = true ∧ (stride ≥ 4 ∨ (stride ≥ 3 ∧ sum = 0)) then
          setRun i (strideCount stride sum % u32) stride 0 cur else Out.ok cur) = .ok cur1 ∧
        cur1.length = cur.length ∧ cur1.sum ≤ B + (i - (if brk then 0 else stride)) ∧
        rs cur1 (i - (if brk then 0 else stride)) (if brk then 0 else stride) = (if brk then 0 else sum) ∧
        ∀ p, i ≤ p → cur1.getD p 0 = cur.getD p 0 := by
      by_cases hw : brk = true ∧ (stride ≥ 4 ∨ (stride ≥ 3 ∧ sum = 0))
      · rw [if_pos hw] at h ⊢
        cases hsr : setRun i (strideCount stride sum % u32) stride 0 cur with
        | panic => rw [hsr] at h; cases h
        | fuel => rw [hsr] at h; cases h
        | ok cur1 =>
          obtain ⟨hl1, hv1⟩ := setRun_spec i _ (by unfold u64; omega) stride 0 cur cur1 (by omega) hsr
          have hs1 : 1 ≤ stride := by rcases hw.2 with h4 | h3 <;> omega
          have hsle : sum ≤ cur.sum := by rw [hsum]; exact rs_le _ _ _
          have hov := sum_overwrite cur cur1 (i - stride) stride (strideCount stride sum % u32) hl1 (by omega)
            (fun p => by rw [hv1 p]; simp only [Nat.zero_add, Nat.sub_zero]; rw [show i - stride + stride = i by omega])
          have hm := strideCount_mul_le stride sum hs1 (by unfold u64; omega)
          have hmod : stride * (strideCount stride sum % u32) ≤ stride * strideCount stride sum :=
            Nat.mul_le_mul_left _ (Nat.mod_le _ _)
          refine ⟨cur1, rfl, hl1, ?_, ?_, ?_⟩
          · rw [hw.1]; simp only [if_true, Nat.sub_zero]; rw [← hsum] at hov; omega
          · rw [hw.1]; simp only [if_true]; exact rs_zero _ _
          · intro p hp; rw [hv1 p, if_neg (by omega)]
      · rw [if_neg hw] at h ⊢
        refine ⟨cur, rfl, rfl, ?_, ?_, fun _ _ => rfl⟩
        · cases brk with
          | true => simp only [if_true]; omega
          | false => simpa using hs
        · cases brk with
          | true => simp only [if_true]; exact rs_zero _ _
          | false => simpa using hsum.symm
    rw [hcur1] at h
    simp only [Out.bind_ok] at h
    cases hlm : (if brk = true then strideLimit cur1 length i else Out.ok limit) with
    | panic => rw [hlm] at h; cases h
    | fuel => rw [hlm] at h; cases h
    | ok limit1 =>
    rw [hlm] at h
    simp only [Out.bind_ok] at h
    by_cases hil : i = length
    · rw [if_neg (by simpa using hil)] at h
      have hc0 : c = 0 := by omega
      subst hc0
      simp only [strideLoop] at h
      injection h with h
      subst h
      refine ⟨?_, hl1, fun p hp => hfr1 p (by omega)⟩
      have : i - (if brk = true then 0 else stride) ≤ i := Nat.sub_le _ _
      omega
    · rw [if_pos (by simpa using hil)] at h
      cases hx : getAt cur1 i with
      | panic => rw [hx] at h; cases h
      | fuel => rw [hx] at h; cases h
      | ok x =>
      rw [hx] at h
      simp only [Out.bind_ok] at h
      obtain ⟨hxl, hxv, _⟩ := getAt_ok hx
      have hs0le : (if brk = true then 0 else stride) ≤ i := by split <;> omega
      have hrs := rs_succ cur1 (i - (if brk = true then 0 else stride)) (if brk = true then 0 else stride) (by omega)
      rw [show i - (if brk = true then 0 else stride) + (if brk = true then 0 else stride) = i by omega, hrs1, ← hxv] at hrs
      have hle : (if brk = true then 0 else sum) + x ≤ cur1.sum := by rw [← hrs]; exact rs_le _ _ _
      have hnw : ((if brk = true then 0 else sum) + x) % u64 = (if brk = true then 0 else sum) + x :=
        Nat.mod_eq_of_lt (by unfold u64; have : i - (if brk = true then 0 else stride) ≤ i := Nat.sub_le _ _; omega)
      obtain ⟨a1, a2, a3⟩ := ih (i + 1) cur1 ((if brk = true then 0 else stride) + 1) _ _ r (by omega) (by omega) (by omega)
        (by rw [hnw, show i + 1 - ((if brk = true then 0 else stride) + 1) = i - (if brk = true then 0 else stride) by omega]
            exact hrs.symm)
        (by rw [show i + 1 - ((if brk = true then 0 else stride) + 1) = i - (if brk = true then 0 else stride) by omega]; exact hs1) h
      exact ⟨a1, by rw [a2, hl1], fun p hp => by rw [a3 p hp, hfr1 p (by omega)]⟩

/-- the isolated-zero filling loop -/
theorem fillLoop_sum : ∀ (c i : Nat) (cur r : List Nat), fillLoop c i cur = .ok r →
    r.sum ≤ cur.sum + c ∧ r.length = cur.length ∧ ∀ p, i + c ≤ p → r.getD p 0 = cur.getD p 0 := by
  intro c
  induction c with
  | zero => intro i cur r h; simp only [fillLoop] at h; injection h with h; subst h; exact ⟨by omega, rfl, fun _ _ => rfl⟩
  | succ c ih =>
    intro i cur r h
    simp only [fillLoop] at h
    cases ha : getAt cur (i - 1) with
    | panic => rw [ha] at h; cases h
    | fuel => rw [ha] at h; cases h
    | ok a =>
    cases hb : getAt cur i with
    | panic => rw [ha, hb] at h; cases h
    | fuel => rw [ha, hb] at h; cases h
    | ok b =>
    cases hd : getAt cur (i + 1) with
    | panic => rw [ha, hb, hd] at h; cases h
    | fuel => rw [ha, hb, hd] at h; cases h
    | ok d =>
    rw [ha, hb, hd] at h
    simp only [Out.bind_ok] at h
    obtain ⟨hbl, hbv, _⟩ := getAt_ok hb
    by_cases hw : a ≠ 0 ∧ b = 0 ∧ d ≠ 0
    · rw [if_pos hw] at h
      cases hs : setAt cur i 1 with
      | panic => rw [hs] at h; cases h
      | fuel => rw [hs] at h; cases h
      | ok cur1 =>
      rw [hs] at h
      simp only [Out.bind_ok] at h
      obtain ⟨_, rfl⟩ := setAt_ok hs
      obtain ⟨a1, a2, a3⟩ := ih (i + 1) _ r h
      have := sum_set cur i 1 hbl
      refine ⟨by rw [← hbv, hw.2.1] at this; omega, by rw [a2]; simp, fun p hp => ?_⟩
      rw [a3 p (by omega), getD_set_ne _ _ _ _ _ (by omega)]
    · rw [if_neg hw] at h
      simp only [Out.bind_ok] at h
      obtain ⟨a1, a2, a3⟩ := ih (i + 1) cur r h
      exact ⟨by omega, a2, fun p hp => a3 p (by omega)⟩

theorem trimLoop_le' (counts : List Nat) : ∀ (l r : Nat), trimLoop counts l = .ok r → r ≤ l
  | 0, r, h => by simp only [trimLoop] at h; injection h with h; omega
  | l + 1, r, h => by
    simp only [trimLoop] at h
    cases hc : getAt counts l with
    | panic => rw [hc] at h; cases h
    | fuel => rw [hc] at h; cases h
    | ok c =>
      rw [hc] at h
      simp only [Out.bind_ok] at h
      split at h
      · have := trimLoop_le' counts l r h; omega
      · injection h with h; omega

/-- **`BrotliOptimizeHuffmanCountsForRle`**: whenever it returns, the total grew by at most `2 · length + 1`, the length
is unchanged and the entries from `length` on are untouched -/
theorem optimize_sum (length0 : Nat) (counts good r : List Nat) (hl : length0 ≤ counts.length)
    (hs : counts.sum + 2 * length0 + 1 < 2 ^ 40)
    (h : optimizeHuffmanCountsForRle length0 counts good = .ok r) :
    r.sum ≤ counts.sum + 2 * length0 + 1 ∧ r.length = counts.length ∧ ∀ p, length0 ≤ p → r.getD p 0 = counts.getD p 0 := by
  unfold optimizeHuffmanCountsForRle at h
  cases h1 : countNonzeroLoop counts length0 0 0 with
  | panic => rw [h1] at h; cases h
  | fuel => rw [h1] at h; cases h
  | ok nzc =>
  rw [h1] at h
  simp only [Out.bind_ok] at h
  split at h
  · injection h with h; subst h; exact ⟨by omega, rfl, fun _ _ => rfl⟩
  · cases h2 : trimLoop counts length0 with
    | panic => rw [h2] at h; cases h
    | fuel => rw [h2] at h; cases h
    | ok length =>
    rw [h2] at h
    simp only [Out.bind_ok] at h
    have hll := trimLoop_le' counts length0 length h2
    split at h
    · injection h with h; subst h; exact ⟨by omega, rfl, fun _ _ => rfl⟩
    · cases h3 : smallestLoop counts length 0 0 1073741824 with
      | panic => rw [h3] at h; cases h
      | fuel => rw [h3] at h; cases h
      | ok ns =>
      obtain ⟨nonzeros, smallest⟩ := ns
      rw [h3] at h
      simp only [Out.bind_ok] at h
      split at h
      · injection h with h; subst h; exact ⟨by omega, rfl, fun _ _ => rfl⟩
      · -- the filling step
        obtain ⟨c1, hc1, f1, f2, f3⟩ : ∃ c1, (if smallest < 4 ∧ length - nonzeros < 6 then fillLoop (length - 1 - 1) 1 counts
            else Out.ok counts) = .ok c1 ∧ c1.sum ≤ counts.sum + length ∧ c1.length = counts.length ∧
            ∀ p, length ≤ p → c1.getD p 0 = counts.getD p 0 := by
          by_cases hf : smallest < 4 ∧ length - nonzeros < 6
          · rw [if_pos hf] at h ⊢
            cases hfl : fillLoop (length - 1 - 1) 1 counts with
            | panic => rw [hfl] at h; cases h
            | fuel => rw [hfl] at h; cases h
            | ok c1 =>
              obtain ⟨a1, a2, a3⟩ := fillLoop_sum _ _ _ _ hfl
              exact ⟨c1, rfl, by omega, a2, fun p hp => a3 p (by omega)⟩
          · rw [if_neg hf]; exact ⟨counts, rfl, by omega, rfl, fun _ _ => rfl⟩
        rw [hc1] at h
        simp only [Out.bind_ok] at h
        split at h
        · injection h with h; subst h; exact ⟨by omega, f2, fun p hp => f3 p (by omega)⟩
        · cases h4 : getAt c1 0 with
          | panic => rw [h4] at h; cases h
          | fuel => rw [h4] at h; cases h
          | ok symbol =>
          rw [h4] at h
          simp only [Out.bind_ok] at h
          cases h5 : markLoop c1 length (length + 1) 0 symbol 0 (good.map fun _ => 0) with
          | panic => rw [h5] at h; cases h
          | fuel => rw [h5] at h; cases h
          | ok good1 =>
          rw [h5] at h
          simp only [Out.bind_ok] at h
          cases h6 : getAt c1 1 with
          | panic => rw [h6] at h; cases h
          | fuel => rw [h6] at h; cases h
          | ok x1 =>
          cases h7 : getAt c1 2 with
          | panic => rw [h6, h7] at h; cases h
          | fuel => rw [h6, h7] at h; cases h
          | ok x2 =>
          rw [h6, h7] at h
          simp only [Out.bind_ok] at h
          obtain ⟨a1, a2, a3⟩ := strideLoop_sum good1 length c1.sum (by omega) (length + 1) 0 c1 0 _ 0 r (by omega) (by omega)
            (Nat.le_refl _) (by simp [rs]) (by omega) h
          exact ⟨by omega, by rw [a2, f2], fun p hp => by rw [a3 p (by omega), f3 p (by omega)]⟩

end BV.Greedy
