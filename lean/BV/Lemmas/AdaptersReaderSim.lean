import BV.Lemmas.AdaptersReader
/-
`short_reads_transparent`, strong form: two readers that differ only in the script of the wrapped
reader (both scripts free of hard errors and premature `Ok(0)`) make the same encoder calls, return
the same results and stay related — by simulation.
-/
namespace BV.Adapters
variable {σ : Type}

/-- equal up to the script / log of the wrapped reader, the access counter, and the bytes of the
own buffer beyond the fill level -/
structure Reader.Sim (a b : Reader σ) : Prop where
  off : a.inputOffset = b.inputOffset
  len : a.inputLen = b.inputLen
  blen : a.buf.length = b.buf.length
  valid : a.buf.take a.inputLen = b.buf.take b.inputLen
  eof : a.eof = b.eof
  errInvalid : a.errInvalid = b.errInvalid
  enc : a.enc = b.enc
  totalOut : a.totalOut = b.totalOut
  elog : a.elog = b.elog
  data : a.src.data = b.src.data
  ffa : a.src.faultFree
  ffb : b.src.faultFree
  wf : a.WF

theorem Reader.Sim.wfb {a b : Reader σ} (h : Reader.Sim a b) : b.WF := by
  have := h.wf; unfold Reader.WF at *; rw [← h.off, ← h.len, ← h.blen]; exact this

theorem Reader.Sim.window {a b : Reader σ} (h : Reader.Sim a b) : a.window = b.window := by
  unfold Reader.window; rw [h.valid, h.off]

theorem fill_sim {a b : Reader σ} (h : Reader.Sim a b) :
    a.fill.2 = none ∧ b.fill.2 = none ∧ Reader.Sim a.fill.1 b.fill.1 := by
  obtain ⟨a1, a2, a3, a4, a5, a6, a7⟩ := fillBuf_faultFree a.buf a.inputLen a.eof a.src 0 h.wf.2 h.ffa
  obtain ⟨b1, b2, b3, b4, b5, b6, b7⟩ := fillBuf_faultFree b.buf b.inputLen b.eof b.src 0 h.wfb.2 h.ffb
  have hspec := fillBuf_spec a.buf a.inputLen a.eof a.src 0 h.wf.2
  refine ⟨a1, b1, ?_⟩
  constructor
  · exact h.off
  · show (fillBuf a.buf a.inputLen a.eof a.src 0).len = (fillBuf b.buf b.inputLen b.eof b.src 0).len
    rw [a3, b3, h.len, h.blen, h.eof, h.data]
  · show (fillBuf a.buf a.inputLen a.eof a.src 0).buf.length = (fillBuf b.buf b.inputLen b.eof b.src 0).buf.length
    rw [a2, b2, h.blen]
  · show (fillBuf a.buf a.inputLen a.eof a.src 0).buf.take (fillBuf a.buf a.inputLen a.eof a.src 0).len
        = (fillBuf b.buf b.inputLen b.eof b.src 0).buf.take (fillBuf b.buf b.inputLen b.eof b.src 0).len
    rw [a4, b4, h.valid, h.blen, h.len, h.eof, h.data]
  · show (fillBuf a.buf a.inputLen a.eof a.src 0).eof = (fillBuf b.buf b.inputLen b.eof b.src 0).eof
    rw [a6, b6, h.eof, h.data, h.blen, h.len]
  · exact h.errInvalid
  · exact h.enc
  · exact h.totalOut
  · exact h.elog
  · show (fillBuf a.buf a.inputLen a.eof a.src 0).src.data = (fillBuf b.buf b.inputLen b.eof b.src 0).src.data
    rw [a5, b5, h.data, h.blen, h.len, h.eof]
  · exact a7
  · exact b7
  · exact (Reader.fill_spec a h.wf).1

theorem afterStep_sim (E : Enc σ) (cap : Nat) {a b : Reader σ} (h : Reader.Sim a b)
    (hc : (E.step a.enc (if a.inputLen - a.inputOffset = 0 then Op.finish else Op.process) a.window cap).2.consumed ≤ a.window.length) :
    Reader.Sim (a.afterStep E cap) (b.afterStep E cap) := by
  have ha := Reader.input_eq_window a h.wf
  have hb := Reader.input_eq_window b h.wfb
  obtain ⟨w2, _⟩ := afterStep_spec E cap a h.wf hc
  have hw := h.window
  constructor
  · simp only [Reader.afterStep, ha, hb]; rw [h.off, h.len, h.enc, hw]
  · exact h.len
  · exact h.blen
  · exact h.valid
  · exact h.eof
  · exact h.errInvalid
  · simp only [Reader.afterStep, ha, hb]; rw [h.off, h.len, h.enc, hw]
  · simp only [Reader.afterStep, ha, hb]; rw [h.off, h.len, h.enc, hw, h.totalOut]
  · simp only [Reader.afterStep, ha, hb]; rw [h.off, h.len, h.enc, hw, h.elog]
  · exact h.data
  · exact h.ffa
  · exact h.ffb
  · exact w2

theorem take_prefix (x y : Bytes) (n : Nat) (h : x.length = n) : (x ++ y).take n = x := by
  subst h; simp

theorem copyToFront_sim {a b : Reader σ} (h : Reader.Sim a b) :
    ∃ a' b', a.copyToFront = some a' ∧ b.copyToFront = some b' ∧ Reader.Sim a' b' := by
  have hwa := h.wf
  have hwb := h.wfb
  obtain ⟨h1, h2⟩ := hwa
  obtain ⟨g1, g2⟩ := hwb
  have hw := h.window
  have e1 := h.off
  have e2 := h.len
  have e3 := h.blen
  have hia := Reader.input_eq_window a h.wf
  have hib := Reader.input_eq_window b h.wfb
  unfold Reader.copyToFront
  rw [if_neg (show ¬ a.inputLen < a.inputOffset by omega), if_neg (show ¬ b.inputLen < b.inputOffset by omega)]
  simp only
  by_cases c1 : a.inputOffset = a.buf.length
  · have c1' : b.inputOffset = b.buf.length := by rw [← h.off, ← h.blen]; exact c1
    rw [if_pos c1, if_pos c1']
    refine ⟨_, _, rfl, rfl, ?_⟩
    exact ⟨rfl, rfl, h.blen, by simp, h.eof, h.errInvalid, h.enc, h.totalOut, h.elog, h.data, h.ffa, h.ffb, ⟨by simp, by simp⟩⟩
  · have c1' : ¬ b.inputOffset = b.buf.length := by rw [← h.off, ← h.blen]; exact c1
    rw [if_neg c1, if_neg c1']
    by_cases c2 : a.inputOffset + 256 > a.buf.length ∧ a.inputLen - a.inputOffset < a.inputOffset
    · have c2' : b.inputOffset + 256 > b.buf.length ∧ b.inputLen - b.inputOffset < b.inputOffset := by
        rw [← h.off, ← h.blen, ← h.len]; exact c2
      rw [if_pos c2, if_pos c2']
      have hsa : ¬ (a.buf.drop a.inputOffset).length < a.inputLen - a.inputOffset := by
        simp [List.length_drop]; omega
      have hsb : ¬ (b.buf.drop b.inputOffset).length < b.inputLen - b.inputOffset := by
        simp [List.length_drop]; omega
      rw [if_neg hsa, if_neg hsb]
      refine ⟨_, _, rfl, rfl, ?_⟩
      have la : ((a.buf.drop a.inputOffset).take (a.inputLen - a.inputOffset)).length = a.inputLen - a.inputOffset := by
        simp [List.length_take, List.length_drop]; omega
      have lb : ((b.buf.drop b.inputOffset).take (b.inputLen - b.inputOffset)).length = b.inputLen - b.inputOffset := by
        simp [List.length_take, List.length_drop]; omega
      constructor
      · rfl
      · show a.inputLen - a.inputOffset = b.inputLen - b.inputOffset
        rw [h.len, h.off]
      · simp [List.length_take, List.length_drop]; omega
      · show List.take (a.inputLen - a.inputOffset) (_ ++ _) = List.take (b.inputLen - b.inputOffset) (_ ++ _)
        rw [take_prefix _ _ _ la, take_prefix _ _ _ lb, hia, hib, hw]
      · exact h.eof
      · exact h.errInvalid
      · exact h.enc
      · exact h.totalOut
      · exact h.elog
      · exact h.data
      · exact h.ffa
      · exact h.ffb
      · exact ⟨by simp, by simp [List.length_take, List.length_drop]; omega⟩
    · have c2' : ¬ (b.inputOffset + 256 > b.buf.length ∧ b.inputLen - b.inputOffset < b.inputOffset) := by
        rw [← h.off, ← h.blen, ← h.len]; exact c2
      rw [if_neg c2, if_neg c2']
      exact ⟨_, _, rfl, rfl, ⟨h.off, h.len, h.blen, h.valid, h.eof, h.errInvalid, h.enc, h.totalOut, h.elog, h.data, h.ffa, h.ffb, ⟨h1, h2⟩⟩⟩

/-- two iteration results that agree: same verdict, related states (for a panic only the
verdict is compared) -/
def RIter.Sim : RIter σ → RIter σ → Prop
  | .stop a o, .stop b o' => o = o' ∧ (o ≠ .panic → Reader.Sim a b)
  | .cont a, .cont b => Reader.Sim a b
  | _, _ => False

theorem Reader.Sim.disarm {a b : Reader σ} (h : Reader.Sim a b) :
    Reader.Sim { a with errInvalid := false } { b with errInvalid := false } :=
  ⟨h.off, h.len, h.blen, h.valid, h.eof, rfl, h.enc, h.totalOut, h.elog, h.data, h.ffa, h.ffb, h.wf⟩

theorem iter_sim (E : Enc σ) (cap : Nat) {a b : Reader σ} (h : Reader.Sim a b) :
    RIter.Sim (Reader.iter E cap a) (Reader.iter E cap b) := by
  obtain ⟨fa, fb, hs1⟩ := fill_sim h
  cases hfa : a.fill with
  | mk a1 oa =>
    cases hfb : b.fill with
    | mk b1 ob =>
      rw [hfa] at fa hs1; rw [hfb] at fb hs1
      simp only at fa fb hs1
      subst fa fb
      have hwa := hs1.wf
      have hwb := hs1.wfb
      have hia := Reader.input_eq_window a1 hwa
      have hib := Reader.input_eq_window b1 hwb
      have hwla := Reader.window_length a1 hwa
      have hw := hs1.window
      have e1 := hs1.off
      have e2 := hs1.len
      have e3 := hs1.enc
      unfold Reader.iter
      rw [hfa, hfb]
      simp only
      rw [if_neg (show ¬ a1.inputLen < a1.inputOffset by have := hwa.1; omega),
          if_neg (show ¬ b1.inputLen < b1.inputOffset by have := hwb.1; omega)]
      simp only [hia, hib]
      rw [← e1, ← e2, ← e3, ← hw]
      -- from here on both sides use the same answer `st`
      generalize hst : E.step a1.enc (if a1.inputLen - a1.inputOffset = 0 then Op.finish else Op.process) a1.window cap = st
      by_cases hsane : st.2.consumed > a1.window.length ∨ st.2.produced.length > cap ∨ a1.window.length ≠ a1.inputLen - a1.inputOffset
      · rw [if_pos hsane, if_pos hsane]
        exact ⟨rfl, fun hne => absurd rfl hne⟩
      · rw [if_neg hsane, if_neg hsane]
        have hc : (E.step a1.enc (if a1.inputLen - a1.inputOffset = 0 then Op.finish else Op.process) a1.window cap).2.consumed ≤ a1.window.length := by
          rw [hst]; omega
        have hs2 := afterStep_sim E cap hs1 hc
        obtain ⟨a3, b3, ca, cb, hs3⟩ := copyToFront_sim hs2
        have key : ∃ a3 b3 : Reader σ,
            (if a1.inputLen - a1.inputOffset - st.2.consumed = 0 then (a1.afterStep E cap).copyToFront else some (a1.afterStep E cap)) = some a3 ∧
            (if a1.inputLen - a1.inputOffset - st.2.consumed = 0 then (b1.afterStep E cap).copyToFront else some (b1.afterStep E cap)) = some b3 ∧
            Reader.Sim a3 b3 := by
          split
          · exact ⟨a3, b3, ca, cb, hs3⟩
          · exact ⟨_, _, rfl, rfl, hs2⟩
        obtain ⟨a4, b4, ka, kb, hs4⟩ := key
        rw [ka, kb]
        simp only
        have hfin : E.isFinished b4.enc = E.isFinished a4.enc := by rw [hs4.enc]
        rw [← hs4.errInvalid, hfin]
        split
        · split
          · exact ⟨rfl, fun _ => hs4.disarm⟩
          · exact ⟨rfl, fun hne => absurd rfl hne⟩
        · split
          · exact ⟨rfl, fun _ => hs4⟩
          · split
            · exact ⟨rfl, fun _ => hs4⟩
            · exact hs4

/-- the loop of `read` does not see the script of a wrapped reader that never fails -/
theorem readLoop_sim (E : Enc σ) (cap : Nat) : ∀ (fuel : Nat) {a b : Reader σ}, Reader.Sim a b →
    (Reader.readLoop E cap fuel a).2 = (Reader.readLoop E cap fuel b).2 ∧
    ((Reader.readLoop E cap fuel a).2 ≠ .panic → Reader.Sim (Reader.readLoop E cap fuel a).1 (Reader.readLoop E cap fuel b).1) := by
  intro fuel
  induction fuel with
  | zero => intro a b h; exact ⟨rfl, fun _ => h⟩
  | succ fuel ih =>
    intro a b h
    have hi := iter_sim E cap h
    simp only [Reader.readLoop]
    cases ha : Reader.iter E cap a with
    | stop a' o =>
      cases hb : Reader.iter E cap b with
      | stop b' o' =>
        rw [ha, hb] at hi
        exact ⟨hi.1, hi.2⟩
      | cont b' => rw [ha, hb] at hi; exact absurd hi (by simp [RIter.Sim])
    | cont a' =>
      cases hb : Reader.iter E cap b with
      | stop b' o' => rw [ha, hb] at hi; exact absurd hi (by simp [RIter.Sim])
      | cont b' =>
        rw [ha, hb] at hi
        exact ih hi

theorem read_sim (E : Enc σ) (fuel cap : Nat) {a b : Reader σ} (h : Reader.Sim a b) :
    (Reader.read E fuel a cap).2 = (Reader.read E fuel b cap).2 ∧
    ((Reader.read E fuel a cap).2 ≠ .panic → Reader.Sim (Reader.read E fuel a cap).1 (Reader.read E fuel b cap).1) := by
  unfold Reader.read
  by_cases hc : cap = 0
  · subst hc; exact ⟨rfl, fun _ => h⟩
  · simp only [hc, if_false]
    rw [if_neg (show ¬ a.inputLen < a.inputOffset by have := h.wf.1; omega),
        if_neg (show ¬ b.inputLen < b.inputOffset by have := h.wfb.1; omega)]
    exact readLoop_sim E cap fuel h

theorem new_sim (bufSize : Nat) (e : σ) (data : Bytes) (s1 s2 : List Beh) (t1 t2 : Tail)
    (h1 : ∀ b ∈ s1, b.faultFree = true) (h2 : ∀ b ∈ s2, b.faultFree = true)
    (ht1 : t1.faultFree = true) (ht2 : t2.faultFree = true) :
    Reader.Sim (Reader.new bufSize e ⟨data, s1, t1, []⟩) (Reader.new bufSize e ⟨data, s2, t2, []⟩) := by
  constructor <;> first | rfl | exact ⟨h1, ht1⟩ | exact ⟨h2, ht2⟩ | exact Reader.new_WF _ _ _
end BV.Adapters
