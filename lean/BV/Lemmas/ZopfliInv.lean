import BV.Lemmas.ZopfliBack
/-! The invariant of the Zopfli dynamic programme (`UpdateNodes` / `EvaluateNode`), its spec-side notions
(`Hist`: the distances pushed along a backward chain; `SC`: what a `shortcut` value means) and the lemma that
writing one sound node keeps it. -/
namespace BV.Zopfli
open BV.Hasher BV.MatchFinder BV.Recoder BV.PrefixArith BV.MetaBlock BV.Cbr

/-- the data fields agree (`u` may differ) -/
def SameData {K : Type} (n n' : Node K) : Prop :=
  n'.length = n.length ∧ n'.distance = n.distance ∧ n'.dcil = n.dcil

theorem SameData.rfl' {K : Type} (n : Node K) : SameData n n := ⟨rfl, rfl, rfl⟩

theorem SameData.copyLength {K : Type} {n n' : Node K} (h : SameData n n') : n'.copyLength = n.copyLength := by
  simp only [Node.copyLength, h.1]
theorem SameData.insertLength {K : Type} {n n' : Node K} (h : SameData n n') : n'.insertLength = n.insertLength := by
  simp only [Node.insertLength, h.2.2]
theorem SameData.distanceCode {K : Type} {n n' : Node K} (h : SameData n n') : n'.distanceCode = n.distanceCode := by
  unfold Node.distanceCode Node.shortCode
  rw [h.2.1, h.2.2]
theorem SameData.isStub {K : Type} {n n' : Node K} (h : SameData n n') : n'.isStub ↔ n.isStub := by
  simp only [Node.isStub, h.insertLength, h.1]

/-- the two arrays agree on the data fields up to index `b` -/
def DataLe {K : Type} (nodes nodes' : Array (Node K)) (b : Nat) : Prop :=
  ∀ (i : Nat) (n : Node K), i ≤ b → nodes[i]? = some n → ∃ n' : Node K, nodes'[i]? = some n' ∧ SameData n n'

theorem DataLe.mono {K : Type} {nodes nodes' : Array (Node K)} {b b' : Nat} (h : DataLe nodes nodes' b) (hb : b' ≤ b) :
    DataLe nodes nodes' b' := fun i n hi hn => h i n (by omega) hn

theorem RingAt.congrLe {K : Type} {window base : Nat} {nodes nodes' : Array (Node K)} {start : List Int}
    {e : Nat} {r : List Int} (h : RingAt window base nodes start e r) (hsame : DataLe nodes nodes' e) :
    RingAt window base nodes' start e r := by
  induction h with
  | zero => exact RingAt.zero
  | step n he hn hs hc hle _ ih =>
    obtain ⟨n', hn', hd⟩ := hsame _ n (Nat.le_refl _) hn
    have := RingAt.step (window := window) (base := base) (start := start) n' he hn'
      (by rw [hd.isStub]; exact hs) (by rw [hd.copyLength]; exact hc) (by rw [hd.copyLength, hd.insertLength]; exact hle)
      (by rw [hd.copyLength, hd.insertLength]; exact ih (hsame.mono (by omega)))
    rw [ringAfter_congr window _ _ n n' hd.2.1 hd.2.2, hd.copyLength] at this
    exact this

/-- **the distances pushed along the backward chain that ends at a position**, newest first
(a copy whose distance symbol is not 0 pushes; symbol 0 and dictionary references do not) -/
inductive Hist {K : Type} (window base : Nat) (nodes : Array (Node K)) : Nat → List Int → Prop
  | zero : Hist window base nodes 0 []
  | step {e : Nat} {P : List Int} (n : Node K) : e ≠ 0 → nodes[e]? = some n → ¬ n.isStub → 0 < n.copyLength →
      n.insertLength + n.copyLength ≤ e →
      Hist window base nodes (e - (n.insertLength + n.copyLength)) P →
      Hist window base nodes e
        (if n.distance ≤ min (base + e - n.copyLength) window ∧ n.distanceCode ≠ 0 then (n.distance : Int) :: P else P)

theorem Hist.det {K : Type} {window base : Nat} {nodes : Array (Node K)} {e : Nat} {P P' : List Int}
    (h : Hist window base nodes e P) (h' : Hist window base nodes e P') : P = P' := by
  induction h generalizing P' with
  | zero =>
    cases h' with
    | zero => rfl
    | step n he _ _ _ _ _ => exact absurd rfl he
  | step n he hn _ _ _ _ ih =>
    cases h' with
    | zero => exact absurd rfl he
    | step n' _ hn' _ _ _ hr' =>
      rw [hn] at hn'
      injection hn' with hn'
      subst hn'
      rw [ih hr']

theorem Hist.congrLe {K : Type} {window base : Nat} {nodes nodes' : Array (Node K)}
    {e : Nat} {P : List Int} (h : Hist window base nodes e P) (hsame : DataLe nodes nodes' e) :
    Hist window base nodes' e P := by
  induction h with
  | zero => exact Hist.zero
  | step n he hn hs hc hle _ ih =>
    obtain ⟨n', hn', hd⟩ := hsame _ n (Nat.le_refl _) hn
    have := Hist.step (window := window) (base := base) n' he hn'
      (by rw [hd.isStub]; exact hs) (by rw [hd.copyLength]; exact hc) (by rw [hd.copyLength, hd.insertLength]; exact hle)
      (by rw [hd.copyLength, hd.insertLength]; exact ih (hsame.mono (by omega)))
    rw [hd.copyLength, hd.distanceCode, hd.2.1] at this
    exact this

theorem take4_push (d : Int) (P start : List Int) :
    d :: ((P ++ start).take 4).take 3 = ((d :: P) ++ start).take 4 := by
  rw [List.take_take]
  simp

/-- the ring at a position is the last four pushed distances, filled up from the starting ring -/
theorem Hist.ringAt {K : Type} {window base : Nat} {nodes : Array (Node K)} {e : Nat} {P : List Int}
    (h : Hist window base nodes e P) (start : List Int) (hs : start.length = 4) :
    RingAt window base nodes start e ((P ++ start).take 4) := by
  induction h with
  | zero =>
    have : ([] ++ start).take 4 = start := by rw [List.nil_append, ← hs, List.take_length]
    rw [this]; exact RingAt.zero
  | step n he hn hst hc hle _ ih =>
    have := RingAt.step (window := window) (base := base) (start := start) n he hn hst hc hle ih
    unfold ringAfter at this
    split
    · rename_i hc2
      rw [if_pos hc2, take4_push] at this
      exact this
    · rename_i hc2
      rw [if_neg hc2] at this
      exact this

/-- what a `shortcut` value `s` stored at position `e` means: the pushed distances of `e` are empty
(`s = 0`), or they are the distance of the (pushing) node at `s ≤ e` followed by the pushed distances of that
node's start position -/
def SC {K : Type} (window base : Nat) (nodes : Array (Node K)) (e s : Nat) : Prop :=
  ∃ P, Hist window base nodes e P ∧
    ((s = 0 ∧ P = []) ∨
     (s ≠ 0 ∧ s ≤ e ∧ ∃ (n : Node K) (P' : List Int), nodes[s]? = some n ∧ ¬ n.isStub ∧ n.insertLength + n.copyLength ≤ s ∧
        n.distance ≤ window ∧ Hist window base nodes (s - (n.insertLength + n.copyLength)) P' ∧ P = (n.distance : Int) :: P'))

theorem SC.congrLe {K : Type} {window base : Nat} {nodes nodes' : Array (Node K)} {e s : Nat}
    (h : SC window base nodes e s) (hsame : DataLe nodes nodes' e) : SC window base nodes' e s := by
  obtain ⟨P, hP, hcase⟩ := h
  refine ⟨P, hP.congrLe hsame, ?_⟩
  rcases hcase with h0 | ⟨hs0, hse, n, P', hn, hst, hle, hdw, hP', hPe⟩
  · exact Or.inl h0
  · obtain ⟨n', hn', hd⟩ := hsame s n hse hn
    refine Or.inr ⟨hs0, hse, n', P', hn', by rw [hd.isStub]; exact hst, by rw [hd.copyLength, hd.insertLength]; exact hle,
      by rw [hd.2.1]; exact hdw, ?_, by rw [hd.2.1]; exact hPe⟩
    rw [hd.copyLength, hd.insertLength]
    exact hP'.congrLe (hsame.mono (by omega))

/-! ### the node `UpdateZopfliNode` writes -/

theorem copyLength_eq {K : Type} (n : Node K) : n.copyLength = n.length % 2 ^ 25 := by
  unfold Node.copyLength
  rw [show (0x01ffffff : Nat) = 2 ^ 25 - 1 by decide, Nat.and_two_pow_sub_one_eq_mod]

theorem insertLength_eq {K : Type} (n : Node K) : n.insertLength = n.dcil % 2 ^ 27 := by
  unfold Node.insertLength
  rw [show (0x07ffffff : Nat) = 2 ^ 27 - 1 by decide, Nat.and_two_pow_sub_one_eq_mod]

theorem shortCode_eq {K : Type} (n : Node K) : n.shortCode = n.dcil / 2 ^ 27 := by
  unfold Node.shortCode
  rw [Nat.shiftRight_eq_div_pow]

theorem lengthCode_eq {K : Type} (n : Node K) : n.lengthCode = wsub32 ((n.copyLength + 9) % U32) (n.length / 2 ^ 25) := by
  unfold Node.lengthCode
  rw [Nat.shiftRight_eq_div_pow]

/-- the node written by `UpdateZopfliNode(nodes, pos, start_pos, len, len_code, dist, short_code, cost)` -/
def mkNode {K : Type} (pos start len lenCode dist shortCode : Nat) (cost : K) : Node K :=
  { length := (len ||| (wsub (len + 9) lenCode <<< 25)) % U32
    distance := dist % U32
    dcil := (wsub pos start % U32) ||| ((shortCode <<< 27) % U32)
    u := .cost cost }

theorem updateZopfliNode_eq {K : Type} (nodes : Array (Node K)) (pos start len lenCode dist shortCode : Nat) (cost : K) :
    updateZopfliNode nodes pos start len lenCode dist shortCode cost
      = if pos + len < nodes.size then some (nodes.set! (pos + len) (mkNode pos start len lenCode dist shortCode cost))
        else none := by
  simp only [updateZopfliNode, mkNode]

theorem mkNode_fields {K : Type} (pos start len lenCode dist shortCode : Nat) (cost : K)
    (hlen : len < 2 ^ 25) (hlc : lenCode ≤ len + 9) (hlc2 : len + 9 < lenCode + 128) (hd : dist < 2 ^ 32)
    (hsp : start ≤ pos) (hins : pos - start < 2 ^ 27) (hpos : pos < 2 ^ 63) (hsc : shortCode < 32) :
    (mkNode pos start len lenCode dist shortCode cost).copyLength = len ∧
    (mkNode pos start len lenCode dist shortCode cost).lengthCode = lenCode ∧
    (mkNode pos start len lenCode dist shortCode cost).insertLength = pos - start ∧
    (mkNode pos start len lenCode dist shortCode cost).shortCode = shortCode ∧
    (mkNode pos start len lenCode dist shortCode cost).distance = dist := by
  have hU : U32 = 4294967296 := rfl
  have hU64 : U64 = 18446744073709551616 := rfl
  have hw : wsub (len + 9) lenCode = len + 9 - lenCode := by
    rw [wsub_eq (by omega) (by omega), if_pos hlc]
  have hw2 : wsub pos start = pos - start := by
    rw [wsub_eq (by omega) (by omega), if_pos hsp]
  have hor : len ||| ((len + 9 - lenCode) <<< 25) = (len + 9 - lenCode) <<< 25 + len := by
    rw [Nat.or_comm]; exact (Nat.shiftLeft_add_eq_or_of_lt (by omega) _).symm
  have hlenf : (len ||| (wsub (len + 9) lenCode <<< 25)) % U32 = (len + 9 - lenCode) * 2 ^ 25 + len := by
    rw [hw, hor, Nat.shiftLeft_eq]
    exact Nat.mod_eq_of_lt (by omega)
  have hsh : (shortCode <<< 27) % U32 = shortCode <<< 27 := by
    rw [Nat.shiftLeft_eq]; exact Nat.mod_eq_of_lt (by omega)
  have hor2 : (pos - start) ||| (shortCode <<< 27) = shortCode <<< 27 + (pos - start) := by
    rw [Nat.or_comm]; exact (Nat.shiftLeft_add_eq_or_of_lt hins _).symm
  have hdc : (wsub pos start % U32) ||| ((shortCode <<< 27) % U32) = shortCode * 2 ^ 27 + (pos - start) := by
    rw [hw2, Nat.mod_eq_of_lt (by omega), hsh, hor2, Nat.shiftLeft_eq]
  have hL : (mkNode pos start len lenCode dist shortCode cost).length = (len ||| (wsub (len + 9) lenCode <<< 25)) % U32 := by
    simp only [mkNode]
  have hD : (mkNode pos start len lenCode dist shortCode cost).dcil
      = (wsub pos start % U32) ||| ((shortCode <<< 27) % U32) := by
    simp only [mkNode]
  have hDi : (mkNode pos start len lenCode dist shortCode cost).distance = dist % U32 := by
    simp only [mkNode]
  have hcl : (mkNode pos start len lenCode dist shortCode cost).copyLength = len := by
    rw [copyLength_eq, hL, hlenf]; omega
  refine ⟨hcl, ?_, ?_, ?_, ?_⟩
  · rw [lengthCode_eq, hcl, hL, hlenf]
    unfold wsub32
    rw [hU]
    omega
  · rw [insertLength_eq, hD, hdc]; omega
  · rw [shortCode_eq, hD, hdc]; omega
  · rw [hDi]
    exact Nat.mod_eq_of_lt (by omega)

/-! ### the invariant -/

/-- the fixed context of one path computation -/
structure ZC where
  wo : WordOracle
  window : Nat
  md : Nat
  T : Bytes
  base : Nat
  numBytes : Nat
  /-- the ring of last distances at block offset 0 -/
  start : List Int

/-- **the invariant of the dynamic programme** after the positions below `lim` have been evaluated -/
structure DPInv {K : Type} (C : ZC) (inf : K) (nodes : Array (Node K)) (lim : Nat) : Prop where
  size : nodes.size = C.numBytes + 1
  zero : ∃ n0 : Node K, nodes[0]? = some n0 ∧ ¬ n0.isStub
  /-- every written node is sound relative to the ring at its start position, which has been evaluated -/
  back : ∀ (e : Nat) (n : Node K), e ≠ 0 → e ≤ C.numBytes → nodes[e]? = some n →
    n.isStub ∨ (BackOK C.wo C.window C.md C.T C.base nodes C.start e n ∧ e - (n.insertLength + n.copyLength) < lim)
  /-- the `shortcut` of every evaluated reached position means what `SC` says -/
  sc : ∀ (e : Nat) (n : Node K), e < lim → nodes[e]? = some n → (e = 0 ∨ ¬ n.isStub) →
    ∃ s, n.u = .shortcut s ∧ SC C.window C.base nodes e s
  /-- untouched, not yet evaluated nodes still carry the infinite cost -/
  stub : ∀ (e : Nat) (n : Node K), lim ≤ e → nodes[e]? = some n → n.isStub → n.u = .cost inf

theorem DPInv.allBack {K : Type} {C : ZC} {inf : K} {nodes : Array (Node K)} {lim : Nat} (h : DPInv C inf nodes lim) :
    AllBack C.wo C.window C.md C.T C.base C.numBytes nodes C.start := by
  intro e n he hle hn
  rcases h.back e n he hle hn with hs | ⟨hb, _⟩
  · exact Or.inl hs
  · exact Or.inr hb

theorem set_getElem? {K : Type} (nodes : Array (Node K)) (w : Nat) (nn : Node K) (hw : w < nodes.size) :
    (nodes.set! w nn)[w]? = some nn ∧ ∀ j, j ≠ w → (nodes.set! w nn)[j]? = nodes[j]? := by
  refine ⟨by simp [Array.set!, Array.getElem?_setIfInBounds, hw], fun j hj => ?_⟩
  simp [Array.set!, Array.getElem?_setIfInBounds, Ne.symm hj]

theorem dataLe_set {K : Type} (nodes : Array (Node K)) (w : Nat) (nn : Node K) (hw : w < nodes.size) (b : Nat) (hb : b < w) :
    DataLe nodes (nodes.set! w nn) b := by
  intro i n hi hn
  exact ⟨n, by rw [(set_getElem? nodes w nn hw).2 i (by omega)]; exact hn, SameData.rfl' n⟩

/-- **writing one sound node at an index not yet evaluated keeps the invariant** -/
theorem DPInv.write {K : Type} {C : ZC} {inf : K} {nodes : Array (Node K)} {lim : Nat} (h : DPInv C inf nodes lim)
    (w : Nat) (nn : Node K) (hlw : lim ≤ w) (hw : w ≤ C.numBytes) (hns : ¬ nn.isStub)
    (hb : BackOK C.wo C.window C.md C.T C.base nodes C.start w nn) (hst : w - (nn.insertLength + nn.copyLength) < lim) :
    DPInv C inf (nodes.set! w nn) lim := by
  have hwsz : w < nodes.size := by rw [h.size]; omega
  obtain ⟨hget, hoth⟩ := set_getElem? nodes w nn hwsz
  have hframe : ∀ b, b < w → DataLe nodes (nodes.set! w nn) b := fun b hb => dataLe_set nodes w nn hwsz b hb
  have hback : ∀ (e : Nat) (n : Node K), BackOK C.wo C.window C.md C.T C.base nodes C.start e n →
      e - (n.insertLength + n.copyLength) < lim →
      BackOK C.wo C.window C.md C.T C.base (nodes.set! w nn) C.start e n := by
    intro e n ⟨h1, r, hr, hok⟩ hlt
    exact ⟨h1, r, hr.congrLe (hframe _ (by omega)), hok⟩
  refine ⟨by simp [h.size], ?_, ?_, ?_, ?_⟩
  · obtain ⟨n0, hn0, hs0⟩ := h.zero
    by_cases h0 : w = 0
    · subst h0; exact ⟨nn, hget, hns⟩
    · exact ⟨n0, by rw [hoth 0 (Ne.symm h0)]; exact hn0, hs0⟩
  · intro e n he hle hn
    by_cases hew : e = w
    · subst hew
      rw [hget] at hn
      injection hn with hn
      subst hn
      exact Or.inr ⟨hback _ _ hb hst, hst⟩
    · rw [hoth e hew] at hn
      rcases h.back e n he hle hn with hs | ⟨hbo, hlt⟩
      · exact Or.inl hs
      · exact Or.inr ⟨hback _ _ hbo hlt, hlt⟩
  · intro e n he hn hr
    rw [hoth e (by omega)] at hn
    obtain ⟨s, hu, hsc⟩ := h.sc e n he hn hr
    exact ⟨s, hu, hsc.congrLe (hframe _ (by omega))⟩
  · intro e n he hn hs
    by_cases hew : e = w
    · subst hew
      rw [hget] at hn
      injection hn with hn
      subst hn
      exact absurd hs hns
    · rw [hoth e hew] at hn
      exact h.stub e n he hn hs

end BV.Zopfli
