/-
C01 / greedy builder, part 7: what a finished splitter hands to the writer — `SplitOK`, `HistosOK`, `Covers`.
-/
import BV.Lemmas.GreedyStream
import BV.Lemmas.MetaBlockFullAsm

namespace BV.Greedy
open BV.Bits BV.Recoder BV.MetaBlock

/-! ### lists -/

theorem flatten_length_uniform {α : Type} (K : Nat) : ∀ (ls : List (List α)), (∀ l ∈ ls, l.length = K) →
    ls.flatten.length = ls.length * K
  | [], _ => by simp
  | l :: ls, h => by
    rw [List.flatten_cons, List.length_append, flatten_length_uniform K ls (fun x hx => h x (List.mem_cons_of_mem _ hx)),
      h l List.mem_cons_self, List.length_cons, Nat.add_mul, Nat.one_mul, Nat.add_comm]

theorem flatten_getD_uniform {α : Type} (K : Nat) (d : α) : ∀ (ls : List (List α)) (t i : Nat), (∀ l ∈ ls, l.length = K) →
    i < K → ls.flatten.getD (t * K + i) d = (ls.getD t []).getD i d
  | [], t, i, _, _ => by simp
  | l :: ls, 0, i, h, hi => by
    have hl := h l List.mem_cons_self
    simp only [Nat.zero_mul, Nat.zero_add, List.flatten_cons, List.getD_cons_zero]
    rw [List.getD_eq_getElem?_getD, List.getElem?_append_left (by omega), ← List.getD_eq_getElem?_getD]
  | l :: ls, t + 1, i, h, hi => by
    have hl := h l List.mem_cons_self
    have := flatten_getD_uniform K d ls t i (fun x hx => h x (List.mem_cons_of_mem _ hx)) hi
    simp only [List.flatten_cons, List.getD_cons_succ]
    rw [List.getD_eq_getElem?_getD, List.getElem?_append_right (by rw [hl, Nat.add_mul]; omega), ← List.getD_eq_getElem?_getD,
      show (t + 1) * K + i - l.length = t * K + i by rw [hl, Nat.add_mul]; omega]
    exact this

theorem le_sum_of_mem : ∀ (l : List Nat) (x : Nat), x ∈ l → x ≤ l.sum
  | a :: l, x, h => by
    rcases List.mem_cons.mp h with e | e
    · subst e; simp
    · have := le_sum_of_mem l x e; simp only [List.sum_cons]; omega

theorem getD_map_sum : ∀ (l : List (List Nat)) (i : Nat), (l.map List.sum).getD i 0 = (l.getD i []).sum
  | [], _ => by simp
  | _ :: _, 0 => by simp
  | _ :: l, i + 1 => by simpa using getD_map_sum l i

/-! ### the split -/

theorem toSplit_ok {F : Type} {N A K HH : Nat} {s : BS F} {rb : List Blk} {slack : Nat}
    (h : Inv N A K HH s rb [] slack) (hne : rb ≠ []) (hnb : s.splitNumBlocks = rb.length) : SplitOK s.toSplit := by
  have hT : s.toSplit.types = (rb.map (fun b => b.t)).reverse := by
    show s.types.take s.splitNumBlocks = _; rw [hnb]; exact h.typesEq
  have hL : s.toSplit.lengths = (rb.map (fun b => b.len)).reverse := by
    show s.lengths.take s.splitNumBlocks = _; rw [hnb]; exact h.lensEq
  have hlenT : s.toSplit.types.length = rb.length := by rw [hT]; simp
  have hpos : 1 ≤ rb.length := List.length_pos_iff.mpr hne
  have hbl := blocks_le h
  have hsum := lens_sum h hne
  have htot := h.total
  have hsl := h.slackLe
  have hbd := h.bound
  have hmin := h.min1
  refine ⟨by rw [hlenT]; exact hnb, by rw [hL, hlenT]; simp, by omega, ?_, ?_, ?_, h.ntPos hne,
    Nat.le_trans h.ntMax h.mbt, ?_, by rw [hlenT]; exact h.single⟩
  · rw [hlenT]
    have : rb.length * 1 ≤ rb.length * s.minBlockSize := Nat.mul_le_mul_left _ hmin
    simp only [List.length_nil] at htot
    omega
  · rw [hT]
    obtain ⟨b, hb⟩ : ∃ b, rb.getLast? = some b := by
      cases hl : rb.getLast? with
      | none => exact absurd (List.getLast?_eq_none_iff.mp hl) hne
      | some b => exact ⟨b, rfl⟩
    have h0 := h.t0 b hb
    have : (rb.map (fun b => b.t)).reverse.head? = some b.t := by
      rw [List.head?_reverse, List.getLast?_map, hb]; rfl
    rw [List.getD_eq_getElem?_getD, ← List.head?_eq_getElem?, this]
    exact h0
  · intro j hj
    have hm : s.toSplit.types.getD j 0 ∈ s.toSplit.types := getD_mem' _ _ _ hj
    rw [hT] at hm
    simp only [List.mem_reverse, List.mem_map] at hm
    obtain ⟨b, hb, e⟩ := hm
    show s.toSplit.types.getD j 0 < s.numTypes
    rw [hT, ← e]; exact h.tlt b hb
  · intro j hj
    have hm : s.toSplit.lengths.getD j 0 ∈ s.toSplit.lengths := getD_mem' _ _ _ (by rw [hL]; rw [hlenT] at hj; simpa using hj)
    rw [hL] at hm
    simp only [List.mem_reverse, List.mem_map] at hm
    obtain ⟨b, hb, e⟩ := hm
    rw [hL, ← e]
    refine ⟨Nat.le_trans hmin (h.chunkMin b hb), ?_⟩
    have := le_sum_of_mem (rb.map (fun b => b.len)) b.len (List.mem_map.mpr ⟨b, hb, rfl⟩)
    simp only [List.length_nil] at htot
    omega

/-! ### the histograms -/

theorem flat_getD {F : Type} {N A K HH : Nat} {s : BS F} {rb : List Blk} {slack : Nat}
    (h : Inv N A K HH s rb [] slack) (t i : Nat) (hi : i < K) :
    s.flat.getD (t * K + i) [] = (s.slots.getD t []).getD i [] :=
  flatten_getD_uniform K [] s.slots t i (fun l hl => by rw [← h.ncEq]; exact (h.shaped l hl).1) hi

theorem numTypes_le_slots {F : Type} {N A K HH : Nat} {s : BS F} {rb : List Blk} {slack : Nat}
    (h : Inv N A K HH s rb [] slack) : s.numTypes ≤ s.slots.length := by
  rw [h.slen, Nat.le_min]
  refine ⟨?_, Nat.le_succ_of_le h.ntMax⟩
  have hbl := blocks_le h
  have htot := h.total
  have hsl := h.slackLe
  have hnb := h.ntNb
  simp only [List.length_nil] at htot
  have : rb.length ≤ N / s.minBlockSize + 1 := by
    by_cases hz : rb.length = 0
    · rw [hz]; exact Nat.zero_le _
    · have : (rb.length - 1) * s.minBlockSize ≤ N := by
        have e : rb.length * s.minBlockSize = (rb.length - 1) * s.minBlockSize + s.minBlockSize := by
          rw [Nat.sub_mul, Nat.one_mul]
          have : s.minBlockSize ≤ rb.length * s.minBlockSize := Nat.le_mul_of_pos_left _ (by omega)
          omega
        omega
      have := (Nat.le_div_iff_mul_le h.min1).mpr this
      generalize N / s.minBlockSize = q at this ⊢
      omega
  unfold maxBlocks
  generalize N / s.minBlockSize = q at this ⊢
  omega

theorem histos_ok {F : Type} {N A K HH : Nat} {s : BS F} {rb : List Blk} {slack : Nat}
    (h : Inv N A K HH s rb [] slack) (hne : rb ≠ []) : HistosOK s.flat (s.numTypes * K) HH A := by
  have hK : 1 ≤ K := by rw [← h.ncEq]; exact h.nc1
  have hfl : s.flat.length = s.slots.length * K :=
    flatten_length_uniform K s.slots (fun l hl => by rw [← h.ncEq]; exact (h.shaped l hl).1)
  have hns := numTypes_le_slots h
  refine ⟨by rw [hfl]; exact Nat.mul_le_mul_right _ hns, ?_, ?_, ?_⟩
  · have := h.ntPos hne
    exact Nat.le_trans (by omega : 1 ≤ 1 * 1) (Nat.mul_le_mul this hK)
  · have := h.mbtK
    rw [h.ncEq] at this
    exact Nat.le_trans (Nat.mul_le_mul_right _ h.ntMax) this
  · intro i hi
    have hd : i = i / K * K + i % K := by rw [Nat.mul_comm]; exact (Nat.div_add_mod i K).symm
    have hm : i % K < K := Nat.mod_lt _ (by omega)
    have ht : i / K < s.numTypes := by
      rw [Nat.div_lt_iff_lt_mul (by omega)]; exact hi
    rw [hd, flat_getD h _ _ hm]
    have hmem := slot_mem s (i / K) (by omega)
    have hsh := h.shaped _ hmem
    refine ⟨?_, ?_, ?_⟩
    · rw [hsh.getD (i % K) (by rw [h.ncEq]; exact hm), h.hEq]; exact Nat.le_refl _
    · have h1 := h.tot _ ht
      have h2 : ((s.slots.getD (i / K) []).getD (i % K) []).sum ≤ slotTotal (s.slots.getD (i / K) []) := by
        unfold slotTotal
        have := getD_le_sum ((s.slots.getD (i / K) []).map List.sum) (i % K)
        have e := getD_map_sum (s.slots.getD (i / K) []) (i % K)
        omega
      have := h.total
      have := h.bound
      simp only [List.length_nil] at *
      omega
    · intro k hk
      exact h.zeroAbove _ hmem (i % K) k hk

/-- exact shape and the sharper total: every histogram has `HH` entries and counts at most the `N` symbols announced -/
theorem histos_exact {F : Type} {N A K HH : Nat} {s : BS F} {rb : List Blk} {slack : Nat}
    (h : Inv N A K HH s rb [] slack) (i : Nat) (hi : i < s.numTypes * K) :
    (s.flat.getD i []).length = HH ∧ (s.flat.getD i []).sum ≤ N := by
  have hK : 1 ≤ K := by rw [← h.ncEq]; exact h.nc1
  have hns := numTypes_le_slots h
  have hd : i = i / K * K + i % K := by rw [Nat.mul_comm]; exact (Nat.div_add_mod i K).symm
  have hm : i % K < K := Nat.mod_lt _ (by omega)
  have ht : i / K < s.numTypes := by rw [Nat.div_lt_iff_lt_mul (by omega)]; exact hi
  rw [hd, flat_getD h _ _ hm]
  have hmem := slot_mem s (i / K) (by omega)
  have hsh := h.shaped _ hmem
  refine ⟨by rw [hsh.getD (i % K) (by rw [h.ncEq]; exact hm), h.hEq], ?_⟩
  have h1 := h.tot _ ht
  have h2 : ((s.slots.getD (i / K) []).getD (i % K) []).sum ≤ slotTotal (s.slots.getD (i / K) []) := by
    unfold slotTotal
    have := getD_le_sum ((s.slots.getD (i / K) []).map List.sum) (i % K)
    have e := getD_map_sum (s.slots.getD (i / K) []) (i % K)
    omega
  have := h.total
  simp only [List.length_nil] at this
  omega

end BV.Greedy
