import BV.Lemmas.StreamLts
/-
A branch-by-branch description of a successful `encode_data`: the state after the skeleton's own
writes (`encMid`), whether the payload encoder's bits are emitted (`encTakes`), and every field
of the resulting state that later proofs need (framing, tiling, capacity, schedule independence).
-/
namespace BV.Stream
open BV.Bits

/-- the full storage bit string of an invocation: skeleton bits, then the oracle's bits behind them -/
def wFullOf (ans : Ans) (w0 w : Writer) : Writer := w ++ ans.bits.drop (w.drop w0.length).length

/-- what the last part of `encode_data` leaves, by cases on `encTakes` -/
theorem encPayload_spec {s s' : St} {ans : Ans} {w0 w : Writer} {hdr : Nat} {il ff res : Bool}
    (h : encPayload s ans w0 w hdr il ff = .ok (s', res)) :
    res = true ∧ w.length / 8 + 2 ≤ s.storageSize ∧
    ((encTakes s ans il ff = false ∧ s'.pending = (wholeBytes w).take hdr ∧ s'.lastBytes = s.lastBytes
        ∧ s'.lastBytesBits = s.lastBytesBits ∧ s'.lastFlushPos = s.lastFlushPos
        ∧ (s'.lastProcessedPos = s.lastProcessedPos ∨ s'.lastProcessedPos = s.inputPos)
        ∧ s'.nextOut = s.nextOut) ∨
     (encTakes s ans il ff = true ∧ s'.pending = wholeBytes (wFullOf ans w0 w)
        ∧ s'.lastBytes = (carryOf (wFullOf ans w0 w)).1 ∧ s'.lastBytesBits = (carryOf (wFullOf ans w0 w)).2
        ∧ s'.lastFlushPos = s.inputPos ∧ s'.lastProcessedPos = s.inputPos ∧ s'.nextOut = .dyn 0
        ∧ (wFullOf ans w0 w).length / 8 + 2 ≤ s.storageSize)) := by
  unfold encPayload at h
  simp only at h
  unfold wFullOf
  split_all h
  all_goals first
    | (simp at h; done)
    | (simp only [Out.ok.injEq, Prod.mk.injEq] at h; obtain ⟨rfl, rfl⟩ := h
       refine ⟨rfl, by omega, Or.inl ⟨?_, rfl, rfl, rfl, rfl, ?_, rfl⟩⟩
       · simp_all [encTakes, St.unprocessed]
       · first | exact Or.inl rfl | exact Or.inr rfl)
    | (simp only [Out.ok.injEq, Prod.mk.injEq] at h; obtain ⟨rfl, rfl⟩ := h
       refine ⟨rfl, by omega, Or.inr ⟨?_, rfl, rfl, rfl, rfl, rfl, rfl, ?_⟩⟩
       · simp_all [encTakes, St.unprocessed] <;> cases il <;> cases ff <;> simp_all
       · simp only [List.length_append, List.length_drop] at *; omega)

/-- coherence of (state carry, storage bit string `w`, `catable_header_size`) inside `encode_data` -/
def Coh' (s : St) (w : Writer) (hdr : Nat) : Prop :=
  (hdr = w.length / 8 ∧ s.lastBytes = (carryOf w).1 ∧ s.lastBytesBits = (carryOf w).2) ∨ (hdr = 0 ∧ w = s.carry)

theorem encMagic_coh' (s : St) :
    Coh' (encMagic s s.carry).1 (encMagic s s.carry).2.1 (encMagic s s.carry).2.2
    ∧ ∃ x, (encMagic s s.carry).2.1 = s.carry ++ x := by
  unfold encMagic
  split
  · refine ⟨Or.inl ⟨rfl, rfl, rfl⟩, ?_⟩
    unfold magicBlock padToByte
    simp only [List.append_assoc]
    exact ⟨_, rfl⟩
  · exact ⟨Or.inr ⟨rfl, rfl⟩, [], by simp⟩

theorem encPrelude_coh' {s s' : St} {w w' : Writer} {hdr hdr' bytes : Nat} (hc : Coh' s w hdr)
    (h : encPrelude s w hdr bytes = .ok (s', w', hdr')) :
    Coh' s' w' hdr' ∧ ∃ x, w' = w ++ x := by
  unfold encPrelude at h
  simp only at h
  split_all h
  all_goals first
    | (simp at h; done)
    | (simp only [Out.ok.injEq, Prod.mk.injEq] at h; obtain ⟨rfl, rfl, rfl⟩ := h
       refine ⟨?_, [], by simp⟩
       rcases hc with ⟨a, b, c⟩ | ⟨a, b⟩
       · exact Or.inl ⟨a, b, c⟩
       · exact Or.inr ⟨a, b⟩)
    | (simp only [Out.ok.injEq, Prod.mk.injEq] at h; obtain ⟨rfl, rfl, rfl⟩ := h
       refine ⟨Or.inl ⟨rfl, rfl, rfl⟩, ?_⟩
       unfold storedBlock padToByte
       simp only [List.append_assoc]
       exact ⟨_, rfl⟩)

/-- cursor, carry and `catable_header_size` in the middle of `encode_data`: either something has been
written (cursor at `storage_[0]`, carry = tail of `w`, everything whole in `w` is header), or nothing
has (cursor and carry untouched, `w` is the carry) -/
def MidShape (s0 s : St) (w : Writer) (hdr : Nat) : Prop :=
  (s.nextOut = .dyn 0 ∧ hdr = w.length / 8 ∧ s.lastBytes = (carryOf w).1 ∧ s.lastBytesBits = (carryOf w).2) ∨
  (s.nextOut = s0.nextOut ∧ hdr = 0 ∧ w = s0.carry ∧ s.lastBytes = s0.lastBytes ∧ s.lastBytesBits = s0.lastBytesBits)

theorem encMagic_shape (s : St) : MidShape s (encMagic s s.carry).1 (encMagic s s.carry).2.1 (encMagic s s.carry).2.2 := by
  unfold encMagic
  split
  · exact Or.inl ⟨rfl, rfl, rfl, rfl⟩
  · exact Or.inr ⟨rfl, rfl, rfl, rfl, rfl⟩

theorem encPrelude_shape {s0 s s' : St} {w w' : Writer} {hdr hdr' bytes : Nat} (hc : MidShape s0 s w hdr)
    (h : encPrelude s w hdr bytes = .ok (s', w', hdr')) : MidShape s0 s' w' hdr' := by
  unfold encPrelude at h
  simp only at h
  split_all h
  all_goals first
    | (simp at h; done)
    | (simp only [Out.ok.injEq, Prod.mk.injEq] at h; obtain ⟨rfl, rfl, rfl⟩ := h
       rcases hc with ⟨a, b, c, d⟩ | ⟨a, b, c, d, e⟩
       · exact Or.inl ⟨a, b, c, d⟩
       · exact Or.inr ⟨a, b, c, d, e⟩)
    | (simp only [Out.ok.injEq, Prod.mk.injEq] at h; obtain ⟨rfl, rfl, rfl⟩ := h
       exact Or.inl ⟨rfl, rfl, rfl, rfl⟩)

/-- what is known of the state `encMid s il` in the middle of a successful `encode_data` -/
structure EncMidOK (s : St) (il : Bool) (s2 : St) (w : Writer) (hdr : Nat) : Prop where
  coh : Coh' s2 w hdr
  frame : s2.frame = s.frame
  pending : s2.pending = s.pending
  skel : w = s.carry ++ w.drop s.carry.length
  wlen : w.length ≤ s.lastBytesBits + 176
  pos : (s2.lastFlushPos = s.lastFlushPos ∧ s2.lastProcessedPos = s.lastProcessedPos) ∨
        (s2.lastFlushPos = s.lastFlushPos + min 2 (s.unprocessed % two32)
          ∧ s2.lastProcessedPos = s.lastProcessedPos + min 2 (s.unprocessed % two32))
  want : wantStorage s ≤ s2.storageSize
  grow : s.storageSize ≤ s2.storageSize
  nEnc : s2.nEnc = s.nEnc + 1
  latch : s2.isLastBlockEmitted = (s.isLastBlockEmitted || il)
  totalOut : s2.totalOut = s.totalOut
  out : s2.nextOut = .dyn 0 ∨ (s2.nextOut = s.nextOut ∧ hdr = 0 ∧ s2.lastBytesBits = s.lastBytesBits)
  shape : MidShape s s2 w hdr

theorem encRest_split {m : St × Writer × Nat} {ans : Ans} {w0 : Writer} {bytes : Nat} {il ff res : Bool} {s' : St}
    (h : encRest m ans w0 bytes il ff = .ok (s', res)) :
    ∃ s2 w hdr, encPre3 m bytes = .ok (s2, w, hdr) ∧ encPayload s2 ans w0 w hdr il ff = .ok (s', res) := by
  unfold encRest at h
  split at h
  · simp at h
  · simp at h
  · rename_i s2 w hdr hpre
    exact ⟨s2, w, hdr, hpre, h⟩

/-- **a successful `encode_data`, decomposed**: the skeleton's part leads to `encMid s il`
(described by `EncMidOK`), the rest is `encPayload` from there -/
theorem encodeData_spec {o : Oracle} {s s' : St} {site : Nat} {il ff : Bool} {req : Req}
    (h : encodeData o s site il ff = .ok (s', true, req)) :
    req = reqOf s site il ff ∧ s.isLastBlockEmitted = false ∧
    ∃ hdr, EncMidOK s il (encMid s il).1 (encMid s il).2 hdr ∧
      encPayload (encMid s il).1 (o s.nEnc (reqOf s site il ff)) s.carry (encMid s il).2 hdr il ff = .ok (s', true) := by
  obtain ⟨hreq, hc⟩ := encodeData_ok_cases h
  rcases hc with ⟨_, hh, _⟩ | ⟨_, _, hh, _⟩ | ⟨hle, _, hrest⟩
  · simp at hh
  · simp at hh
  · refine ⟨hreq, hle, ?_⟩
    obtain ⟨s2, w, hdr, hpre3, hrest⟩ := encRest_split hrest
    have hpre : encPrelude (encMagic (encEntry s il) s.carry).1 (encMagic (encEntry s il) s.carry).2.1
        (encMagic (encEntry s il) s.carry).2.2 (s.unprocessed % two32) = .ok (s2, w, hdr) := hpre3
    · have hmid : encMid s il = (s2, w) := by
        unfold encMid
        rw [hpre3]
        rfl
      rw [hmid]
      show ∃ hdr, EncMidOK s il s2 w hdr ∧ encPayload s2 (o s.nEnc (reqOf s site il ff)) s.carry w hdr il ff = .ok (s', true)
      refine ⟨hdr, ?_, hrest⟩
      obtain ⟨e1, e2, e3, e4, e5, e6, _, e8, e9, e10, e11, e12, e13⟩ := encEntry_fields s il
      obtain ⟨m1, m2, m3, m4, m5, m6, m7, m8⟩ := encMagic_frame (encEntry s il) s.carry
      obtain ⟨p1, p2, p3, p4, p5, p6⟩ := encPrelude_frame hpre
      have hcar : (encEntry s il).carry = s.carry := by unfold St.carry; rw [e8, e9]
      have hm := encMagic_coh' (encEntry s il)
      rw [hcar] at hm
      obtain ⟨hcoh, x1, hx1⟩ := hm
      obtain ⟨hcoh2, x2, hx2⟩ := encPrelude_coh' hcoh hpre
      have hw : w = s.carry ++ (x1 ++ x2) := by rw [hx2, hx1, List.append_assoc]
      have hml := encMagic_wlen (encEntry s il) s.carry
      have hpl := encPrelude_wlen hpre
      have hcl : s.carry.length = s.lastBytesBits := by unfold St.carry; exact bitsOf_length _ _
      have hoc := encPrelude_outCoh (encMagic_outCoh (encEntry s il) s.carry) hpre
      have mip : (encMagic (encEntry s il) s.carry).1.unprocessed = s.unprocessed := by
        have a := m1; rw [St.frame_eq_iff] at a
        have b := e1; rw [St.frame_eq_iff] at b
        unfold St.unprocessed
        rw [a.2.1, b.2.1, m3, e3]
      refine ⟨hcoh2, p1.trans (m1.trans e1), p3.trans (m5.trans e5), ?_, by rw [hcl] at hml; omega, ?_,
        by rw [p4, m6]; exact e13, by rw [p4, m6]; exact e12, p6.trans (m8.trans e11), p2.trans (m4.trans e4),
        p5.trans (m7.trans e10), ?_, ?_⟩
      · rw [hw, List.drop_append_of_le_length (Nat.le_refl _), List.drop_of_length_le (Nat.le_refl _)]; rfl
      · rcases encPrelude_pos hpre with ⟨q1, q2⟩ | ⟨q1, q2⟩
        · exact Or.inl ⟨q1.trans (m2.trans e2), q2.trans (m3.trans e3)⟩
        · exact Or.inr ⟨by rw [q1, m2, e2], by rw [q2, m3, e3]⟩
      · rcases hoc with a | ⟨a, b, c⟩
        · exact Or.inl a
        · exact Or.inr ⟨a.trans e6, b, c.trans e9⟩
      · have hsh := encMagic_shape (encEntry s il)
        rw [hcar] at hsh
        rcases encPrelude_shape hsh hpre with ⟨a, b, c, d⟩ | ⟨a, b, c, d, e⟩
        · exact Or.inl ⟨a, b, c, d⟩
        · exact Or.inr ⟨a.trans e6, b, c.trans hcar, d.trans e8, e.trans e9⟩

end BV.Stream
