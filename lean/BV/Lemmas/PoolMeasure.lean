/-
Helper lemmas for C07, part 8: a termination measure.  Every thread step (non-spurious
choice) strictly decreases `mu`; a spurious wake-up increases it by exactly 2.
-/
import BV.Lemmas.PoolProgress

set_option linter.unusedSimpArgs false
set_option linter.unnecessarySimpa false
set_option linter.unusedVariables false

namespace BV.Lemmas.Pool
open BV.Gen BV.FixedQueue BV.Pool BV.Lemmas.FixedQueue

def atB : WPc → Nat
  | .atLockB _ => 1
  | _ => 0

def alive : WPc → Nat
  | .exited => 0
  | _ => 1

/-- minor potential of a worker: steps it can take without any "real" progress -/
def mW : WPc → Nat
  | .woken => 2
  | .atLockA => 1
  | _ => 0

def mS : SPc → Nat
  | .woken => 2
  | .ready => 1
  | _ => 0

@[simp] theorem mS_ready : mS .ready = 1 := rfl
@[simp] theorem mS_woken : mS .woken = 2 := rfl
@[simp] theorem mS_waiting : mS .waiting = 0 := rfl
@[simp] theorem mS_joining (t : Nat) : mS (.joining t) = 0 := rfl

def progW : List Op → Nat
  | [] => 0
  | .spawn _ :: r => 4 + progW r
  | .join _ :: r => 1 + progW r
  | .unwrapInput :: r => 1 + progW r
  | .dropPool :: r => progW r

def hasDrop : List Op → Bool
  | [] => false
  | .dropPool :: _ => true
  | _ :: r => hasDrop r

/-- what is left to do of a `d` op: `n + 2` before it starts, `n + 1 - t` while parked in the
join of worker `t` -/
def dropW (b : Bool) (n : Nat) : Nat := if b then n + 2 else 0

@[simp] theorem dropW_true (n : Nat) : dropW true n = n + 2 := rfl
@[simp] theorem dropW_false (n : Nat) : dropW false n = 0 := rfl

def dropPartF (spc : SPc) (prog : List Op) (n : Nat) : Nat :=
  match spc with
  | .joining t => n + 1 - t
  | _ => dropW (hasDrop prog) n

@[simp] theorem dropPartF_ready (prog : List Op) (n : Nat) :
    dropPartF .ready prog n = dropW (hasDrop prog) n := rfl
@[simp] theorem dropPartF_woken (prog : List Op) (n : Nat) :
    dropPartF .woken prog n = dropW (hasDrop prog) n := rfl
@[simp] theorem dropPartF_waiting (prog : List Op) (n : Nat) :
    dropPartF .waiting prog n = dropW (hasDrop prog) n := rfl
@[simp] theorem dropPartF_joining (t : Nat) (prog : List Op) (n : Nat) :
    dropPartF (.joining t) prog n = n + 1 - t := rfl

@[simp] theorem atB_wake (p : WPc) : atB p.wake = atB p := by cases p <;> rfl
@[simp] theorem alive_wake (p : WPc) : alive p.wake = alive p := by cases p <;> rfl
theorem mW_wake (p : WPc) : mW p.wake ≤ mW p + 2 := by cases p <;> simp [WPc.wake, mW]
theorem mS_wake (p : SPc) : mS p.wake ≤ mS p + 2 := by cases p <;> simp [SPc.wake, mS]
@[simp] theorem dropPartF_wake (p : SPc) (prog : List Op) (n : Nat) :
    dropPartF p.wake prog n = dropPartF p prog n := by cases p <;> rfl

theorem wsum_mW_wake (ws : List WPc) : wsum mW (ws.map WPc.wake) ≤ wsum mW ws + 2 * ws.length := by
  induction ws with
  | nil => simp
  | cons a t ih =>
    simp only [List.map_cons, wsum_cons, List.length_cons]
    have := mW_wake a
    omega

/-- "real" progress still to be made -/
def major (s : State) : Nat :=
  progW s.prog + 3 * s.jobs.size + 2 * wsum holdsArc s.workers + wsum atB s.workers
    + wsum alive s.workers + dropPartF s.spc s.prog s.workers.length

def minor (s : State) : Nat := wsum mW s.workers + mS s.spc

/-- the termination measure (the weight `2n + 8` exceeds what a `notify_all` can add to
`minor`) -/
def mu (s : State) : Nat := major s * (2 * s.workers.length + 8) + minor s

theorem mu_lt_major {s s' : State} (hl : s'.workers.length = s.workers.length)
    (h1 : major s' + 1 ≤ major s) (h2 : minor s' ≤ minor s + 2 * s.workers.length + 7) :
    mu s' < mu s := by
  unfold mu
  rw [hl]
  have := Nat.mul_le_mul_right (2 * s.workers.length + 8) h1
  rw [Nat.add_mul] at this
  omega

theorem mu_lt_minor {s s' : State} (hl : s'.workers.length = s.workers.length)
    (h1 : major s' = major s) (h2 : minor s' < minor s) : mu s' < mu s := by
  unfold mu
  rw [hl, h1]
  omega

theorem sums3_set {ws : List WPc} {i : Nat} {p : WPc} (hw : ws[i]? = some p) (p' : WPc) :
    wsum holdsArc (ws.set i p') + holdsArc p = wsum holdsArc ws + holdsArc p' ∧
    wsum atB (ws.set i p') + atB p = wsum atB ws + atB p' ∧
    wsum alive (ws.set i p') + alive p = wsum alive ws + alive p' ∧
    wsum mW (ws.set i p') + mW p = wsum mW ws + mW p' :=
  ⟨wsum_set _ _ hw, wsum_set _ _ hw, wsum_set _ _ hw, wsum_set _ _ hw⟩

theorem sums3_set_wake {ws : List WPc} {i : Nat} {p : WPc} (hw : ws[i]? = some p) (p' : WPc) :
    wsum holdsArc ((ws.map WPc.wake).set i p') + holdsArc p = wsum holdsArc ws + holdsArc p' ∧
    wsum atB ((ws.map WPc.wake).set i p') + atB p = wsum atB ws + atB p' ∧
    wsum alive ((ws.map WPc.wake).set i p') + alive p = wsum alive ws + alive p' ∧
    wsum mW ((ws.map WPc.wake).set i p') + mW p.wake ≤ wsum mW ws + 2 * ws.length + mW p' := by
  refine ⟨wsum_set_wake _ holdsArc_wake _ hw, wsum_set_wake _ atB_wake _ hw,
    wsum_set_wake _ alive_wake _ hw, ?_⟩
  have h' : (ws.map WPc.wake)[i]? = some p.wake := by simp [hw]
  have := wsum_set mW p' h'
  have := wsum_mW_wake ws
  omega

theorem sums3_wake (ws : List WPc) :
    wsum holdsArc (ws.map WPc.wake) = wsum holdsArc ws ∧
    wsum atB (ws.map WPc.wake) = wsum atB ws ∧
    wsum alive (ws.map WPc.wake) = wsum alive ws ∧
    wsum mW (ws.map WPc.wake) ≤ wsum mW ws + 2 * ws.length :=
  ⟨wsum_map_wake _ holdsArc_wake _, wsum_map_wake _ atB_wake _, wsum_map_wake _ alive_wake _,
   wsum_mW_wake ws⟩

/-- after `d` the contract allows only `u` ops: no second drop -/
theorem no_drop_after_drop {nsp : Nat} {j : List Nat} {r : List Op}
    (h : contractFrom nsp j true r = true) : hasDrop r = false := by
  induction r generalizing nsp j with
  | nil => rfl
  | cons op r ih =>
    cases op with
    | spawn _ => simp [contractFrom] at h
    | join _ => simp [contractFrom] at h
    | unwrapInput => simp only [contractFrom] at h; simpa [hasDrop] using ih h
    | dropPool => simp [contractFrom] at h

theorem spc_cases_dropPart {s : State} (h : s.spc = .ready ∨ s.spc = .woken) (prog : List Op)
    (n : Nat) : dropPartF s.spc prog n = dropW (hasDrop prog) n := by
  rcases h with h | h <;> simp [h]

theorem mS_le_of_spc {s : State} (h : s.spc = .ready ∨ s.spc = .woken) : 1 ≤ mS s.spc := by
  rcases h with h | h <;> simp [h, mS]

/-- every thread step decreases the measure -/
theorem mu_step_run {s s' : State} {t : Nat} (I : Inv s) (L : InvL s)
    (h : step s (.run t) = .ok s') : mu s' < mu s := by
  have hl := workers_length_step h
  apply step_elim h
  · -- exitA
    intro i _ hw _ hs'
    obtain ⟨h1, h2, h3, h4⟩ := sums3_set hw .exited
    simp only [holdsArc, atB, alive, mW] at h1 h2 h3 h4
    subst hs'
    apply mu_lt_major hl
    · simp [major]; omega
    · simp [minor]; omega
  · -- pop
    intro i j jobs' _ hw _ hpop hs'
    obtain ⟨w', hit, hsz⟩ := pop_some_spec I.wfJ hpop
    obtain ⟨h1, h2, h3, h4⟩ := sums3_set_wake hw (.atRun j)
    simp only [holdsArc, atB, alive, mW, WPc.wake] at h1 h2 h3 h4
    have := mS_wake s.spc
    subst hs'
    apply mu_lt_major hl
    · simp [major]; omega
    · simp [minor]; omega
  · -- exitS
    intro i jobs' _ hw _ hpop hsd hs'
    rw [I.noShutdown] at hsd; cases hsd
  · -- waitW
    intro i jobs' _ hw _ hpop _ hs'
    obtain ⟨rfl, _⟩ := pop_none_spec I.wfJ hpop
    obtain ⟨h1, h2, h3, h4⟩ := sums3_set hw .waiting
    simp only [holdsArc, atB, alive, mW] at h1 h2 h3 h4
    subst hs'
    apply mu_lt_minor hl
    · simp [major]; omega
    · simp [minor]; omega
  · -- run
    intro i j _ hw hs'
    obtain ⟨h1, h2, h3, h4⟩ := sums3_set hw (.atLockB ⟨j.workId, j.index⟩)
    simp only [holdsArc, atB, alive, mW] at h1 h2 h3 h4
    subst hs'
    apply mu_lt_major hl
    · simp [major]; omega
    · simp [minor]; omega
  · -- publish
    intro i r results' _ hw hn hpush hs'
    obtain ⟨h1, h2, h3, h4⟩ := sums3_set_wake hw .atLockA
    simp only [holdsArc, atB, alive, mW, WPc.wake] at h1 h2 h3 h4
    have := mS_wake s.spc
    subst hs'
    apply mu_lt_major hl
    · simp [major]; omega
    · simp [minor]; omega
  · -- wake
    intro i _ hw hs'
    obtain ⟨h1, h2, h3, h4⟩ := sums3_set hw .atLockA
    simp only [holdsArc, atB, alive, mW] at h1 h2 h3 h4
    subst hs'
    apply mu_lt_minor hl
    · simp [major]; omega
    · simp [minor]; omega
  · -- spawn
    intro idx rest jobs' _ hspc hp _ hpush hs'
    obtain ⟨h1, h2, h3, h4⟩ := sums3_wake s.workers
    have hlt' : s.jobs.size < MAX_THREADS := by
      have hc := I.contr
      rw [hp] at hc
      simp only [contractFrom, Bool.and_eq_true, decide_eq_true_eq] at hc
      have := I.total; omega
    obtain ⟨q', e1, w', hit, hsz, _⟩ := push_spec I.wfJ ⟨s.curWorkId, idx⟩ hlt'
    rw [hpush] at e1; cases e1
    have hd := spc_cases_dropPart hspc s.prog s.workers.length
    have hm := mS_le_of_spc hspc
    have hhd : hasDrop s.prog = hasDrop rest := by rw [hp]; rfl
    have hpw : progW s.prog = 4 + progW rest := by rw [hp]; rfl
    rw [hhd] at hd
    subst hs'
    apply mu_lt_major hl
    · simp [major, hd, hpw, hsz]; omega
    · simp [minor]; omega
  · -- spawnWait
    intro idx rest _ _ hp hnc hs'
    exact absurd (spawn_cond_of_inv I) hnc
  · -- join
    intro n rest j r results' _ hspc hp hsp hrm hs'
    have hd := spc_cases_dropPart hspc s.prog s.workers.length
    have hm := mS_le_of_spc hspc
    have hhd : hasDrop s.prog = hasDrop rest := by rw [hp]; rfl
    have hpw : progW s.prog = 1 + progW rest := by rw [hp]; rfl
    rw [hhd] at hd
    subst hs'
    apply mu_lt_major hl
    · simp [major, hd, hpw]; omega
    · simp [minor]; omega
  · -- joinWait
    intro n rest j results' _ hspc hp hsp hrm hs'
    have hd := spc_cases_dropPart hspc s.prog s.workers.length
    have hm := mS_le_of_spc hspc
    subst hs'
    apply mu_lt_minor hl
    · simp [major, hd]
    · simp [minor]; omega
  · -- unwrap
    intro rest _ hspc hp hs'
    have hd := spc_cases_dropPart hspc s.prog s.workers.length
    have hm := mS_le_of_spc hspc
    have hhd : hasDrop s.prog = hasDrop rest := by rw [hp]; rfl
    have hpw : progW s.prog = 1 + progW rest := by rw [hp]; rfl
    rw [hhd] at hd
    subst hs'
    apply mu_lt_major hl
    · simp [major, hd, hpw]; omega
    · simp [minor]; omega
  · -- drop
    intro rest _ hspc hp hs'
    obtain ⟨h1, h2, h3, h4⟩ := sums3_wake s.workers
    have hd := spc_cases_dropPart hspc s.prog s.workers.length
    have hm := mS_le_of_spc hspc
    have hhd : hasDrop s.prog = true := by rw [hp]; rfl
    have hpw : progW s.prog = progW rest := by rw [hp]; rfl
    rw [hhd, dropW_true] at hd
    have hc := I.contr
    rw [hp, dropped_of_spc hspc] at hc
    simp only [contractFrom, Bool.and_eq_true] at hc
    have hnd := no_drop_after_drop hc.2
    rcases joinFrom_cases ({ s with immediateShutdown := true }.notifyAll) 1 rest true
      (Nat.le_refl _) with ⟨t, ht1, ht2, _, _, _, e⟩ | ⟨_, e⟩
    · rw [e] at hs'; subst hs'
      apply mu_lt_major hl
      · simp [major, hd]; omega
      · simp [minor]; omega
    · rw [e] at hs'; subst hs'
      apply mu_lt_major hl
      · simp [major, hd, hpw, hnd]; omega
      · simp [minor]; omega
  · -- joinW
    intro t rest _ hspc hp _ hs'
    obtain ⟨g1, g2, _, _⟩ := L.joining t hspc
    have himm := I.joinImm (by simp [hspc, isJoining])
    have hc := I.contr
    rw [hp] at hc
    simp only [dropped, hspc, isJoining, himm, contractFrom, Bool.and_eq_true] at hc
    have hnd := no_drop_after_drop hc.2
    have hpw : progW s.prog = progW rest := by rw [hp]; rfl
    rcases joinFrom_cases s (t + 1) rest false (by omega) with ⟨t', ht1, ht2, _, _, _, e⟩ | ⟨_, e⟩
    · rw [e] at hs'; subst hs'
      apply mu_lt_major hl
      · simp [major, hspc]; omega
      · simp [minor, hspc] <;> omega
    · rw [e] at hs'; subst hs'
      apply mu_lt_major hl
      · simp [major, hspc, hpw, hnd]; omega
      · simp [minor, hspc] <;> omega
  · intro hc; cases hc
  · intro tid hc; cases hc

/-- a spurious wake-up adds exactly 2 -/
theorem mu_step_spurious {s s' : State} {t : Nat} (h : step s (.spurious t) = .ok s') :
    mu s' = mu s + 2 := by
  have hl := workers_length_step h
  apply step_elim h
  case spurS =>
    intro _ hspc hs'
    subst hs'
    simp [mu, major, minor, hspc]; omega
  case spurW =>
    intro tid _ _ hw hs'
    obtain ⟨h1, h2, h3, h4⟩ := sums3_set hw .woken
    simp only [holdsArc, atB, alive, mW] at h1 h2 h3 h4
    subst hs'
    simp only [mu, major, minor, log_prog, setW_prog, log_jobs, setW_jobs, log_workers,
      setW_workers, log_spc, setW_spc, List.length_set]
    have e1 : wsum holdsArc (s.workers.set (tid - 1) .woken) = wsum holdsArc s.workers := by omega
    have e2 : wsum atB (s.workers.set (tid - 1) .woken) = wsum atB s.workers := by omega
    have e3 : wsum alive (s.workers.set (tid - 1) .woken) = wsum alive s.workers := by omega
    have e4 : wsum mW (s.workers.set (tid - 1) .woken) = wsum mW s.workers + 2 := by omega
    rw [e1, e2, e3, e4]; omega
  case exitA => intro _ hc; cases hc
  case pop => intro _ _ _ hc; cases hc
  case exitS => intro _ _ hc; cases hc
  case waitW => intro _ _ hc; cases hc
  case run => intro _ _ hc; cases hc
  case publish => intro _ _ _ hc; cases hc
  case wake => intro _ hc; cases hc
  case spawn => intro _ _ _ hc; cases hc
  case spawnWait => intro _ _ hc; cases hc
  case join => intro _ _ _ _ _ hc; cases hc
  case joinWait => intro _ _ _ _ hc; cases hc
  case unwrap => intro _ hc; cases hc
  case drop => intro _ hc; cases hc
  case joinW => intro _ _ hc; cases hc

end BV.Lemmas.Pool
