/-
Lemmas for C17 part 3 (e) / 4: the retry loops of `BrotliCreateHuffmanTree` and
of `BrotliBuildAndStoreHuffmanTreeFast`.
-/
import BV.Lemmas.HuffmanBuild

namespace BV.Lemmas.HuffmanCreate
open BV.Bits BV.Huffman BV.Lemmas.HuffmanCanon BV.Lemmas.HuffmanShape BV.Lemmas.HuffmanSort
open BV.Lemmas.HuffmanMerge BV.Lemmas.HuffmanBuild BV.Lemmas.HuffmanFib

/-- total weight of a round: `Σ max(count, count_limit)` over the occurring symbols -/
def roundWeight (data : List Nat) (m cl : Nat) : Nat := ((descNZ data m).map (wOf data cl)).sum

/-- `depth` is zero at every symbol `< m` that does not occur -/
def ZeroOff (data : List Nat) (m : Nat) (depth : List Nat) : Prop :=
  ∀ v, v < m → data.getD v 0 = 0 → depth.getD v 0 = 0

/-- what C17 asks of the depths of the first `m` symbols, limit `M` -/
structure GoodDepth (data : List Nat) (m M : Nat) (depth depth' : List Nat) : Prop where
  hlen : depth'.length = depth.length
  hframe : ∀ x, m ≤ x → depth'[x]? = depth[x]?
  hsupp : ∀ v, v < m → (depth'.getD v 0 ≠ 0 ↔ data.getD v 0 ≠ 0)
  hlim : ∀ v, v < m → depth'.getD v 0 ≤ M
  hkraft : kraftSum M (depth'.take m) = 2 ^ M
  /-- a code over `n` symbols has no code word longer than `n - 1` -/
  hcnt : ∀ v, v < m → depth'.getD v 0 + 1 ≤ (descNZ data m).length

/-- outcome of the part of one round that both builders share -/
theorem round_spec (cmp : Node → Node → Bool) (hcmp : CmpOK cmp) (data : List Nat) (m M cl : Nat)
    (hM : M ≤ 15)
    (hm : m ≤ data.length) (hm16 : 2 * m < 32768) (hn2 : 2 ≤ (descNZ data m).length)
    (tree : List Node) (depth : List Nat) (htl : 2 * m + 1 ≤ tree.length)
    (hdl : m ≤ depth.length) (hz : ZeroOff data m depth)
    (hW : roundWeight data m cl < 4294967295) :
    ∃ tree1 tree2 done depth', collectLeaves data cl m tree 0 = .ok (tree1, (descNZ data m).length) ∧
      buildNodes cmp tree1 (descNZ data m).length = .ok tree2 ∧ tree2.length = tree.length ∧
      setDepth ((2 * (descNZ data m).length - 1 : Nat) : Int) tree2 depth (M : Int)
            = .ok (done, depth') ∧
      (done = true → GoodDepth data m M depth depth') ∧
      (done = false → depth'.length = depth.length ∧ ZeroOff data m depth' ∧
            ∀ x, m ≤ x → depth'[x]? = depth[x]?) ∧
      (roundWeight data m cl < fib (M + 3) * cl → done = true) := by
  have hnm := length_descNZ_le data m
  obtain ⟨tree1, hc1, hc2, _, hc4⟩ := collectLeaves_spec data cl m tree 0 hm (by omega) (by omega)
  simp only [Nat.zero_add] at hc1 hc4
  obtain ⟨tree2, t, hb1, hb2, hb3, hb4, hb5⟩ := buildNodes_spec cmp hcmp data cl (descNZ data m)
    tree1 (descNZ data m).length rfl hn2 (by omega) (by omega) hc4 hW
  have hlvlen : t.leaves.length = (descNZ data m).length := hb4.length_eq
  have hmem : ∀ v, v ∈ t.leaves ↔ v < m ∧ data.getD v 0 ≠ 0 := by
    intro v; rw [hb4.mem_iff, mem_descNZ]
  have hlv : ∀ v ∈ t.leaves, v < depth.length := fun v hv => by
    have := (hmem v).mp hv; omega
  have hsz : t.size ≤ setDepthFuel := by
    have := T.size_eq t
    unfold setDepthFuel; omega
  have hsd := setDepth_spec tree2 M hM t (2 * (descNZ data m).length - 1) depth hb3 hlv hsz
  by_cases hfit : t.height ≤ M
  · refine ⟨tree1, tree2, true, assign t 0 depth, hc1, hb1, by rw [hb2, hc2], hsd.1 hfit, ?_,
      (fun h => Bool.noConfusion h), fun _ => rfl⟩
    intro _
    have h2 : 2 ≤ t.leaves.length := by omega
    refine
      { hlen := assign_length _ _ _, hframe := ?_, hsupp := ?_, hlim := ?_, hkraft := ?_,
        hcnt := ?_ }
    · intro x hx
      exact assign_other t 0 depth x (fun h => by have := (hmem x).mp h; omega)
    · intro v hv
      by_cases hd : data.getD v 0 = 0
      · have hnl : v ∉ t.leaves := fun h => ((hmem v).mp h).2 hd
        rw [getD_of_getElem? _ _ _ (assign_other t 0 depth v hnl), hz v hv hd]
        constructor
        · intro h; exact absurd rfl h
        · intro h; exact absurd hd h
      · obtain ⟨x, h1, h2, _⟩ := assign_leaf_pos t h2 depth v ((hmem v).mpr ⟨hv, hd⟩) hlv
        simp only [List.getD_eq_getElem?_getD, h1, Option.getD_some]
        constructor
        · intro _; exact hd
        · intro _; omega
    · intro v hv
      by_cases hd : data.getD v 0 = 0
      · have hnl : v ∉ t.leaves := fun h => ((hmem v).mp h).2 hd
        rw [getD_of_getElem? _ _ _ (assign_other t 0 depth v hnl), hz v hv hd]
        omega
      · obtain ⟨x, h1, _, h3⟩ := assign_leaf_pos t h2 depth v ((hmem v).mpr ⟨hv, hd⟩) hlv
        simp only [List.getD_eq_getElem?_getD, h1, Option.getD_some]
        omega
    · rw [assign_take]
      have heq : assign t 0 (depth.take m) = assign t 0 (List.replicate m 0) := by
        apply List.ext_getElem?
        intro x
        apply assign_pointwise t 0 _ _ x (by simp; omega)
          (by intro v hv; have := (hmem v).mp hv; simp; omega)
        by_cases hx : x ∈ t.leaves
        · exact Or.inl hx
        · right
          rw [List.getElem?_take, List.getElem?_replicate]
          by_cases hxm : x < m
          · rw [if_pos hxm, if_pos hxm]
            have hd : data.getD x 0 = 0 := by
              by_cases hd : data.getD x 0 = 0
              · exact hd
              · exact absurd ((hmem x).mpr ⟨hxm, hd⟩) hx
            have := hz x hxm hd
            rw [List.getD_eq_getElem?_getD, List.getElem?_eq_getElem (by omega)] at this
            rw [List.getElem?_eq_getElem (by omega)]
            simpa using this
          · rw [if_neg hxm, if_neg hxm]
      rw [heq, kraft_assign M t 0 (List.replicate m 0) (hb4.nodup_iff.mpr (nodup_descNZ data m))
        (by
          intro v hv
          have := (hmem v).mp hv
          exact ⟨by simp; omega, replicate_getD m v⟩) (Or.inl h2),
        kraftT_eq M t 0 (by omega)]
      have : kraftSum M (List.replicate m 0) = 0 := by
        unfold kraftSum
        induction m with
        | zero => rfl
        | succ m ih => simp [List.replicate_succ]
      rw [this]; simp
    · intro v hv
      have hh := T.height_succ_le t
      by_cases hd : data.getD v 0 = 0
      · have hnl : v ∉ t.leaves := fun h => ((hmem v).mp h).2 hd
        rw [getD_of_getElem? _ _ _ (assign_other t 0 depth v hnl), hz v hv hd]
        omega
      · obtain ⟨x, h1, _, h3⟩ := assign_leaf_pos t h2 depth v ((hmem v).mpr ⟨hv, hd⟩) hlv
        simp only [List.getD_eq_getElem?_getD, h1, Option.getD_some]
        omega
  · obtain ⟨d', h1, h2, h3⟩ := hsd.2 (by omega)
    refine ⟨tree1, tree2, false, d', hc1, hb1, by rw [hb2, hc2], h1, (fun h => Bool.noConfusion h),
      fun _ => ⟨h2, ?_, ?_⟩, ?_⟩
    · intro v hv hd
      have hnl : v ∉ t.leaves := fun h => ((hmem v).mp h).2 hd
      rw [getD_of_getElem? _ _ _ (h3 v hnl)]
      exact hz v hv hd
    · intro x hx
      exact h3 x (fun h => by have := (hmem x).mp h; omega)
    · intro hlt
      exfalso
      have hmono : fib (M + 3) ≤ fib (t.height + 2) := fib_mono (by omega)
      have := Nat.mul_le_mul_right cl hmono
      unfold roundWeight at hlt
      omega

/-- `count_limit` after `r` retries -/
def clSeq (cl : Nat) : Nat → Nat
  | 0 => cl
  | r + 1 => clSeq (cl * 2 % 4294967296) r

theorem asI32_of_lt (x : Nat) (h : x < 2147483648) : asI32 x = (x : Int) := by
  unfold asI32
  have : x % 4294967296 = x := Nat.mod_eq_of_lt (by omega)
  rw [this, if_pos h]

theorem GoodDepth.trans_frame {data : List Nat} {m M : Nat} {d0 d1 d2 : List Nat}
    (h : GoodDepth data m M d1 d2) (hl : d1.length = d0.length)
    (hf : ∀ x, m ≤ x → d1[x]? = d0[x]?) : GoodDepth data m M d0 d2 :=
  { hlen := h.hlen.trans hl, hframe := fun x hx => (h.hframe x hx).trans (hf x hx),
    hsupp := h.hsupp, hlim := h.hlim, hkraft := h.hkraft, hcnt := h.hcnt }

/-- The retry loop of `BrotliCreateHuffmanTree` run for at most `f` rounds, none
of which overflows the `u32` node counts: it either needs more rounds or
returns depths that are complete, exact on the support and within the limit. -/
theorem createLoop_spec (data : List Nat) (m M : Nat) (hM : M ≤ 15) (hm : m ≤ data.length)
    (hm16 : 2 * m < 32768) (hn2 : 2 ≤ (descNZ data m).length) :
    ∀ (f cl : Nat) (tree : List Node) (depth : List Nat), 2 * m + 1 ≤ tree.length →
    m ≤ depth.length → ZeroOff data m depth →
    (∀ r, r < f → roundWeight data m (clSeq cl r) < 4294967295) →
    createLoop data m (M : Int) f cl tree depth = .fuel ∨
    ∃ tree' depth', createLoop data m (M : Int) f cl tree depth = .ok (tree', depth') ∧
      GoodDepth data m M depth depth' := by
  intro f
  induction f with
  | zero => intro _ _ _ _ _ _ _; left; rfl
  | succ f ih =>
    intro cl tree depth htl hdl hz hW
    obtain ⟨tree1, tree2, done, depth', h1, h2, h3, hs, hgood, hbad, _⟩ :=
      round_spec cmpSort cmpSort_ok data m M cl hM hm hm16 hn2 tree depth
      htl hdl hz (hW 0 (by omega))
    have hn1 : ¬ (descNZ data m).length = 1 := by omega
    have hn0 : ¬ (descNZ data m).length = 0 := by omega
    have hnm := length_descNZ_le data m
    simp only [createLoop, h1, Out.bind_ok, hn1, hn0, ↓reduceIte, h2,
      asI32_of_lt (2 * (descNZ data m).length - 1) (by omega), hs]
    cases done with
    | true =>
      right
      simp only [↓reduceIte]
      exact ⟨tree2, depth', rfl, hgood rfl⟩
    | false =>
      obtain ⟨hl, hz', hfr⟩ := hbad rfl
      simp only [Bool.false_eq_true, ↓reduceIte]
      rcases ih (cl * 2 % 4294967296) tree2 depth' (by omega) (by omega) hz'
        (fun r hr => hW (r + 1) (by omega)) with hfu | ⟨t', d', he, hg⟩
      · left; exact hfu
      · right; exact ⟨t', d', he, hg.trans_frame hl hfr⟩

/-- the same for the `'break11` loop of `BrotliBuildAndStoreHuffmanTreeFast` (limit 14) -/
theorem fastLoop_spec (data : List Nat) (m : Nat) (hm : m ≤ data.length)
    (hm16 : 2 * m < 32768) (hn2 : 2 ≤ (descNZ data m).length) :
    ∀ (f cl : Nat) (tree : List Node) (depth : List Nat), 2 * m + 1 ≤ tree.length →
    m ≤ depth.length → ZeroOff data m depth →
    (∀ r, r < f → roundWeight data m (clSeq cl r) < 4294967295) →
    fastLoop data m f cl tree depth = .fuel ∨
    ∃ depth', fastLoop data m f cl tree depth = .ok depth' ∧ GoodDepth data m 14 depth depth' := by
  intro f
  induction f with
  | zero => intro _ _ _ _ _ _ _; left; rfl
  | succ f ih =>
    intro cl tree depth htl hdl hz hW
    obtain ⟨tree1, tree2, done, depth', h1, h2, h3, hs, hgood, hbad, _⟩ :=
      round_spec cmpSimple cmpSimple_ok data m 14 cl (by omega) hm hm16
      hn2 tree depth htl hdl hz (hW 0 (by omega))
    have hcast : (2 * ((descNZ data m).length : Int) - 1) =
        ((2 * (descNZ data m).length - 1 : Nat) : Int) := by omega
    have hs' : setDepth (↑(2 * (descNZ data m).length - 1)) tree2 depth 14
        = .ok (done, depth') := hs
    simp only [fastLoop, h1, Out.bind_ok, h2, hcast, hs']
    cases done with
    | true =>
      right
      simp only [↓reduceIte]
      exact ⟨depth', rfl, hgood rfl⟩
    | false =>
      obtain ⟨hl, hz', hfr⟩ := hbad rfl
      simp only [Bool.false_eq_true, ↓reduceIte]
      rcases ih (cl * 2 % 4294967296) tree2 depth' (by omega) (by omega) hz'
        (fun r hr => hW (r + 1) (by omega)) with hfu | ⟨d', he, hg⟩
      · left; exact hfu
      · right; exact ⟨d', he, hg.trans_frame hl hfr⟩

/-- the retry loop stops at the latest in the first round whose total weight is
below `fib (M + 3) · count_limit` -/
theorem createLoop_stops (data : List Nat) (m M : Nat) (hM : M ≤ 15) (hm : m ≤ data.length)
    (hm16 : 2 * m < 32768) (hn2 : 2 ≤ (descNZ data m).length) :
    ∀ (f cl : Nat) (tree : List Node) (depth : List Nat), 2 * m + 1 ≤ tree.length →
    m ≤ depth.length → ZeroOff data m depth →
    (∀ r, r < f → roundWeight data m (clSeq cl r) < 4294967295) →
    (∃ r, r < f ∧ roundWeight data m (clSeq cl r) < fib (M + 3) * clSeq cl r) →
    createLoop data m (M : Int) f cl tree depth ≠ .fuel := by
  intro f
  induction f with
  | zero => intro _ _ _ _ _ _ _ ⟨r, hr, _⟩; omega
  | succ f ih =>
    intro cl tree depth htl hdl hz hW ⟨r, hr, hfit⟩
    obtain ⟨tree1, tree2, done, depth', h1, h2, h3, hs, hgood, hbad, hstop⟩ :=
      round_spec cmpSort cmpSort_ok data m M cl hM hm hm16 hn2 tree depth
      htl hdl hz (hW 0 (by omega))
    have hn1 : ¬ (descNZ data m).length = 1 := by omega
    have hn0 : ¬ (descNZ data m).length = 0 := by omega
    have hnm := length_descNZ_le data m
    simp only [createLoop, h1, Out.bind_ok, hn1, hn0, ↓reduceIte, h2,
      asI32_of_lt (2 * (descNZ data m).length - 1) (by omega), hs]
    cases done with
    | true => simp
    | false =>
      obtain ⟨hl, hz', hfr⟩ := hbad rfl
      simp only [Bool.false_eq_true, ↓reduceIte]
      cases r with
      | zero => exact absurd (hstop hfit) (by simp)
      | succ r =>
        exact ih (cl * 2 % 4294967296) tree2 depth' (by omega) (by omega) hz'
          (fun r hr => hW (r + 1) (by omega)) ⟨r, by omega, hfit⟩

theorem fastLoop_stops (data : List Nat) (m : Nat) (hm : m ≤ data.length)
    (hm16 : 2 * m < 32768) (hn2 : 2 ≤ (descNZ data m).length) :
    ∀ (f cl : Nat) (tree : List Node) (depth : List Nat), 2 * m + 1 ≤ tree.length →
    m ≤ depth.length → ZeroOff data m depth →
    (∀ r, r < f → roundWeight data m (clSeq cl r) < 4294967295) →
    (∃ r, r < f ∧ roundWeight data m (clSeq cl r) < fib (14 + 3) * clSeq cl r) →
    fastLoop data m f cl tree depth ≠ .fuel := by
  intro f
  induction f with
  | zero => intro _ _ _ _ _ _ _ ⟨r, hr, _⟩; omega
  | succ f ih =>
    intro cl tree depth htl hdl hz hW ⟨r, hr, hfit⟩
    obtain ⟨tree1, tree2, done, depth', h1, h2, h3, hs, hgood, hbad, hstop⟩ :=
      round_spec cmpSimple cmpSimple_ok data m 14 cl (by omega) hm hm16
      hn2 tree depth htl hdl hz (hW 0 (by omega))
    have hcast : (2 * ((descNZ data m).length : Int) - 1) =
        ((2 * (descNZ data m).length - 1 : Nat) : Int) := by omega
    have hs' : setDepth (↑(2 * (descNZ data m).length - 1)) tree2 depth 14
        = .ok (done, depth') := hs
    simp only [fastLoop, h1, Out.bind_ok, h2, hcast, hs']
    cases done with
    | true => simp
    | false =>
      obtain ⟨hl, hz', hfr⟩ := hbad rfl
      simp only [Bool.false_eq_true, ↓reduceIte]
      cases r with
      | zero => exact absurd (hstop hfit) (by simp)
      | succ r =>
        exact ih (cl * 2 % 4294967296) tree2 depth' (by omega) (by omega) hz'
          (fun r hr => hW (r + 1) (by omega)) ⟨r, by omega, hfit⟩

/-- more fuel does not change a result -/
theorem createLoop_mono (data : List Nat) (m : Nat) (M : Int) :
    ∀ (f cl : Nat) (tree : List Node) (depth : List Nat) (r : List Node × List Nat),
    createLoop data m M f cl tree depth = .ok r →
    ∀ g, f ≤ g → createLoop data m M g cl tree depth = .ok r := by
  intro f
  induction f with
  | zero => intro _ _ _ _ h; simp [createLoop] at h
  | succ f ih =>
    intro cl tree depth r h g hg
    obtain ⟨g', rfl⟩ : ∃ g', g = g' + 1 := ⟨g - 1, by omega⟩
    simp only [createLoop] at h ⊢
    cases hc : collectLeaves data cl m tree 0 with
    | panic => rw [hc] at h; simp at h
    | fuel => rw [hc] at h; simp at h
    | ok p =>
      obtain ⟨tree1, n⟩ := p
      rw [hc] at h
      simp only [Out.bind_ok] at h ⊢
      by_cases hn1 : n = 1
      · simp only [hn1, ↓reduceIte] at h ⊢; exact h
      · by_cases hn0 : n = 0
        · simp only [hn0, ↓reduceIte] at h ⊢; exact h
        · simp only [hn1, hn0, ↓reduceIte] at h ⊢
          cases hb : buildNodes cmpSort tree1 n with
          | panic => rw [hb] at h; simp at h
          | fuel => rw [hb] at h; simp at h
          | ok tree2 =>
            rw [hb] at h
            simp only [Out.bind_ok] at h ⊢
            cases hs : setDepth (asI32 (2 * n - 1)) tree2 depth M with
            | panic => rw [hs] at h; simp at h
            | fuel => rw [hs] at h; simp at h
            | ok q =>
              obtain ⟨done, depth'⟩ := q
              rw [hs] at h
              simp only [Out.bind_ok] at h ⊢
              cases done with
              | true => simpa using h
              | false =>
                simp only [Bool.false_eq_true, ↓reduceIte] at h ⊢
                exact ih _ _ _ _ h g' (by omega)

theorem fastLoop_mono (data : List Nat) (m : Nat) :
    ∀ (f cl : Nat) (tree : List Node) (depth : List Nat) (r : List Nat),
    fastLoop data m f cl tree depth = .ok r →
    ∀ g, f ≤ g → fastLoop data m g cl tree depth = .ok r := by
  intro f
  induction f with
  | zero => intro _ _ _ _ h; simp [fastLoop] at h
  | succ f ih =>
    intro cl tree depth r h g hg
    obtain ⟨g', rfl⟩ : ∃ g', g = g' + 1 := ⟨g - 1, by omega⟩
    simp only [fastLoop] at h ⊢
    cases hc : collectLeaves data cl m tree 0 with
    | panic => rw [hc] at h; simp at h
    | fuel => rw [hc] at h; simp at h
    | ok p =>
      obtain ⟨tree1, n⟩ := p
      rw [hc] at h
      simp only [Out.bind_ok] at h ⊢
      cases hb : buildNodes cmpSimple tree1 n with
      | panic => rw [hb] at h; simp at h
      | fuel => rw [hb] at h; simp at h
      | ok tree2 =>
        rw [hb] at h
        simp only [Out.bind_ok] at h ⊢
        cases hs : setDepth (2 * (n : Int) - 1) tree2 depth 14 with
        | panic => rw [hs] at h; simp at h
        | fuel => rw [hs] at h; simp at h
        | ok q =>
          obtain ⟨done, depth'⟩ := q
          rw [hs] at h
          simp only [Out.bind_ok] at h ⊢
          cases done with
          | true => simpa using h
          | false =>
            simp only [Bool.false_eq_true, ↓reduceIte] at h ⊢
            exact ih _ _ _ _ h g' (by omega)


/-! ### `descNZ` / `roundWeight` in terms of the histogram itself -/

theorem descNZ_perm_filter (data : List Nat) (m : Nat) (hm : m ≤ data.length) :
    (descNZ data m).length = ((data.take m).filter (· ≠ 0)).length ∧
    ∀ cl, roundWeight data m cl = ((data.take m).map fun d => if d = 0 then 0 else max d cl).sum := by
  induction m with
  | zero => exact ⟨by simp [descNZ], fun cl => by simp [roundWeight, descNZ]⟩
  | succ m ih =>
    obtain ⟨ih1, ih2⟩ := ih (by omega)
    have hm' : m < data.length := by omega
    have ht : data.take (m + 1) = data.take m ++ [data.getD m 0] := by
      rw [List.take_add_one, List.getD_eq_getElem?_getD, List.getElem?_eq_getElem hm']; simp
    rw [ht]
    by_cases hd : data.getD m 0 = 0
    · refine ⟨?_, fun cl => ?_⟩
      · simp only [descNZ, hd, ↓reduceIte, List.filter_append, List.length_append, ih1]
        simp
      · have := ih2 cl
        simp only [roundWeight, descNZ, hd, ↓reduceIte] at this ⊢
        rw [this]; simp
    · refine ⟨?_, fun cl => ?_⟩
      · simp only [descNZ, hd, ↓reduceIte, List.filter_append, List.length_append, ih1,
          List.length_cons]
        generalize data.getD m 0 = x at hd
        have : List.filter (fun x => decide (x ≠ 0)) [x] = [x] := by
          simp [hd]
        rw [this]; rfl
      · have := ih2 cl
        simp only [roundWeight, descNZ, hd, ↓reduceIte, List.map_cons, List.sum_cons] at this ⊢
        rw [this]
        simp only [List.map_append, List.sum_append, List.map_cons, List.map_nil, List.sum_cons,
          List.sum_nil, hd, ↓reduceIte, wOf]
        omega

theorem clSeq_one (r : Nat) (hr : r ≤ 31) : clSeq 1 r = 2 ^ r := by
  have gen : ∀ r c, c * 2 ^ r < 4294967296 → clSeq c r = c * 2 ^ r := by
    intro r
    induction r with
    | zero => intro c _; simp [clSeq]
    | succ r ih =>
      intro c hc
      have e : c * 2 ^ (r + 1) = (c * 2) * 2 ^ r := by rw [Nat.pow_succ]; ac_rfl
      have hp : 1 ≤ 2 ^ r := Nat.pow_pos (by decide)
      have hc2 : c * 2 < 4294967296 := by
        have : c * 2 * 1 ≤ c * 2 * 2 ^ r := Nat.mul_le_mul_left _ hp
        omega
      simp only [clSeq]
      rw [Nat.mod_eq_of_lt hc2, ih (c * 2) (by omega), e]
  have := gen r 1 (by
    have : (2:Nat) ^ r ≤ 2 ^ 31 := Nat.pow_le_pow_right (by decide) hr
    have : (2:Nat) ^ 31 < 4294967296 := by decide
    omega)
  simpa using this


/-- histogram total of a round: `Σ_{count ≠ 0} max(count, count_limit)` -/
def roundTotal (data : List Nat) (cl : Nat) : Nat :=
  (data.map fun d => if d = 0 then 0 else max d cl).sum

theorem roundWeight_eq_total (data : List Nat) (cl : Nat) :
    roundWeight data data.length cl = roundTotal data cl := by
  have := (descNZ_perm_filter data data.length (Nat.le_refl _)).2 cl
  rw [List.take_length] at this
  exact this

theorem descNZ_length (data : List Nat) :
    (descNZ data data.length).length = (data.filter (· ≠ 0)).length := by
  have := (descNZ_perm_filter data data.length (Nat.le_refl _)).1
  rw [List.take_length] at this
  exact this

theorem zeroOff_replicate (data : List Nat) (m k : Nat) : ZeroOff data m (List.replicate k 0) :=
  fun v _ _ => replicate_getD k v

/-- `BrotliCreateHuffmanTree(data, data.len(), M, tree, zeroed depth)`: if the retry
loop stops within `f` rounds and none of these rounds overflows a `u32` node
count, the function returns depths that are complete (Kraft equality), exact
on the support and within the limit. -/
theorem create_good (data : List Nat) (M f : Nat) (hM : M ≤ 15) (hlen : data.length ≤ 16383)
    (hn2 : 2 ≤ (data.filter (· ≠ 0)).length) (tree : List Node)
    (htl : 2 * data.length + 1 ≤ tree.length) (hf : f ≤ 32)
    (hW : ∀ r, r < f → roundTotal data (2 ^ r) < 4294967295)
    (hstop : createLoop data data.length (M : Int) f 1 tree (List.replicate data.length 0) ≠ .fuel) :
    ∃ depth, createHuffmanTree data data.length (M : Int) tree (List.replicate data.length 0)
        = .ok depth ∧ depth.length = data.length ∧
      (∀ v, v < data.length → (depth.getD v 0 ≠ 0 ↔ data.getD v 0 ≠ 0)) ∧
      (∀ v, v < data.length → depth.getD v 0 ≤ M) ∧ kraftSum M depth = 2 ^ M := by
  have hspec := createLoop_spec data data.length M hM (Nat.le_refl _) (by omega)
    (by rw [descNZ_length]; exact hn2) f 1 tree (List.replicate data.length 0) htl (by simp)
    (zeroOff_replicate _ _ _)
    (by intro r hr; rw [clSeq_one r (by omega), roundWeight_eq_total]; exact hW r hr)
  rcases hspec with hfu | ⟨tree', depth', he, hg⟩
  · exact absurd hfu hstop
  · have hmono := createLoop_mono data data.length (M : Int) f 1 tree _ _ he createFuel
      (by unfold createFuel; omega)
    refine ⟨depth', ?_, by simpa using hg.hlen, hg.hsupp, hg.hlim, ?_⟩
    · unfold createHuffmanTree
      rw [hmono]; rfl
    · have := hg.hkraft
      have hl : depth'.length = data.length := by simpa using hg.hlen
      rw [← hl, List.take_length] at this
      exact this


theorem roundTotal_le (data : List Nat) (cl : Nat) :
    roundTotal data cl ≤ data.sum + data.length * cl := by
  unfold roundTotal
  induction data with
  | nil => simp
  | cons d ds ih =>
    simp only [List.map_cons, List.sum_cons, List.length_cons, Nat.add_mul, Nat.one_mul]
    split <;> omega

/-- `BrotliCreateHuffmanTree` terminates and is correct when some round `R` is
reached without `u32` overflow and is light enough for the limit:
`Σ counts + len · 2^R < min (2^32 − 1) (fib (M + 3) · 2^R)`. -/
theorem create_total (data : List Nat) (M R : Nat) (hM : M ≤ 15) (hlen : data.length ≤ 16383)
    (hn2 : 2 ≤ (data.filter (· ≠ 0)).length) (tree : List Node)
    (htl : 2 * data.length + 1 ≤ tree.length) (hR : R ≤ 31)
    (hW : data.sum + data.length * 2 ^ R < 4294967295)
    (hfit : data.sum + data.length * 2 ^ R < fib (M + 3) * 2 ^ R) :
    ∃ depth, createHuffmanTree data data.length (M : Int) tree (List.replicate data.length 0)
        = .ok depth ∧ depth.length = data.length ∧
      (∀ v, v < data.length → (depth.getD v 0 ≠ 0 ↔ data.getD v 0 ≠ 0)) ∧
      (∀ v, v < data.length → depth.getD v 0 ≤ M) ∧ kraftSum M depth = 2 ^ M := by
  have hWr : ∀ r, r < R + 1 → roundTotal data (2 ^ r) < 4294967295 := by
    intro r hr
    have h1 := roundTotal_le data (2 ^ r)
    have h2 : (2:Nat) ^ r ≤ 2 ^ R := Nat.pow_le_pow_right (by decide) (by omega)
    have h3 := Nat.mul_le_mul_left data.length h2
    omega
  apply create_good data M (R + 1) hM hlen hn2 tree htl (by omega) hWr
  apply createLoop_stops data data.length M hM (Nat.le_refl _) (by omega)
    (by rw [descNZ_length]; exact hn2) (R + 1) 1 tree _ htl (by simp) (zeroOff_replicate _ _ _)
  · intro r hr
    rw [clSeq_one r (by omega), roundWeight_eq_total]; exact hWr r hr
  · refine ⟨R, by omega, ?_⟩
    rw [clSeq_one R hR, roundWeight_eq_total]
    have := roundTotal_le data (2 ^ R)
    omega


/-- the tree construction of `BrotliBuildAndStoreHuffmanTreeFast` (limit 14) over
the first `m` histogram entries, freshly allocated scratch tree -/
theorem fast_total (data : List Nat) (m R : Nat) (hm : m ≤ data.length) (hm16 : m ≤ 16383)
    (hn2 : 2 ≤ ((data.take m).filter (· ≠ 0)).length) (depth : List Nat) (hdl : m ≤ depth.length)
    (hz : ZeroOff data m depth) (hR : R ≤ 31)
    (hW : (data.take m).sum + m * 2 ^ R < 4294967295)
    (hfit : (data.take m).sum + m * 2 ^ R < fib 17 * 2 ^ R) :
    ∃ depth', fastLoop data m createFuel 1 (List.replicate (2 * m + 1) default) depth = .ok depth' ∧
      GoodDepth data m 14 depth depth' := by
  have hnz : 2 ≤ (descNZ data m).length := by
    rw [(descNZ_perm_filter data m hm).1]; exact hn2
  have hrw : ∀ cl, roundWeight data m cl ≤ (data.take m).sum + m * cl := by
    intro cl
    rw [(descNZ_perm_filter data m hm).2 cl]
    have := roundTotal_le (data.take m) cl
    unfold roundTotal at this
    rw [List.length_take, Nat.min_eq_left hm] at this
    exact this
  have hWr : ∀ r, r < R + 1 → roundWeight data m (clSeq 1 r) < 4294967295 := by
    intro r hr
    rw [clSeq_one r (by omega)]
    have h1 := hrw (2 ^ r)
    have h2 : (2:Nat) ^ r ≤ 2 ^ R := Nat.pow_le_pow_right (by decide) (by omega)
    have h3 := Nat.mul_le_mul_left m h2
    omega
  have hspec := fastLoop_spec data m hm (by omega) hnz (R + 1) 1
    (List.replicate (2 * m + 1) default) depth (by simp) hdl hz hWr
  have hstop := fastLoop_stops data m hm (by omega) hnz (R + 1) 1
    (List.replicate (2 * m + 1) default) depth (by simp) hdl hz hWr
    ⟨R, by omega, by
      rw [clSeq_one R hR]
      have := hrw (2 ^ R)
      have e : fib (14 + 3) = fib 17 := rfl
      rw [e]; omega⟩
  rcases hspec with hfu | ⟨depth', he, hg⟩
  · exact absurd hfu hstop
  · exact ⟨depth', fastLoop_mono data m _ 1 _ depth depth' he createFuel
      (by unfold createFuel; omega), hg⟩


/-- `BrotliSetDepth` on a pool that lays out a full binary tree with distinct
leaf symbols: it succeeds iff the tree is not higher than `max_depth`, and then
the depths it writes into a zeroed array satisfy Kraft equality -/
theorem setDepth_kraft (pool : List Node) (M : Nat) (hM : M ≤ 15) (t : T) (p len : Nat)
    (ht : IsTree pool p t) (hnd : t.leaves.Nodup) (hlv : ∀ v ∈ t.leaves, v < len)
    (h2 : 2 ≤ t.leaves.length) (hsz : t.size ≤ setDepthFuel) :
    (t.height ≤ M → ∃ depth, setDepth (p : Int) pool (List.replicate len 0) (M : Int)
        = .ok (true, depth) ∧ kraftSum M depth = 2 ^ M ∧ ∀ x ∈ depth, x ≤ M) ∧
    (M < t.height → ∃ depth, setDepth (p : Int) pool (List.replicate len 0) (M : Int)
        = .ok (false, depth)) := by
  have hsd := setDepth_spec pool M hM t p (List.replicate len 0) ht (by simpa using hlv) hsz
  constructor
  · intro hfit
    refine ⟨_, hsd.1 hfit, ?_, ?_⟩
    · rw [kraft_assign M t 0 _ hnd (fun v hv => ⟨by simpa using hlv v hv, replicate_getD len v⟩)
        (Or.inl h2), kraftT_eq M t 0 (by omega)]
      have : kraftSum M (List.replicate len 0) = 0 := by
        unfold kraftSum
        induction len with
        | zero => rfl
        | succ m ih => simp [List.replicate_succ]
      rw [this]; simp
    · intro x hx
      obtain ⟨v, hv, hxv⟩ := List.getElem_of_mem hx
      rw [assign_length] at hv
      by_cases hvl : v ∈ t.leaves
      · obtain ⟨y, h1, _, h3⟩ := assign_leaf_pos t h2 (List.replicate len 0) v hvl
          (by simpa using hlv)
        rw [List.getElem?_eq_getElem (by rw [assign_length]; exact hv)] at h1
        injection h1 with h1
        omega
      · have := assign_other t 0 (List.replicate len 0) v hvl
        rw [List.getElem?_eq_getElem (by rw [assign_length]; exact hv),
          List.getElem?_eq_getElem hv] at this
        injection this with this
        rw [← hxv, this]; simp
  · intro hno
    obtain ⟨d', h1, _, _⟩ := hsd.2 hno
    exact ⟨d', h1⟩

end BV.Lemmas.HuffmanCreate
