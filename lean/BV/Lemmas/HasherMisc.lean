import BV.Lemmas.HasherBasic
import BV.Lemmas.HasherAdv
/-! Partitions, clone, invariants and the concrete instances of the hash hypotheses. -/
namespace BV.Hasher

/-! ### consecutive pieces -/

/-- index `[s, c₁)`, `[c₁, c₂)`, … one after the other; a piece `(true, c)` goes through the bulk
entry point, `(false, c)` through the range entry point -/
def runPieces {σ : Type} (range bulk : Nat → Nat → σ → Option σ) :
    Nat → List (Bool × Nat) → σ → Option σ
  | _, [], st => some st
  | s, (b, c) :: rest, st =>
    match (if b then bulk s c st else range s c st) with
    | none => none
    | some st' => runPieces range bulk c rest st'

/-- the cut points are non-decreasing from `s` on -/
def Sorted : Nat → List (Bool × Nat) → Prop
  | _, [] => True
  | s, (_, c) :: rest => s ≤ c ∧ Sorted c rest

/-- the end of the last piece -/
def endOf : Nat → List (Bool × Nat) → Nat
  | s, [] => s
  | _, (_, c) :: rest => endOf c rest

theorem le_endOf : ∀ (ps : List (Bool × Nat)) (s : Nat), Sorted s ps → s ≤ endOf s ps
  | [], _, _ => Nat.le_refl _
  | (_, c) :: rest, s, h => Nat.le_trans h.1 (le_endOf rest c h.2)

/-- generic form of `partition_irrelevant`: if both entry points equal the fold of the
per-position step on every state satisfying an invariant the step preserves, then any split into
consecutive pieces, through any mix of the entry points, equals the fold over the whole range -/
theorem runPieces_eq_fold {σ : Type} {f : Nat → σ → Option σ} {range bulk : Nat → Nat → σ → Option σ}
    {I : σ → Prop} {bound : Nat}
    (hI : ∀ i x y, I x → f i x = some y → I y)
    (hr : ∀ s e st, I st → e ≤ bound → range s e st = forRange f s (e - s) st)
    (hb : ∀ s e st, I st → e ≤ bound → bulk s e st = forRange f s (e - s) st) :
    ∀ (ps : List (Bool × Nat)) (s : Nat) (st : σ), I st → Sorted s ps → endOf s ps ≤ bound →
      runPieces range bulk s ps st = forRange f s (endOf s ps - s) st
  | [], s, st, _, _, _ => by simp [runPieces, endOf, forRange_zero]
  | (b, c) :: rest, s, st, hst, hs, he => by
    have hce := le_endOf rest c hs.2
    have hcb : c ≤ bound := Nat.le_trans hce he
    have hstep : (if b then bulk s c st else range s c st) = forRange f s (c - s) st := by
      cases b
      · simpa using hr s c st hst hcb
      · simpa using hb s c st hst hcb
    simp only [runPieces, endOf, hstep]
    have hsplit : endOf c rest - s = (c - s) + (endOf c rest - c) := by have := hs.1; omega
    rw [hsplit, forRange_add, show s + (c - s) = c by have := hs.1; omega]
    cases h1 : forRange f s (c - s) st with
    | none => rfl
    | some st' =>
      simp only [Option.bind_some]
      exact runPieces_eq_fold hI hr hb rest c st' (forRange_inv hI _ _ _ _ hst h1) hs.2 he

/-! ### the size invariant of `AdvHasher` -/

theorem wr_size {a a' : Tab} {i v : Nat} (h : wr a i v = some a') : a'.size = a.size := by
  unfold wr at h
  split at h
  · injection h with h; rw [← h]; simp
  · cases h

theorem Adv.store_sizes {P : AdvP} {data : ByteArray} {mask ix : Nat} {st st' : AdvSt}
    (h : Adv.store P data mask ix st = some st') :
    st'.num.size = st.num.size ∧ st'.buckets.size = st.buckets.size := by
  obtain ⟨num, buckets⟩ := st
  simp only [Adv.store] at h
  split at h
  · cases h
  · split at h
    · cases h
    · split at h
      · cases h
      · rename_i hb
        split at h
        · cases h
        · rename_i hn
          injection h with h
          subst h
          exact ⟨wr_size hn, wr_size hb⟩

theorem Adv.store_sizesAsserted {P : AdvP} {data : ByteArray} {mask ix : Nat} {st st' : AdvSt}
    (hs : Adv.sizesAsserted P st = true) (h : Adv.store P data mask ix st = some st') :
    Adv.sizesAsserted P st' = true := by
  obtain ⟨h1, h2⟩ := Adv.store_sizes h
  simp only [Adv.sizesAsserted, h1, h2] at *
  exact hs

/-- freshly allocated tables (`InitializeH5/H6`) satisfy the two `assert_eq!` -/
theorem Adv.init_sizesAsserted (P : AdvP) :
    Adv.sizesAsserted P ⟨Array.replicate P.bucketSize 0,
      Array.replicate (P.bucketSize * (1 <<< P.blockBits)) 0⟩ = true := by
  simp [Adv.sizesAsserted]

/-! ### clone -/

theorem cloneTab_eq (src : Tab) : cloneTab src = some src := by
  unfold cloneTab
  simp only [Array.size_replicate, if_true]
  congr 1
  apply Array.ext
  · simp
  · intro i h1 h2
    simp [Array.getD, h2]

theorem Adv.clone_eq' (st : AdvSt) : Adv.clone st = some st := by
  simp [Adv.clone, cloneTab_eq]

/-! ### H10: short ranges are not thinned -/

theorem H10.storeRange_short {σ : Type} (store : Nat → σ → Option σ) (s e : Nat) (st : σ)
    (h : e < s + 63) : H10.storeRange store s e st = forRange store s (e - s) st := by
  unfold H10.storeRange
  have h1 : ¬ (s + 63 ≤ e) := by omega
  simp only [h1, if_false]
  have h2 : ¬ (s + 512 ≤ s) := by omega
  simp only [h2, if_false]

/-! ### the hash hypotheses hold for the concrete kinds -/

theorem shr_lt_of_lt {x a b : Nat} (hx : x < 2 ^ a) (hb : b ≤ a) : x >>> (a - b) < 2 ^ b := by
  rw [Nat.shiftRight_eq_div_pow, Nat.div_lt_iff_lt_mul (Nat.pow_pos (by decide)), ← Nat.pow_add]
  rw [show b + (a - b) = a by omega]; exact hx

theorem basicP_ok (bucketBits sweep hashLen : Nat) (hb : bucketBits ≤ 31) (hs : sweep ≤ 2 ^ 31) :
    (basicP bucketBits sweep hashLen).Ok := by
  constructor
  intro w
  simp only [basicP, basicHash]
  have h1 : (le w <<< (64 - 8 * hashLen)) % U64 * kHashMul64 % U64 < 2 ^ 64 :=
    Nat.mod_lt _ (by decide)
  have h2 := shr_lt_of_lt h1 (show bucketBits ≤ 64 by omega)
  have h3 : 2 ^ bucketBits ≤ 2 ^ 31 := Nat.pow_le_pow_right (by decide) hb
  have h4 : (2:Nat) ^ 31 + 2 ^ 31 = U32 := by decide
  omega

theorem H2_ok : H2.Ok := basicP_ok 16 1 5 (by decide) (by decide)
theorem H3_ok : H3.Ok := basicP_ok 16 2 5 (by decide) (by decide)
theorem H4_ok : H4.Ok := basicP_ok 17 4 5 (by decide) (by decide)
theorem H54_ok : H54.Ok := basicP_ok 20 4 7 (by decide) (by decide)

theorem le_lt_of_bytes : ∀ (w : List Nat), (∀ b ∈ w, b < 256) → le w < 256 ^ w.length
  | [], _ => by simp [le]
  | b :: rest, h => by
    have h1 := le_lt_of_bytes rest (fun x hx => h x (List.mem_cons_of_mem _ hx))
    have h2 := h b List.mem_cons_self
    simp only [le, List.length_cons, Nat.pow_succ]
    omega

theorem shl_lt {x a b : Nat} (hx : x < 2 ^ a) : x <<< b < 2 ^ (a + b) := by
  rw [Nat.shiftLeft_eq, Nat.pow_add]
  exact Nat.mul_lt_mul_of_lt_of_le hx (Nat.le_refl _) (Nat.pow_pos (by decide))

/-- `H5Sub`/`HQ5Sub`/`HQ7Sub` (bucket_bits + block_bits ≤ 32, as for every configuration
`ChooseHasher` produces: at most 15 + 9) -/
theorem adv32P_ok (bucketBits blockBits : Nat) (h : bucketBits + blockBits ≤ 32) :
    (adv32P bucketBits blockBits).Ok := by
  have hm : (0xffffffff : Nat) = 2 ^ 32 - 1 := by decide
  have key : ∀ x : Nat, ((x &&& 0xffffffff) >>> (32 - bucketBits)) < 2 ^ bucketBits := by
    intro x
    apply shr_lt_of_lt _ (by omega)
    rw [hm, Nat.and_two_pow_sub_one_eq_mod]; exact Nat.mod_lt _ (by decide)
  have hU : 2 ^ (bucketBits + blockBits) ≤ U32 :=
    Nat.le_trans (Nat.pow_le_pow_right (by decide) h) (by decide)
  have hB : 2 ^ bucketBits ≤ U32 :=
    Nat.le_trans (Nat.pow_le_pow_right (by decide) (show bucketBits ≤ 32 by omega)) (by decide)
  constructor
  · intro w
    simp only [adv32P]
    have := key (le w * kHashMul32)
    rw [Nat.mod_eq_of_lt (by omega)]
    exact Nat.lt_of_lt_of_le (shl_lt this) hU
  · intro _ w hl hb
    simp only [adv32P, Adv.mixInline]
    have := key (le w * kHashMul32)
    rw [Nat.mod_eq_of_lt (by omega)]
    have hle : le w < 2 ^ 32 := by
      have := le_lt_of_bytes w hb
      rw [hl] at this
      exact this
    rw [hm, Nat.and_two_pow_sub_one_eq_mod (le w), Nat.mod_eq_of_lt hle]

/-- `H6Sub` (look-ahead 8: the batched paths are never entered, `coh` is vacuous) -/
theorem adv64P_ok (bucketBits blockBits hashLen : Nat) (h : bucketBits + blockBits ≤ 32) :
    (adv64P bucketBits blockBits hashLen).Ok := by
  have hU : 2 ^ (bucketBits + blockBits) ≤ U32 :=
    Nat.le_trans (Nat.pow_le_pow_right (by decide) h) (by decide)
  have hB : 2 ^ bucketBits ≤ U32 :=
    Nat.le_trans (Nat.pow_le_pow_right (by decide) (show bucketBits ≤ 32 by omega)) (by decide)
  constructor
  · intro w
    simp only [adv64P]
    have h1 : (le w &&& ((1 <<< (8 * hashLen)) - 1)) * kHashMul64Long % U64 < 2 ^ 64 :=
      Nat.mod_lt _ (by decide)
    have := shr_lt_of_lt h1 (show bucketBits ≤ 64 by omega)
    rw [Nat.mod_eq_of_lt (by omega)]
    exact Nat.lt_of_lt_of_le (shl_lt this) hU
  · intro h8; simp [adv64P] at h8

end BV.Hasher
