import BV.Lemmas.MatchLen
/-! Soundness of `FindLongestMatch`: loop invariants, independent of the table contents. -/
namespace BV.MatchFinder
open BV.Hasher

theorem wsub_lt (a b : Nat) : wsub a b < U64 := Nat.mod_lt _ (by decide)

theorem wsub_eq {a b : Nat} (ha : a < U64) (hb : b < U64) :
    wsub a b = if b ≤ a then a - b else a + U64 - b := by
  unfold wsub
  rw [Nat.mod_eq_of_lt hb]
  split
  · rw [show a + U64 - b = (a - b) + U64 by omega, Nat.add_mod_right, Nat.mod_eq_of_lt (by omega)]
  · exact Nat.mod_eq_of_lt (by omega)

/-- `cur - (cur - b) = b` in wrapping arithmetic -/
theorem wsub_wsub {a b : Nat} (ha : a < U64) (hb : b < U64) : wsub a (wsub a b) = b := by
  have hx := wsub_eq ha hb
  have hlt := wsub_lt a b
  rw [wsub_eq ha hlt, hx]
  split <;> split <;> omega

theorem wsub_pos_of_lt {a b : Nat} (ha : a < U64) (h : wsub a b < a) : 0 < b := by
  rcases Nat.eq_zero_or_pos b with h0 | h0
  · subst h0
    unfold wsub at h
    have hU : U64 = 18446744073709551616 := rfl
    simp only [Nat.zero_mod, Nat.sub_zero, Nat.add_mod_right] at h
    rw [Nat.mod_eq_of_lt ha] at h
    omega
  · exact h0

/-- the search result denotes a copy: a positive distance inside the window, a length within the
limit, and `len` bytes at the (masked) earlier position that equal the bytes at the current one.
`m` is the mask the code applies to the earlier position (`mask` or `mask as u32`). -/
def CopyOK (data : ByteArray) (m cm curIx maxLength maxBackward : Nat) (o : SR) : Prop :=
  0 < o.distance ∧ o.distance ≤ maxBackward ∧ o.len ≤ maxLength ∧ o.lenXCode = 0 ∧
  (4 ≤ maxLength → 2 ≤ o.len) ∧
  ∃ prev, o.distance = wsub curIx prev ∧ Agree data (prev &&& m) cm o.len

/-! ### static dictionary -/

/-- the search result denotes the static-dictionary reference the oracle's slot `d` describes:
word length `len = item & 31`, word index `dist = item >> 5`, the first `o.len` bytes of the word
equal the bytes at the current position, `cut = len - o.len < 10` bytes are omitted
(transform `(cut << 2) + cutoff table`), distance = `maxBackward + dist + 1 + (transform << size_bits)` -/
def DictOK (items : List DictItem) (data : ByteArray) (cm maxLength maxBackward maxDistance : Nat)
    (o : SR) : Prop :=
  ∃ d ∈ items,
    let len := d.item &&& 0x1f
    let cut := len - o.len
    0 < o.len ∧ o.len ≤ len ∧ len ≤ maxLength ∧ len < 25 ∧ cut < 10 ∧ o.lenXCode = len ^^^ o.len ∧
    o.distance = (maxBackward + (d.item >>> 5) + 1 +
      (((cut <<< 2) + ((kCutoffTransforms >>> (cut * 6)) &&& 0x3f)) <<< d.sizeBits)) % U64 ∧
    o.distance ≤ maxDistance ∧
    cm + len ≤ data.size ∧
    ∀ k, k < o.len → (data.get! (cm + k)).toNat = d.word.getD k 0

theorem firstDiffW_spec (w word : List Nat) : ∀ n,
    (firstDiffW w word n = none → ∀ k, k < n → w.getD k 0 = word.getD k 0) ∧
    (∀ i, firstDiffW w word n = some i → i < n ∧ ∀ k, k < i → w.getD k 0 = word.getD k 0) := by
  intro n
  induction n with
  | zero => exact ⟨fun _ k hk => absurd hk (Nat.not_lt_zero _), fun i h => (by simp [firstDiffW] at h)⟩
  | succ n ih =>
    obtain ⟨ih1, ih2⟩ := ih
    simp only [firstDiffW]
    cases hfd : firstDiffW w word n with
    | some j =>
      simp only []
      refine ⟨fun h => (by cases h), fun i h => ?_⟩
      injection h with h; subst h
      obtain ⟨a, b⟩ := ih2 j hfd
      exact ⟨by omega, b⟩
    | none =>
      simp only []
      have hall := ih1 hfd
      by_cases hne : w.getD n 0 ≠ word.getD n 0
      · rw [if_pos hne]
        refine ⟨fun h => (by cases h), fun i h => ?_⟩
        injection h with h; subst h
        exact ⟨by omega, hall⟩
      · rw [if_neg hne]
        refine ⟨fun _ k hk => ?_, fun i h => (by cases h)⟩
        by_cases hkn : k = n
        · subst hkn; exact Decidable.of_not_not hne
        · exact hall k (by omega)

theorem dictMatchLen_spec {data : ByteArray} {cm len r : Nat} {word : List Nat}
    (h : dictMatchLen data cm word len = some r) :
    r ≤ len ∧ cm + len ≤ data.size ∧ ∀ k, k < r → (data.get! (cm + k)).toNat = word.getD k 0 := by
  unfold dictMatchLen at h
  cases hw : win data cm len with
  | none => simp [hw] at h
  | some w =>
    simp only [hw] at h
    split at h
    · cases h
    · injection h with h
      have hsz := (win_eq_some hw).1
      cases hf : firstDiffW w word len with
      | none =>
        rw [hf] at h
        simp only [Option.getD_none] at h
        subst h
        exact ⟨Nat.le_refl _, hsz, fun k hk => by
          rw [← win_getD hw k hk]; exact (firstDiffW_spec w word len).1 hf k hk⟩
      | some i =>
        rw [hf] at h
        simp only [Option.getD_some] at h
        subst h
        obtain ⟨hi, hall⟩ := (firstDiffW_spec w word len).2 i hf
        exact ⟨by omega, hsz, fun k hk => by
          rw [← win_getD hw k (by omega)]; exact hall k hk⟩

theorem testItem_sound {lbs : Nat} {d : DictItem} {data : ByteArray} {cm maxLength maxBackward
    maxDistance : Nat} {out o : SR}
    (h : testStaticDictionaryItem lbs d data cm maxLength maxBackward maxDistance out = some (some o)) :
    DictOK [d] data cm maxLength maxBackward maxDistance o := by
  unfold testStaticDictionaryItem at h
  simp only [] at h
  split at h
  · cases h
  · rename_i h25
    split at h
    · cases h
    · rename_i hml
      cases hm : dictMatchLen data cm d.word (d.item &&& 0x1f) with
      | none => simp [hm] at h
      | some matchlen =>
        simp only [hm] at h
        obtain ⟨hle, hsz, hall⟩ := dictMatchLen_spec hm
        split at h
        · cases h
        · rename_i hcut
          split at h
          · cases h
          · rename_i hdist
            split at h
            · cases h
            · simp only [Option.some.injEq] at h
              subst h
              refine ⟨d, List.mem_singleton.mpr rfl, ?_⟩
              simp only [kCutoffTransformsCount] at hcut
              dsimp only
              exact ⟨by omega, hle, by omega, by omega, by omega, rfl, rfl, by omega, hsz, hall⟩

theorem DictOK.mono {items items' : List DictItem} {data : ByteArray} {cm a b c : Nat} {o : SR}
    (h : DictOK items data cm a b c o) (hsub : ∀ d ∈ items, d ∈ items') :
    DictOK items' data cm a b c o := by
  obtain ⟨d, hd, rest⟩ := h
  exact ⟨d, hsub d hd, rest⟩

/-- the loop never resets `is_match_found` -/
theorem dictLoop_true (lbs : Nat) (data : ByteArray) (cm maxLength maxBackward maxDistance : Nat) :
    ∀ (ds : List DictItem) (out : SR) (c : Common) (f' : Bool) (o' : SR) (c' : Common),
    dictLoop lbs data cm maxLength maxBackward maxDistance ds true out c = some (f', o', c') → f' = true := by
  intro ds
  induction ds with
  | nil =>
    intro out c f' o' c' h
    simp only [dictLoop, Option.some.injEq, Prod.mk.injEq] at h
    exact h.1.symm
  | cons d ds ih =>
    intro out c f' o' c' h
    simp only [dictLoop] at h
    split at h
    · cases ht : testStaticDictionaryItem lbs d data cm maxLength maxBackward maxDistance out with
      | none => simp [ht] at h
      | some r =>
        cases r with
        | none => simp only [ht] at h; exact ih _ _ _ _ _ h
        | some o2 => simp only [ht] at h; exact ih _ _ _ _ _ h
    · exact ih _ _ _ _ _ h

theorem dictLoop_sound (lbs : Nat) (items : List DictItem) (data : ByteArray) (cm maxLength
    maxBackward maxDistance : Nat) : ∀ (ds : List DictItem), (∀ d ∈ ds, d ∈ items) →
    ∀ (found : Bool) (out : SR) (c : Common) (f' : Bool) (o' : SR) (c' : Common),
    dictLoop lbs data cm maxLength maxBackward maxDistance ds found out c = some (f', o', c') →
    (found = true → DictOK items data cm maxLength maxBackward maxDistance out) →
    (f' = true → DictOK items data cm maxLength maxBackward maxDistance o') ∧
    (f' = false → o' = out) := by
  intro ds
  induction ds with
  | nil =>
    intro _ found out c f' o' c' h hin
    simp only [dictLoop, Option.some.injEq, Prod.mk.injEq] at h
    obtain ⟨rfl, rfl, rfl⟩ := h
    exact ⟨hin, fun _ => rfl⟩
  | cons d ds ih =>
    intro hsub found out c f' o' c' h hin
    have hsub' : ∀ x ∈ ds, x ∈ items := fun x hx => hsub x (List.mem_cons_of_mem _ hx)
    simp only [dictLoop] at h
    split at h
    · cases ht : testStaticDictionaryItem lbs d data cm maxLength maxBackward maxDistance out with
      | none => simp [ht] at h
      | some r =>
        cases r with
        | none =>
          simp only [ht] at h
          exact ih hsub' found out _ f' o' c' h hin
        | some o2 =>
          simp only [ht] at h
          have hd : DictOK items data cm maxLength maxBackward maxDistance o2 :=
            (testItem_sound ht).mono (fun x hx => by
              rw [List.mem_singleton.mp hx]; exact hsub d List.mem_cons_self)
          obtain ⟨a, b⟩ := ih hsub' true o2 _ f' o' c' h (fun _ => hd)
          refine ⟨a, fun hf => ?_⟩
          -- once a slot matched the loop reports `true`
          exfalso
          have : f' = true := dictLoop_true lbs data cm maxLength maxBackward maxDistance ds o2 _ f' o' c' h
          rw [this] at hf; cases hf
    · exact ih hsub' found out _ f' o' c' h hin

theorem search_sound {lbs : Nat} {items : List DictItem} {data : ByteArray} {cm maxLength maxBackward
    maxDistance : Nat} {out : SR} {c : Common} {f' : Bool} {o' : SR} {c' : Common}
    (h : searchInStaticDictionary lbs items data cm maxLength maxBackward maxDistance out c = some (f', o', c')) :
    (f' = true → DictOK items data cm maxLength maxBackward maxDistance o') ∧ (f' = false → o' = out) := by
  unfold searchInStaticDictionary at h
  split at h
  · simp only [Option.some.injEq, Prod.mk.injEq] at h
    obtain ⟨rfl, rfl, rfl⟩ := h
    exact ⟨fun hh => (by cases hh), fun _ => rfl⟩
  · split at h
    · cases h
    · exact dictLoop_sound lbs items data cm maxLength maxBackward maxDistance items (fun d hd => hd)
        false out c f' o' c' h (fun hh => (by cases hh))


end BV.MatchFinder
