/-
Lemmas for C17 part 7: the header of a complex prefix code description
(`BrotliStoreHuffmanTreeOfHuffmanTreeToBitMask`: HSKIP and the code length code
lengths in their fixed variable-length code) is read back by the RFC 7932 §3.5
reader.
-/
import BV.Lemmas.HuffmanStoreRead

namespace BV.Lemmas.HuffmanHeader
open BV.Gen BV.Bits BV.Huffman BV.Lemmas.HuffmanCanon BV.Lemmas.HuffmanRead
open BV.Lemmas.HuffmanStoreRead

/-- bits of one code length code length `v ≤ 5` as the encoder writes them -/
def vlcBits (v : Nat) : List Bool :=
  bitsOf (kHuffmanBitLengthHuffmanCodeBitLengths.getD v 0)
    (kHuffmanBitLengthHuffmanCodeSymbols.getD v 0)

theorem readClVlc_spec (v : Nat) (hv : v ≤ 5) (rest : List Bool) :
    readClVlc (vlcBits v ++ rest) = some (v, rest) := by
  have hv' : v = 0 ∨ v = 1 ∨ v = 2 ∨ v = 3 ∨ v = 4 ∨ v = 5 := by omega
  rcases hv' with rfl | rfl | rfl | rfl | rfl | rfl <;>
  · rcases rest with _ | ⟨a, _ | ⟨b, tl⟩⟩ <;>
    first
    | (cases a <;> cases b <;> simp [readClVlc, rfcClVlc, vlcBits, takeBits, bitsOf, valOf,
        kHuffmanBitLengthHuffmanCodeBitLengths, kHuffmanBitLengthHuffmanCodeSymbols])
    | (cases a <;> simp [readClVlc, rfcClVlc, vlcBits, takeBits, bitsOf, valOf,
        kHuffmanBitLengthHuffmanCodeBitLengths, kHuffmanBitLengthHuffmanCodeSymbols])
    | simp [readClVlc, rfcClVlc, vlcBits, takeBits, bitsOf, valOf,
        kHuffmanBitLengthHuffmanCodeBitLengths, kHuffmanBitLengthHuffmanCodeSymbols]

theorem le_sum_of_mem (l : List Nat) (x : Nat) (h : x ∈ l) : x ≤ l.sum := by
  induction l with
  | nil => simp at h
  | cons y ys ih =>
    simp only [List.sum_cons]
    rcases List.mem_cons.mp h with rfl | h'
    · omega
    · have := ih h'; omega

/-- code space taken by a code length code length -/
def g (v : Nat) : Nat := if v = 0 then 0 else 32 / 2 ^ v

theorem g_pos (v : Nat) (h0 : v ≠ 0) (h5 : v ≤ 5) : 1 ≤ g v := by
  have : v = 1 ∨ v = 2 ∨ v = 3 ∨ v = 4 ∨ v = 5 := by omega
  rcases this with rfl | rfl | rfl | rfl | rfl <;> decide

/-- the lengths of the positions `os`, written one after the other -/
def bitsFor (cl : List Nat) (os : List Nat) : List Bool :=
  (os.map fun o => vlcBits (cl.getD o 0)).flatten

/-- `acc` with the positions `os` set to their values in `cl` -/
def fill (cl : List Nat) (acc : List Nat) (os : List Nat) : List Nat :=
  os.foldl (fun a o => a.set o (cl.getD o 0)) acc

/-- sum of the code space of the positions `os` -/
def gsum (cl : List Nat) (os : List Nat) : Nat := (os.map fun o => g (cl.getD o 0)).sum

/-- The reader on the lengths of the first `k` positions of `os`: either these use
up the code space exactly with the `k`-th being non-zero (the reader stops
there), or they are all of `os` and do not use it up (the reader runs out of
positions). -/
theorem readClLens_spec (cl : List Nat) (h5 : ∀ x ∈ cl, x ≤ 5) :
    ∀ (os : List Nat) (k space : Nat) (acc : List Nat) (rest : List Bool),
    k ≤ os.length → (∀ o ∈ os, o < cl.length) →
    ((1 ≤ k ∧ gsum cl (os.take k) = space ∧ cl.getD (os.getD (k - 1) 0) 0 ≠ 0) ∨
      (k = os.length ∧ gsum cl os < space)) →
    readClLens os space acc (bitsFor cl (os.take k) ++ rest)
      = some (fill cl acc (os.take k), rest) := by
  intro os
  induction os with
  | nil =>
    intro k space acc rest hk _ hmode
    have : k = 0 := by simpa using hk
    subst this
    rcases hmode with ⟨h1, _⟩ | _
    · omega
    · simp [readClLens, bitsFor, fill]
  | cons o os ih =>
    intro k space acc rest hk hlt hmode
    have hk1 : 1 ≤ k := by
      rcases hmode with ⟨h1, _⟩ | ⟨h1, _⟩
      · exact h1
      · rw [h1]; simp
    obtain ⟨k', rfl⟩ : ∃ k', k = k' + 1 := ⟨k - 1, by omega⟩
    have hk' : k' ≤ os.length := by simpa using hk
    have hol : o < cl.length := hlt o (by simp)
    have hv5 : cl.getD o 0 ≤ 5 := by
      apply h5
      rw [List.getD_eq_getElem?_getD, List.getElem?_eq_getElem hol]; simp
    -- the two modes, with the head position split off
    have hmode' : (gsum cl (os.take k') + g (cl.getD o 0) = space ∧
          (k' = 0 → cl.getD o 0 ≠ 0) ∧ (1 ≤ k' → cl.getD (os.getD (k' - 1) 0) 0 ≠ 0)) ∨
        (k' = os.length ∧ gsum cl os + g (cl.getD o 0) < space) := by
      rcases hmode with ⟨_, hs, hnz⟩ | ⟨hkl, hs⟩
      · left
        simp only [List.take_succ_cons, gsum, List.map_cons, List.sum_cons] at hs
        refine ⟨by unfold gsum; omega, ?_, ?_⟩
        · intro h0; subst h0; simpa using hnz
        · intro h1
          have e : k' + 1 - 1 = (k' - 1) + 1 := by omega
          rw [e, List.getD_cons_succ] at hnz
          exact hnz
      · right
        simp only [gsum, List.map_cons, List.sum_cons] at hs
        exact ⟨by simpa using hkl, by unfold gsum; omega⟩
    have hbits : bitsFor cl (List.take (k' + 1) (o :: os)) ++ rest
        = vlcBits (cl.getD o 0) ++ (bitsFor cl (os.take k') ++ rest) := by
      simp [bitsFor, List.take_succ_cons]
    have hfill : fill cl acc (List.take (k' + 1) (o :: os))
        = fill cl (acc.set o (cl.getD o 0)) (os.take k') := by
      simp [fill, List.take_succ_cons]
    rw [hbits, hfill]
    have hrec : ∀ space', ((1 ≤ k' ∧ gsum cl (os.take k') = space' ∧
          cl.getD (os.getD (k' - 1) 0) 0 ≠ 0) ∨ (k' = os.length ∧ gsum cl os < space')) →
        readClLens os space' (acc.set o (cl.getD o 0)) (bitsFor cl (os.take k') ++ rest)
          = some (fill cl (acc.set o (cl.getD o 0)) (os.take k'), rest) := fun space' hm =>
      ih k' space' (acc.set o (cl.getD o 0)) rest hk'
        (fun x hx => hlt x (List.mem_cons_of_mem _ hx)) hm
    generalize cl.getD o 0 = v at hv5 hmode' hrec ⊢
    simp only [readClLens]
    rw [readClVlc_spec v hv5]
    simp only
    by_cases hv0 : v = 0
    · subst hv0
      simp only [ne_eq, not_true_eq_false, ↓reduceIte]
      apply hrec
      rcases hmode' with ⟨hs, hz, hnz⟩ | ⟨hkl, hs⟩
      · left
        have hk'1 : 1 ≤ k' := by
          by_cases h : k' = 0
          · exact absurd rfl (hz h)
          · omega
        exact ⟨hk'1, by simpa [g] using hs, hnz hk'1⟩
      · right
        exact ⟨hkl, by simpa [g] using hs⟩
    · simp only [ne_eq, hv0, not_false_eq_true, ↓reduceIte]
      have hgv : g v = 32 / 2 ^ v := by simp [g, hv0]
      rcases hmode' with ⟨hs, hz, hnz⟩ | ⟨hkl, hs⟩
      · rw [hgv] at hs
        by_cases hk0 : k' = 0
        · subst hk0
          simp only [List.take_zero, gsum, List.map_nil, List.sum_nil, Nat.zero_add] at hs
          simp [hs, bitsFor, fill]
        · -- a later non-zero length keeps the reader going
          have hk'1 : 1 ≤ k' := by omega
          have hnz' := hnz hk'1
          have hlt' : k' - 1 < (os.take k').length := by
            rw [List.length_take]; omega
          have hget : os.getD (k' - 1) 0 = (os.take k')[k' - 1] := by
            rw [List.getElem_take, List.getD_eq_getElem?_getD,
              List.getElem?_eq_getElem (by rw [List.length_take] at hlt'; omega)]
            rfl
          have hmem : g (cl.getD (os.getD (k' - 1) 0) 0)
              ∈ (os.take k').map fun o => g (cl.getD o 0) := by
            apply List.mem_map.mpr
            exact ⟨os.getD (k' - 1) 0, by rw [hget]; exact List.getElem_mem hlt', rfl⟩
          have hin : os.getD (k' - 1) 0 < cl.length := by
            apply hlt
            apply List.mem_cons_of_mem
            rw [hget]
            exact List.mem_of_mem_take (List.getElem_mem hlt')
          have hpos := g_pos _ hnz' (by
            apply h5
            rw [List.getD_eq_getElem?_getD, List.getElem?_eq_getElem hin]; simp)
          have hle := le_sum_of_mem _ _ hmem
          have hns : ¬ space ≤ 32 / 2 ^ v := by unfold gsum at hs; omega
          simp only [hns, ↓reduceIte]
          apply hrec
          left
          exact ⟨hk'1, by omega, hnz'⟩
      · rw [hgv] at hs
        have hns : ¬ space ≤ 32 / 2 ^ v := by omega
        simp only [hns, ↓reduceIte]
        apply hrec
        right
        exact ⟨hkl, by omega⟩


/-! ### the writer -/

theorem order_lt : ∀ o ∈ kStorageOrder, o < 18 := by decide

theorem order_length : kStorageOrder.length = 18 := by decide

theorem order_getD_lt (j : Nat) (hj : j < 18) : kStorageOrder.getD j 0 < 18 := by
  have : ∀ j : Fin 18, kStorageOrder.getD j.val 0 < 18 := by decide
  exact this ⟨j, hj⟩

theorem getAt_order (j : Nat) (hj : j < 18) : getAt kStorageOrder j = .ok (kStorageOrder.getD j 0) :=
  getAt_getD kStorageOrder j (by rw [order_length]; exact hj)

/-- `codes_to_store`: one past the last non-zero length in storage order -/
theorem codesToStoreLoop_spec (cl : List Nat) (hl : cl.length = 18) :
    ∀ c, c ≤ 18 → ∃ r, codesToStoreLoop cl c = .ok r ∧ r ≤ c ∧
      (∀ j, r ≤ j → j < c → cl.getD (kStorageOrder.getD j 0) 0 = 0) ∧
      (0 < r → cl.getD (kStorageOrder.getD (r - 1) 0) 0 ≠ 0) := by
  intro c
  induction c with
  | zero => intro _; exact ⟨0, rfl, Nat.le_refl _, fun j h1 h2 => by omega, fun h => by omega⟩
  | succ c ih =>
    intro hc
    have ho := order_getD_lt c (by omega)
    simp only [codesToStoreLoop, getAt_order c (by omega), Out.bind_ok,
      getAt_getD cl _ (by rw [hl]; exact ho)]
    by_cases hd : cl.getD (kStorageOrder.getD c 0) 0 = 0
    · simp only [hd, ne_eq, not_true_eq_false, ↓reduceIte]
      obtain ⟨r, h1, h2, h3, h4⟩ := ih (by omega)
      refine ⟨r, h1, by omega, ?_, h4⟩
      intro j hj1 hj2
      by_cases hjc : j = c
      · subst hjc; exact hd
      · exact h3 j hj1 (by omega)
    · simp only [ne_eq, hd, not_false_eq_true, ↓reduceIte]
      exact ⟨c + 1, rfl, Nat.le_refl _, fun j h1 h2 => by omega, fun _ => by simpa using hd⟩

theorem vlc_fits (v : Nat) (hv : v ≤ 5) :
    kHuffmanBitLengthHuffmanCodeSymbols.getD v 0
      < 2 ^ kHuffmanBitLengthHuffmanCodeBitLengths.getD v 0 ∧
    kHuffmanBitLengthHuffmanCodeBitLengths.getD v 0 ≤ 56 := by
  have : ∀ v : Fin 6, kHuffmanBitLengthHuffmanCodeSymbols.getD v.val 0
      < 2 ^ kHuffmanBitLengthHuffmanCodeBitLengths.getD v.val 0 ∧
      kHuffmanBitLengthHuffmanCodeBitLengths.getD v.val 0 ≤ 56 := by decide
  exact this ⟨v, by omega⟩

/-- the `for i in skip_some..codes_to_store` loop appends the lengths in storage order -/
theorem storeClLoop_spec (cl : List Nat) (hl : cl.length = 18) (h5 : ∀ x ∈ cl, x ≤ 5) :
    ∀ (c i : Nat) (w : Writer), i + c ≤ 18 →
    storeClLoop cl c i w = .ok (w ++ bitsFor cl ((kStorageOrder.drop i).take c)) := by
  intro c
  induction c with
  | zero => intro i w _; simp [storeClLoop, bitsFor]
  | succ c ih =>
    intro i w hic
    have ho := order_getD_lt i (by omega)
    have hv5 : cl.getD (kStorageOrder.getD i 0) 0 ≤ 5 := by
      apply h5
      rw [List.getD_eq_getElem?_getD, List.getElem?_eq_getElem (by rw [hl]; exact ho)]; simp
    obtain ⟨hfit, h56⟩ := vlc_fits _ hv5
    simp only [storeClLoop, getAt_order i (by omega), Out.bind_ok,
      getAt_getD cl _ (by rw [hl]; exact ho)]
    rw [getAt_getD kHuffmanBitLengthHuffmanCodeBitLengths _ (by
        have : kHuffmanBitLengthHuffmanCodeBitLengths.length = 6 := by decide
        omega),
      getAt_getD kHuffmanBitLengthHuffmanCodeSymbols _ (by
        have : kHuffmanBitLengthHuffmanCodeSymbols.length = 6 := by decide
        omega)]
    simp only [Out.bind_ok, writeBits_ok _ _ w hfit h56]
    rw [ih (i + 1) _ (by omega)]
    have hd : kStorageOrder.drop i = kStorageOrder.getD i 0 :: kStorageOrder.drop (i + 1) := by
      rw [List.drop_eq_getElem_cons (by rw [order_length]; omega), List.getD_eq_getElem?_getD,
        List.getElem?_eq_getElem (by rw [order_length]; omega)]
      rfl
    rw [hd, List.take_succ_cons]
    simp [bitsFor, vlcBits, List.append_assoc]

/-! ### filling the lengths in -/

theorem fill_length (cl : List Nat) : ∀ (os acc : List Nat), (fill cl acc os).length = acc.length := by
  intro os
  induction os with
  | nil => intro acc; rfl
  | cons o os ih => intro acc; simp only [fill, List.foldl_cons] at ih ⊢; rw [ih]; simp

theorem fill_getD (cl : List Nat) : ∀ (os acc : List Nat) (p : Nat), (∀ o ∈ os, o < acc.length) →
    (fill cl acc os).getD p 0 = if p ∈ os then cl.getD p 0 else acc.getD p 0 := by
  intro os
  induction os with
  | nil => intro acc p _; simp [fill]
  | cons o os ih =>
    intro acc p hlt
    have ho := hlt o (by simp)
    simp only [fill, List.foldl_cons] at ih ⊢
    rw [ih (acc.set o (cl.getD o 0)) p (by
      intro x hx; rw [List.length_set]; exact hlt x (List.mem_cons_of_mem _ hx))]
    by_cases hpo : p = o
    · subst hpo
      by_cases hin : p ∈ os
      · simp [hin]
      · simp only [hin, ↓reduceIte, List.mem_cons, true_or]
        rw [getD_set _ _ _ _ ho]; simp
    · by_cases hin : p ∈ os
      · simp [hin]
      · simp only [hin, ↓reduceIte, List.mem_cons, hpo, or_self]
        rw [getD_set _ _ _ _ ho]
        have hop : ¬ o = p := fun h => hpo h.symm
        rw [if_neg hop]

theorem gsum_append (cl a b : List Nat) : gsum cl (a ++ b) = gsum cl a + gsum cl b := by
  simp [gsum]

theorem gsum_zero (cl os : List Nat) (h : ∀ o ∈ os, cl.getD o 0 = 0) : gsum cl os = 0 := by
  induction os with
  | nil => rfl
  | cons o os ih =>
    simp only [gsum, List.map_cons, List.sum_cons, h o (by simp), g, ↓reduceIte, Nat.zero_add]
    exact ih (fun x hx => h x (List.mem_cons_of_mem _ hx))

theorem order_perm : kStorageOrder.Perm (List.range 18) := by decide

theorem map_range_getD (l : List Nat) (h : Nat → Nat) :
    (List.range l.length).map (fun s => h (l.getD s 0)) = l.map h := by
  apply List.ext_getElem?
  intro k
  simp only [List.getElem?_map]
  by_cases hk : k < l.length
  · simp [hk, List.getD_eq_getElem?_getD]
  · simp [hk]

/-- code space used by the 18 lengths = their Kraft sum for limit 5 -/
theorem gsum_order_eq_kraft (cl : List Nat) (hl : cl.length = 18) (h5 : ∀ x ∈ cl, x ≤ 5) :
    gsum cl kStorageOrder = kraftSum 5 cl := by
  have hg : ∀ v, v ≤ 5 → g v = if v = 0 then 0 else 2 ^ (5 - v) := by
    intro v hv
    have : v = 0 ∨ v = 1 ∨ v = 2 ∨ v = 3 ∨ v = 4 ∨ v = 5 := by omega
    rcases this with rfl | rfl | rfl | rfl | rfl | rfl <;> decide
  unfold gsum
  rw [(order_perm.map fun o => g (cl.getD o 0)).sum_nat, ← hl, map_range_getD cl g]
  unfold kraftSum
  congr 1
  apply List.map_congr_left
  intro x hx
  exact hg x (h5 x hx)


theorem mem_drop_order (cl : List Nat) (c : Nat)
    (h : ∀ j, c ≤ j → j < 18 → cl.getD (kStorageOrder.getD j 0) 0 = 0) :
    ∀ o ∈ kStorageOrder.drop c, cl.getD o 0 = 0 := by
  intro o ho
  obtain ⟨i, hi, hio⟩ := List.getElem_of_mem ho
  rw [List.length_drop, order_length] at hi
  rw [List.getElem_drop] at hio
  have := h (c + i) (by omega) (by omega)
  have e : kStorageOrder.getD (c + i) 0 = kStorageOrder[c + i]'(by rw [order_length]; omega) := by
    rw [List.getD_eq_getElem?_getD, List.getElem?_eq_getElem (by rw [order_length]; omega)]; rfl
  rw [e, hio] at this
  exact this

theorem mem_take_order (cl : List Nat) (c : Nat) (hc : c ≤ 18)
    (h : ∀ j, j < c → cl.getD (kStorageOrder.getD j 0) 0 = 0) :
    ∀ o ∈ kStorageOrder.take c, cl.getD o 0 = 0 := by
  intro o ho
  obtain ⟨i, hi, hio⟩ := List.getElem_of_mem ho
  rw [List.length_take, order_length] at hi
  rw [List.getElem_take] at hio
  have := h i (by omega)
  have e : kStorageOrder.getD i 0 = kStorageOrder[i]'(by rw [order_length]; omega) := by
    rw [List.getD_eq_getElem?_getD, List.getElem?_eq_getElem (by rw [order_length]; omega)]; rfl
  rw [e, hio] at this
  exact this

theorem gsum_split (cl L : List Nat) (a : Nat) :
    gsum cl L = gsum cl (L.take a) + gsum cl (L.drop a) := by
  rw [← gsum_append, List.take_append_drop]

theorem mem_take_or_drop (L : List Nat) (a p : Nat) (h : p ∈ L) : p ∈ L.take a ∨ p ∈ L.drop a := by
  rw [← List.mem_append, List.take_append_drop]; exact h

/-- the reader half, for an abstract storage order `L` -/
theorem reader_part (cl L : List Nat) (hl : cl.length = 18) (h5 : ∀ x ∈ cl, x ≤ 5)
    (hLlen : L.length = 18) (hLlt : ∀ o ∈ L, o < 18) (hLall : ∀ p, p < 18 → p ∈ L)
    (skip cts : Nat) (hskip3 : skip ≤ 3) (hcts18 : cts ≤ 18)
    (hzfront : ∀ o ∈ L.take skip, cl.getD o 0 = 0) (hzback : ∀ o ∈ L.drop cts, cl.getD o 0 = 0)
    (hmode : (gsum cl L = 32 ∧ 0 < cts ∧ cl.getD (L.getD (cts - 1) 0) 0 ≠ 0) ∨
      (cts = 18 ∧ gsum cl L < 32)) (rest : List Bool) :
    readClLens (L.drop skip) 32 (List.replicate 18 0)
        (bitsFor cl ((L.drop skip).take (cts - skip)) ++ rest) = some (cl, rest) := by
  have hsplit1 := gsum_split cl L skip
  rw [gsum_zero cl _ hzfront, Nat.zero_add] at hsplit1
  have hlt : ∀ o ∈ L.drop skip, o < cl.length := by
    intro o ho; rw [hl]; exact hLlt o (List.mem_of_mem_drop ho)
  have hdroplen : (L.drop skip).length = 18 - skip := by rw [List.length_drop, hLlen]
  have hmodes : (1 ≤ cts - skip ∧ gsum cl ((L.drop skip).take (cts - skip)) = 32 ∧
        cl.getD ((L.drop skip).getD (cts - skip - 1) 0) 0 ≠ 0) ∨
      (cts - skip = (L.drop skip).length ∧ gsum cl (L.drop skip) < 32) := by
    rcases hmode with ⟨hk, hcts0, hnz⟩ | ⟨hc18, hk⟩
    · left
      have hge : skip ≤ cts - 1 := by
        by_cases h : cts - 1 < skip
        · exfalso
          apply hnz
          apply hzfront
          rw [List.getD_eq_getElem?_getD, List.getElem?_eq_getElem (by rw [hLlen]; omega)]
          simp only [Option.getD_some]
          rw [List.mem_take_iff_getElem]
          exact ⟨cts - 1, by rw [hLlen]; omega, rfl⟩
        · omega
      refine ⟨by omega, ?_, ?_⟩
      · have hsplit2 := gsum_split cl (L.drop skip) (cts - skip)
        have hdd : (L.drop skip).drop (cts - skip) = L.drop cts := by
          rw [List.drop_drop]; congr 1; omega
        rw [hdd, gsum_zero cl _ hzback] at hsplit2
        omega
      · have : (L.drop skip).getD (cts - skip - 1) 0 = L.getD (cts - 1) 0 := by
          rw [List.getD_eq_getElem?_getD, List.getD_eq_getElem?_getD, List.getElem?_drop]
          congr 2; omega
        rw [this]; exact hnz
    · right
      exact ⟨by rw [hdroplen, hc18], by omega⟩
  rw [readClLens_spec cl h5 (L.drop skip) (cts - skip) 32 (List.replicate 18 0) rest
    (by rw [hdroplen]; omega) hlt hmodes]
  congr 2
  apply List.ext_getElem?
  intro p
  by_cases hp : p < 18
  · have hgd := fill_getD cl ((L.drop skip).take (cts - skip)) (List.replicate 18 0) p
      (by intro o ho; simp; exact hLlt o (List.mem_of_mem_drop (List.mem_of_mem_take ho)))
    have hfl : (fill cl (List.replicate 18 0) ((L.drop skip).take (cts - skip))).length = 18 := by
      rw [fill_length]; simp
    rw [List.getD_eq_getElem?_getD, List.getElem?_eq_getElem (by omega)] at hgd
    rw [List.getElem?_eq_getElem (by omega), List.getElem?_eq_getElem (by omega)]
    simp only [Option.getD_some] at hgd
    rw [hgd]
    have hclp : cl.getD p 0 = cl[p] := by
      rw [List.getD_eq_getElem?_getD, List.getElem?_eq_getElem (by omega)]; rfl
    by_cases hin : p ∈ (L.drop skip).take (cts - skip)
    · rw [if_pos hin, hclp]
    · rw [if_neg hin, replicate_getD]
      have hz : cl.getD p 0 = 0 := by
        rcases mem_take_or_drop L skip p (hLall p hp) with h | h
        · exact hzfront p h
        · rcases mem_take_or_drop (L.drop skip) (cts - skip) p h with h | h
          · exact absurd h hin
          · rw [List.drop_drop] at h
            by_cases hle : skip ≤ cts
            · have e : skip + (cts - skip) = cts := by omega
              rw [e] at h
              exact hzback p h
            · have e : skip + (cts - skip) = skip := by omega
              rw [e] at h
              apply hzback p
              have : L.drop skip = (L.drop cts).drop (skip - cts) := by
                rw [List.drop_drop]; congr 1; omega
              rw [this] at h
              exact List.mem_of_mem_drop h
      rw [← hclp, hz]
  · rw [List.getElem?_eq_none (by rw [fill_length]; simp; omega),
      List.getElem?_eq_none (by omega)]

/-- `BrotliStoreHuffmanTreeOfHuffmanTreeToBitMask` and the RFC 7932 §3.5 reader of the
code length code lengths: for a complete code (`num_codes > 1`, Kraft sum 32/32) and
for the single-symbol case (`num_codes ≤ 1`, all 18 lengths stored, space not used up) -/
theorem header_roundtrip (cl : List Nat) (hl : cl.length = 18) (h5 : ∀ x ∈ cl, x ≤ 5)
    (numCodes : Nat)
    (hmode : (1 < numCodes ∧ kraftSum 5 cl = 32) ∨ (numCodes ≤ 1 ∧ kraftSum 5 cl < 32))
    (w rest : List Bool) :
    ∃ hskip body, storeHuffmanTreeOfHuffmanTreeToBitMask numCodes cl w
        = .ok (w ++ (bitsOf 2 hskip ++ body)) ∧ hskip < 4 ∧ hskip ≠ 1 ∧
      readClLens (kStorageOrder.drop hskip) 32 (List.replicate 18 0) (body ++ rest)
        = some (cl, rest) := by
  have htot := gsum_order_eq_kraft cl hl h5
  -- codes_to_store
  obtain ⟨cts, hcts, hcts18, hctsz, hctsnz, hctsB⟩ : ∃ cts,
      (if numCodes > 1 then codesToStoreLoop cl 18 else .ok 18) = .ok cts ∧ cts ≤ 18 ∧
      (∀ j, cts ≤ j → j < 18 → cl.getD (kStorageOrder.getD j 0) 0 = 0) ∧
      (1 < numCodes → 0 < cts → cl.getD (kStorageOrder.getD (cts - 1) 0) 0 ≠ 0) ∧
      (¬ numCodes > 1 → cts = 18) := by
    by_cases hn : numCodes > 1
    · obtain ⟨r, h1, h2, h3, h4⟩ := codesToStoreLoop_spec cl hl 18 (Nat.le_refl _)
      exact ⟨r, by rw [if_pos hn]; exact h1, h2, h3, fun _ => h4, fun h => absurd hn h⟩
    · exact ⟨18, by rw [if_neg hn], Nat.le_refl _, fun j h1 h2 => by omega,
        fun h => absurd h hn, fun _ => rfl⟩
  -- skip_some
  obtain ⟨skip, hskipdef, hskip3, hskip1, hskipz⟩ : ∃ skip,
      (if cl.getD 1 0 = 0 ∧ cl.getD 2 0 = 0 then (if cl.getD 3 0 = 0 then 3 else 2) else 0) = skip ∧
      skip ≤ 3 ∧ skip ≠ 1 ∧ (∀ j, j < skip → cl.getD (kStorageOrder.getD j 0) 0 = 0) := by
    refine ⟨_, rfl, ?_, ?_, ?_⟩
    · split
      · split <;> omega
      · omega
    · split
      · split <;> omega
      · omega
    · intro j hj
      have e0 : kStorageOrder.getD 0 0 = 1 := by decide
      have e1 : kStorageOrder.getD 1 0 = 2 := by decide
      have e2 : kStorageOrder.getD 2 0 = 3 := by decide
      split at hj
      · rename_i h12
        split at hj
        · rename_i h3
          have : j = 0 ∨ j = 1 ∨ j = 2 := by omega
          rcases this with rfl | rfl | rfl
          · rw [e0]; exact h12.1
          · rw [e1]; exact h12.2
          · rw [e2]; exact h3
        · have : j = 0 ∨ j = 1 := by omega
          rcases this with rfl | rfl
          · rw [e0]; exact h12.1
          · rw [e1]; exact h12.2
      · omega
  refine ⟨skip, bitsFor cl ((kStorageOrder.drop skip).take (cts - skip)), ?_, by omega, hskip1, ?_⟩
  · -- the writer
    unfold storeHuffmanTreeOfHuffmanTreeToBitMask
    rw [hcts]
    have e0 : kStorageOrder.getD 0 0 = 1 := by decide
    have e1 : kStorageOrder.getD 1 0 = 2 := by decide
    have e2 : kStorageOrder.getD 2 0 = 3 := by decide
    have hg1 := getAt_getD cl 1 (by omega)
    have hg2 := getAt_getD cl 2 (by omega)
    have hg3 := getAt_getD cl 3 (by omega)
    simp only [Out.bind_ok, getAt_order 0 (by omega), getAt_order 1 (by omega),
      getAt_order 2 (by omega), e0, e1, e2, hg1]
    -- the tail once `skip_some` is known
    have htail : (do
          let w ← writeBits 2 skip w
          storeClLoop cl (cts - skip) skip w)
        = .ok (w ++ (bitsOf 2 skip ++ bitsFor cl ((kStorageOrder.drop skip).take (cts - skip)))) := by
      rw [writeBits_ok 2 skip w (by omega) (by omega)]
      simp only [Out.bind_ok]
      by_cases hle : skip ≤ cts
      · rw [storeClLoop_spec cl hl h5 (cts - skip) skip _ (by omega), List.append_assoc]
      · have : cts - skip = 0 := by omega
        rw [this]
        simp [storeClLoop, bitsFor]
    generalize cl.getD 1 0 = a0 at hskipdef ⊢
    generalize cl.getD 2 0 = a1 at hskipdef hg2 ⊢
    generalize cl.getD 3 0 = a2 at hskipdef hg3 ⊢
    by_cases h0 : a0 = 0
    · by_cases h1 : a1 = 0
      · simp only [h0, h1, and_self, ↓reduceIte, hg2, hg3, Out.bind_ok] at hskipdef ⊢
        rw [hskipdef]; exact htail
      · simp only [h0, h1, and_false, ↓reduceIte, hg2, Out.bind_ok] at hskipdef ⊢
        rw [hskipdef]; exact htail
    · simp only [h0, false_and, ↓reduceIte, Out.bind_ok] at hskipdef ⊢
      rw [hskipdef]; exact htail
  · -- the reader
    have hzfront := mem_take_order cl skip (by omega) hskipz
    have hzback := mem_drop_order cl cts hctsz
    apply reader_part cl kStorageOrder hl h5 order_length order_lt
      (fun p hp => (order_perm.mem_iff).mpr (List.mem_range.mpr hp)) skip cts hskip3 hcts18
      hzfront hzback
    rcases hmode with ⟨hn, hk⟩ | ⟨hn, hk⟩
    · left
      have hcts0 : 0 < cts := by
        by_cases h : cts = 0
        · exfalso
          have hz : gsum cl kStorageOrder = 0 := by
            apply gsum_zero
            have := mem_drop_order cl 0 (fun j _ hj => hctsz j (by rw [h]; exact Nat.zero_le _) hj)
            simpa using this
          rw [htot, hk] at hz
          exact absurd hz (by decide)
        · exact Nat.pos_of_ne_zero h
      exact ⟨by rw [htot]; exact hk, hcts0, hctsnz hn hcts0⟩
    · right
      exact ⟨hctsB (Nat.not_lt.mpr hn), by rw [htot]; exact hk⟩

end BV.Lemmas.HuffmanHeader
