import BV.Lemmas.StreamFast
/-
Refinement of the contract automaton by `process_metadata`.
-/
namespace BV.Stream
open BV.Bits

theorem sub_mod_two32 {a c : Nat} (hc : c ≤ a) (ha : a < two32) : (a + two32 - c) % two32 = a - c := by
  have : a + two32 - c = (a - c) + two32 := by omega
  rw [this, Nat.add_mod_right, Nat.mod_eq_of_lt (by omega)]

theorem sub_mod_two64 {a c : Nat} (hc : c ≤ a) (ha : a < two64) : (a + two64 - c) % two64 = a - c := by
  have : a + two64 - c = (a - c) + two64 := by omega
  rw [this, Nat.add_mod_right, Nat.mod_eq_of_lt (by omega)]

theorem lt_two32_of_le {a : Nat} (h : a ≤ 16777216) : a < two32 := by unfold two32; omega
theorem lt_two64_of_le {a : Nat} (h : a ≤ 16777216) : a < two64 := by unfold two64; omega

/-- loop invariant of `process_metadata` (`n` = bytes offered to the call) -/
structure MdInv (n : Nat) (s : St) (io : Io) : Prop where
  inv : Inv s
  st : s.streamState = .metadataHead ∨ s.streamState = .metadataBody
  rmLe : s.remainingMetadata ≤ 16777216
  avail : io.availIn = s.remainingMetadata
  availLe : io.availIn ≤ n

/-- what a metadata iteration leads to: the loop invariant again, or the block is complete -/
def MdDone (s : St) (io : Io) : Prop :=
  Inv s ∧ s.remainingMetadata = u32Max ∧ s.streamState = .processing ∧ io.availIn = 0

theorem u32Max_gt : (16777216 : Nat) < u32Max := by unfold u32Max; omega

theorem mdStep_spec {o : Oracle} {n : Nat} {s s' : St} {io io' : Io} {c : Ctl} (hP : MdInv n s io)
    (h : processMetadataStep o s io = .ok (s', io', c)) :
    c ≠ .fail ∧ (MdInv n s' io' ∨ (c = .brk ∧ MdDone s' io')) := by
  have hI := hP.inv
  have hnf : s.streamState ≠ .finished := by rcases hP.st with h1 | h1 <;> rw [h1] <;> simp
  have hmd : s.streamState.isMd = true := (SState.isMd_iff _).mpr hP.st
  unfold processMetadataStep at h
  split at h
  · simp at h
  · simp at h
  · rename_i s1 io1 hp
    simp only [Out.ok.injEq, Prod.mk.injEq] at h
    obtain ⟨rfl, rfl, rfl⟩ := h
    obtain ⟨f, _, _, _, _, _, _, _, fa, _⟩ := push_frame hp
    rw [St.frame_eq_iff] at f
    refine ⟨by simp, Or.inl ⟨inv_push hI hp, ?_, ?_, ?_, ?_⟩⟩
    · rw [f.2.2.2.1]; exact hP.st
    · rw [f.2.2.1]; exact hP.rmLe
    · rw [fa, f.2.2.1]; exact hP.avail
    · rw [fa]; exact hP.availLe
  · rename_i s1 io1 hp
    obtain ⟨e1, e2, _, _⟩ := push_false hp
    have e1' := e1.symm; have e2' := e2.symm
    subst e1' e2'
    split at h
    · simp only [Out.ok.injEq, Prod.mk.injEq] at h
      obtain ⟨rfl, rfl, rfl⟩ := h
      exact ⟨by simp, Or.inl hP⟩
    · split at h
      · -- flush what has been buffered first
        split at h
        · simp at h
        · simp at h
        · rename_i s2 res req henc
          have hres : res = true := encodeData_succeeds hI hnf henc
          subst hres
          simp only [Bool.not_true, Bool.false_eq_true, ↓reduceIte, Out.ok.injEq, Prod.mk.injEq] at h
          obtain ⟨rfl, rfl, rfl⟩ := h
          obtain ⟨f, _, _, _, _⟩ := encodeData_frame henc
          rw [St.frame_eq_iff] at f
          refine ⟨by simp, Or.inl ⟨inv_encode hI henc rfl, ?_, ?_, ?_, ?_⟩⟩
          · rw [f.2.2.2.1]; exact hP.st
          · rw [f.2.2.1]; exact hP.rmLe
          · rw [f.2.2.1]; exact hP.avail
          · exact hP.availLe
      · split at h
        · -- header
          rename_i hhead
          simp only at h
          split at h
          · simp at h
          · simp only [Out.ok.injEq, Prod.mk.injEq] at h
            obtain ⟨rfl, rfl, rfl⟩ := h
            refine ⟨by simp, Or.inl ⟨?_, Or.inr rfl, hP.rmLe, hP.avail, hP.availLe⟩⟩
            refine hI.transfer rfl rfl rfl rfl ?_ hI.fl_le hI.lp_le (Nat.le_refl _) ?_ hI.q01 ?_
            · simp only; rw [hhead]; rfl
            · intro hle
              have := hI.lastFin hle
              exact absurd this hnf
            · intro hfl; cases hfl
        · rename_i hnhead
          have hbody : s.streamState = .metadataBody := by
            rcases hP.st with h1 | h1
            · exact absurd h1 hnhead
            · exact h1
          split at h
          · -- block complete
            rename_i hz
            simp only [Out.ok.injEq, Prod.mk.injEq] at h
            obtain ⟨rfl, rfl, rfl⟩ := h
            refine ⟨by simp, Or.inr ⟨rfl, ?_, rfl, rfl, ?_⟩⟩
            · refine ⟨hI.init, hI.fl_le, hI.lp_le, hI.ip_lt, hI.blk, ?_, ?_, ?_, hI.q01, ?_⟩
              · intro hle; exact absurd (hI.lastFin hle) hnf
              · simp
              · simp
              · intro hfl; cases hfl
            · rw [hP.avail, hz]
          · rename_i hnz
            have hrm32 := lt_two32_of_le hP.rmLe
            have hav64 : io.availIn < two64 := by rw [hP.avail]; exact lt_two64_of_le hP.rmLe
            split at h
            · -- straight from input to output
              simp only at h
              split at h
              · simp at h
              · simp only [Out.ok.injEq, Prod.mk.injEq] at h
                obtain ⟨rfl, rfl, rfl⟩ := h
                have hcopy : (min s.remainingMetadata io.availOut) % two32 = min s.remainingMetadata io.availOut :=
                  Nat.mod_eq_of_lt (Nat.lt_of_le_of_lt (Nat.min_le_left _ _) hrm32)
                have hle : min s.remainingMetadata io.availOut ≤ s.remainingMetadata := Nat.min_le_left _ _
                have hle2 : min s.remainingMetadata io.availOut ≤ io.availIn := by rw [hP.avail]; exact hle
                have e1 : (s.remainingMetadata + two32 - min s.remainingMetadata io.availOut % two32) % two32 = s.remainingMetadata - min s.remainingMetadata io.availOut := by
                  rw [hcopy]; exact sub_mod_two32 hle hrm32
                have e2 : (io.availIn + two64 - min s.remainingMetadata io.availOut % two32) % two64 = io.availIn - min s.remainingMetadata io.availOut := by
                  rw [hcopy]; exact sub_mod_two64 hle2 hav64
                refine ⟨by simp, Or.inl ⟨?_, ?_, ?_, ?_, ?_⟩⟩
                · refine ⟨hI.init, hI.fl_le, hI.lp_le, hI.ip_lt, hI.blk, hI.lastFin, ?_, ?_, hI.q01, ?_⟩
                  · simp only [e1]
                    constructor
                    · intro _
                      have := hP.rmLe; have := u32Max_gt; omega
                    · intro _; exact hP.st
                  · intro _; simp only [e1]; have := hP.rmLe; omega
                  · intro hfl; simp only at hfl; rw [hbody] at hfl; cases hfl
                · exact hP.st
                · simp only [e1]; have := hP.rmLe; omega
                · simp only [e1, e2]; rw [hP.avail]
                · simp only [e2]; have := hP.availLe; omega
            · -- staged through tiny_buf_
              simp only at h
              split at h
              · simp at h
              · simp only [Out.ok.injEq, Prod.mk.injEq] at h
                obtain ⟨rfl, rfl, rfl⟩ := h
                have hle : min s.remainingMetadata 16 ≤ s.remainingMetadata := Nat.min_le_left _ _
                have hle2 : min s.remainingMetadata 16 ≤ io.availIn := by rw [hP.avail]; exact hle
                have e1 : (s.remainingMetadata + two32 - min s.remainingMetadata 16) % two32 = s.remainingMetadata - min s.remainingMetadata 16 :=
                  sub_mod_two32 hle hrm32
                have e2 : (io.availIn + two64 - min s.remainingMetadata 16) % two64 = io.availIn - min s.remainingMetadata 16 :=
                  sub_mod_two64 hle2 hav64
                refine ⟨by simp, Or.inl ⟨?_, ?_, ?_, ?_, ?_⟩⟩
                · refine ⟨hI.init, hI.fl_le, hI.lp_le, hI.ip_lt, hI.blk, hI.lastFin, ?_, ?_, hI.q01, ?_⟩
                  · simp only [e1]
                    constructor
                    · intro _
                      have := hP.rmLe; have := u32Max_gt; omega
                    · intro _; exact hP.st
                  · intro _; simp only [e1]; have := hP.rmLe; omega
                  · intro hfl; simp only at hfl; rw [hbody] at hfl; cases hfl
                · exact hP.st
                · simp only [e1]; have := hP.rmLe; omega
                · simp only [e1, e2]; rw [hP.avail]
                · simp only [e2]; have := hP.availLe; omega

theorem mdLoop_spec {o : Oracle} {n : Nat} :
    ∀ fuel s io s' io' r, MdInv n s io → processMetadataLoop o fuel s io = .ok (s', io', r) →
      r = true ∧ (MdInv n s' io' ∨ MdDone s' io') := by
  intro fuel
  induction fuel with
  | zero => intro s io s' io' r _ h; simp [processMetadataLoop] at h
  | succ k ih =>
    intro s io s' io' r hP h
    unfold processMetadataLoop at h
    split at h
    · simp at h
    · simp at h
    · rename_i s1 io1 hs
      exact absurd rfl (mdStep_spec hP hs).1
    · rename_i s1 io1 hs
      rcases (mdStep_spec hP hs).2 with h1 | ⟨h1, _⟩
      · exact ih _ _ _ _ _ h1 h
      · cases h1
    · rename_i s1 io1 hs
      simp only [Out.ok.injEq, Prod.mk.injEq] at h
      obtain ⟨rfl, rfl, rfl⟩ := h
      rcases (mdStep_spec hP hs).2 with h1 | ⟨_, h1⟩
      · exact ⟨rfl, Or.inl h1⟩
      · exact ⟨rfl, Or.inr h1⟩

theorem absC_md {s : St} (hi : s.isInitialized = true) (hrm : s.remainingMetadata ≠ u32Max) :
    absC s = .metadata s.remainingMetadata := by
  unfold absC
  simp [hi, hrm]

theorem absC_processing {s : St} (hi : s.isInitialized = true) (hrm : s.remainingMetadata = u32Max)
    (hst : s.streamState = .processing) : absC s = .processing := by
  unfold absC
  simp [hi, hrm, hst]

/-- `process_metadata` refines the contract: entered inside a metadata block (the entry guard
has checked `available_in == remaining`) or from PROCESSING with at most 2^24 bytes -/
theorem md_refines {o : Oracle} {fuel : Nat} {s s' : St} {io io' : Io} {r : Bool}
    (hI : Inv s)
    (hentry : (s.remainingMetadata ≠ u32Max ∧ io.availIn = s.remainingMetadata) ∨
              (s.remainingMetadata = u32Max ∧ s.streamState = .processing ∧ io.availIn ≤ 16777216))
    (h : processMetadata o fuel s io = .ok (s', io', r)) :
    r = true ∧ Inv s' ∧ io'.availIn ≤ io.availIn ∧
    ((s'.remainingMetadata ≠ u32Max ∧ s'.remainingMetadata ≤ io.availIn ∧ io.availIn - io'.availIn = io.availIn - s'.remainingMetadata)
     ∨ (s'.remainingMetadata = u32Max ∧ s'.streamState = .processing ∧ io'.availIn = 0)) := by
  have hle : io.availIn ≤ 16777216 := by
    rcases hentry with ⟨h1, h2⟩ | ⟨_, _, h3⟩
    · rw [h2]; exact hI.mdLe h1
    · exact h3
  unfold processMetadata at h
  split at h
  · rename_i hgt; omega
  · -- the state with which the loop is entered
    have hP : MdInv io.availIn (mdEnter s io.availIn) io := by
      unfold mdEnter
      rcases hentry with ⟨h1, h2⟩ | ⟨h1, h2, h3⟩
      · have hst := hI.mdIff.mpr h1
        have hnp : s.streamState ≠ .processing := by rcases hst with h | h <;> rw [h] <;> simp
        rw [if_neg hnp]
        exact ⟨hI, hst, hI.mdLe h1, h2, Nat.le_refl _⟩
      · rw [if_pos h2]
        have hmod : io.availIn % two32 = io.availIn := Nat.mod_eq_of_lt (lt_two32_of_le h3)
        refine ⟨?_, Or.inl (by simp), ?_, ?_, Nat.le_refl _⟩
        · refine ⟨hI.init, hI.fl_le, hI.lp_le, hI.ip_lt, hI.blk, ?_, ?_, ?_, hI.q01, ?_⟩
          · intro hle2
            have := hI.lastFin hle2
            rw [h2] at this; cases this
          · simp only [hmod]
            constructor
            · intro _; have := u32Max_gt; omega
            · intro _; exact Or.inl trivial
          · intro _; simp only [hmod]; exact h3
          · intro hfl; cases hfl
        · simp only [hmod]; exact h3
        · simp only [hmod]
    split at h
    · rename_i hbad
      rcases hP.st with h1 | h1
      · exact absurd h1 hbad.1
      · exact absurd h1 hbad.2
    · obtain ⟨hr, hres⟩ := mdLoop_spec fuel _ io s' io' r hP h
      rcases hres with hM | hD
      · refine ⟨hr, hM.inv, hM.availLe, Or.inl ⟨?_, ?_, ?_⟩⟩
        · have := hM.rmLe; have := u32Max_gt; omega
        · rw [← hM.avail]; exact hM.availLe
        · rw [hM.avail]
      · exact ⟨hr, hD.1, by rw [hD.2.2.2]; exact Nat.zero_le _, Or.inr ⟨hD.2.1, hD.2.2.1, hD.2.2.2⟩⟩

end BV.Stream
