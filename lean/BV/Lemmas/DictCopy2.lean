/-
C10, decoder copy path: the copy reads the right bytes under `SrcSafe` (`decCopy_correct`): the byte-wise wrap copy
after the speculative block equals the reference copy, and the block paths equal it when ranges do not overlap.
-/
import BV.Lemmas.DictCopy
namespace BV.Dict

/-- the byte-wise loop writes at `p` what the source index held before -/
theorem wrapCopyLoop_at (R dist : Nat) : ∀ (n : Nat) (r : Nat → Nat) (p j : Nat), j < p → wrapCopyLoop R dist n r p j = r j :=
  fun n r p j h => wrapCopyLoop_frame R dist n r p j (Or.inl h)

/-- Lemma A: two rings that differ only inside the not-yet-rewritten part `[p, z)` of a speculatively written zone
become equal outside `[p + n, z)` after `n` byte-wise steps, provided no source index falls into the zone -/
theorem wrapCopyLoop_agree (R dist z : Nat) : ∀ (n : Nat) (r1 r2 : Nat → Nat) (p : Nat),
    (∀ j, (j < p ∨ z ≤ j) → r1 j = r2 j) →
    (∀ p', p ≤ p' → p' < p + n → srcIndex R p' dist < p' ∨ z ≤ srcIndex R p' dist) →
    ∀ j, (j < p + n ∨ z ≤ j) → wrapCopyLoop R dist n r1 p j = wrapCopyLoop R dist n r2 p j := by
  intro n
  induction n with
  | zero => intro r1 r2 p hag _ j hj; exact hag j (by omega)
  | succ n ih =>
    intro r1 r2 p hag hsrc j hj
    rw [wrapCopyLoop, wrapCopyLoop]
    apply ih _ _ (p + 1)
    · intro j' hj'
      show (if j' = p then r1 (srcIndex R p dist) else r1 j') = (if j' = p then r2 (srcIndex R p dist) else r2 j')
      by_cases he : j' = p
      · rw [if_pos he, if_pos he]
        exact hag _ (by have := hsrc p (Nat.le_refl _) (by omega); omega)
      · rw [if_neg he, if_neg he]
        exact hag _ (by omega)
    · intro p' h1 h2
      exact hsrc p' (by omega) (by omega)
    · omega

theorem srcIndex_add (R pos dist t : Nat) (_hR : 0 < R) (hd : dist ≤ pos + R) (h : srcIndex R pos dist + t < R) :
    srcIndex R (pos + t) dist = srcIndex R pos dist + t := by
  unfold srcIndex at *
  have e : pos + t + R - dist = (pos + R - dist) + t := by omega
  rw [e, Nat.add_mod, Nat.mod_eq_of_lt (a := t) (by omega), Nat.mod_eq_of_lt h]

/-- Lemma B: when source and destination ranges do not overlap and the source does not wrap, the byte-wise loop is a
block copy -/
theorem wrapCopyLoop_block (R dist : Nat) (ring : Nat → Nat) (pos i : Nat) (hR : 0 < R) (hd : dist ≤ pos + R)
    (hno : srcIndex R pos dist + i ≤ pos ∨ pos + i ≤ srcIndex R pos dist) (hsrcEnd : srcIndex R pos dist + i ≤ R) :
    ∀ (n : Nat) (r : Nat → Nat) (t : Nat), t + n = i →
      (∀ j, (j < pos ∨ pos + t ≤ j) → r j = ring j) →
      (∀ u, u < t → r (pos + u) = ring (srcIndex R pos dist + u)) →
      ∀ u, u < i → wrapCopyLoop R dist n r (pos + t) (pos + u) = ring (srcIndex R pos dist + u) := by
  intro n
  induction n with
  | zero =>
    intro r t ht _ hdone u hu
    exact hdone u (by omega)
  | succ n ih =>
    intro r t ht hout hdone u hu
    rw [wrapCopyLoop]
    have hsi : srcIndex R (pos + t) dist = srcIndex R pos dist + t := srcIndex_add R pos dist t hR hd (by omega)
    have := ih (fun j => if j = pos + t then r (srcIndex R (pos + t) dist) else r j) (t + 1) (by omega)
      (by
        intro j hj
        show (if j = pos + t then _ else r j) = ring j
        rw [if_neg (by omega)]
        exact hout j (by omega))
      (by
        intro u' hu'
        show (if pos + u' = pos + t then _ else r (pos + u')) = _
        by_cases he : u' = t
        · subst he
          rw [if_pos rfl, hsi]
          exact hout _ (by omega)
        · rw [if_neg (by omega)]
          exact hdone u' (by omega))
      u hu
    rw [← Nat.add_assoc] at this
    exact this


/-- the exact condition under which the copy's OWN source bytes are not hit by its speculative first block:
the distance respects a full-ring window (`dist ≤ R − 16`), or the block ends below the dictionary -/
def SrcSafe (D : Dec) (R pos dist : Nat) : Prop := dist ≤ R - 16 ∨ (pos + 16 ≤ R - D.dEff ∧ dist ≤ pos + D.dEff)

theorem srcSafe_zone (D : Dec) (R pos dist : Nat) (hR : 16 ≤ R) (hd1 : 1 ≤ dist) (hdR : dist ≤ pos + R) (hde : D.dEff ≤ R)
    (hs : SrcSafe D R pos dist) (_hfit : pos ≤ R) :
    ∀ p', pos ≤ p' → p' < R → srcIndex R p' dist < p' ∨ pos + 16 ≤ srcIndex R p' dist := by
  intro p' hp hpR
  unfold srcIndex
  by_cases hle : dist ≤ p'
  · left
    have e : p' + R - dist = (p' - dist) + R := by omega
    rw [e, Nat.add_mod_right, Nat.mod_eq_of_lt (by omega)]
    omega
  · right
    have hlt : p' + R - dist < R := by omega
    rw [Nat.mod_eq_of_lt hlt]
    rcases hs with h1 | ⟨h2, h3⟩
    · omega
    · omega

/-- **the copy reads the right bytes**: under `SrcSafe` the decoder's copy (whichever path) leaves on `[pos, pos + i)`
exactly what the byte-by-byte reference copy (RFC 7932: `out[p] = out[p − distance]`, the dictionary tail sitting
below position 0 at `(−k) & mask`) produces from the same ring -/
theorem decCopy_correct (D : Dec) (R : Nat) (ring ring' : Nat → Nat) (pos dist i : Nat)
    (hR : 16 ≤ R) (hi : 1 ≤ i) (hd1 : 1 ≤ dist) (hdR : dist ≤ pos + R) (hde : D.dEff ≤ R) (hfit : pos + i ≤ R)
    (hs : SrcSafe D R pos dist)
    (h : decCopy R ring pos dist i = some ring') :
    ∀ j, j < pos + i → ring' j = wrapCopyLoop R dist i ring pos j := by
  intro j hj
  have hzone := srcSafe_zone D R pos dist hR hd1 hdR hde hs (by omega)
  by_cases hjp : j < pos
  · rw [wrapCopyLoop_frame _ _ _ _ _ _ (Or.inl hjp)]
    exact decCopy_frame R ring ring' pos dist i hi h j (Or.inl hjp)
  unfold decCopy at h
  simp only at h
  -- the wrap path, shared by two branches
  have hwrap : wrapCopyLoop R dist i (memmove16 ring pos (srcIndex R pos dist)) pos j = wrapCopyLoop R dist i ring pos j := by
    apply wrapCopyLoop_agree R dist (pos + 16) i _ _ pos
    · intro j' hj'; exact memmove16_frame _ _ _ _ (by omega)
    · intro p' h1 h2; exact hzone p' h1 (by omega)
    · omega
  split at h
  · cases h
  · split at h
    · cases h; exact hwrap
    · split at h
      · cases h; exact hwrap
      · rename_i hnov hnoend
        -- block path: no overlap, no wrap of the source
        have hno : srcIndex R pos dist + i ≤ pos ∨ pos + i ≤ srcIndex R pos dist := by omega
        have hse : srcIndex R pos dist + i ≤ R := by omega
        obtain ⟨u, rfl⟩ : ∃ u, j = pos + u := ⟨j - pos, by omega⟩
        have hu : u < i := by omega
        have href := wrapCopyLoop_block R dist ring pos i (by omega) hdR hno hse i ring 0 (by omega)
          (fun _ _ => rfl) (fun u' hu' => by omega) u hu
        rw [Nat.add_zero] at href
        rw [href]
        split at h
        · rename_i h16
          split at h
          · rename_i h32
            unfold memcpyWithin at h
            split at h
            · split at h
              · cases h
                simp only
                by_cases hu16 : u < 16
                · rw [if_neg (by omega)]; unfold memmove16; rw [if_pos (by omega)]; congr 1; omega
                · rw [if_pos (by omega), memmove16_frame _ _ _ _ (by omega)]; congr 1; omega
              · cases h
            · split at h
              · cases h
                simp only
                by_cases hu16 : u < 16
                · rw [if_neg (by omega)]; unfold memmove16; rw [if_pos (by omega)]; congr 1; omega
                · rw [if_pos (by omega), memmove16_frame _ _ _ _ (by omega)]; congr 1; omega
              · cases h
          · cases h
            by_cases hu16 : u < 16
            · rw [memmove16_frame _ _ _ _ (by omega)]; unfold memmove16; rw [if_pos (by omega)]; congr 1; omega
            · unfold memmove16
              rw [if_pos (by omega), if_neg (by omega)]
              congr 1; omega
        · cases h
          unfold memmove16; rw [if_pos (by omega)]; congr 1; omega

end BV.Dict
