/-
Helper lemmas for C07, part 9: bounded schedules, workers stop after drop, the pool is
reusable after a fully joined batch.
-/
import BV.Lemmas.PoolMeasure

set_option linter.unusedSimpArgs false
set_option linter.unnecessarySimpa false
set_option linter.unusedVariables false

namespace BV.Lemmas.Pool
open BV.Gen BV.FixedQueue BV.Pool BV.Lemmas.FixedQueue

/-- number of thread steps / of spurious wake-ups in a schedule -/
def nRuns : List Choice → Nat
  | [] => 0
  | .run _ :: cs => nRuns cs + 1
  | .spurious _ :: cs => nRuns cs

def nSpur : List Choice → Nat
  | [] => 0
  | .run _ :: cs => nSpur cs
  | .spurious _ :: cs => nSpur cs + 1

theorem sched_bounded {s s' : State} (I : Inv s) (L : InvL s) {cs : List Choice}
    (h : runSched s cs = .ok s') : mu s' + nRuns cs ≤ mu s + 2 * nSpur cs := by
  induction cs generalizing s with
  | nil => simp only [runSched, Except.ok.injEq] at h; subst h; simp [nRuns, nSpur]
  | cons c cs ih =>
    simp only [runSched] at h
    cases hs : step s c with
    | error e => rw [hs] at h; cases h
    | ok s1 =>
      rw [hs] at h
      have := ih (inv_step I hs) (invL_step I L hs) h
      cases c with
      | run t =>
        have := mu_step_run I L hs
        simp only [nRuns, nSpur]; omega
      | spurious t =>
        have := mu_step_spurious hs
        simp only [nRuns, nSpur]; omega

theorem mu_init (n : Nat) (p : List Op) :
    mu (init n p) = (progW p + n + dropW (hasDrop p) n) * (2 * n + 8) + (n + 1) := by
  simp [mu, major, minor, init, wsum_replicate, holdsArc, atB, alive, mW, FixedQueue.new]

/-! ### after `drop` every worker exits within 3 of its own steps -/

/-- upper bound on the number of steps a worker still takes once `immediate_shutdown` is set -/
def stepsToExit : WPc → Nat
  | .exited => 0
  | .atLockA => 1
  | .woken => 2
  | .atLockB _ => 2
  | .atRun _ => 3
  | .waiting => 3

theorem map_wake_eq_self {ws : List WPc} (h : ∀ p, p ∈ ws → p ≠ .waiting) : ws.map WPc.wake = ws := by
  induction ws with
  | nil => rfl
  | cons a t ih =>
    have ha : a.wake = a := by
      have := h a List.mem_cons_self
      cases a <;> simp [WPc.wake] at this ⊢
    simp [ha, ih (fun p hp => h p (List.mem_cons_of_mem _ hp))]

theorem imm_step {s s' : State} {c : Choice} (h : step s c = .ok s')
    (himm : s.immediateShutdown = true) : s'.immediateShutdown = true := by
  apply step_elim h
  case drop =>
    intro rest _ _ _ hs'
    rcases joinFrom_cases ({ s with immediateShutdown := true }.notifyAll) 1 rest true
      (Nat.le_refl _) with ⟨t, _, _, _, _, _, e⟩ | ⟨_, e⟩ <;> rw [hs', e] <;> simp
  case joinW =>
    intro t rest _ _ _ _ hs'
    rcases joinFrom_cases s (t + 1) rest false (by omega) with ⟨t', _, _, _, _, _, e⟩ | ⟨_, e⟩ <;>
      rw [hs', e] <;> simpa using himm
  all_goals (intros; subst_vars; simpa using himm)

/-- with the shutdown flag set, a worker's own step brings it strictly closer to `exited` -/
theorem own_step_after_drop {s s' : State} {i : Nat} (I : Inv s) (L : InvL s)
    (himm : s.immediateShutdown = true) (h : step s (.run (i + 1)) = .ok s') :
    stepsToExit (s'.workers[i]?.getD .exited) < stepsToExit (s.workers[i]?.getD .exited) := by
  have nw : ∀ p, p ∈ s.workers → p ≠ .waiting := fun p hp hw => by
    have := (L.waitW p hp hw).2; rw [himm] at this; cases this
  have hmw := map_wake_eq_self nw
  apply step_elim h
  case exitA =>
    intro j hc hw _ hs'; cases hc
    have hlt : i < s.workers.length := by
      rcases Nat.lt_or_ge i s.workers.length with h | h
      · exact h
      · rw [List.getElem?_eq_none h] at hw; cases hw
    subst hs'; simp only [log_workers, setW_workers, notifyAll_workers, hmw]; rw [hw]; simp [hlt, stepsToExit]
  case pop => intro j _ _ hc _ himm'; cases hc; rw [himm] at himm'; cases himm'
  case exitS => intro j _ hc _ himm'; cases hc; rw [himm] at himm'; cases himm'
  case waitW => intro j _ hc _ himm'; cases hc; rw [himm] at himm'; cases himm'
  case run =>
    intro j jb hc hw hs'; cases hc
    have hlt : i < s.workers.length := by
      rcases Nat.lt_or_ge i s.workers.length with h | h
      · exact h
      · rw [List.getElem?_eq_none h] at hw; cases hw
    subst hs'; simp only [log_workers, setW_workers, notifyAll_workers, hmw]; rw [hw]; simp [hlt, stepsToExit]
  case publish =>
    intro j r results' hc hw _ _ hs'; cases hc
    have hlt : i < s.workers.length := by
      rcases Nat.lt_or_ge i s.workers.length with h | h
      · exact h
      · rw [List.getElem?_eq_none h] at hw; cases hw
    subst hs'; simp only [log_workers, setW_workers, notifyAll_workers, hmw]; rw [hw]; simp [hlt, stepsToExit]
  case wake =>
    intro j hc hw hs'; cases hc
    have hlt : i < s.workers.length := by
      rcases Nat.lt_or_ge i s.workers.length with h | h
      · exact h
      · rw [List.getElem?_eq_none h] at hw; cases hw
    subst hs'; simp only [log_workers, setW_workers, notifyAll_workers, hmw]; rw [hw]; simp [hlt, stepsToExit]
  case spawn => intro _ _ _ hc; cases hc
  case spawnWait => intro _ _ hc; cases hc
  case join => intro _ _ _ _ _ hc; cases hc
  case joinWait => intro _ _ _ _ hc; cases hc
  case unwrap => intro _ hc; cases hc
  case drop => intro _ hc; cases hc
  case joinW => intro _ _ hc; cases hc
  case spurS => intro hc; cases hc
  case spurW => intro _ hc; cases hc

/-- … and nobody else can move it away from `exited` again: any other choice leaves the
worker's pc unchanged -/
theorem other_step_after_drop {s s' : State} {i : Nat} {c : Choice} (L : InvL s)
    (himm : s.immediateShutdown = true) (h : step s c = .ok s') (hne : c ≠ .run (i + 1)) :
    s'.workers[i]? = s.workers[i]? := by
  have nw : ∀ p, p ∈ s.workers → p ≠ .waiting := fun p hp hw => by
    have := (L.waitW p hp hw).2; rw [himm] at this; cases this
  have hmw := map_wake_eq_self nw
  have hset : ∀ (j : Nat) (p' : WPc), c = .run (j + 1) → (s.workers.set j p')[i]? = s.workers[i]? := by
    intro j p' hc
    have : j ≠ i := fun e => hne (by rw [hc, e])
    simp [List.getElem?_set, this]
  apply step_elim h
  case exitA => intro j hc _ _ hs'; subst hs'; simpa using hset j _ hc
  case pop => intro j _ _ _ _ himm'; rw [himm] at himm'; cases himm'
  case exitS => intro j _ _ _ himm'; rw [himm] at himm'; cases himm'
  case waitW => intro j _ _ _ himm'; rw [himm] at himm'; cases himm'
  case run => intro j _ hc _ hs'; subst hs'; simpa using hset j _ hc
  case publish => intro j _ _ hc _ _ _ hs'; subst hs'; simpa [hmw] using hset j _ hc
  case wake => intro j hc _ hs'; subst hs'; simpa using hset j _ hc
  case spawn => intro _ _ _ _ _ _ _ _ hs'; subst hs'; simp [hmw]
  case spawnWait => intro _ _ _ _ _ _ hs'; subst hs'; simp
  case join => intro _ _ _ _ _ _ _ _ _ _ hs'; subst hs'; simp
  case joinWait => intro _ _ _ _ _ _ _ _ _ hs'; subst hs'; simp
  case unwrap => intro _ _ _ _ hs'; subst hs'; simp
  case drop =>
    intro rest _ _ _ hs'
    rcases joinFrom_cases ({ s with immediateShutdown := true }.notifyAll) 1 rest true
      (Nat.le_refl _) with ⟨t, _, _, _, _, _, e⟩ | ⟨_, e⟩ <;> rw [hs', e] <;> simp [hmw]
  case joinW =>
    intro t rest _ _ _ _ hs'
    rcases joinFrom_cases s (t + 1) rest false (by omega) with ⟨t', _, _, _, _, _, e⟩ | ⟨_, e⟩ <;>
      rw [hs', e] <;> simp
  case spurS => intro _ _ hs'; subst hs'; simp
  case spurW =>
    intro tid _ _ hw _
    exact absurd rfl (nw _ (List.mem_iff_getElem?.mpr ⟨_, hw⟩))

/-! ### reusable -/

theorem slot_surj (start : Nat) (x : Fin MAX_THREADS) :
    ∃ i, i < MAX_THREADS ∧ slot (start + i) = x := by
  have hM := max_threads_pos
  have hx := x.isLt
  have hr : start % MAX_THREADS < MAX_THREADS := Nat.mod_lt _ hM
  have hdm := Nat.div_add_mod start MAX_THREADS
  by_cases c : start % MAX_THREADS ≤ x.val
  · refine ⟨x.val - start % MAX_THREADS, by omega, ?_⟩
    apply Fin.ext
    show (start + (x.val - start % MAX_THREADS)) % MAX_THREADS = x.val
    have : start + (x.val - start % MAX_THREADS) = MAX_THREADS * (start / MAX_THREADS) + x.val := by omega
    rw [this, Nat.mul_add_mod, Nat.mod_eq_of_lt hx]
  · refine ⟨x.val + MAX_THREADS - start % MAX_THREADS, by omega, ?_⟩
    apply Fin.ext
    show (start + (x.val + MAX_THREADS - start % MAX_THREADS)) % MAX_THREADS = x.val
    have : start + (x.val + MAX_THREADS - start % MAX_THREADS)
        = MAX_THREADS * (start / MAX_THREADS + 1) + x.val := by
      rw [Nat.mul_add, Nat.mul_one]; omega
    rw [this, Nat.mul_add_mod, Nat.mod_eq_of_lt hx]

/-- an empty well-formed queue is a fresh queue, up to its `start` counter -/
theorem empty_queue_eq_new {α : Type} {q : FixedQueue α} (w : WF q) (h : q.size = 0) :
    q = { (new : FixedQueue α) with start := q.start } := by
  obtain ⟨data, size, start⟩ := q
  simp only at h
  subst h
  simp only [new, FixedQueue.mk.injEq, and_true]
  apply Vector.ext
  intro i hi
  obtain ⟨k, hk, hs⟩ := slot_surj start ⟨i, hi⟩
  have := w.empty k (Nat.zero_le _) hk
  simp only [FixedQueue.at, hs] at this
  rw [Vector.getElem_replicate]
  exact this

/-- when every spawned job has been joined nothing is queued, running or pending -/
theorem idle_of_all_joined {s : State} (I : Inv s)
    (hall : ∀ id, id < s.curWorkId → id ∈ joinedIds s.hist) :
    s.jobs.size = 0 ∧ s.results.size = 0 ∧ s.numInProgress = 0 ∧
    ∀ w, w ∈ s.workers → busy w = 0 := by
  have key : ∀ id, cntJ id s.jobs.items + wsum (hasId id) s.workers + cntR id s.results.items = 0 := by
    intro id
    have h1 := I.part id
    by_cases c : id < s.curWorkId
    · have : 0 < (joinedIds s.hist).count id := List.count_pos_iff.mpr (hall id c)
      have := below_le id s.curWorkId
      omega
    · have := below_of_ge (Nat.le_of_not_lt c)
      omega
  have hj : s.jobs.size = 0 := by
    rw [← I.wfJ.length_items]
    cases hi : s.jobs.items with
    | nil => rfl
    | cons a t =>
      have := key a.workId
      rw [hi, cntJ_cons, eqInd_self] at this
      omega
  have hr : s.results.size = 0 := by
    rw [← I.wfR.length_items]
    cases hi : s.results.items with
    | nil => rfl
    | cons a t =>
      have := key a.workId
      rw [hi, cntR_cons, eqInd_self] at this
      omega
  have hb : ∀ w, w ∈ s.workers → busy w = 0 := by
    intro q hq
    obtain ⟨i, hi⟩ := List.mem_iff_getElem?.mp hq
    cases q with
    | atRun j =>
      have h1 := wsum_pos_of_mem (hasId j.workId) hi
      simp only [hasId, eqInd_self] at h1
      have := key j.workId
      omega
    | atLockB r =>
      have h1 := wsum_pos_of_mem (hasId r.workId) hi
      simp only [hasId, eqInd_self] at h1
      have := key r.workId
      omega
    | _ => rfl
  refine ⟨hj, hr, ?_, hb⟩
  have := I.total
  have hlen : (joinedIds s.hist).length ≤ s.curWorkId := by omega
  have := I.nip
  have hz : ∀ (ws : List WPc), (∀ q, q ∈ ws → busy q = 0) → wsum busy ws = 0 := by
    intro ws hq
    induction ws with
    | nil => rfl
    | cons a t ih =>
      simp only [wsum_cons, hq a List.mem_cons_self,
        ih (fun q hq' => hq q (List.mem_cons_of_mem _ hq'))]
  rw [hz _ hb] at this
  exact this

end BV.Lemmas.Pool
