import BV.Lemmas.StreamSchedMd
/-
Schedule independence (C05), part 5: runs of an EMIT_METADATA request under arbitrary output
schedules walk along the trajectory of `ustepM`; two complete runs end in the same configuration.
-/
namespace BV.Stream
open BV.Bits

/-- the abstract step that completes a metadata block: back to PROCESSING -/
def DoneStep (a a' : Abs) : Prop := a.s.streamState ≠ .processing ∧ a'.s.streamState = .processing

/-- `n` steps of the abstract metadata machine, none of which completes the block -/
inductive MPath (o : Oracle) : Abs → Nat → Abs → Prop
  | nil (a : Abs) : MPath o a 0 a
  | cons {a a1 b : Abs} {n : Nat} : ustepM o a = some a1 → ¬ DoneStep a a1 → MPath o a1 n b → MPath o a (n + 1) b

theorem MPath.append {o : Oracle} {a b c : Abs} {n m : Nat} (h1 : MPath o a n b) (h2 : MPath o b m c) :
    MPath o a (n + m) c := by
  induction h1 with
  | nil _ => simpa using h2
  | @cons a a1 b n hs hf _ ih =>
    have : n + 1 + m = (n + m) + 1 := by omega
    rw [this]
    exact .cons hs hf (ih h2)

theorem MPath.snoc {o : Oracle} {a b c : Abs} {n : Nat} (h1 : MPath o a n b) (hs : ustepM o b = some c)
    (hf : ¬ DoneStep b c) : MPath o a (n + 1) c :=
  h1.append (.cons hs hf (.nil _))

theorem mpath_det {o : Oracle} {a b b' : Abs} {n : Nat} (h1 : MPath o a n b) (h2 : MPath o a n b') : b = b' := by
  induction h1 with
  | nil _ => cases h2; rfl
  | cons hs _ _ ih =>
    cases h2 with
    | cons hs' _ h2' =>
      rw [hs] at hs'
      cases hs'
      exact ih h2'

theorem mpath_split {o : Oracle} {a b c : Abs} {n m : Nat} (h1 : MPath o a n b) (h2 : MPath o a (n + m) c) :
    MPath o b m c := by
  induction h1 with
  | nil _ => simpa using h2
  | @cons a a1 b n hs _ _ ih =>
    have : n + 1 + m = (n + m) + 1 := by omega
    rw [this] at h2
    cases h2 with
    | cons hs' _ h2' =>
      rw [hs] at hs'
      cases hs'
      exact ih h2'

/-- where a run of a metadata request stands on the trajectory from `a`: before the completion of
the block (`false`), or exactly one step past that part, the step having completed the block (`true`) -/
def RPathM (o : Oracle) (a b : Abs) : Bool → Prop
  | false => ∃ n, MPath o a n b
  | true => ∃ n x, MPath o a n x ∧ ustepM o x = some b ∧ DoneStep x b

/-- **confluence**: two runs that have both completed the block stand at the same configuration -/
theorem rpathM_done_eq {o : Oracle} {a b1 b2 : Abs} (h1 : RPathM o a b1 true) (h2 : RPathM o a b2 true) : b1 = b2 := by
  have key : ∀ (n : Nat) (x y : Abs), MPath o a n x → ustepM o x = some y → DoneStep x y →
      ∀ (m : Nat) (c : Abs), MPath o a m c → m ≤ n := by
    intro n x y hx hs hf m c hc
    by_cases hle : m ≤ n
    · exact hle
    · exfalso
      have hm : m = n + (m - n - 1 + 1) := by omega
      rw [hm] at hc
      have := mpath_split hx hc
      cases this with
      | cons hs' hnf _ =>
        rw [hs] at hs'
        cases hs'
        exact hnf hf
  obtain ⟨n1, x1, p1, s1, fl1⟩ := h1
  obtain ⟨n2, x2, p2, s2, fl2⟩ := h2
  have l1 := key n1 x1 b1 p1 s1 fl1 n2 x2 p2
  have l2 := key n2 x2 b2 p2 s2 fl2 n1 x1 p1
  have : n1 = n2 := by omega
  subst this
  have := mpath_det p1 p2
  subst this
  rw [s1] at s2
  cases s2
  rfl

/-! ### the loop -/

theorem mdLoop_rpath {o : Oracle} {n : Nat} (del : Bytes) (a : Abs) :
    ∀ fuel s io s' io' r, MdInv n s io → HintSettled s → BodyFlushed s → io.availIn = io.input.length →
      (∃ k, MPath o a k (absM s io del)) →
      processMetadataLoop o fuel s io = .ok (s', io', r) →
      RPathM o a (absM s' io' del) (decide (s'.streamState = .processing))
      ∧ HintSettled s' ∧ BodyFlushed s' ∧ io'.availIn = io'.input.length
      ∧ (s'.streamState = .processing → s'.pending = [])
      ∧ (s'.streamState = .processing ∨ s'.streamState = .metadataHead ∨ s'.streamState = .metadataBody) := by
  intro fuel
  induction fuel with
  | zero => intro s io s' io' r _ _ _ _ _ h; simp [processMetadataLoop] at h
  | succ k ih =>
    intro s io s' io' r hP hj hk hin hpath h
    have hnfl : s.streamState ≠ .flushRequested := by rcases hP.st with h1 | h1 <;> rw [h1] <;> simp
    have hnpr : s.streamState ≠ .processing := by rcases hP.st with h1 | h1 <;> rw [h1] <;> simp
    unfold processMetadataLoop at h
    split at h
    · simp at h
    · simp at h
    · rename_i s1 io1 hs
      exact absurd rfl (mdStep_spec hP hs).1
    · rename_i s1 io1 hs
      rcases (mdStep_spec hP hs).2 with hP1 | ⟨hc, _⟩
      · rcases mdStep_steps hP hs with ⟨e, he⟩ | ⟨hc, _⟩
        · obtain ⟨hcase, hj1, hk1, hin1, _⟩ := step_absM he hnfl hj hk hin del
          have hnpr1 : s1.streamState ≠ .processing := by rcases hP1.st with h1 | h1 <;> rw [h1] <;> simp
          refine ih _ _ _ _ _ hP1 hj1 hk1 hin1 ?_ h
          obtain ⟨m, hm⟩ := hpath
          rcases hcase with heq | hu
          · exact ⟨m, heq ▸ hm⟩
          · exact ⟨m + 1, hm.snoc hu (fun hd => hnpr1 (by rw [← absM_state s1 io1 del]; exact hd.2))⟩
        · cases hc
      · cases hc
    · rename_i s1 io1 hs
      simp only [Out.ok.injEq, Prod.mk.injEq] at h
      obtain ⟨rfl, rfl, rfl⟩ := h
      obtain ⟨m, hm⟩ := hpath
      have hst3 : s1.streamState = .processing ∨ s1.streamState = .metadataHead ∨ s1.streamState = .metadataBody := by
        rcases (mdStep_spec hP hs).2 with hP1 | ⟨_, hD⟩
        · exact Or.inr hP1.st
        · exact Or.inl hD.2.2.1
      rcases mdStep_steps hP hs with ⟨e, he⟩ | ⟨_, rfl, rfl⟩
      · obtain ⟨hcase, hj1, hk1, hin1, hpe⟩ := step_absM he hnfl hj hk hin del
        refine ⟨?_, hj1, hk1, hin1, fun hh => hpe hnpr hh, hst3⟩
        by_cases hp : s1.streamState = .processing
        · rw [decide_eq_true hp]
          rcases hcase with heq | hu
          · exfalso
            have := congrArg (fun x => x.s.streamState) heq
            simp only [absM_state] at this
            exact hnpr (this ▸ hp)
          · exact ⟨m, _, hm, hu, by rw [absM_state]; exact hnpr, by rw [absM_state]; exact hp⟩
        · rw [decide_eq_false hp]
          rcases hcase with heq | hu
          · exact ⟨m, heq ▸ hm⟩
          · exact ⟨m + 1, hm.snoc hu (fun hd => hp (by rw [← absM_state s1 io1 del]; exact hd.2))⟩
      · refine ⟨?_, hj, hk, hin, fun hh => absurd hh hnpr, hst3⟩
        rw [decide_eq_false hnpr]
        exact ⟨m, hm⟩

/-! ### calls and `take_output` between the calls -/

/-- the abstract configuration of a metadata request between two calls -/
def absRM (s : St) (rem del : Bytes) : Abs := absM s (Io.start rem 0) del

/-- what holds of the encoder between two calls of an EMIT_METADATA request -/
structure BndM (s : St) (rem : Bytes) : Prop where
  inv : IsFresh s ∨ Inv s
  st : s.streamState = .processing ∨ s.streamState = .metadataHead ∨ s.streamState = .metadataBody
  settled : HintSettled s
  flushed : BodyFlushed s
  wrap : s.inputPos + rem.length < two64

theorem absM_start (s : St) (rem : Bytes) (cap : Nat) (del : Bytes) : absM s (Io.start rem cap) del = absRM s rem del := by
  simp [absRM, absM, absOf, Io.start]

theorem absM_end (s : St) (io : Io) (del : Bytes) (hin : io.availIn = io.input.length) :
    absM s io del = absRM s io.input (del ++ io.out) := by
  simp [absRM, absM, absOf, Io.start, hin]

theorem absRM_of_core {s1 s2 : St} {del1 del2 : Bytes} (rem : Bytes) (hc : core s1 = core s2)
    (ho : del1 ++ s1.pending = del2 ++ s2.pending) : absRM s1 rem del1 = absRM s2 rem del2 := by
  have hs : s1.streamState = s2.streamState := (core_eq_iff.mp hc).2.2.2.2.2.2.2.1
  unfold absRM absM
  rw [hs]
  split
  · simp only [Io.start, List.append_nil, hc, Abs.mk.injEq, true_and, and_true, List.append_cancel_right_eq]
    exact ho
  · simp only [absOf, Io.start, List.append_nil, hc, ho]

/-- **one accepted call of a metadata request**, on normalised abstract configurations -/
theorem call_absM {o : Oracle} {fuel cap : Nat} {rem del : Bytes} {s s' : St} {io' : Io}
    (hB : BndM s rem) (h : compressStream o fuel s 3 rem cap = .ok (s', io', true)) :
    RPathM o (absRM s rem del) (absRM s' io'.input (del ++ io'.out)) (callDone 3 s') ∧ BndM s' io'.input
    ∧ (callDone 3 s' = true → s'.pending = [] ∧ s'.streamState = .processing) := by
  -- reduce to an initialised start state `si`
  have red : ∃ si, Inv si ∧ (∃ k, MPath o (absRM s rem del) k (absRM si rem del))
      ∧ compressStream o fuel si 3 rem cap = .ok (s', io', true) ∧ si.inputPos + rem.length < two64
      ∧ HintSettled si ∧ BodyFlushed si ∧ si.streamState ≠ .flushRequested := by
    rcases hB.inv with hf | hI
    · have hIe := (inv_fresh hf).1
      have hinit : Step o 3 (s, Io.start rem cap) (.window (ensureInitialized s).carry) (ensureInitialized s, Io.start rem cap) :=
        Step.init hf
      have hpr : s.streamState = .processing := by obtain ⟨p, rfl⟩ := hf; rfl
      have hpr' : (ensureInitialized s).streamState = .processing := by
        obtain ⟨p, rfl⟩ := hf; simp [ensureInitialized, St.new]
      obtain ⟨hcase, hj1, hk1, _, _⟩ := step_absM hinit (by rw [hpr]; simp) hB.settled hB.flushed rfl del
      refine ⟨ensureInitialized s, hIe, ?_, by rw [← compressStream_ensure]; exact h, ?_, hj1, hk1, by rw [hpr']; simp⟩
      · rw [absM_start, absM_start] at hcase
        rcases hcase with heq | hu
        · exact ⟨0, heq ▸ .nil _⟩
        · refine ⟨1, .cons hu ?_ (.nil _)⟩
          intro hd
          apply hd.1
          show (absRM s rem del).s.streamState = .processing
          unfold absRM; rw [absM_state]; exact hpr
      · obtain ⟨p, rfl⟩ := hf
        have : (ensureInitialized { St.new with params := p }).inputPos = 0 := by simp [ensureInitialized, St.new]
        rw [this]; have := hB.wrap; simp [St.new] at this; omega
    · refine ⟨s, hI, ⟨0, .nil _⟩, h, hB.wrap, hB.settled, hB.flushed, ?_⟩
      rcases hB.st with h1 | h1 | h1 <;> rw [h1] <;> simp
  obtain ⟨si, hI, hp0, hcall, hw, hj, hk, hnfl⟩ := red
  obtain ⟨evs, hsteps⟩ := call_steps (by omega) hI hw hcall
  have hsum := steps_sum hsteps
  simp only [Io.start] at hsum
  have hI' := ((compressStream_refines (by omega) hI hw hcall).2 rfl).1
  -- open the call
  have hcall' := hcall
  unfold compressStream at hcall'
  rw [ensureInitialized_id hI.init] at hcall'
  simp only at hcall'
  split at hcall'
  · simp at hcall'
  · rename_i hg
    simp only [↓reduceIte] at hcall'
    have hIu := inv_updateSizeHint hI 0
    obtain ⟨_, _, _, _, _, _, u7, _, u9, _⟩ := updateSizeHint_fields si 0
    unfold processMetadata at hcall'
    split at hcall'
    · simp at hcall'
    · rename_i hle
      split at hcall'
      · simp at hcall'
      · rename_i hgood
        have hle' : rem.length ≤ 16777216 := by simpa using hle
        have hentry : (si.remainingMetadata ≠ u32Max ∧ rem.length = si.remainingMetadata) ∨
            (si.remainingMetadata = u32Max ∧ si.streamState = .processing ∧ rem.length ≤ 16777216) := by
          by_cases hrm : si.remainingMetadata = u32Max
          · refine Or.inr ⟨hrm, ?_, hle'⟩
            by_cases hpr : si.streamState = .processing
            · exact hpr
            · exfalso
              have hme : mdEnter (updateSizeHint si 0) rem.length = updateSizeHint si 0 := by
                unfold mdEnter; rw [if_neg (by rw [u9]; exact hpr)]
              simp only at hgood
              rw [hme, u9] at hgood
              apply hgood
              constructor
              · intro hh; exact absurd hrm (hI.mdIff.mp (Or.inl hh))
              · intro hh; exact absurd hrm (hI.mdIff.mp (Or.inr hh))
          · refine Or.inl ⟨hrm, ?_⟩
            by_cases hne : rem.length = si.remainingMetadata
            · exact hne
            · exact absurd ⟨hrm, Or.inl hne⟩ hg
        have hentryU : ((updateSizeHint si 0).remainingMetadata ≠ u32Max ∧ rem.length = (updateSizeHint si 0).remainingMetadata) ∨
            ((updateSizeHint si 0).remainingMetadata = u32Max ∧ (updateSizeHint si 0).streamState = .processing ∧ rem.length ≤ 16777216) := by
          rw [u7, u9]; exact hentry
        have hP := mdInv_enter (io := { input := rem, availIn := rem.length, availOut := cap }) hIu hentryU
        have hent : Step o 3 (si, Io.start rem cap) (.tau 2) (mdEnter (updateSizeHint si 0) rem.length, Io.start rem cap) :=
          Step.mdEnter (io := Io.start rem cap) hI rfl hentry
        obtain ⟨hcase, hj1, hk1, hin1, _⟩ := step_absM hent hnfl hj hk rfl del
        have hnpr1 : (mdEnter (updateSizeHint si 0) rem.length).streamState ≠ .processing := by
          rcases hP.st with h1 | h1 <;> rw [h1] <;> simp
        have hpath1 : ∃ k, MPath o (absRM s rem del) k (absM (mdEnter (updateSizeHint si 0) rem.length) (Io.start rem cap) del) := by
          obtain ⟨m, hm⟩ := hp0
          rw [← absM_start si rem cap del] at hm
          rcases hcase with heq | hu
          · exact ⟨m, heq ▸ hm⟩
          · exact ⟨m + 1, hm.snoc hu (fun hd => hnpr1 (by rw [← absM_state _ (Io.start rem cap) del]; exact hd.2))⟩
        obtain ⟨hR, hj', hk', hin', hpe, hst3⟩ := mdLoop_rpath del (absRM s rem del) fuel _ _ s' io' true hP hj1 hk1 hin1 hpath1 hcall'
        have hcd : callDone 3 s' = decide (s'.streamState = .processing) := by
          unfold callDone
          by_cases hp : s'.streamState = .processing
          · simp [hp, hpe hp]
          · simp [hp]
        rw [hcd, ← absM_end s' io' del hin']
        refine ⟨hR, ⟨Or.inr hI', hst3, hj', hk', by omega⟩, ?_⟩
        intro hd
        have hp : s'.streamState = .processing := by simpa using hd
        exact ⟨hpe hp, hp⟩

/-- **`take_output` inside a metadata request**, on normalised abstract configurations: nothing changes -/
theorem take_absM {size : Nat} {rem del out : Bytes} {s s' : St}
    (hB : BndM s rem) (h : takeOutput s size = .ok (s', out)) :
    absRM s' rem (del ++ out) = absRM s rem del ∧ BndM s' rem ∧ takeDone s s' = false
    ∧ s'.streamState = s.streamState ∧ (s.pending = [] → s'.pending = []) := by
  have hnfl : s.streamState ≠ .flushRequested := by rcases hB.st with h1 | h1 | h1 <;> rw [h1] <;> simp
  have htd : ∀ t : St, takeDone s t = false := by
    intro t; unfold takeDone; simp [hnfl]
  rcases hB.inv with hf | hI
  · obtain ⟨_, hp, _, hno, _⟩ := isFresh_fields hf
    have : takeOutput s size = .ok (s, []) := by
      unfold takeOutput takeSliceOk takeCount
      rw [hno, hp]
      simp
    rw [this] at h
    simp only [Out.ok.injEq, Prod.mk.injEq] at h
    obtain ⟨rfl, rfl⟩ := h
    exact ⟨by rw [List.append_nil], hB, htd _, rfl, fun hh => hh⟩
  · obtain ⟨hI', _, _, _⟩ := takeOutput_spec hI h
    unfold takeOutput at h
    split at h
    · simp at h
    · split at h
      · simp only [Out.ok.injEq, Prod.mk.injEq] at h
        obtain ⟨rfl, rfl⟩ := h
        generalize takeCount s size = c at *
        have hid : checkFlushComplete (takeAdvance s c) = takeAdvance s c := by
          unfold checkFlushComplete
          rw [if_neg (fun hh => hnfl hh.1)]
        rw [hid] at hI' ⊢
        refine ⟨?_, ⟨Or.inr hI', hB.st, hB.settled, hB.flushed, hB.wrap⟩, htd _, rfl, ?_⟩
        · have e1 : (takeAdvance s c).streamState = s.streamState := rfl
          unfold absRM absM
          rw [e1]
          split <;> simp [absOf, Io.start, takeAdvance, core, List.append_assoc]
        · intro hh
          show s.pending.drop c = []
          rw [hh]; exact List.drop_nil
      · simp only [Out.ok.injEq, Prod.mk.injEq] at h
        obtain ⟨rfl, rfl⟩ := h
        exact ⟨by rw [List.append_nil], hB, htd _, rfl, fun hh => hh⟩

/-- **every run of a metadata request walks along the trajectory of `ustepM`** -/
theorem drive_rpathM {o : Oracle} {fuel : Nat} (a : Abs) :
    ∀ (sched : List SchedStep) (s : St) (rem del : Bytes) (d : Bool) (s' : St) (rem' del' : Bytes) (d' : Bool),
      BndM s rem → RPathM o a (absRM s rem del) d → (d = true → s.pending = [] ∧ s.streamState = .processing) →
      driveReq o fuel 3 sched s rem del d = some (s', rem', del', d') →
      RPathM o a (absRM s' rem' del') d' ∧ BndM s' rem' ∧ (d' = true → s'.pending = [] ∧ s'.streamState = .processing) := by
  intro sched
  induction sched with
  | nil =>
    intro s rem del d s' rem' del' d' hB hR hd h
    simp only [driveReq, Option.some.injEq, Prod.mk.injEq] at h
    obtain ⟨rfl, rfl, rfl, rfl⟩ := h
    exact ⟨hR, hB, hd⟩
  | cons st rest ih =>
    intro s rem del d s' rem' del' d' hB hR hd h
    cases st with
    | call cap =>
      simp only [driveReq] at h
      cases d with
      | true => simp at h
      | false =>
        simp only [Bool.false_eq_true, ↓reduceIte] at h
        split at h
        · rename_i s1 io1 hcall
          obtain ⟨r1, b1, c1⟩ := call_absM (del := del) hB hcall
          obtain ⟨n0, p0⟩ := hR
          have hR1 : RPathM o a (absRM s1 io1.input (del ++ io1.out)) (callDone 3 s1) := by
            cases hcd : callDone 3 s1
            · rw [hcd] at r1
              obtain ⟨n1, p1⟩ := r1
              exact ⟨n0 + n1, p0.append p1⟩
            · rw [hcd] at r1
              obtain ⟨n1, x, p1, u1, f1⟩ := r1
              exact ⟨n0 + n1, x, p0.append p1, u1, f1⟩
          exact ih _ _ _ _ _ _ _ _ b1 hR1 c1 h
        all_goals simp at h
    | take size =>
      simp only [driveReq] at h
      split at h
      · rename_i s1 out htake
        obtain ⟨heq, b1, htd, hst1, hp1⟩ := take_absM (del := del) hB htake
        rw [htd, Bool.or_false] at h
        refine ih _ _ _ _ _ _ _ _ b1 (heq ▸ hR) (fun hh => ?_) h
        obtain ⟨q1, q2⟩ := hd hh
        exact ⟨hp1 q1, hst1.trans q2⟩
      all_goals simp at h

/-- a fresh encoder is at a call boundary of a metadata request -/
theorem bndM_fresh {s : St} {chunk : Bytes} (hf : IsFresh s) (hw : chunk.length < two64) : BndM s chunk := by
  obtain ⟨p, rfl⟩ := hf
  refine ⟨Or.inl ⟨p, rfl⟩, Or.inl rfl, fun hh => absurd rfl hh, (fun hh => by cases hh), ?_⟩
  simp [St.new]; exact hw

/-- at a boundary of a PROCESS / FLUSH / FINISH request that is back in PROCESSING, a metadata
request may start -/
theorem bndM_of_processing {s : St} {chunk : Bytes} (hI : IsFresh s ∨ Inv s) (hst : s.streamState = .processing)
    (hw : s.inputPos + chunk.length < two64) : BndM s chunk :=
  ⟨hI, Or.inl hst, fun hh => absurd hst hh, (fun hh => by rw [hst] at hh; cases hh), hw⟩

end BV.Stream
