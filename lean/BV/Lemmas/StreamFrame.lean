import BV.Lemmas.StreamMdVerbatim
/-
The emitted bit stream: `bits(delivered bytes ++ pending bytes) ++ carry`.  Packing lemmas and
what each primitive appends to it.
-/
namespace BV.Stream
open BV.Bits

theorem bitsOf_valOf (bs : List Bool) : bitsOf bs.length (valOf bs) = bs := by
  induction bs with
  | nil => rfl
  | cons b t ih =>
    simp only [List.length_cons, bitsOf, valOf]
    cases b
    · simp only [Bool.false_eq_true, ↓reduceIte, Nat.zero_add, Nat.mul_mod_right]
      rw [Nat.mul_div_cancel_left _ (by omega : 0 < 2), ih]
      simp
    · simp only [↓reduceIte]
      have h1 : (1 + 2 * valOf t) % 2 = 1 := by omega
      have h2 : (1 + 2 * valOf t) / 2 = valOf t := by omega
      rw [h1, h2, ih]
      simp

theorem valOf_lt (bs : List Bool) : valOf bs < 2 ^ bs.length := by
  induction bs with
  | nil => simp [valOf]
  | cons b t ih =>
    simp only [valOf, List.length_cons, Nat.pow_succ]
    cases b <;> simp <;> omega

/-- eight bits make the byte they came from -/
theorem bitsOf_byteOf (bs : List Bool) (h : 8 ≤ bs.length) : bitsOf 8 (byteOf bs) = bs.take 8 := by
  unfold byteOf
  have hl : (bs.take 8).length = 8 := by rw [List.length_take]; omega
  have := bitsOf_valOf (bs.take 8)
  rw [hl] at this
  exact this

theorem packBytes_whole : ∀ (q k : Nat) (w : List Bool), 8 * q ≤ w.length → w.length ≤ k →
    bytesBits ((packBytes k w).take q) = w.take (8 * q) := by
  intro q
  induction q with
  | zero => intro k w _ _; simp [bytesBits]
  | succ q ih =>
    intro k w h1 h2
    match k, w with
    | 0, w => simp at h2; subst h2; simp at h1
    | k + 1, [] => simp at h1
    | k + 1, b :: bs =>
      simp only [packBytes, List.take_succ_cons, bytesBits]
      have hlen : 8 ≤ (b :: bs).length := by omega
      rw [bitsOf_byteOf (b :: bs) hlen]
      have hd : 8 * q ≤ ((b :: bs).drop 8).length := by rw [List.length_drop]; simp only [List.length_cons] at h1 ⊢; omega
      have hk : ((b :: bs).drop 8).length ≤ k := by rw [List.length_drop]; simp only [List.length_cons] at h2 ⊢; omega
      rw [ih k ((b :: bs).drop 8) hd hk]
      rw [← List.take_add]
      congr 1
      omega

/-- the whole bytes of a bit string are its first `8 * (len / 8)` bits -/
theorem bytesBits_wholeBytes (w : Writer) : bytesBits (wholeBytes w) = w.take (8 * (w.length / 8)) := by
  unfold wholeBytes toBytes
  exact packBytes_whole (w.length / 8) w.length w (by omega) (Nat.le_refl _)

/-- **carry lemma**: whole bytes followed by the carry is the bit string itself — storing the
tail in `last_bytes_` / `last_bytes_bits_` neither drops nor duplicates a bit -/
theorem pack_unpack (w : Writer) :
    bytesBits (wholeBytes w) ++ bitsOf (carryOf w).2 (carryOf w).1 = w := by
  rw [bytesBits_wholeBytes]
  unfold carryOf
  simp only
  have hl : (w.drop (8 * (w.length / 8))).length = w.length % 8 := by
    rw [List.length_drop]; omega
  have := bitsOf_valOf (w.drop (8 * (w.length / 8)))
  rw [hl] at this
  rw [this, List.take_append_drop]

theorem carryOf_lt (w : Writer) : (carryOf w).1 < 2 ^ (carryOf w).2 ∧ (carryOf w).2 < 8 := by
  unfold carryOf
  simp only
  have hl : (w.drop (8 * (w.length / 8))).length = w.length % 8 := by
    rw [List.length_drop]; omega
  have := valOf_lt (w.drop (8 * (w.length / 8)))
  rw [hl] at this
  exact ⟨this, Nat.mod_lt _ (by omega)⟩

/-- a byte-aligned bit string is the bits of its bytes -/
theorem bytesBits_toBytes (w : Writer) (h : w.length % 8 = 0) : bytesBits (toBytes w) = w := by
  have hq : 8 * (w.length / 8) = w.length := by omega
  have h1 := packBytes_whole (w.length / 8) w.length w (by omega) (Nat.le_refl _)
  -- all bytes of `toBytes w` are whole bytes
  have hlen : ∀ (k : Nat) (v : List Bool), v.length ≤ k → (packBytes k v).length = (v.length + 7) / 8 := by
    intro k
    induction k with
    | zero => intro v hv; simp at hv; subst hv; rfl
    | succ k ih =>
      intro v hv
      match v with
      | [] => rfl
      | b :: bs =>
        simp only [packBytes, List.length_cons]
        rw [ih _ (by rw [List.length_drop]; simp only [List.length_cons] at hv ⊢; omega)]
        rw [List.length_drop]
        simp only [List.length_cons]
        omega
  have hl := hlen w.length w (Nat.le_refl _)
  have : (toBytes w).take (w.length / 8) = toBytes w := by
    apply List.take_of_length_le
    unfold toBytes
    rw [hl]; omega
  unfold toBytes at this ⊢
  rw [this] at h1
  rw [h1, hq, List.take_of_length_le (Nat.le_refl _)]

/-- the emitted bit stream of a state, given the bytes already handed to the caller -/
def emitted (delivered : Bytes) (s : St) : List Bool := bytesBits (delivered ++ s.pending) ++ s.carry

/-- the carry is a proper `lbb`-bit value -/
def CarryOK (s : St) : Prop := s.lastBytes < 2 ^ s.lastBytesBits

theorem emitted_congr {d : Bytes} {s t : St} (h1 : t.pending = s.pending) (h2 : t.lastBytes = s.lastBytes)
    (h3 : t.lastBytesBits = s.lastBytesBits) : emitted d t = emitted d s := by
  unfold emitted St.carry
  rw [h1, h2, h3]

/-- handing bytes to the caller does not change the emitted stream -/
theorem emitted_push {d : Bytes} {s s' : St} {io io' : Io} {b : Bool} (hst : s.streamState ≠ .flushRequested)
    (h : injectFlushOrPushOutput s io = .ok (s', io', b)) :
    emitted (d ++ io'.out) s' = emitted (d ++ io.out) s := by
  obtain ⟨c1, _, _, c4, c5, _⟩ := push_conserve hst h
  unfold emitted St.carry
  rw [c4, c5, List.append_assoc, c1, List.append_assoc]

/-- the padding block appends the six sync bits and zero fill behind the carry (carry < 8 bits;
the 14-bit large-window header carry is `sync_block_bits_large`) -/
theorem emitted_pad {d : Bytes} {s s' : St} (hc : s.lastBytesBits < 8) (hv : CarryOK s)
    (h : injectBytePaddingBlock s = .ok s') :
    emitted d s' = emitted d s ++ syncBits ++ List.replicate (8 * ((s.lastBytesBits + 6 + 7) / 8) - s.lastBytesBits - 6) false
    ∧ s'.lastBytesBits = 0 ∧ s'.lastBytes = 0 := by
  have hp := pad_pending h
  have hz : s'.lastBytesBits = 0 ∧ s'.lastBytes = 0 := by
    obtain ⟨nx, rfl⟩ := pad_result h
    exact ⟨rfl, rfl⟩
  refine ⟨?_, hz⟩
  have hlb' : s.lastBytes < 128 := Nat.lt_of_lt_of_le hv (by
    have : 2 ^ s.lastBytesBits ≤ 2 ^ 7 := Nat.pow_le_pow_right (by omega) (by omega)
    simpa using this)
  have hsync := syncOk_small ⟨s.lastBytesBits, hc⟩ ⟨s.lastBytes, hlb'⟩ hv
  simp only [syncOk, beq_iff_eq] at hsync
  unfold emitted St.carry
  rw [hp, hz.1, hz.2, ← List.append_assoc, bytesBits_append, hsync, bytesBits_append]
  simp [bitsOf, List.append_assoc]

/-- what the last part of `encode_data` appends: the payload encoder's bits behind the bits the
skeleton wrote itself (`w = carry ++ predicted`), or nothing when it only hands out the header -/
theorem emitted_encPayload {d : Bytes} {s s' : St} {ans : Ans} {w0 w : Writer} {hdr : Nat} {il ff res : Bool}
    (h : encPayload s ans w0 w hdr il ff = .ok (s', res))
    (hpend : s.pending = [])
    (hw : (hdr = w.length / 8 ∧ s.lastBytes = (carryOf w).1 ∧ s.lastBytesBits = (carryOf w).2) ∨
          (hdr = 0 ∧ w = s.carry ∧ s.lastBytesBits < 8)) :
    emitted d s' = bytesBits d ++ w ∨
    emitted d s' = bytesBits d ++ w ++ ans.bits.drop (w.drop w0.length).length := by
  have hhead : ∀ t : St, t.pending = (wholeBytes w).take hdr → t.lastBytes = s.lastBytes → t.lastBytesBits = s.lastBytesBits →
      emitted d t = bytesBits d ++ w := by
    intro t h1 h2 h3
    unfold emitted St.carry
    rw [h1, h2, h3, bytesBits_append, List.append_assoc]
    congr 1
    rcases hw with ⟨e1, e2, e3⟩ | ⟨e1, e2, e3⟩
    · rw [e1, e2, e3]
      have : (wholeBytes w).take (w.length / 8) = wholeBytes w := by
        apply List.take_of_length_le
        unfold wholeBytes; rw [List.length_take]; omega
      rw [this, pack_unpack]
    · rw [e1]; simp only [List.take_zero, bytesBits, List.nil_append]
      rw [e2]; rfl
  have hfull : ∀ t : St, t.pending = wholeBytes (w ++ ans.bits.drop (w.drop w0.length).length) →
      t.lastBytes = (carryOf (w ++ ans.bits.drop (w.drop w0.length).length)).1 →
      t.lastBytesBits = (carryOf (w ++ ans.bits.drop (w.drop w0.length).length)).2 →
      emitted d t = bytesBits d ++ w ++ ans.bits.drop (w.drop w0.length).length := by
    intro t h1 h2 h3
    unfold emitted St.carry
    rw [h1, h2, h3, bytesBits_append, List.append_assoc, pack_unpack, List.append_assoc]
  unfold encPayload at h
  simp only at h
  split_all h
  all_goals first
    | (simp at h; done)
    | (simp only [Out.ok.injEq, Prod.mk.injEq] at h; obtain ⟨rfl, rfl⟩ := h; left; exact hhead _ rfl rfl rfl)
    | (simp only [Out.ok.injEq, Prod.mk.injEq] at h; obtain ⟨rfl, rfl⟩ := h; right; exact hfull _ rfl rfl rfl)

/-- coherence of (state carry, storage bit string `w`, `catable_header_size`) inside `encode_data` -/
def Coh (s : St) (w : Writer) (hdr : Nat) : Prop :=
  (hdr = w.length / 8 ∧ s.lastBytes = (carryOf w).1 ∧ s.lastBytesBits = (carryOf w).2) ∨
  (hdr = 0 ∧ w = s.carry ∧ s.lastBytesBits < 8)

theorem encMagic_coh (s : St) (hl : s.lastBytesBits < 8) :
    Coh (encMagic s s.carry).1 (encMagic s s.carry).2.1 (encMagic s s.carry).2.2
    ∧ (encMagic s s.carry).1.pending = s.pending
    ∧ ∃ x, (encMagic s s.carry).2.1 = s.carry ++ x := by
  unfold encMagic
  split
  · refine ⟨Or.inl ⟨rfl, rfl, rfl⟩, rfl, ?_⟩
    unfold magicBlock padToByte
    simp only [List.append_assoc]
    exact ⟨_, rfl⟩
  · exact ⟨Or.inr ⟨rfl, rfl, hl⟩, rfl, [], by simp⟩

theorem encPrelude_coh {s s' : St} {w w' : Writer} {hdr hdr' bytes : Nat} (hc : Coh s w hdr)
    (h : encPrelude s w hdr bytes = .ok (s', w', hdr')) :
    Coh s' w' hdr' ∧ ∃ x, w' = w ++ x := by
  unfold encPrelude at h
  simp only at h
  split_all h
  all_goals first
    | (simp at h; done)
    | (simp only [Out.ok.injEq, Prod.mk.injEq] at h; obtain ⟨rfl, rfl, rfl⟩ := h
       refine ⟨?_, [], by simp⟩
       rcases hc with ⟨a, b, c⟩ | ⟨a, b, c⟩
       · exact Or.inl ⟨a, b, c⟩
       · exact Or.inr ⟨a, b, c⟩)
    | (simp only [Out.ok.injEq, Prod.mk.injEq] at h; obtain ⟨rfl, rfl, rfl⟩ := h
       refine ⟨Or.inl ⟨rfl, rfl, rfl⟩, ?_⟩
       unfold storedBlock padToByte
       simp only [List.append_assoc]
       exact ⟨_, rfl⟩)

theorem emitted_encRest {d : Bytes} {m : St × Writer × Nat} {ans : Ans} {w0 x1 : Writer} {bytes : Nat} {il ff res : Bool} {s' : St}
    (hcoh : Coh m.1 m.2.1 m.2.2) (hmp : m.1.pending = []) (hx1 : m.2.1 = w0 ++ x1)
    (hrest : encRest m ans w0 bytes il ff = .ok (s', res)) :
    ∃ skel, emitted d s' = bytesBits d ++ w0 ++ skel ∨
            emitted d s' = bytesBits d ++ w0 ++ skel ++ ans.bits.drop skel.length := by
  unfold encRest at hrest
  split at hrest
  · simp at hrest
  · simp at hrest
  · rename_i s2 w hdr hpre
    obtain ⟨hcoh2, x2, hx2⟩ := encPrelude_coh hcoh hpre
    have hp2 : s2.pending = [] := by
      rw [(encPrelude_frame hpre).2.2.1, hmp]
    have hw : w = w0 ++ (x1 ++ x2) := by rw [hx2, hx1, List.append_assoc]
    have hdrop : w.drop w0.length = x1 ++ x2 := by
      rw [hw, List.drop_append_of_le_length (Nat.le_refl _), List.drop_of_length_le (Nat.le_refl _)]; rfl
    refine ⟨x1 ++ x2, ?_⟩
    rcases emitted_encPayload (d := d) hrest hp2 hcoh2 with h1 | h1
    · left; rw [h1, hw, List.append_assoc]
    · right; rw [h1, hdrop, hw]; simp only [List.append_assoc]

/-- **framing of one `encode_data`**: with nothing pending, a successful invocation appends to the
emitted stream exactly `skel ++ tail`: `skel` = what the skeleton wrote itself (magic-number block,
catable prelude; possibly empty), `tail` = nothing, or the oracle's bits behind `skel` -/
theorem emitted_encodeData {o : Oracle} {d : Bytes} {s s' : St} {site : Nat} {il ff : Bool} {req : Req}
    (h : encodeData o s site il ff = .ok (s', true, req)) (hpend : s.pending = []) (hl : s.lastBytesBits < 8) :
    ∃ skel, emitted d s' = emitted d s ++ skel ∨
            emitted d s' = emitted d s ++ skel ++ (o s.nEnc req).bits.drop skel.length := by
  obtain ⟨hreq, hc⟩ := encodeData_ok_cases h
  rcases hc with ⟨_, hh, _⟩ | ⟨_, _, hh, _⟩ | ⟨_, _, hrest⟩
  · simp at hh
  · simp at hh
  · obtain ⟨_, _, _, _, e5, _, _, e8, e9, _⟩ := encEntry_fields s il
    have hcar : (encEntry s il).carry = s.carry := by unfold St.carry; rw [e8, e9]
    have hm := encMagic_coh (encEntry s il) (by rw [e9]; exact hl)
    rw [hcar] at hm
    obtain ⟨hcoh, hmp, x1, hx1⟩ := hm
    have hem : emitted d s = bytesBits d ++ s.carry := by
      unfold emitted; rw [hpend, List.append_nil]
    obtain ⟨skel, hs⟩ := emitted_encRest (d := d) hcoh (by rw [hmp, e5, hpend]) hx1 hrest
    refine ⟨skel, ?_⟩
    rw [hreq, hem]
    exact hs

end BV.Stream
