import BV.Lemmas.MatchTop
import BV.Props.C18
import BV.Lemmas.RecoderDist
import BV.Props.C01
/-! From a sound search result to a command: `ComputeDistanceCode` denotes the distance under the
RFC 7932 short-code rules, and the command built by `Command::init` replays to the matched bytes. -/
namespace BV.MatchFinder
open BV.Hasher BV.Recoder BV.PrefixArith

/-- `x as usize` of an `i32`: the value itself, or the value + 2^64 when it is negative -/
theorem i32ToUsize_cases (x : Int) (h : -(2 ^ 31 : Int) ≤ x ∧ x < 2 ^ 31) :
    (0 ≤ x ∧ ((i32ToUsize x : Nat) : Int) = x) ∨ (x < 0 ∧ ((i32ToUsize x : Nat) : Int) = x + 2 ^ 64) := by
  unfold i32ToUsize BV.Recoder.toUsize
  by_cases h0 : 0 ≤ x
  · left
    refine ⟨h0, ?_⟩
    rw [Int.emod_eq_of_lt h0 (by omega)]
    exact Int.toNat_of_nonneg h0
  · right
    refine ⟨by omega, ?_⟩
    have e : x % 2 ^ 64 = x + 2 ^ 64 := by
      rw [← Int.add_emod_right x (2 ^ 64), Int.emod_eq_of_lt (by omega) (by omega)]
    rw [e]
    exact Int.toNat_of_nonneg (by omega)

/-- the distance cache entries the four short-code families refer to are `i32`s -/
def CacheI32 (cache : List Int) : Prop := ∀ x ∈ cache.take 4, -(2 ^ 31 : Int) ≤ x ∧ x < 2 ^ 31

theorem short_direct (np nd code : Nat) (h : code < 16) :
    prefixEncodeCopyDistance code nd np = ⟨code, 0, 0⟩ :=
  (BV.Props.C18.dist_direct_exact np nd code (by omega)).1

/-- offset (`distance + 3 - cache entry`, wrapping) below 7 means: distance = entry + offset - 3 -/
theorem offset_meaning {distance : Nat} {c : Int} (hd : distance < 2 ^ 31)
    (hc : -(2 ^ 31 : Int) ≤ c ∧ c < 2 ^ 31) {off : Nat}
    (hoff : wsub ((distance + 3) % U64) (i32ToUsize c) = off) (h7 : off < 7) :
    (distance : Int) = c + off - 3 := by
  have hU : U64 = 18446744073709551616 := rfl
  have hd3 : (distance + 3) % U64 = distance + 3 := Nat.mod_eq_of_lt (by omega)
  rw [hd3, wsub_eq (by omega) (i32ToUsize_lt c)] at hoff
  rcases i32ToUsize_cases c hc with ⟨h0, e⟩ | ⟨h0, e⟩
  · split at hoff <;> omega
  · split at hoff <;> omega

theorem eq_meaning {distance : Nat} {c : Int} (hd : distance < 2 ^ 31)
    (hc : -(2 ^ 31 : Int) ≤ c ∧ c < 2 ^ 31) (h : distance = i32ToUsize c) : (distance : Int) = c := by
  rcases i32ToUsize_cases c hc with ⟨_, e⟩ | ⟨_, e⟩ <;> omega

theorem some_pair_eq (a b : Int) (n : Nat) (hn : n ≠ 0) (h : a = b) :
    (some (a, true) : Option (Int × Bool)) = some (b, decide (n ≠ 0)) := by
  subst h; simp [hn]

/-- **`ComputeDistanceCode` is sound**: for a distance `1 ≤ distance < 2^31` and a cache of `i32`s,
the distance symbol and extra bits `PrefixEncodeCopyDistance` derives from the code denote, under the
RFC 7932 rules (`rfcDistance`: short codes 0–15 relative to the ring of last distances = the cache,
long codes by `rfcDistDecode`), exactly `distance`; and the decoder's "update the ring" flag is
`code ≠ 0`. -/
theorem computeDistanceCode_sound (np nd distance maxDistance : Nat) (c0 c1 c2 c3 : Int)
    (rest : List Int) (hd1 : 1 ≤ distance) (hd : distance < 2 ^ 31)
    (hc : CacheI32 (c0 :: c1 :: c2 :: c3 :: rest)) :
    ∃ code, computeDistanceCode distance maxDistance (c0 :: c1 :: c2 :: c3 :: rest) = some code ∧
      code ≤ distance + 15 ∧ (distance > maxDistance → code = distance + 15) ∧
      rfcDistance np nd [c0, c1, c2, c3] (prefixEncodeCopyDistance code nd np).sym
        (prefixEncodeCopyDistance code nd np).extra = some ((distance : Int), decide (code ≠ 0)) := by
  have hc0 := hc c0 (by simp)
  have hc1 := hc c1 (by simp)
  have hc2 := hc c2 (by simp)
  have hc3 := hc c3 (by simp)
  have hU : U64 = 18446744073709551616 := rfl
  -- the long form
  have hlong : (distance + 16 + U64 - 1) % U64 = distance + 15 := by
    rw [show distance + 16 + U64 - 1 = (distance + 15) + U64 by omega, Nat.add_mod_right,
      Nat.mod_eq_of_lt (by omega)]
  have long_ok : rfcDistance np nd [c0, c1, c2, c3]
      (prefixEncodeCopyDistance (distance + 15) nd np).sym
      (prefixEncodeCopyDistance (distance + 15) nd np).extra
      = some ((distance : Int), decide (distance + 15 ≠ 0)) := by
    have hne : decide (distance + 15 ≠ 0) = true := by simp
    rw [hne]
    by_cases hdir : distance + 15 < 16 + nd
    · have e := BV.Props.C18.dist_direct_exact np nd (distance + 15) hdir
      rw [e.1]
      have e2 := e.2 (by omega)
      have hsym : ∃ k, distance + 15 = k + 16 := ⟨distance - 1, by omega⟩
      obtain ⟨k, hk⟩ := hsym
      simp only [hk] at e2 ⊢
      rw [BV.Recoder.rfcDistance_long]
      have e3 : rfcDistDecode np nd (k + 16) 0 = distance := by omega
      rw [e3]
    · obtain ⟨_, _, _, h4, h5⟩ := BV.Props.C18.dist_encode_exact np nd (distance + 15) (by omega)
      have hsym : ∃ k, (prefixEncodeCopyDistance (distance + 15) nd np).sym = k + 16 :=
        ⟨(prefixEncodeCopyDistance (distance + 15) nd np).sym - 16, by omega⟩
      obtain ⟨k, hk⟩ := hsym
      rw [hk] at h5 ⊢
      rw [BV.Recoder.rfcDistance_long]
      have e3 : rfcDistDecode np nd (k + 16) (prefixEncodeCopyDistance (distance + 15) nd np).extra = distance := by omega
      rw [e3]
  unfold computeDistanceCode
  simp only [List.getElem?_cons_zero, List.getElem?_cons_succ]
  by_cases hle : distance ≤ maxDistance
  · rw [if_pos hle]
    by_cases e0 : distance = i32ToUsize c0
    · rw [if_pos e0]
      refine ⟨0, rfl, by omega, fun h => by omega, ?_⟩
      rw [short_direct np nd 0 (by omega)]
      simp only [rfcDistance, List.getElem?_cons_zero, Option.map_some]
      rw [eq_meaning hd hc0 e0]; rfl
    · rw [if_neg e0]
      by_cases e1 : distance = i32ToUsize c1
      · rw [if_pos e1]
        refine ⟨1, rfl, by omega, fun h => by omega, ?_⟩
        rw [short_direct np nd 1 (by omega)]
        simp only [rfcDistance, List.getElem?_cons_succ, List.getElem?_cons_zero, Option.map_some]
        rw [eq_meaning hd hc1 e1]; rfl
      · rw [if_neg e1]
        by_cases o0 : wsub ((distance + 3) % U64) (i32ToUsize c0) < 7
        · rw [if_pos o0]
          have hm := offset_meaning hd hc0 rfl o0
          have hne3 : wsub ((distance + 3) % U64) (i32ToUsize c0) ≠ 3 := by
            intro h3
            rw [h3] at hm
            apply e0
            rcases i32ToUsize_cases c0 hc0 with ⟨_, e⟩ | ⟨_, e⟩ <;> omega
          generalize wsub ((distance + 3) % U64) (i32ToUsize c0) = off at o0 hm hne3
          have hcases : off = 0 ∨ off = 1 ∨ off = 2 ∨ off = 4 ∨ off = 5 ∨ off = 6 := by omega
          rcases hcases with rfl | rfl | rfl | rfl | rfl | rfl
          · refine ⟨8, by simp, by omega, fun h => by omega, ?_⟩
            rw [short_direct np nd 8 (by omega)]
            simp only [rfcDistance, List.getElem?_cons_zero, Option.map_some]
            exact some_pair_eq _ _ _ (by decide) (by omega)
          · refine ⟨6, by simp, by omega, fun h => by omega, ?_⟩
            rw [short_direct np nd 6 (by omega)]
            simp only [rfcDistance, List.getElem?_cons_zero, Option.map_some]
            exact some_pair_eq _ _ _ (by decide) (by omega)
          · refine ⟨4, by simp, by omega, fun h => by omega, ?_⟩
            rw [short_direct np nd 4 (by omega)]
            simp only [rfcDistance, List.getElem?_cons_zero, Option.map_some]
            exact some_pair_eq _ _ _ (by decide) (by omega)
          · refine ⟨5, by simp, by omega, fun h => by omega, ?_⟩
            rw [short_direct np nd 5 (by omega)]
            simp only [rfcDistance, List.getElem?_cons_zero, Option.map_some]
            exact some_pair_eq _ _ _ (by decide) (by omega)
          · refine ⟨7, by simp, by omega, fun h => by omega, ?_⟩
            rw [short_direct np nd 7 (by omega)]
            simp only [rfcDistance, List.getElem?_cons_zero, Option.map_some]
            exact some_pair_eq _ _ _ (by decide) (by omega)
          · refine ⟨9, by simp, by omega, fun h => by omega, ?_⟩
            rw [short_direct np nd 9 (by omega)]
            simp only [rfcDistance, List.getElem?_cons_zero, Option.map_some]
            exact some_pair_eq _ _ _ (by decide) (by omega)
        · rw [if_neg o0]
          by_cases o1 : wsub ((distance + 3) % U64) (i32ToUsize c1) < 7
          · rw [if_pos o1]
            have hm := offset_meaning hd hc1 rfl o1
            have hne3 : wsub ((distance + 3) % U64) (i32ToUsize c1) ≠ 3 := by
              intro h3
              rw [h3] at hm
              apply e1
              rcases i32ToUsize_cases c1 hc1 with ⟨_, e⟩ | ⟨_, e⟩ <;> omega
            generalize wsub ((distance + 3) % U64) (i32ToUsize c1) = off at o1 hm hne3
            have hcases : off = 0 ∨ off = 1 ∨ off = 2 ∨ off = 4 ∨ off = 5 ∨ off = 6 := by omega
            rcases hcases with rfl | rfl | rfl | rfl | rfl | rfl
            · refine ⟨14, by simp, by omega, fun h => by omega, ?_⟩
              rw [short_direct np nd 14 (by omega)]
              simp only [rfcDistance, List.getElem?_cons_succ, List.getElem?_cons_zero, Option.map_some]
              exact some_pair_eq _ _ _ (by decide) (by omega)
            · refine ⟨12, by simp, by omega, fun h => by omega, ?_⟩
              rw [short_direct np nd 12 (by omega)]
              simp only [rfcDistance, List.getElem?_cons_succ, List.getElem?_cons_zero, Option.map_some]
              exact some_pair_eq _ _ _ (by decide) (by omega)
            · refine ⟨10, by simp, by omega, fun h => by omega, ?_⟩
              rw [short_direct np nd 10 (by omega)]
              simp only [rfcDistance, List.getElem?_cons_succ, List.getElem?_cons_zero, Option.map_some]
              exact some_pair_eq _ _ _ (by decide) (by omega)
            · refine ⟨11, by simp, by omega, fun h => by omega, ?_⟩
              rw [short_direct np nd 11 (by omega)]
              simp only [rfcDistance, List.getElem?_cons_succ, List.getElem?_cons_zero, Option.map_some]
              exact some_pair_eq _ _ _ (by decide) (by omega)
            · refine ⟨13, by simp, by omega, fun h => by omega, ?_⟩
              rw [short_direct np nd 13 (by omega)]
              simp only [rfcDistance, List.getElem?_cons_succ, List.getElem?_cons_zero, Option.map_some]
              exact some_pair_eq _ _ _ (by decide) (by omega)
            · refine ⟨15, by simp, by omega, fun h => by omega, ?_⟩
              rw [short_direct np nd 15 (by omega)]
              simp only [rfcDistance, List.getElem?_cons_succ, List.getElem?_cons_zero, Option.map_some]
              exact some_pair_eq _ _ _ (by decide) (by omega)
          · rw [if_neg o1]
            by_cases e2 : distance = i32ToUsize c2
            · rw [if_pos e2]
              refine ⟨2, rfl, by omega, fun h => by omega, ?_⟩
              rw [short_direct np nd 2 (by omega)]
              simp only [rfcDistance, List.getElem?_cons_succ, List.getElem?_cons_zero, Option.map_some]
              rw [eq_meaning hd hc2 e2]; rfl
            · rw [if_neg e2]
              by_cases e3 : distance = i32ToUsize c3
              · rw [if_pos e3]
                refine ⟨3, rfl, by omega, fun h => by omega, ?_⟩
                rw [short_direct np nd 3 (by omega)]
                simp only [rfcDistance, List.getElem?_cons_succ, List.getElem?_cons_zero, Option.map_some]
                rw [eq_meaning hd hc3 e3]; rfl
              · rw [if_neg e3]
                refine ⟨distance + 15, by simp only [hlong], by omega, fun _ => rfl, long_ok⟩
  · rw [if_neg hle]
    refine ⟨distance + 15, by simp only [hlong], by omega, fun _ => rfl, long_ok⟩

/-! ### the command -/

theorem small_delta_bits : ∀ d : Fin 64, (d.val ||| ((d.val &&& 0x40) <<< 1)) % 256 = d.val := by decide

/-- `copy_len_code()` of the field packed by `Command::init` gives back the code (delta 0..63) -/
theorem copyLenCode_pack (len delta : Nat) (hlen : len < 2 ^ 25) (hdelta : delta < 64) :
    copyLenCode (packCopyLen len (len + delta)) = len + delta := by
  have hd8 : (len + delta + 256 - len % 256) % 256 = delta := by omega
  have hsh : (delta <<< 25) % 2 ^ 32 = delta <<< 25 := by
    rw [Nat.shiftLeft_eq]; exact Nat.mod_eq_of_lt (by omega)
  have hor : len ||| (delta <<< 25) = delta <<< 25 + len := by
    rw [Nat.or_comm]; exact (Nat.shiftLeft_add_eq_or_of_lt (by omega) delta).symm
  have hfield : packCopyLen len (len + delta) = delta * 2 ^ 25 + len := by
    unfold packCopyLen
    simp only [hd8, hsh, hor]
    rw [Nat.shiftLeft_eq]
    exact Nat.mod_eq_of_lt (by omega)
  unfold copyLenCode
  simp only [hfield]
  have hmod : (delta * 2 ^ 25 + len) >>> 25 = delta := by
    rw [Nat.shiftRight_eq_div_pow]; omega
  have hlow : (delta * 2 ^ 25 + len) &&& 0x01ffffff = len := by
    rw [show (0x01ffffff : Nat) = 2 ^ 25 - 1 by decide, Nat.and_two_pow_sub_one_eq_mod]; omega
  have hm8 := small_delta_bits ⟨delta, hdelta⟩
  simp only at hm8
  simp only [hmod, hlow, hm8]
  rw [if_pos (by omega)]
  exact Nat.mod_eq_of_lt (by omega)

/-- copying `n` bytes from `d` back reproduces any continuation `X` of the output that repeats
the text at distance `d` -/
theorem copyBytes_of_match : ∀ (n d : Nat) (out X : Bytes), X.length = n → 1 ≤ d → d ≤ out.length →
    (∀ k, k < n → (out ++ X).getD (out.length + k) 0 = (out ++ X).getD (out.length - d + k) 0) →
    copyBytes n d out = out ++ X := by
  intro n
  induction n with
  | zero => intro d out X hX _ _ _; simp [copyBytes, List.length_eq_zero_iff.mp hX]
  | succ n ih =>
    intro d out X hX hd1 hdl hm
    cases X with
    | nil => simp at hX
    | cons x X' =>
      have h0 := hm 0 (by omega)
      simp only [Nat.add_zero] at h0
      have hx : out.getD (out.length - d) 0 = x := by
        simp only [List.getD_eq_getElem?_getD] at h0 ⊢
        rw [List.getElem?_append_right (Nat.le_refl _),
          List.getElem?_append_left (by omega)] at h0
        simp only [Nat.sub_self, List.getElem?_cons_zero, Option.getD_some] at h0
        exact h0.symm
      rw [copyBytes, hx]
      have := ih d (out ++ [x]) X' (by simpa using hX) hd1 (by simp; omega) (fun k hk => by
        have hk1 := hm (k + 1) (by omega)
        simp only [List.append_assoc, List.singleton_append, List.length_append, List.length_singleton]
        rw [show out.length + 1 + k = out.length + (k + 1) by omega,
          show out.length + 1 - d + k = out.length - d + (k + 1) by omega]
        exact hk1)
      rw [this]; simp

/-- the fields `decStep` reads from a command built by `Command::init` for a copy -/
theorem commandInit_fields (np nd ins len code : Nat) (hp : np ≤ 3) (hnd : nd ≤ 120) (hcode : code < 2 ^ 31)
    (hins : ins < 2 ^ 32) (hlen : len < 2 ^ 25) (delta : Nat) (hdelta : delta < 64) :
    (commandInit np nd ins len (len + delta) code).insertLen = ins ∧
    copyLenCode (commandInit np nd ins len (len + delta) code).copyLenField = len + delta ∧
    (commandInit np nd ins len (len + delta) code).distPrefix % 1024 = (prefixEncodeCopyDistance code nd np).sym ∧
    (commandInit np nd ins len (len + delta) code).distExtra = (prefixEncodeCopyDistance code nd np).extra := by
  have hU : U32 = 4294967296 := rfl
  have hnb := BV.Props.C18.dist_nbits_le np nd code hcode hp
  have hpw : 2 ^ (np + 1) ≤ 2 ^ 4 := Nat.pow_le_pow_right (by decide) (by omega)
  have hsymex : (prefixEncodeCopyDistance code nd np).sym < 1024 ∧
      (prefixEncodeCopyDistance code nd np).extra < 2 ^ 32 := by
    by_cases hdir : code < 16 + nd
    · rw [(BV.Props.C18.dist_direct_exact np nd code hdir).1]
      exact ⟨by show code < 1024; omega, by show 0 < 2 ^ 32; omega⟩
    · have h1 := BV.Props.C18.dist_symbol_lt_alphabet np nd code (by omega) 30 hnb
      obtain ⟨_, _, h3, _, _⟩ := BV.Props.C18.dist_encode_exact np nd code (by omega)
      have hpw2 : 2 ^ (prefixEncodeCopyDistance code nd np).nbits ≤ 2 ^ 30 :=
        Nat.pow_le_pow_right (by decide) hnb
      have : 30 * 2 ^ (np + 1) ≤ 30 * 16 := by omega
      exact ⟨by omega, by omega⟩
  refine ⟨by simp only [commandInit]; exact Nat.mod_eq_of_lt (by omega),
    by simp only [commandInit]; exact copyLenCode_pack len delta hlen hdelta, ?_, ?_⟩
  · simp only [commandInit, DistCode.packed]
    rw [BV.Lemmas.PrefixArith.or_eq_add_of_lt _ _ hsymex.1]
    omega
  · simp only [commandInit, DistCode.extra32]
    exact Nat.mod_eq_of_lt hsymex.2

/-- **a command built from a sound copy replays to the matched bytes**: the RFC 7932 decoder step
(`decStep`, BV/Model/Recoder.lean) applied to the command `CreateBackwardReferences` builds for an
accepted search result — `ins` pending literals, then a copy of `sr.len` bytes from `sr.distance`
back — appends exactly the next `ins + sr.len` bytes of the meta-block, and leaves the ring of
last distances equal to the encoder's updated cache.  `hmatch` is the soundness of the match
expressed on the text (`match_sound` gives it on the ring buffer, `ring_match_is_text_match`
transfers it). -/
theorem decStep_emitCommand (w : WordOracle) (np nd window : Nat) (hp : np ≤ 3) (hnd : nd ≤ 120)
    (mb : Bytes) (s : DecSt) (sr : SR) (ins : Nat) (c0 c1 c2 c3 : Int) (rest : List Int)
    (hring : s.ring = [c0, c1, c2, c3]) (hc : CacheI32 (c0 :: c1 :: c2 :: c3 :: rest))
    (hins : ins < 2 ^ 32) (hroom : s.cursor + ins < mb.length) (hfit : s.cursor + ins + sr.len ≤ mb.length)
    (hlen : sr.len < 2 ^ 25) (hx : sr.lenXCode = 0)
    (hd1 : 1 ≤ sr.distance) (hdw : sr.distance ≤ min (s.out.length + ins) window) (hd31 : sr.distance + 15 < 2 ^ 31)
    (hmatch : ∀ k, k < sr.len →
      (s.out ++ (mb.drop s.cursor).take (ins + sr.len)).getD (s.out.length + ins + k) 0 =
      (s.out ++ (mb.drop s.cursor).take (ins + sr.len)).getD (s.out.length + ins - sr.distance + k) 0) :
    ∃ cmd cache', emitCommand np nd (s.out.length + ins) window ins sr (c0 :: c1 :: c2 :: c3 :: rest)
        = some (cmd, cache') ∧
      decStep w np nd window mb s cmd
        = some ⟨s.out ++ (mb.drop s.cursor).take (ins + sr.len), cache'.take 4, s.cursor + ins + sr.len⟩ := by
  obtain ⟨code, hcode, hcode31, _, hrfc⟩ :=
    computeDistanceCode_sound np nd sr.distance (min (s.out.length + ins) window) c0 c1 c2 c3 rest hd1 (by omega) hc
  have hxor : sr.len ^^^ sr.lenXCode = sr.len + 0 := by rw [hx]; simp
  obtain ⟨f1, f2, f3, f4⟩ := commandInit_fields np nd ins sr.len code hp hnd (by omega) hins hlen 0 (by omega)
  have hemit : emitCommand np nd (s.out.length + ins) window ins sr (c0 :: c1 :: c2 :: c3 :: rest)
      = some (commandInit np nd ins sr.len (sr.len + 0) code,
          if sr.distance ≤ min (s.out.length + ins) window ∧ code > 0 then
            toI32 sr.distance :: c0 :: c1 :: c2 :: rest
          else c0 :: c1 :: c2 :: c3 :: rest) := by
    simp only [emitCommand, hcode, hxor]
  refine ⟨_, _, hemit, ?_⟩
  -- the text produced so far and the pieces of the meta-block
  have htake : ((mb.drop s.cursor).take ins).length = ins := by
    rw [List.length_take, List.length_drop]; omega
  have hsplit : (mb.drop s.cursor).take (ins + sr.len)
      = (mb.drop s.cursor).take ins ++ (mb.drop (s.cursor + ins)).take sr.len := by
    rw [List.take_add, List.drop_drop]
  have hX : ((mb.drop (s.cursor + ins)).take sr.len).length = sr.len := by
    rw [List.length_take, List.length_drop]; omega
  have hcopy : copyBytes sr.len sr.distance (s.out ++ (mb.drop s.cursor).take ins)
      = s.out ++ (mb.drop s.cursor).take (ins + sr.len) := by
    rw [hsplit, ← List.append_assoc]
    apply copyBytes_of_match sr.len sr.distance _ _ hX hd1
    · rw [List.length_append, htake]; exact Nat.le_trans hdw (Nat.min_le_left _ _)
    · intro k hk
      have := hmatch k hk
      rw [hsplit, ← List.append_assoc] at this
      rw [List.length_append, htake]
      exact this
  unfold decStep
  simp only [f1, f2, f3, f4, hring, hrfc]
  simp only [Nat.add_zero]
  have hrem : ¬ (mb.length - s.cursor = 0) := by omega
  have hinsle : ¬ (ins > mb.length - s.cursor) := by omega
  have hcur : ¬ (s.cursor + ins = mb.length) := by omega
  rw [if_neg hrem, if_neg hinsle, if_neg hcur]
  have hpos : ¬ ((sr.distance : Int) ≤ 0) := by omega
  rw [if_neg hpos]
  simp only [Int.toNat_natCast, List.length_append, htake]
  have hfit' : ¬ (s.cursor + ins + sr.len > mb.length) := by omega
  rw [if_pos hdw, if_neg hfit']
  simp only [hcopy, Option.some.injEq, DecSt.mk.injEq, true_and]
  refine ⟨?_, trivial⟩
  -- the ring
  by_cases hupd : code ≠ 0
  · have hlt : sr.distance ≤ min (s.out.length + ins) window ∧ code > 0 := ⟨hdw, Nat.pos_of_ne_zero hupd⟩
    have hdec : decide (code ≠ 0) = true := decide_eq_true hupd
    rw [if_pos hlt, BV.Recoder.toI32_small sr.distance (by omega), if_pos hdec]
    simp
  · have h0 : code = 0 := Decidable.of_not_not hupd
    subst h0
    simp

/-! ### from the ring buffer to the text -/

/-- the bytes the match finders see: `data[i]` of the slice `data_mo[2..]` they are handed (the
`ByteArray` the models read), as a function — the representation w-stream's `RingViewW` talks about
(`fun i => rb.get (2 + i)` there) -/
def ringBytes (data : ByteArray) : Nat → Nat := fun i => (data.get! i).toNat

/-- **the ring hypothesis** = w-stream's `RingViewW` (BV/Props/C01.lean, proved from `RingOK` by
`ring_view_w`) read off the `ByteArray`: every position of `[lo, hi)` lives at its offset modulo the
ring size `2^k`, and WRAPPED positions (`p ≥ 2^k`) whose offset is below `tail` are also at
`2^k + offset`.  Nothing is asked of the slack behind the tail nor of tail cells of first-lap positions. -/
abbrev RingView (data : ByteArray) (k tail : Nat) (T : Bytes) (lo hi : Nat) : Prop :=
  BV.Props.C01.RingViewW (ringBytes data) k tail T lo hi

theorem ring_index (x j K : Nat) :
    (x % K + j < K → (x + j) % K = x % K + j) ∧
    (K ≤ x % K + j → x % K + j < 2 * K → (x + j) % K = x % K + j - K) := by
  have e : (x + j) % K = (x % K + j) % K := (Nat.mod_add_mod x K j).symm
  refine ⟨fun h => by rw [e, Nat.mod_eq_of_lt h], fun h1 h2 => ?_⟩
  rw [e, Nat.mod_eq_sub_mod h1, Nat.mod_eq_of_lt (by omega)]

/-- a byte of the ring buffer at `(p mod ring) + j` (possibly in the tail) is the text at `p + j`,
for reads that stay inside ring + tail -/
theorem RingView.at {data : ByteArray} {k tail : Nat} {T : Bytes} {lo hi : Nat} (hv : RingView data k tail T lo hi)
    (htail : tail ≤ 2 ^ k) (p j : Nat) (hlo : lo ≤ p + j) (hhi : p + j < hi) (hin : p % 2 ^ k + j < 2 ^ k + tail) :
    (data.get! (p % 2 ^ k + j)).toNat = T.getD (p + j) 0 := by
  obtain ⟨i1, i2⟩ := ring_index p j (2 ^ k)
  by_cases hlt : p % 2 ^ k + j < 2 ^ k
  · have := hv.holds (p + j) hlo hhi
    rw [i1 hlt] at this
    exact this
  · have hge : 2 ^ k ≤ p % 2 ^ k + j := by omega
    have h2 : p % 2 ^ k + j < 2 * 2 ^ k := by omega
    have hm := i2 hge h2
    have hp : 2 ^ k ≤ p + j := by have := Nat.mod_le p (2 ^ k); omega
    have := hv.mirror (p + j) hlo hhi hp (by omega)
    rw [hm, show 2 ^ k + (p % 2 ^ k + j - 2 ^ k) = p % 2 ^ k + j by omega] at this
    exact this

/-- **a match found in the ring buffer is a match in the text**: `Agree` on the masked offsets
(what `match_sound` delivers) means `T[cur - d + j] = T[cur + j]` for all `j < len`, as long as
both stretches are still in the ring (`lo ≤ cur - d`, `cur + len ≤ hi`) and the match is at most a
tail (one input block) long, so that neither read runs past ring + tail -/
theorem ring_match_is_text_match {data : ByteArray} {k tail : Nat} {T : Bytes} {lo hi : Nat}
    (hv : RingView data k tail T lo hi) (htail : tail ≤ 2 ^ k) {cur d len : Nat} (hd : d ≤ cur) (hlo : lo ≤ cur - d)
    (hhi : cur + len ≤ hi) (hlen : len ≤ tail) (hag : Agree data ((cur - d) % 2 ^ k) (cur % 2 ^ k) len) :
    ∀ j, j < len → T.getD (cur - d + j) 0 = T.getD (cur + j) 0 := by
  intro j hj
  have hpos : 0 < 2 ^ k := Nat.pow_pos (by decide)
  have m1 := Nat.mod_lt (cur - d) hpos
  have m2 := Nat.mod_lt cur hpos
  have h1 := hv.at htail (cur - d) j (by omega) (by omega) (by omega)
  have h2 := hv.at htail cur j (by omega) (by omega) (by omega)
  rw [← h1, ← h2]
  exact hag.2.2 j hj

end BV.MatchFinder
