/-
The table geometry of the quality-1 fragment writer (`CreateCommands` of compress_fragment_two_pass.rs, model
BV/Model/Fragment.lean): candidates are used only within `MAX_DISTANCE = 262128 = 2^18 − 16` of the
current position.  Used by BV/Props/C15Window.lean (the declared window of a quality 0/1 stream is at least that).
-/
import BV.Model.Fragment

namespace BV.Fragment
open BV.Bits

/-- encoder side (model of `CreateCommands`): a candidate the search loop hands back lies within
`MAX_DISTANCE` of the current position -/
theorem scan_candidate_within_table_window (inp : Array Nat) (shift minMatch ipLimit : Nat) :
    ∀ (f skip nextIp nextHash : Nat) (c c' : CC) (cand : Nat),
      scan inp shift minMatch ipLimit f skip nextIp nextHash c = .ok (c', some cand) →
      wsub c'.ip cand ≤ 262128 := by
  intro f
  induction f with
  | zero => intro skip nextIp nextHash c c' cand h; simp [scan] at h
  | succ f ih =>
    intro skip nextIp nextHash c c' cand h
    unfold scan at h
    simp only [] at h
    split at h
    · simp at h
    · cases h1 : load64 inp (nextIp + skip / 32) with
      | ok v =>
        simp only [h1, bind, Out.bind] at h
        repeat' (split at h)
        all_goals first
          | (cases h; done)
          | exact ih _ _ _ _ _ _ h
          | (simp only [Out.ok.injEq, Prod.mk.injEq, Option.some.injEq] at h
             obtain ⟨rfl, rfl⟩ := h
             simp only []
             omega)
      | panic => simp [h1, bind, Out.bind] at h
      | fuel => simp [h1, bind, Out.bind] at h

end BV.Fragment
