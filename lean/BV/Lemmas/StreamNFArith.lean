import BV.Lemmas.StreamNFSum
/-
C08, run level: the LOG ARITHMETIC.  A log with the grammar of a never-flushed quality ≥ 2 run (`nfT` from
`fresh` to `done`), whose requests are the ones the positions dictate (`LogOK`), whose non-final requests
see ≥ 2^14 bytes (`EvFull`) and whose payload pieces obey the growth bound (`LogGuard`), has at most
`8 · BrotliEncoderMaxCompressedSize(total input)` bits: `nfLogArith : NFLogArith o`.
The meta-block lengths are read off the log (`Run`, `BlocksOK` of Lemmas/HeaderStreamBound.lean), then
`run_bound` and the head arithmetic.
-/
namespace BV.Stream
open BV.Bits BV.Header

theorem logBits_cons (o : Oracle) (e : Ev) (es : List Ev) : logBits o (e :: es) = e.bits o ++ logBits o es := by
  unfold logBits; rfl

theorem logPos_cons (p : Pos) (e : Ev) (es : List Ev) : logPos p (e :: es) = logPos (e.step p) es := rfl

/-- after the final request: pushes and bookkeeping only -/
theorem path_done {o : Oracle} {log : List Ev} {b : NFPh} (h : Path nfT .done log b) (p : Pos) :
    b = .done ∧ (logBits o log).length = 0 ∧ logPos p log = p := by
  induction log with
  | nil => exact ⟨h.symm, rfl, rfl⟩
  | cons e es ih =>
    obtain ⟨a1, t1, p1⟩ := h
    cases e with
    | push =>
      have : a1 = .done := t1
      subst this
      obtain ⟨r1, r2, r3⟩ := ih p1
      exact ⟨r1, by rw [logBits_cons]; simpa [Ev.bits] using r2, by rw [logPos_cons]; exact r3⟩
    | tau j =>
      have : a1 = .done := t1
      subst this
      obtain ⟨r1, r2, r3⟩ := ih p1
      exact ⟨r1, by rw [logBits_cons]; simpa [Ev.bits] using r2, by rw [logPos_cons]; exact r3⟩
    | window w => exact absurd t1 (by simp [nfT])
    | copy c => exact absurd t1 (by simp [nfT])
    | pad l => exact absurd t1 (by simp [nfT])
    | enc k r pr sk tk => exact absurd t1 (by simp [nfT])
    | fast k r => exact absurd t1 (by simp [nfT])
    | mdHeader n l => exact absurd t1 (by simp [nfT])
    | mdBody bb => exact absurd t1 (by simp [nfT])

theorem blocksOK_cons_of_all (e len : Nat) (lens : List Nat) (h1 : 2 ^ 14 ≤ len + e) (h2 : ∀ e', BlocksOK e' lens) :
    BlocksOK e (len :: lens) := by
  cases lens with
  | nil => trivial
  | cons l2 r => exact ⟨h1, h2 0⟩

/-- the bits of an `encode_data` event -/
theorem enc_bits_length (o : Oracle) (k : Nat) (req : Req) (pre : Nat) (skel : List Bool) (taken : Bool) :
    ((Ev.enc k req pre skel taken).bits o).length
      = skel.length + (if taken then ((o k req).bits.drop skel.length).length else 0) := by
  cases taken <;> simp [Ev.bits]

/-- **mid-tail**: from the `mid` phase to the end, the closed meta-blocks form a `Run` from the current bit
position, all of them but the last cover ≥ 2^14 bytes, they cover the input from `last_flush_pos_` on, and
the bits end within the padded empty-last block behind the last one -/
theorem mid_tail {o : Oracle} : ∀ (log : List Ev) (P : Nat) (p : Pos),
    Path nfT .mid log .done → LogOK p log → (∀ e ∈ log, (∃ w, e = .window w) ∨ EvFull e) → LogGuard o P p log →
    p.lf ≤ p.lp → p.lp ≤ p.ip →
    ∃ lens Pm, Run P lens Pm ∧ P + (logBits o log).length ≤ (Pm + 2 + 7) / 8 * 8 ∧ (∀ e, BlocksOK e lens)
      ∧ lens.sum + p.lf = (logPos p log).ip ∧ (∀ l ∈ lens, l ≠ 0) := by
  intro log
  induction log with
  | nil => intro P p h; cases h
  | cons e es ih =>
    intro P p hpath hok hfull hG h1 h2
    obtain ⟨a1, t1, p1⟩ := hpath
    obtain ⟨ok1, ok2⟩ := hok
    obtain ⟨g1, g2⟩ := hG
    have hfull' : ∀ e' ∈ es, (∃ w, e' = .window w) ∨ EvFull e' := fun e' he' => hfull e' (List.mem_cons_of_mem _ he')
    have hquiet : ∀ (e0 : Ev), e = e0 → (e0.bits o).length = 0 → e0.step p = p ∨ (∃ c, e0.step p = { p with ip := p.ip + c }) →
        a1 = .mid →
        ∃ lens Pm, Run P lens Pm ∧ P + (logBits o (e0 :: es)).length ≤ (Pm + 2 + 7) / 8 * 8 ∧ (∀ e, BlocksOK e lens)
          ∧ lens.sum + p.lf = (logPos p (e0 :: es)).ip ∧ (∀ l ∈ lens, l ≠ 0) := by
      intro e0 he0 hb hs ha
      subst he0 ha
      rw [hb, Nat.add_zero] at g2
      rw [logBits_cons, logPos_cons, List.length_append, hb, Nat.zero_add]
      rcases hs with hs | ⟨c, hs⟩
      · rw [hs] at ok2 g2 ⊢
        exact ih P p p1 ok2 hfull' g2 h1 h2
      · rw [hs] at ok2 g2 ⊢
        exact ih P _ p1 ok2 hfull' g2 h1 (by show p.lp ≤ p.ip + c; omega)
    cases e with
    | copy c =>
      obtain ⟨ha, _⟩ : a1 = .mid ∧ EvQuiet (.copy c) := t1
      exact hquiet _ rfl (by simp [Ev.bits]) (Or.inr ⟨c.length, rfl⟩) ha
    | push =>
      obtain ⟨ha, _⟩ : a1 = .mid ∧ EvQuiet .push := t1
      exact hquiet _ rfl (by simp [Ev.bits]) (Or.inl rfl) ha
    | tau j =>
      obtain ⟨ha, _⟩ : a1 = .mid ∧ EvQuiet (.tau j) := t1
      exact hquiet _ rfl (by simp [Ev.bits]) (Or.inl rfl) ha
    | window w => exact absurd t1 (by simp [nfT, EvQuiet])
    | pad l => exact absurd t1 (by simp [nfT, EvQuiet])
    | fast k r => exact absurd t1 (by simp [nfT, EvQuiet])
    | mdHeader n l => exact absurd t1 (by simp [nfT, EvQuiet])
    | mdBody bb => exact absurd t1 (by simp [nfT, EvQuiet])
    | enc k req pre skel taken =>
      obtain ⟨hpre, hskel, hlast, ha1⟩ : pre = 0 ∧ skel = [] ∧ (req.isLast = true → taken = true) ∧ a1 = nextPh req.isLast := t1
      subst hpre hskel ha1
      obtain ⟨_, o2, o3, o4, _, o6, o7⟩ : k = p.k ∧ req.lo = p.lp ∧ req.hi = p.ip ∧ req.lf = p.lf ∧ req.site ≠ 2 ∧ p.lf + 0 ≤ p.ip ∧ p.lp ≤ p.ip := ok1
      have hE : EvFull (.enc k req 0 [] taken) := by
        rcases hfull _ List.mem_cons_self with ⟨w, hw⟩ | h
        · cases hw
        · exact h
      obtain ⟨_, _, _, hfl⟩ : req.site = 0 ∧ req.forceFlush = false ∧ req.lf ≤ req.lo ∧ (req.isLast = false → 2 ^ 14 ≤ req.hi - req.lo) := hE
      have hstep : (Ev.enc k req 0 [] taken).step p = ⟨p.ip, p.ip, if taken then p.ip else p.lf + 0, p.k + 1⟩ := rfl
      have hbl := enc_bits_length o k req 0 [] taken
      simp only [List.length_nil, Nat.zero_add, List.drop_zero] at hbl
      rw [logBits_cons, logPos_cons, List.length_append, hbl, hstep]
      rw [hbl, hstep] at g2
      rw [hstep] at ok2
      have pg : taken = true → PieceGuard P (p.ip - p.lf) (o k req).bits.length req.isLast := by
        intro ht
        have := g1 ht
        simpa using this
      cases hil : req.isLast with
      | true =>
        have htk := hlast hil
        subst htk
        rw [hil] at p1 pg
        have p1' : Path nfT .done es .done := p1
        obtain ⟨_, r2, r3⟩ := path_done (o := o) p1' ⟨p.ip, p.ip, p.ip, p.k + 1⟩
        obtain ⟨body, b1, b2, b3, b4, b5⟩ := pg rfl
        simp only [↓reduceIte] at b5 ⊢
        rw [r2, r3]
        by_cases hl0 : p.ip - p.lf = 0
        · have hb := b2 hl0
          subst hb
          exact ⟨[], body, Run.nil body, by omega, fun _ => trivial, by show 0 + p.lf = p.ip; omega, fun _ hl => by cases hl⟩
        · exact ⟨[p.ip - p.lf], body, Run.cons (b3 hl0) (Run.nil body), by omega, fun _ => trivial,
            by show p.ip - p.lf + 0 + p.lf = p.ip; omega, fun l hl => by rw [List.mem_singleton.mp hl]; exact hl0⟩
      | false =>
        rw [hil] at p1 pg
        have p1' : Path nfT .mid es .done := p1
        have hf14 := hfl hil
        rw [o2, o3] at hf14
        cases taken with
        | false =>
          simp only [Bool.false_eq_true, ↓reduceIte, Nat.add_zero] at g2 ok2 ⊢
          obtain ⟨lens, Pm, r1, r2, r3, r4, r5⟩ := ih P ⟨p.ip, p.ip, p.lf, p.k + 1⟩ p1' ok2 hfull' g2 (by show p.lf ≤ p.ip; omega) (Nat.le_refl _)
          exact ⟨lens, Pm, r1, by omega, r3, r4, r5⟩
        | true =>
          simp only [↓reduceIte] at g2 ok2 ⊢
          obtain ⟨body, b1, b2, b3, b4, b5⟩ := pg rfl
          simp only [Bool.false_eq_true, ↓reduceIte] at b5
          have hbody : body = P + (o k req).bits.length := by omega
          subst hbody
          have hl0 : p.ip - p.lf ≠ 0 := by
            have : (2 : Nat) ^ 14 = 16384 := by decide
            omega
          obtain ⟨lens, Pm, r1, r2, r3, r4, r5⟩ := ih (P + (o k req).bits.length) ⟨p.ip, p.ip, p.ip, p.k + 1⟩ p1' ok2 hfull' g2 (Nat.le_refl _) (Nat.le_refl _)
          refine ⟨(p.ip - p.lf) :: lens, Pm, Run.cons (b3 hl0) r1, by omega, ?_, ?_, ?_⟩
          rotate_left 2
          · intro l hl
            rcases List.mem_cons.mp hl with rfl | h
            · exact hl0
            · exact r5 l h
          · intro e
            exact blocksOK_cons_of_all e _ lens (by omega) r3
          · have r4' : lens.sum + p.ip = (logPos ⟨p.ip, p.ip, p.ip, p.k + 1⟩ es).ip := r4
            rw [List.sum_cons, ← r4']
            omega

/-- **start-tail**: from the `start` phase (only the `W` window bits emitted, positions at 0) to the end:
the first `encode_data` event contributes the skeleton of exactly `headLen` bits, then the meta-blocks
form a `Run` from there, `BlocksOK` with the prelude bytes counted on the first one, covering the input -/
theorem start_tail {o : Oracle} (W : Nat) : ∀ (log : List Ev) (p : Pos),
    Path nfT (.start W) log .done → LogOK p log → (∀ e ∈ log, (∃ w, e = .window w) ∨ EvFull e) → LogGuard o W p log →
    p.lf = 0 → p.lp = 0 →
    ∃ magic kk pre lens Pm, kk ≤ 5 ∧ pre ≤ 2 ∧ Run (headLen W magic kk pre) lens Pm
      ∧ W + (logBits o log).length ≤ (Pm + 2 + 7) / 8 * 8 ∧ BlocksOK pre lens
      ∧ lens.sum + pre = (logPos p log).ip ∧ (∀ l ∈ lens, l ≠ 0) := by
  intro log
  induction log with
  | nil => intro p h; cases h
  | cons e es ih =>
    intro p hpath hok hfull hG h1 h2
    obtain ⟨a1, t1, p1⟩ := hpath
    obtain ⟨ok1, ok2⟩ := hok
    obtain ⟨g1, g2⟩ := hG
    have hfull' : ∀ e' ∈ es, (∃ w, e' = .window w) ∨ EvFull e' := fun e' he' => hfull e' (List.mem_cons_of_mem _ he')
    have hquiet : ∀ (e0 : Ev), e = e0 → (e0.bits o).length = 0 → e0.step p = p ∨ (∃ c, e0.step p = { p with ip := p.ip + c }) →
        a1 = .start W →
        ∃ magic kk pre lens Pm, kk ≤ 5 ∧ pre ≤ 2 ∧ Run (headLen W magic kk pre) lens Pm
          ∧ W + (logBits o (e0 :: es)).length ≤ (Pm + 2 + 7) / 8 * 8 ∧ BlocksOK pre lens
          ∧ lens.sum + pre = (logPos p (e0 :: es)).ip ∧ (∀ l ∈ lens, l ≠ 0) := by
      intro e0 he0 hb hs ha
      subst he0 ha
      rw [hb, Nat.add_zero] at g2
      rw [logBits_cons, logPos_cons, List.length_append, hb, Nat.zero_add]
      rcases hs with hs | ⟨c, hs⟩
      · rw [hs] at ok2 g2 ⊢
        exact ih p p1 ok2 hfull' g2 h1 h2
      · rw [hs] at ok2 g2 ⊢
        exact ih _ p1 ok2 hfull' g2 h1 h2
    cases e with
    | copy c =>
      obtain ⟨ha, _⟩ : a1 = .start W ∧ EvQuiet (.copy c) := t1
      exact hquiet _ rfl (by simp [Ev.bits]) (Or.inr ⟨c.length, rfl⟩) ha
    | push =>
      obtain ⟨ha, _⟩ : a1 = .start W ∧ EvQuiet .push := t1
      exact hquiet _ rfl (by simp [Ev.bits]) (Or.inl rfl) ha
    | tau j =>
      obtain ⟨ha, _⟩ : a1 = .start W ∧ EvQuiet (.tau j) := t1
      exact hquiet _ rfl (by simp [Ev.bits]) (Or.inl rfl) ha
    | window w => exact absurd t1 (by simp [nfT, EvQuiet])
    | pad l => exact absurd t1 (by simp [nfT, EvQuiet])
    | fast k r => exact absurd t1 (by simp [nfT, EvQuiet])
    | mdHeader n l => exact absurd t1 (by simp [nfT, EvQuiet])
    | mdBody bb => exact absurd t1 (by simp [nfT, EvQuiet])
    | enc k req pre skel taken =>
      obtain ⟨_, hp2, ⟨magic, kk, hk, hH⟩, hlast, ha1⟩ : req.lf = 0 ∧ pre ≤ 2
        ∧ (∃ magic kk, kk ≤ 5 ∧ W + skel.length = headLen W magic kk pre) ∧ (req.isLast = true → taken = true)
        ∧ a1 = nextPh req.isLast := t1
      subst ha1
      obtain ⟨_, o2, o3, o4, _, o6, o7⟩ : k = p.k ∧ req.lo = p.lp ∧ req.hi = p.ip ∧ req.lf = p.lf ∧ req.site ≠ 2 ∧ p.lf + pre ≤ p.ip ∧ p.lp ≤ p.ip := ok1
      have hE : EvFull (.enc k req pre skel taken) := by
        rcases hfull _ List.mem_cons_self with ⟨w, hw⟩ | h
        · cases hw
        · exact h
      obtain ⟨_, _, _, hfl⟩ : req.site = 0 ∧ req.forceFlush = false ∧ req.lf ≤ req.lo ∧ (req.isLast = false → 2 ^ 14 ≤ req.hi - req.lo) := hE
      have hstep : (Ev.enc k req pre skel taken).step p = ⟨p.ip, p.ip, if taken then p.ip else p.lf + pre, p.k + 1⟩ := rfl
      have hbl := enc_bits_length o k req pre skel taken
      rw [logBits_cons, logPos_cons, List.length_append, hbl, hstep]
      rw [hbl, hstep] at g2
      rw [hstep] at ok2
      rw [h1] at o6
      have pg : taken = true → PieceGuard (W + skel.length) (p.ip - pre) ((o k req).bits.drop skel.length).length req.isLast := by
        intro ht
        have := g1 ht
        rw [h1, Nat.zero_add] at this
        exact this
      refine ⟨magic, kk, pre, ?_⟩
      rw [← hH]
      generalize ((o k req).bits.drop skel.length).length = m at pg g2 ⊢
      cases hil : req.isLast with
      | true =>
        have htk := hlast hil
        subst htk
        rw [hil] at p1 pg
        have p1' : Path nfT .done es .done := p1
        obtain ⟨_, r2, r3⟩ := path_done (o := o) p1' ⟨p.ip, p.ip, p.ip, p.k + 1⟩
        obtain ⟨body, b1, b2, b3, b4, b5⟩ := pg rfl
        simp only [↓reduceIte] at b5 ⊢
        rw [r2, r3]
        by_cases hl0 : p.ip - pre = 0
        · have hb := b2 hl0
          subst hb
          exact ⟨[], _, hk, hp2, Run.nil _, by omega, trivial, by show 0 + pre = p.ip; omega, fun _ hl => by cases hl⟩
        · exact ⟨[p.ip - pre], body, hk, hp2, Run.cons (b3 hl0) (Run.nil body), by omega, trivial,
            by show p.ip - pre + 0 + pre = p.ip; omega, fun l hl => by rw [List.mem_singleton.mp hl]; exact hl0⟩
      | false =>
        rw [hil] at p1 pg
        have p1' : Path nfT .mid es .done := p1
        have hf14 := hfl hil
        rw [o2, o3, h2] at hf14
        cases taken with
        | false =>
          simp only [Bool.false_eq_true, ↓reduceIte, Nat.add_zero] at g2 ok2 ⊢
          rw [h1, Nat.zero_add] at g2 ok2 ⊢
          obtain ⟨lens, Pm, r1, r2, r3, r4, r5⟩ := mid_tail es (W + skel.length) ⟨p.ip, p.ip, pre, p.k + 1⟩ p1' ok2 hfull' g2 (by show pre ≤ p.ip; omega) (Nat.le_refl _)
          exact ⟨lens, Pm, hk, hp2, r1, by omega, r3 pre, r4, r5⟩
        | true =>
          simp only [↓reduceIte] at g2 ok2 ⊢
          obtain ⟨body, b1, b2, b3, b4, b5⟩ := pg rfl
          simp only [Bool.false_eq_true, ↓reduceIte] at b5
          have hbody : body = W + skel.length + m := by omega
          subst hbody
          have h14 : (2 : Nat) ^ 14 = 16384 := by decide
          have hl0 : p.ip - pre ≠ 0 := by omega
          have g2' : LogGuard o (W + skel.length + m) ⟨p.ip, p.ip, p.ip, p.k + 1⟩ es := by
            rw [Nat.add_assoc]; exact g2
          obtain ⟨lens, Pm, r1, r2, r3, r4, r5⟩ := mid_tail es (W + skel.length + m) ⟨p.ip, p.ip, p.ip, p.k + 1⟩ p1' ok2 hfull' g2' (Nat.le_refl _) (Nat.le_refl _)
          refine ⟨(p.ip - pre) :: lens, Pm, hk, hp2, Run.cons (b3 hl0) r1, by omega, ?_, ?_, ?_⟩
          rotate_left 2
          · intro l hl
            rcases List.mem_cons.mp hl with rfl | h
            · exact hl0
            · exact r5 l h
          · exact blocksOK_cons_of_all pre _ lens (by omega) r3
          · have r4' : lens.sum + p.ip = (logPos ⟨p.ip, p.ip, p.ip, p.k + 1⟩ es).ip := r4
            rw [List.sum_cons, ← r4']
            omega

/-- the head arithmetic: a `Run` of non-empty meta-blocks behind a head of `headLen` bits, `BlocksOK`,
covering `n` input bytes with the prelude, ends — empty last block included — within the advertised bound -/
theorem total_arith (W kk pre n : Nat) (magic : Bool) (lens : List Nat) (Pm : Nat)
    (hW : W ≤ 14) (hk : kk ≤ 5) (hp : pre ≤ 2) (hn : n < 2 ^ 54)
    (hrun : Run (headLen W magic kk pre) lens Pm) (hb : BlocksOK pre lens) (hsum : lens.sum + pre = n)
    (hpos : ∀ l ∈ lens, l ≠ 0) :
    (Pm + 2 + 7) / 8 ≤ BV.Stored.maxCompressedSize n := by
  have hmax := BV.Stored.max_closed n hn
  have hmx : (n = 0 → BV.Stored.maxCompressedSize n = 17) ∧ (n ≠ 0 → n < 2 ^ 14 → BV.Stored.maxCompressedSize n = n + 22) ∧
      (¬ n < 2 ^ 14 → BV.Stored.maxCompressedSize n = n + 4 * (n / 2 ^ 14) + 23) := by
    rw [hmax]
    refine ⟨fun h => by simp [h], fun h1 h2 => by simp [h1, h2], fun h => ?_⟩
    have : n ≠ 0 := by omega
    simp [this, h]
  clear hmax
  obtain ⟨m0, m1, m2⟩ := hmx
  have hrb := run_bound hrun pre hb
  rw [hsum] at hrb
  have hpre3 : pre = 0 ∨ pre = 1 ∨ pre = 2 := by omega
  by_cases hl : lens = []
  · subst hl
    have hPm : Pm = headLen W magic kk pre := by cases hrun; rfl
    have hnp : n = pre := by simpa using hsum.symm
    subst hnp
    rw [hPm]
    unfold headLen
    cases magic <;> simp only [if_true, if_false, Bool.false_eq_true] <;>
      rcases hpre3 with h | h | h <;> subst h <;>
      simp only [ne_eq, Nat.reduceEqDiff, eq_self, not_true_eq_false, not_false_eq_true, if_true, if_false] <;>
      (first
        | (have := m0 rfl; omega)
        | (have := m1 (by omega) (by omega); omega))
  · have hn0 : n ≠ 0 := by
      cases lens with
      | nil => exact absurd rfl hl
      | cons a r =>
        have := hpos a List.mem_cons_self
        simp only [List.sum_cons] at hsum
        omega
    simp only [hl, if_false, Nat.add_zero] at hrb
    unfold headLen at hrb
    cases magic <;> simp only [if_true, if_false, Bool.false_eq_true] at hrb <;>
      rcases hpre3 with h | h | h <;> subst h <;>
      simp only [ne_eq, Nat.reduceEqDiff, eq_self, not_true_eq_false, not_false_eq_true, if_true, if_false] at hrb <;>
      (by_cases h14 : n < 2 ^ 14
       · have := m1 hn0 h14; omega
       · have := m2 h14; omega)

theorem path_junk_nf {log : List Ev} {b : NFPh} (h : Path nfT .junk log b) : b = .junk := by
  induction log with
  | nil => exact h.symm
  | cons e es ih =>
    obtain ⟨a1, t1, p1⟩ := h
    have : a1 = .junk := t1
    subst this
    exact ih p1

/-- **the log arithmetic**: `NFLogArith` holds for every oracle -/
theorem nfLogArith (o : Oracle) : NFLogArith o := by
  intro log hpath hok hfull hG hn
  cases log with
  | nil => cases hpath
  | cons e es =>
    obtain ⟨a1, t1, p1⟩ := hpath
    obtain ⟨w, rfl, hj | ⟨ha, hw1, hw14⟩⟩ : ∃ w, e = .window w ∧ (a1 = .junk ∨ (a1 = .start w.length ∧ 1 ≤ w.length ∧ w.length ≤ 14)) := t1
    · subst hj
      have := path_junk_nf p1
      cases this
    · subst ha
      obtain ⟨_, ok2⟩ := hok
      obtain ⟨_, g2⟩ := hG
      have hst : (Ev.window w).step ⟨0, 0, 0, 0⟩ = ⟨0, 0, 0, 0⟩ := rfl
      have hb : (Ev.window w).bits o = w := rfl
      rw [hst] at ok2 g2
      rw [hb, Nat.zero_add] at g2
      rw [logPos_cons, hst] at hn ⊢
      rw [logBits_cons, hb, List.length_append]
      obtain ⟨magic, kk, pre, lens, Pm, hk, hp, hrun, hbits, hbl, hsum, hpos⟩ :=
        start_tail w.length es ⟨0, 0, 0, 0⟩ p1 ok2 (fun e' he' => hfull e' (List.mem_cons_of_mem _ he')) g2 rfl rfl
      have := total_arith w.length kk pre _ magic lens Pm hw14 hk hp hn hrun hbl hsum hpos
      omega

end BV.Stream
