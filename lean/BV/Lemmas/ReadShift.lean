/-
Reading a NON-LAST COMPRESSED meta-block does not depend on the bit offset (w-compose): the §9.2 header reader
`readMetaBlock` uses the position only for the byte alignment of metadata / uncompressed / last blocks, and the body
reader does not use it at all.  This is the reader half of "a catable member's compressed meta-blocks can be shifted by
the concatenator"; the writer half (the bits `BrotliStoreMetaBlock*` emit begin with the compressed header and do not
depend on the bits written before them) is internal to the writer proofs of C01MetaBlock and not exported.
-/
import BV.Model.MetaBlock
import BV.Lemmas.MetaBlockHeader

namespace BV.HeaderSpec
theorem readMetaBlock_compressed_shift (pos pos2 : Nat) (bs : List Bool) (m pos' : Nat) (r : List Bool)
    (h : readMetaBlock pos bs = some (MetaBlock.compressed m false, pos', r)) :
    pos ≤ pos' ∧ readMetaBlock pos2 bs = some (MetaBlock.compressed m false, pos2 + (pos' - pos), r) := by
  unfold readMetaBlock at h ⊢
  cases bs with
  | nil => cases h
  | cons isLast r1 =>
    cases isLast with
    | true =>
      exfalso
      simp only [if_true] at h
      cases r1 with
      | nil => simp at h
      | cons e r2 =>
        cases e with
        | true => simp at h
        | false =>
          simp only at h
          cases h2 : takeVal 2 r2 with
          | none => simp [h2] at h
          | some v =>
            obtain ⟨mn, r3⟩ := v
            simp only [h2] at h
            by_cases h3 : mn = 3
            · simp [h3] at h
            · simp only [h3, if_false] at h
              cases h4 : takeVal (4 * (4 + mn)) r3 with
              | none => simp [h4] at h
              | some v4 =>
                obtain ⟨x, r4⟩ := v4
                simp only [h4] at h
                split at h
                · cases h
                · simp at h
    | false =>
      simp only [Bool.false_eq_true, if_false] at h ⊢
      cases h2 : takeVal 2 r1 with
      | none => simp [h2] at h
      | some v =>
        obtain ⟨mn, r3⟩ := v
        simp only [h2] at h ⊢
        by_cases h3 : mn = 3
        · exfalso
          simp only [h3, if_true] at h
          cases r3 with
          | nil => simp at h
          | cons b r4 =>
            cases b with
            | true => simp at h
            | false =>
              simp only at h
              cases h5 : takeVal 2 r4 with
              | none => simp [h5] at h
              | some v5 =>
                obtain ⟨sb, r5⟩ := v5
                simp only [h5] at h
                cases h6 : takeVal (8 * sb) r5 with
                | none => simp [h6] at h
                | some v6 =>
                  obtain ⟨x, r6⟩ := v6
                  simp only [h6] at h
                  split at h
                  · cases h
                  · split at h
                    · cases h
                    · simp at h
        · simp only [h3, if_false] at h ⊢
          cases h4 : takeVal (4 * (4 + mn)) r3 with
          | none => simp [h4] at h
          | some v4 =>
            obtain ⟨x, r4⟩ := v4
            simp only [h4] at h ⊢
            split at h
            · cases h
            · rename_i hc
              rw [if_neg hc]
              cases r4 with
              | nil => simp at h
              | cons b r5 =>
                cases b with
                | false =>
                  simp only [Option.some.injEq, Prod.mk.injEq, MetaBlock.compressed.injEq, and_true] at h ⊢
                  obtain ⟨h1, h2', h3'⟩ := h
                  subst h1; subst h2'; subst h3'
                  exact ⟨by omega, rfl, by omega, rfl⟩
                | true =>
                  exfalso
                  simp only at h
                  split at h
                  · cases h
                  · simp at h

end BV.HeaderSpec

namespace BV.MetaBlock
open BV.Recoder BV.HeaderSpec

/-- the single-type reader of one meta-block: a non-last compressed meta-block read at `pos` is read at any other
offset to the same state, consuming the same number of bits -/
theorem readMetaBlockFull_compressed_shift (wo : WordOracle) (window : Nat) (large : Bool) (pos pos2 : Nat) (s s' : RdSt)
    (bs r' : List Bool) (pos'' : Nat) (m p : Nat) (r : List Bool)
    (hh : readMetaBlock pos bs = some (MetaBlock.compressed m false, p, r))
    (h : readMetaBlockFull wo window large pos s bs = some (s', false, pos'', r')) :
    readMetaBlockFull wo window large pos2 s bs = some (s', false, pos2 + (pos'' - pos), r') := by
  obtain ⟨hle, hs⟩ := readMetaBlock_compressed_shift pos pos2 bs m p r hh
  unfold readMetaBlockFull at h ⊢
  rw [hh] at h
  rw [hs]
  simp only at h ⊢
  cases hb : readCompressedBody wo window large m s r with
  | none => rw [hb] at h; cases h
  | some v =>
    obtain ⟨s1, r1⟩ := v
    rw [hb] at h
    simp only [Bool.false_eq_true, if_false, Option.some.injEq, Prod.mk.injEq] at h ⊢
    obtain ⟨a, _, c, d⟩ := h
    exact ⟨a, trivial, by omega, d⟩

/-- bits that begin with the compressed non-last header of a meta-block of `len` bytes: whatever the reader makes of
them at offset `pos`, it makes at every offset -/
theorem read_header_prefixed_any_offset (wo : WordOracle) (window : Nat) (large : Bool) (len : Nat) (h1 : 1 ≤ len)
    (h2 : len ≤ 2 ^ 24) (tail : List Bool) (pos pos2 : Nat) (s s' : RdSt) (r' : List Bool) (pos'' : Nat)
    (h : readMetaBlockFull wo window large pos s (headerBits false len ++ tail) = some (s', false, pos'', r')) :
    readMetaBlockFull wo window large pos2 s (headerBits false len ++ tail) = some (s', false, pos2 + (pos'' - pos), r') :=
  readMetaBlockFull_compressed_shift wo window large pos pos2 s s' _ r' pos'' len _ tail
    (readHeader_ok false len pos tail h1 h2) h

end BV.MetaBlock
