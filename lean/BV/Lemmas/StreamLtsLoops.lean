import BV.Lemmas.StreamLts
/-
Every iteration of the three loops is one atomic step (or a `break` that leaves the
configuration alone); every loop run and every accepted call is a sequence of atomic steps.
-/
namespace BV.Stream
open BV.Bits

theorem SlowInv.nonprocZero {op : Nat} {c0 : SState} {n total : Nat} {s : St} {io : Io}
    (hP : SlowInv op c0 n total s io) : s.streamState ≠ .processing → io.availIn = 0 := by
  intro hne
  rcases hP.st with h1 | ⟨_, h2, _⟩
  · exact hP.nonproc (by rw [← h1]; exact hne)
  · exact h2

theorem FastInv.nonprocZero {op : Nat} {c0 : SState} {n : Nat} {s : St} {io : Io}
    (hP : FastInv op c0 n s io) : s.streamState ≠ .processing → io.availIn = 0 := by
  intro hne
  rcases hP.st with h1 | ⟨_, h2, _⟩
  · exact hP.nonproc (by rw [← h1]; exact hne)
  · exact h2

/-! ### the main loop -/

theorem slowStep_steps {o : Oracle} {op : Nat} {c0 : SState} {n total : Nat} {s s' : St} {io io' : Io} {c : Ctl}
    (hop : op ≤ 2) (hP : SlowInv op c0 n total s io) (h : slowStep o op s io = .ok (s', io', c)) :
    (c = .cont ∧ ∃ e, Step o op (s, io) e (s', io')) ∨
    (c = .brk ∧ s' = s ∧ io' = io ∧ Step o op (s, io) .tau (checkFlushComplete s, io)) := by
  have hI := hP.inv
  have hw : s.inputPos + io.availIn < two64 := by rw [hP.sum]; exact hP.nowrap
  have hnz := hP.nonprocZero
  unfold slowStep at h
  simp only at h
  split at h
  · rename_i hc
    split at h
    · simp at h
    · rename_i hn
      split at h
      · rename_i s1 hcp
        simp only [Out.ok.injEq, Prod.mk.injEq] at h
        obtain ⟨rfl, rfl, rfl⟩ := h
        have hst : s.streamState = .processing := by
          by_cases hh : s.streamState = .processing
          · exact hh
          · exact absurd (hnz hh) hc.2
        exact Or.inl ⟨rfl, _, Step.copy hI hw hst hP.rm hc (by simpa [copyN] using hn) hcp⟩
      · simp at h
      · simp at h
  · rename_i hc
    split at h
    · simp at h
    · simp at h
    · rename_i s1 io1 hp
      simp only [Out.ok.injEq, Prod.mk.injEq] at h
      obtain ⟨rfl, rfl, rfl⟩ := h
      by_cases hpd : PadDue s
      · -- padding
        unfold injectFlushOrPushOutput at hp
        rw [if_pos (show s.streamState = .flushRequested ∧ s.lastBytesBits ≠ 0 from hpd)] at hp
        split at hp
        · rename_i s2 hpad
          simp only [Out.ok.injEq, Prod.mk.injEq] at hp
          obtain ⟨rfl, rfl, _⟩ := hp
          exact Or.inl ⟨rfl, _, Step.pad hI hpd (hnz (by rw [hpd.1]; simp)) hpad⟩
        · simp at hp
        · simp at hp
      · exact Or.inl ⟨rfl, _, Step.push hI hpd hp⟩
    · rename_i s1 io1 hp
      obtain ⟨e1, e2, p1, p2⟩ := push_false hp
      have e1' := e1.symm; have e2' := e2.symm
      subst e1' e2'
      split at h
      · rename_i hcond
        split at h
        · simp at h
        · simp at h
        · rename_i s2 res req henc
          have hI2 := inv_updateSizeHint hI io.availIn
          have hst : (updateSizeHint s io.availIn).streamState = .processing := by
            rw [(updateSizeHint_fields s io.availIn).2.2.2.2.2.2.2.2.1]; exact hcond.2.1
          have hres : res = true := encodeData_succeeds hI2 (by rw [hst]; simp) henc
          subst hres
          simp only [Bool.not_true, Bool.false_eq_true, ↓reduceIte, Out.ok.injEq, Prod.mk.injEq] at h
          obtain ⟨rfl, rfl, rfl⟩ := h
          exact Or.inl ⟨rfl, _, Step.encSlow hI hop hP.rm hc p1 (List.eq_nil_of_length_eq_zero hcond.1) hcond.2.1 hcond.2.2 henc⟩
      · simp only [Out.ok.injEq, Prod.mk.injEq] at h
        obtain ⟨rfl, rfl, rfl⟩ := h
        exact Or.inr ⟨rfl, rfl, rfl, Step.cfc hI hop hP.rm p1 hnz⟩

theorem slowLoop_steps {o : Oracle} {op : Nat} {c0 : SState} {n total : Nat} (hop : op ≤ 2) :
    ∀ fuel s io s' io' r, SlowInv op c0 n total s io → slowLoop o op fuel s io = .ok (s', io', r) →
      ∃ evs, Steps o op (s, io) evs (s', io') := by
  intro fuel
  induction fuel with
  | zero => intro s io s' io' r _ h; simp [slowLoop] at h
  | succ k ih =>
    intro s io s' io' r hP h
    unfold slowLoop at h
    split at h
    · simp at h
    · simp at h
    · rename_i s1 io1 hs
      exact absurd rfl (slowInv_step hP hs).1
    · rename_i s1 io1 hs
      rcases slowStep_steps hop hP hs with ⟨_, e, he⟩ | ⟨hc, _⟩
      · obtain ⟨evs, hevs⟩ := ih _ _ _ _ _ (slowInv_step hP hs).2 h
        exact ⟨e :: evs, .cons he hevs⟩
      · cases hc
    · rename_i s1 io1 hs
      simp only [Out.ok.injEq, Prod.mk.injEq] at h
      obtain ⟨rfl, rfl, rfl⟩ := h
      rcases slowStep_steps hop hP hs with ⟨hc, _⟩ | ⟨_, rfl, rfl, he⟩
      · cases hc
      · exact ⟨[.tau], .one he⟩

/-! ### the quality 0/1 loop -/

set_option maxRecDepth 4000 in
theorem fastStep_steps {o : Oracle} {op : Nat} {c0 : SState} {n : Nat} {s s' : St} {io io' : Io} {b : Bool}
    (hop : op ≤ 2) (hP : FastInv op c0 n s io) (h : fastStep o op s io = .ok (s', io', b)) :
    (b = true ∧ ∃ e, Step o op (s, io) e (s', io')) ∨ (b = false ∧ s' = s ∧ io' = io ∧ ¬ PadDue s) := by
  have hI := hP.inv
  have hnz := hP.nonprocZero
  unfold fastStep at h
  split at h
  · simp at h
  · simp at h
  · rename_i s1 io1 hp
    simp only [Out.ok.injEq, Prod.mk.injEq] at h
    obtain ⟨rfl, rfl, rfl⟩ := h
    by_cases hpd : PadDue s
    · unfold injectFlushOrPushOutput at hp
      rw [if_pos (show s.streamState = .flushRequested ∧ s.lastBytesBits ≠ 0 from hpd)] at hp
      split at hp
      · rename_i s2 hpad
        simp only [Out.ok.injEq, Prod.mk.injEq] at hp
        obtain ⟨rfl, rfl, _⟩ := hp
        exact Or.inl ⟨rfl, _, Step.pad hI hpd (hnz (by rw [hpd.1]; simp)) hpad⟩
      · simp at hp
      · simp at hp
    · exact Or.inl ⟨rfl, _, Step.push hI hpd hp⟩
  · rename_i s1 io1 hp
    obtain ⟨e1, e2, p1, p2⟩ := push_false hp
    have e1' := e1.symm; have e2' := e2.symm
    subst e1' e2'
    split at h
    · rename_i hcond
      have hpend : s.pending = [] := List.eq_nil_of_length_eq_zero hcond.1
      simp only at h
      split at h
      · rename_i hff
        simp only [Out.ok.injEq, Prod.mk.injEq] at h
        obtain ⟨rfl, rfl, rfl⟩ := h
        have hff1 : io.availIn = min (2 ^ s.params.lgwin.toNat) io.availIn ∧ op = 1 := by simpa using hff.1
        have hz : io.availIn = 0 := by rw [hff1.1]; exact hff.2
        exact Or.inl ⟨rfl, _, Step.fastFlush hI hP.fm hP.rm p1 hpend hcond.2.1 hff1.2 hz⟩
      · rename_i hnf
        split at h
        · simp at h
        · rename_i hcap
          split at h
          · simp at h
          · rename_i hin
            split at h
            · simp at h
            · rename_i hfit
              simp only [Out.ok.injEq, Prod.mk.injEq] at h
              obtain ⟨h1, h2, h3⟩ := h
              have e : (s', io') = ((fastRes o op s io).1, (fastRes o op s io).2) := by rw [← h1, ← h2]; rfl
              have hnf' : ¬ ((fastReq op s io).forceFlush = true ∧ fastBs s io = 0) := hnf
              have hcap' : ¬ fastCap (fastS1 s io) io (fastInplace s io) < 2 := hcap
              have hin' : ¬ fastBs s io > io.input.length := hin
              have hfit' : ¬ (s.lastBytesBits + (o s.nEnc (fastReq op s io)).bits.length) / 8 + 2 > fastCap (fastS1 s io) io (fastInplace s io) := hfit
              refine Or.inl ⟨h3.symm, .fast s.nEnc (fastReq op s io), ?_⟩
              rw [e]
              exact Step.fastBlock hI hP.fm hop hP.rm p1 hpend hcond.2.1 hcond.2.2 hnf' hcap' hin' hfit'
    · simp only [Out.ok.injEq, Prod.mk.injEq] at h
      obtain ⟨rfl, rfl, rfl⟩ := h
      exact Or.inr ⟨rfl, rfl, rfl, p1⟩

theorem fastLoop_steps {o : Oracle} {op : Nat} {c0 : SState} {n : Nat} (hop : op ≤ 2) :
    ∀ fuel s io s' io', FastInv op c0 n s io → fastLoop o op fuel s io = .ok (s', io') →
      FastInv op c0 n s' io' ∧ ¬ PadDue s' ∧ ∃ evs, Steps o op (s, io) evs (s', io') := by
  intro fuel
  induction fuel with
  | zero => intro s io s' io' _ h; simp [fastLoop] at h
  | succ k ih =>
    intro s io s' io' hP h
    unfold fastLoop at h
    split at h
    · simp at h
    · simp at h
    · rename_i s1 io1 hs
      rcases fastStep_steps hop hP hs with ⟨_, e, he⟩ | ⟨hc, _⟩
      · obtain ⟨hP', hnp, evs, hevs⟩ := ih _ _ _ _ (fastInv_step hP hs) h
        exact ⟨hP', hnp, e :: evs, .cons he hevs⟩
      · cases hc
    · rename_i s1 io1 hs
      simp only [Out.ok.injEq, Prod.mk.injEq] at h
      obtain ⟨rfl, rfl⟩ := h
      rcases fastStep_steps hop hP hs with ⟨hc, _⟩ | ⟨_, rfl, rfl, hnp⟩
      · cases hc
      · exact ⟨hP, hnp, [], .nil _⟩

/-! ### the metadata loop -/

theorem mdStep_steps {o : Oracle} {n : Nat} {s s' : St} {io io' : Io} {c : Ctl}
    (hP : MdInv n s io) (h : processMetadataStep o s io = .ok (s', io', c)) :
    (∃ e, Step o 3 (s, io) e (s', io')) ∨ (c = .brk ∧ s' = s ∧ io' = io) := by
  have hI := hP.inv
  have hnf : s.streamState ≠ .finished := by rcases hP.st with h1 | h1 <;> rw [h1] <;> simp
  have hnpd : ¬ PadDue s := by
    intro hh
    rcases hP.st with h1 | h1 <;> rw [hh.1] at h1 <;> cases h1
  unfold processMetadataStep at h
  split at h
  · simp at h
  · simp at h
  · rename_i s1 io1 hp
    simp only [Out.ok.injEq, Prod.mk.injEq] at h
    obtain ⟨rfl, rfl, rfl⟩ := h
    exact Or.inl ⟨_, Step.push hI hnpd hp⟩
  · rename_i s1 io1 hp
    obtain ⟨e1, e2, _, _⟩ := push_false hp
    have e1' := e1.symm; have e2' := e2.symm
    subst e1' e2'
    split at h
    · simp only [Out.ok.injEq, Prod.mk.injEq] at h
      obtain ⟨rfl, rfl, rfl⟩ := h
      exact Or.inr ⟨rfl, rfl, rfl⟩
    · rename_i hpend
      have hp0 : s.pending = [] := List.eq_nil_of_length_eq_zero (by simpa using hpend)
      split at h
      · rename_i hne
        split at h
        · simp at h
        · simp at h
        · rename_i s2 res req henc
          have hres : res = true := encodeData_succeeds hI hnf henc
          subst hres
          simp only [Bool.not_true, Bool.false_eq_true, ↓reduceIte, Out.ok.injEq, Prod.mk.injEq] at h
          obtain ⟨rfl, rfl, rfl⟩ := h
          exact Or.inl ⟨_, Step.mdEnc hP rfl hp0 hne henc⟩
      · rename_i heq
        have hlf : s.inputPos = s.lastFlushPos := by
          by_cases hh : s.inputPos = s.lastFlushPos
          · exact hh
          · exact absurd hh heq
        split at h
        · rename_i hhead
          simp only at h
          split at h
          · simp at h
          · rename_i hok
            simp only [Out.ok.injEq, Prod.mk.injEq] at h
            obtain ⟨rfl, rfl, rfl⟩ := h
            exact Or.inl ⟨_, Step.mdHead hP rfl hp0 hlf hhead hok⟩
        · rename_i hnhead
          have hbody : s.streamState = .metadataBody := by
            rcases hP.st with h1 | h1
            · exact absurd h1 hnhead
            · exact h1
          split at h
          · rename_i hz
            simp only [Out.ok.injEq, Prod.mk.injEq] at h
            obtain ⟨rfl, rfl, rfl⟩ := h
            exact Or.inl ⟨_, Step.mdDone hP rfl hp0 hlf hbody hz⟩
          · rename_i hnz
            split at h
            · rename_i hao
              simp only at h
              split at h
              · simp at h
              · rename_i hle
                simp only [Out.ok.injEq, Prod.mk.injEq] at h
                obtain ⟨rfl, rfl, rfl⟩ := h
                exact Or.inl ⟨_, Step.mdOut hP rfl hp0 hlf hbody hnz hao hle⟩
            · rename_i hao
              simp only at h
              split at h
              · simp at h
              · rename_i hle
                simp only [Out.ok.injEq, Prod.mk.injEq] at h
                obtain ⟨rfl, rfl, rfl⟩ := h
                exact Or.inl ⟨_, Step.mdTiny hP rfl hp0 hlf hbody hnz (by simpa using hao) hle⟩

theorem mdLoop_steps {o : Oracle} {n : Nat} :
    ∀ fuel s io s' io' r, MdInv n s io → processMetadataLoop o fuel s io = .ok (s', io', r) →
      ∃ evs, Steps o 3 (s, io) evs (s', io') := by
  intro fuel
  induction fuel with
  | zero => intro s io s' io' r _ h; simp [processMetadataLoop] at h
  | succ k ih =>
    intro s io s' io' r hP h
    unfold processMetadataLoop at h
    split at h
    · simp at h
    · simp at h
    · rename_i s1 io1 hs
      exact absurd rfl (mdStep_spec hP hs).1
    · rename_i s1 io1 hs
      rcases (mdStep_spec hP hs).2 with h1 | ⟨h1, _⟩
      · rcases mdStep_steps hP hs with ⟨e, he⟩ | ⟨hc, _⟩
        · obtain ⟨evs, hevs⟩ := ih _ _ _ _ _ h1 h
          exact ⟨e :: evs, .cons he hevs⟩
        · cases hc
      · cases h1
    · rename_i s1 io1 hs
      simp only [Out.ok.injEq, Prod.mk.injEq] at h
      obtain ⟨rfl, rfl, rfl⟩ := h
      rcases mdStep_steps hP hs with ⟨e, he⟩ | ⟨_, rfl, rfl⟩
      · exact ⟨[e], .one he⟩
      · exact ⟨[], .nil _⟩

end BV.Stream
