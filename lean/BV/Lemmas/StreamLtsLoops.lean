import BV.Lemmas.StreamLts
/-
Every iteration of the three loops is one atomic step (or a `break` that leaves the
configuration alone); every loop run and every accepted call is a sequence of atomic steps.
-/
namespace BV.Stream
open BV.Bits

theorem SlowInv.nonprocZero {op : Nat} {c0 : SState} {n total : Nat} {s : St} {io : Io}
    (hP : SlowInv op c0 n total s io) : s.streamState ≠ .processing → io.availIn = 0 := by
  intro hne
  rcases hP.st with h1 | ⟨_, h2, _⟩
  · exact hP.nonproc (by rw [← h1]; exact hne)
  · exact h2

theorem FastInv.nonprocZero {op : Nat} {c0 : SState} {n : Nat} {s : St} {io : Io}
    (hP : FastInv op c0 n s io) : s.streamState ≠ .processing → io.availIn = 0 := by
  intro hne
  rcases hP.st with h1 | ⟨_, h2, _⟩
  · exact hP.nonproc (by rw [← h1]; exact hne)
  · exact h2

/-! ### the dispatch-relevant parameters are frozen -/

theorem mdEnter_params (s : St) (n : Nat) : (mdEnter s n).params = s.params := by
  unfold mdEnter
  split <;> rfl

theorem fastStorage_params (s : St) (ip : Bool) (n : Nat) : (fastStorage s ip n).params = s.params := by
  unfold fastStorage growStorage
  split
  · rfl
  · split <;> rfl

/-- quality, catable and magic (what the dispatch and the quality class depend on) -/
def St.mode (s : St) : Int × Bool × Bool := (s.params.quality, s.params.catable, s.params.magic)

theorem mode_of_params {s s' : St} (h : s'.params = s.params) : s'.mode = s.mode := by
  unfold St.mode; rw [h]

theorem mode_updateSizeHint (s : St) (n : Nat) : (updateSizeHint s n).mode = s.mode := by
  obtain ⟨_, u2, u3, u4, _⟩ := updateSizeHint_fields s n
  unfold St.mode; rw [u2, u3, u4]

theorem fastMode_of_mode {s s' : St} (h : s'.mode = s.mode) : fastMode s'.params ↔ fastMode s.params := by
  unfold St.mode at h
  simp only [Prod.mk.injEq] at h
  unfold fastMode
  rw [h.1, h.2.1, h.2.2]

set_option maxRecDepth 4000 in
/-- no atomic step after initialisation changes quality, catable or magic -/
theorem step_mode {o : Oracle} {op : Nat} {s s' : St} {io io' : Io} {e : Ev}
    (h : Step o op (s, io) e (s', io')) (hi : s.isInitialized = true) : s'.mode = s.mode := by
  cases h with
  | init hf => rw [isFreshInit hf] at hi; cases hi
  | copy hI hw hop hnf hst hrm hc hn h =>
    obtain ⟨c1, _⟩ := copy_fields hI.init h
    exact mode_of_params c1
  | pad hI hc hz h =>
    obtain ⟨f, _⟩ := pad_frame h
    rw [St.frame_eq_iff] at f
    exact mode_of_params f.1
  | push hI hc h =>
    obtain ⟨f, _⟩ := push_frame h
    rw [St.frame_eq_iff] at f
    exact mode_of_params f.1
  | encSlow hI hop hnf hrm hnc hnp hpend hst hgo h =>
    obtain ⟨f, _⟩ := encodeData_frame h
    rw [St.frame_eq_iff] at f
    obtain ⟨k1, _⟩ := markAfterEncode_fields _ (slowIl op io) (slowFf op io)
    exact (mode_of_params (k1.trans f.1)).trans (mode_updateSizeHint s io.availIn)
  | cfc hI hop hrm hnp hfl =>
    obtain ⟨c1, _⟩ := checkFlushComplete_frame s
    exact mode_of_params c1
  | fastFlush hI hfm hrm hnp hpend hst hop1 hz => rfl
  | fastBlock hI hfm hop hrm hnp hpend hst hgo hnf hcap hin hfit =>
    have e1 := (fastEncode_fields (fastS1 s io) io (o s.nEnc (fastReq op s io)) (fastReq op s io) (fastBs s io) (fastInplace s io)
        (fastReq op s io).isLast (fastReq op s io).forceFlush).1
    show (fastRes o op s io).1.mode = s.mode
    apply mode_of_params
    unfold fastRes
    rw [e1]
    unfold fastS1
    rw [fastStorage_params]
  | mdEnter hI hop hentry =>
    exact (mode_of_params (mdEnter_params _ _)).trans (mode_updateSizeHint s 0)
  | mdEnc hM hop hpend hne h =>
    obtain ⟨f, _⟩ := encodeData_frame h
    rw [St.frame_eq_iff] at f
    exact mode_of_params f.1
  | mdHead hM hop hpend hlf hst hok => rfl
  | mdDone hM hop hpend hlf hst hz => rfl
  | mdOut hM hop hpend hlf hst hnz hao hle => rfl
  | mdTiny hM hop hpend hlf hst hnz hao hle => rfl

/-- why a loop of `compress_stream` breaks: none of its actions applies -/
def ExitOK (op : Nat) (s : St) (io : Io) : Prop :=
  (fastMode s.params ∧ ¬ (s.pending.length = 0 ∧ s.streamState = .processing ∧ (io.availIn ≠ 0 ∨ op ≠ 0))) ∨
  (¬ fastMode s.params ∧ ¬ (remainingInputBlockSize s ≠ 0 ∧ io.availIn ≠ 0)
    ∧ ¬ (s.pending.length = 0 ∧ s.streamState = .processing ∧ (remainingInputBlockSize s = 0 ∨ op ≠ 0)))

theorem ExitOK.nonzero {op : Nat} {s : St} {io : Io} (h : ExitOK op s io) (h0 : op ≠ 0) :
    ¬ (s.pending.length = 0 ∧ s.streamState = .processing) := by
  intro hh
  rcases h with ⟨_, h1⟩ | ⟨_, _, h1⟩
  · exact h1 ⟨hh.1, hh.2, Or.inr h0⟩
  · exact h1 ⟨hh.1, hh.2, Or.inr h0⟩

/-! ### the main loop -/

theorem slowStep_steps {o : Oracle} {op : Nat} {c0 : SState} {n total : Nat} {s s' : St} {io io' : Io} {c : Ctl}
    (hop : op ≤ 2) (hnf : ¬ fastMode s.params) (hP : SlowInv op c0 n total s io) (h : slowStep o op s io = .ok (s', io', c)) :
    (c = .cont ∧ ∃ e, e ≠ .tau 0 ∧ Step o op (s, io) e (s', io')) ∨
    (c = .brk ∧ s' = s ∧ io' = io ∧ Step o op (s, io) (.tau 0) (checkFlushComplete s, io)
      ∧ ExitOK op s io) := by
  have hI := hP.inv
  have hw : s.inputPos + io.availIn < two64 := by rw [hP.sum]; exact hP.nowrap
  have hnz := hP.nonprocZero
  unfold slowStep at h
  simp only at h
  split at h
  · rename_i hc
    split at h
    · simp at h
    · rename_i hn
      split at h
      · rename_i s1 hcp
        simp only [Out.ok.injEq, Prod.mk.injEq] at h
        obtain ⟨rfl, rfl, rfl⟩ := h
        have hst : s.streamState = .processing := by
          by_cases hh : s.streamState = .processing
          · exact hh
          · exact absurd (hnz hh) hc.2
        exact Or.inl ⟨rfl, _, (fun hh => by cases hh), Step.copy hI hw hop hnf hst hP.rm hc (by simpa [copyN] using hn) hcp⟩
      · simp at h
      · simp at h
  · rename_i hc
    split at h
    · simp at h
    · simp at h
    · rename_i s1 io1 hp
      simp only [Out.ok.injEq, Prod.mk.injEq] at h
      obtain ⟨rfl, rfl, rfl⟩ := h
      by_cases hpd : PadDue s
      · -- padding
        unfold injectFlushOrPushOutput at hp
        rw [if_pos (show s.streamState = .flushRequested ∧ s.lastBytesBits ≠ 0 from hpd)] at hp
        split at hp
        · rename_i s2 hpad
          simp only [Out.ok.injEq, Prod.mk.injEq] at hp
          obtain ⟨rfl, rfl, _⟩ := hp
          exact Or.inl ⟨rfl, _, (fun hh => by cases hh), Step.pad hI hpd (hnz (by rw [hpd.1]; simp)) hpad⟩
        · simp at hp
        · simp at hp
      · exact Or.inl ⟨rfl, _, (fun hh => by cases hh), Step.push hI hpd hp⟩
    · rename_i s1 io1 hp
      obtain ⟨e1, e2, p1, p2⟩ := push_false hp
      have e1' := e1.symm; have e2' := e2.symm
      subst e1' e2'
      split at h
      · rename_i hcond
        split at h
        · simp at h
        · simp at h
        · rename_i s2 res req henc
          have hI2 := inv_updateSizeHint hI io.availIn
          have hst : (updateSizeHint s io.availIn).streamState = .processing := by
            rw [(updateSizeHint_fields s io.availIn).2.2.2.2.2.2.2.2.1]; exact hcond.2.1
          have hres : res = true := encodeData_succeeds hI2 (by rw [hst]; simp) henc
          subst hres
          simp only [Bool.not_true, Bool.false_eq_true, ↓reduceIte, Out.ok.injEq, Prod.mk.injEq] at h
          obtain ⟨rfl, rfl, rfl⟩ := h
          exact Or.inl ⟨rfl, _, (fun hh => by unfold encEv at hh; cases hh), Step.encSlow hI hop hnf hP.rm hc p1 (List.eq_nil_of_length_eq_zero hcond.1) hcond.2.1 hcond.2.2 henc⟩
      · rename_i hne
        simp only [Out.ok.injEq, Prod.mk.injEq] at h
        obtain ⟨rfl, rfl, rfl⟩ := h
        exact Or.inr ⟨rfl, rfl, rfl, Step.cfc hI hop hP.rm p1 hnz, Or.inr ⟨hnf, hc, hne⟩⟩

theorem slowLoop_steps {o : Oracle} {op : Nat} {c0 : SState} {n total : Nat} (hop : op ≤ 2) :
    ∀ fuel s io s' io' r, ¬ fastMode s.params → SlowInv op c0 n total s io → slowLoop o op fuel s io = .ok (s', io', r) →
      ∃ evs s1, Steps o op (s, io) evs (s1, io') ∧ (∀ e ∈ evs, e ≠ .tau 0) ∧ Step o op (s1, io') (.tau 0) (s', io')
        ∧ s' = checkFlushComplete s1 ∧ ExitOK op s1 io' := by
  intro fuel
  induction fuel with
  | zero => intro s io s' io' r _ _ h; simp [slowLoop] at h
  | succ k ih =>
    intro s io s' io' r hnf hP h
    unfold slowLoop at h
    split at h
    · simp at h
    · simp at h
    · rename_i s1 io1 hs
      exact absurd rfl (slowInv_step hP hs).1
    · rename_i s1 io1 hs
      rcases slowStep_steps hop hnf hP hs with ⟨_, e, hne, he⟩ | ⟨hc, _⟩
      · have hnf1 : ¬ fastMode s1.params := fun hh => hnf ((fastMode_of_mode (step_mode he hP.inv.init)).mp hh)
        obtain ⟨evs, sx, hevs, hnt, hlast, hx1, hx2⟩ := ih _ _ _ _ _ hnf1 (slowInv_step hP hs).2 h
        refine ⟨e :: evs, sx, .cons he hevs, ?_, hlast, hx1, hx2⟩
        intro e' he'
        rcases List.mem_cons.mp he' with h1 | h1
        · rw [h1]; exact hne
        · exact hnt e' h1
      · cases hc
    · rename_i s1 io1 hs
      simp only [Out.ok.injEq, Prod.mk.injEq] at h
      obtain ⟨rfl, rfl, rfl⟩ := h
      rcases slowStep_steps hop hnf hP hs with ⟨hc, _⟩ | ⟨_, rfl, rfl, he, hx⟩
      · cases hc
      · exact ⟨[], _, .nil _, (fun _ hh => by cases hh), he, rfl, hx⟩

/-! ### the quality 0/1 loop -/

set_option maxRecDepth 4000 in
theorem fastStep_steps {o : Oracle} {op : Nat} {c0 : SState} {n : Nat} {s s' : St} {io io' : Io} {b : Bool}
    (hop : op ≤ 2) (hP : FastInv op c0 n s io) (h : fastStep o op s io = .ok (s', io', b)) :
    (b = true ∧ ∃ e, e ≠ .tau 0 ∧ Step o op (s, io) e (s', io')) ∨
    (b = false ∧ s' = s ∧ io' = io ∧ ¬ PadDue s ∧ ExitOK op s io) := by
  have hI := hP.inv
  have hnz := hP.nonprocZero
  unfold fastStep at h
  split at h
  · simp at h
  · simp at h
  · rename_i s1 io1 hp
    simp only [Out.ok.injEq, Prod.mk.injEq] at h
    obtain ⟨rfl, rfl, rfl⟩ := h
    by_cases hpd : PadDue s
    · unfold injectFlushOrPushOutput at hp
      rw [if_pos (show s.streamState = .flushRequested ∧ s.lastBytesBits ≠ 0 from hpd)] at hp
      split at hp
      · rename_i s2 hpad
        simp only [Out.ok.injEq, Prod.mk.injEq] at hp
        obtain ⟨rfl, rfl, _⟩ := hp
        exact Or.inl ⟨rfl, _, (fun hh => by cases hh), Step.pad hI hpd (hnz (by rw [hpd.1]; simp)) hpad⟩
      · simp at hp
      · simp at hp
    · exact Or.inl ⟨rfl, _, (fun hh => by cases hh), Step.push hI hpd hp⟩
  · rename_i s1 io1 hp
    obtain ⟨e1, e2, p1, p2⟩ := push_false hp
    have e1' := e1.symm; have e2' := e2.symm
    subst e1' e2'
    split at h
    · rename_i hcond
      have hpend : s.pending = [] := List.eq_nil_of_length_eq_zero hcond.1
      simp only at h
      split at h
      · rename_i hff
        simp only [Out.ok.injEq, Prod.mk.injEq] at h
        obtain ⟨rfl, rfl, rfl⟩ := h
        have hff1 : io.availIn = min (2 ^ s.params.lgwin.toNat) io.availIn ∧ op = 1 := by simpa using hff.1
        have hz : io.availIn = 0 := by rw [hff1.1]; exact hff.2
        exact Or.inl ⟨rfl, _, (fun hh => by cases hh), Step.fastFlush hI hP.fm hP.rm p1 hpend hcond.2.1 hff1.2 hz⟩
      · rename_i hnf
        split at h
        · simp at h
        · rename_i hcap
          split at h
          · simp at h
          · rename_i hin
            split at h
            · simp at h
            · rename_i hfit
              simp only [Out.ok.injEq, Prod.mk.injEq] at h
              obtain ⟨h1, h2, h3⟩ := h
              have e : (s', io') = ((fastRes o op s io).1, (fastRes o op s io).2) := by rw [← h1, ← h2]; rfl
              have hnf' : ¬ ((fastReq op s io).forceFlush = true ∧ fastBs s io = 0) := hnf
              have hcap' : ¬ fastCap (fastS1 s io) io (fastInplace s io) < 2 := hcap
              have hin' : ¬ fastBs s io > io.input.length := hin
              have hfit' : ¬ (s.lastBytesBits + (o s.nEnc (fastReq op s io)).bits.length) / 8 + 2 > fastCap (fastS1 s io) io (fastInplace s io) := hfit
              refine Or.inl ⟨h3.symm, .fast s.nEnc (fastReq op s io), (fun hh => by cases hh), ?_⟩
              rw [e]
              exact Step.fastBlock hI hP.fm hop hP.rm p1 hpend hcond.2.1 hcond.2.2 hnf' hcap' hin' hfit'
    · rename_i hne
      simp only [Out.ok.injEq, Prod.mk.injEq] at h
      obtain ⟨rfl, rfl, rfl⟩ := h
      exact Or.inr ⟨rfl, rfl, rfl, p1, Or.inl ⟨hP.fm, hne⟩⟩

theorem fastLoop_steps {o : Oracle} {op : Nat} {c0 : SState} {n : Nat} (hop : op ≤ 2) :
    ∀ fuel s io s' io', FastInv op c0 n s io → fastLoop o op fuel s io = .ok (s', io') →
      FastInv op c0 n s' io' ∧ ¬ PadDue s' ∧ ExitOK op s' io'
        ∧ ∃ evs, Steps o op (s, io) evs (s', io') ∧ (∀ e ∈ evs, e ≠ .tau 0) := by
  intro fuel
  induction fuel with
  | zero => intro s io s' io' _ h; simp [fastLoop] at h
  | succ k ih =>
    intro s io s' io' hP h
    unfold fastLoop at h
    split at h
    · simp at h
    · simp at h
    · rename_i s1 io1 hs
      rcases fastStep_steps hop hP hs with ⟨_, e, hne, he⟩ | ⟨hc, _⟩
      · obtain ⟨hP', hnp, hx, evs, hevs, hnt⟩ := ih _ _ _ _ (fastInv_step hP hs) h
        refine ⟨hP', hnp, hx, e :: evs, .cons he hevs, ?_⟩
        intro e' he'
        rcases List.mem_cons.mp he' with h1 | h1
        · rw [h1]; exact hne
        · exact hnt e' h1
      · cases hc
    · rename_i s1 io1 hs
      simp only [Out.ok.injEq, Prod.mk.injEq] at h
      obtain ⟨rfl, rfl⟩ := h
      rcases fastStep_steps hop hP hs with ⟨hc, _⟩ | ⟨_, rfl, rfl, hnp, hx⟩
      · cases hc
      · exact ⟨hP, hnp, hx, [], .nil _, (fun _ hh => by cases hh)⟩

/-! ### the metadata loop -/

theorem mdStep_steps {o : Oracle} {n : Nat} {s s' : St} {io io' : Io} {c : Ctl}
    (hP : MdInv n s io) (h : processMetadataStep o s io = .ok (s', io', c)) :
    (∃ e, Step o 3 (s, io) e (s', io')) ∨ (c = .brk ∧ s' = s ∧ io' = io) := by
  have hI := hP.inv
  have hnf : s.streamState ≠ .finished := by rcases hP.st with h1 | h1 <;> rw [h1] <;> simp
  have hnpd : ¬ PadDue s := by
    intro hh
    rcases hP.st with h1 | h1 <;> rw [hh.1] at h1 <;> cases h1
  unfold processMetadataStep at h
  split at h
  · simp at h
  · simp at h
  · rename_i s1 io1 hp
    simp only [Out.ok.injEq, Prod.mk.injEq] at h
    obtain ⟨rfl, rfl, rfl⟩ := h
    exact Or.inl ⟨_, Step.push hI hnpd hp⟩
  · rename_i s1 io1 hp
    obtain ⟨e1, e2, _, _⟩ := push_false hp
    have e1' := e1.symm; have e2' := e2.symm
    subst e1' e2'
    split at h
    · simp only [Out.ok.injEq, Prod.mk.injEq] at h
      obtain ⟨rfl, rfl, rfl⟩ := h
      exact Or.inr ⟨rfl, rfl, rfl⟩
    · rename_i hpend
      have hp0 : s.pending = [] := List.eq_nil_of_length_eq_zero (by simpa using hpend)
      split at h
      · rename_i hne
        split at h
        · simp at h
        · simp at h
        · rename_i s2 res req henc
          have hres : res = true := encodeData_succeeds hI hnf henc
          subst hres
          simp only [Bool.not_true, Bool.false_eq_true, ↓reduceIte, Out.ok.injEq, Prod.mk.injEq] at h
          obtain ⟨rfl, rfl, rfl⟩ := h
          exact Or.inl ⟨_, Step.mdEnc hP rfl hp0 hne henc⟩
      · rename_i heq
        have hlf : s.inputPos = s.lastFlushPos := by
          by_cases hh : s.inputPos = s.lastFlushPos
          · exact hh
          · exact absurd hh heq
        split at h
        · rename_i hhead
          simp only at h
          split at h
          · simp at h
          · rename_i hok
            simp only [Out.ok.injEq, Prod.mk.injEq] at h
            obtain ⟨rfl, rfl, rfl⟩ := h
            exact Or.inl ⟨_, Step.mdHead hP rfl hp0 hlf hhead hok⟩
        · rename_i hnhead
          have hbody : s.streamState = .metadataBody := by
            rcases hP.st with h1 | h1
            · exact absurd h1 hnhead
            · exact h1
          split at h
          · rename_i hz
            simp only [Out.ok.injEq, Prod.mk.injEq] at h
            obtain ⟨rfl, rfl, rfl⟩ := h
            exact Or.inl ⟨_, Step.mdDone hP rfl hp0 hlf hbody hz⟩
          · rename_i hnz
            split at h
            · rename_i hao
              simp only at h
              split at h
              · simp at h
              · rename_i hle
                simp only [Out.ok.injEq, Prod.mk.injEq] at h
                obtain ⟨rfl, rfl, rfl⟩ := h
                exact Or.inl ⟨_, Step.mdOut hP rfl hp0 hlf hbody hnz hao hle⟩
            · rename_i hao
              simp only at h
              split at h
              · simp at h
              · rename_i hle
                simp only [Out.ok.injEq, Prod.mk.injEq] at h
                obtain ⟨rfl, rfl, rfl⟩ := h
                exact Or.inl ⟨_, Step.mdTiny hP rfl hp0 hlf hbody hnz (by simpa using hao) hle⟩

theorem mdLoop_steps {o : Oracle} {n : Nat} :
    ∀ fuel s io s' io' r, MdInv n s io → processMetadataLoop o fuel s io = .ok (s', io', r) →
      ∃ evs, Steps o 3 (s, io) evs (s', io') := by
  intro fuel
  induction fuel with
  | zero => intro s io s' io' r _ h; simp [processMetadataLoop] at h
  | succ k ih =>
    intro s io s' io' r hP h
    unfold processMetadataLoop at h
    split at h
    · simp at h
    · simp at h
    · rename_i s1 io1 hs
      exact absurd rfl (mdStep_spec hP hs).1
    · rename_i s1 io1 hs
      rcases (mdStep_spec hP hs).2 with h1 | ⟨h1, _⟩
      · rcases mdStep_steps hP hs with ⟨e, he⟩ | ⟨hc, _⟩
        · obtain ⟨evs, hevs⟩ := ih _ _ _ _ _ h1 h
          exact ⟨e :: evs, .cons he hevs⟩
        · cases hc
      · cases h1
    · rename_i s1 io1 hs
      simp only [Out.ok.injEq, Prod.mk.injEq] at h
      obtain ⟨rfl, rfl, rfl⟩ := h
      rcases mdStep_steps hP hs with ⟨e, he⟩ | ⟨_, rfl, rfl⟩
      · exact ⟨[e], .one he⟩
      · exact ⟨[], .nil _⟩

end BV.Stream
