/-
Lemmas for C17 part 3 (b): `SortHuffmanTreeItems` permutes the first `n` items
and leaves the rest alone (whatever the comparator) and never panics.
-/
import BV.Lemmas.HuffmanCanon

namespace BV.Lemmas.HuffmanSort
open BV.Gen BV.Bits BV.Huffman BV.Lemmas.HuffmanCanon

theorem set_set_perm (l : List Node) (i j : Nat) (hi : i < l.length) (hj : j < l.length)
    (hij : i ≠ j) (t : Node) : ((l.set j l[i]).set i t).Perm (l.set j t) := by
  rw [List.perm_iff_count]
  intro a
  have hi' : i < (l.set j l[i]).length := by simp [hi]
  rw [List.count_set hi', List.count_set hj, List.count_set hj]
  have e : (l.set j l[i])[i] = l[i] := by
    rw [List.getElem_set_ne (fun h => hij h.symm)]
  rw [e]
  have hc : (if (l[j] == a) = true then 1 else 0) ≤ List.count a l := by
    split
    · rename_i h
      have : l[j] = a := by simpa using h
      rw [← this]
      exact List.count_pos_iff.mpr (List.getElem_mem hj)
    · omega
  omega

theorem gapShift_spec (cmp : Node → Node → Bool) (tmp : Node) (gap : Nat) (hg : 1 ≤ gap) :
    ∀ (f : Nat) (items : List Node) (j : Nat), j < items.length → j + 1 ≤ f →
    ∃ items' j', gapShift cmp tmp gap f items j = .ok (items', j') ∧ j' ≤ j ∧
      items'.length = items.length ∧ (items'.set j' tmp).Perm (items.set j tmp) ∧
      ∀ q, j < q → items'[q]? = items[q]? := by
  intro f
  induction f with
  | zero => intro items j _ hf; omega
  | succ f ih =>
    intro items j hj hf
    simp only [gapShift]
    by_cases hge : j ≥ gap
    · simp only [hge, ↓reduceIte]
      have hjg : j - gap < items.length := by omega
      rw [getAt_of_lt items (j - gap) hjg]
      simp only [Out.bind_ok]
      by_cases hc : cmp tmp items[j - gap] = true
      · simp only [hc, ↓reduceIte, setAt_of_lt items j _ hj, Out.bind_ok]
        obtain ⟨items', j', h1, h2, h3, h4, h5⟩ :=
          ih (items.set j items[j - gap]) (j - gap) (by simp; omega) (by omega)
        refine ⟨items', j', h1, by omega, by simpa using h3, ?_, ?_⟩
        · exact h4.trans (set_set_perm items (j - gap) j hjg hj (by omega) tmp)
        · intro q hq
          rw [h5 q (by omega), List.getElem?_set_ne (by omega)]
      · simp only [hc]
        exact ⟨items, j, rfl, Nat.le_refl _, rfl, List.Perm.refl _, fun _ _ => rfl⟩
    · simp only [hge, ↓reduceIte]
      exact ⟨items, j, rfl, Nat.le_refl _, rfl, List.Perm.refl _, fun _ _ => rfl⟩

theorem gapInsert_spec (cmp : Node → Node → Bool) (gap : Nat) (hg : 1 ≤ gap)
    (items : List Node) (i : Nat) (hi : i < items.length) :
    ∃ items', gapInsert cmp gap items i = .ok items' ∧ items'.Perm items ∧
      ∀ q, i < q → items'[q]? = items[q]? := by
  unfold gapInsert
  rw [getAt_of_lt items i hi]
  simp only [Out.bind_ok]
  obtain ⟨items', j', h1, h2, h3, h4, h5⟩ :=
    gapShift_spec cmp items[i] gap hg (i + 1) items i hi (Nat.le_refl _)
  simp only [h1, Out.bind_ok]
  have hj' : j' < items'.length := by omega
  rw [setAt_of_lt items' j' _ hj']
  refine ⟨_, rfl, ?_, ?_⟩
  · have : items.set i items[i] = items := List.set_getElem_self hi
    rw [this] at h4; exact h4
  · intro q hq
    rw [List.getElem?_set_ne (by omega), h5 q hq]

theorem gapPass_spec (cmp : Node → Node → Bool) (gap : Nat) (hg : 1 ≤ gap) :
    ∀ (cnt i : Nat) (items : List Node), i + cnt ≤ items.length →
    ∃ items', gapPass cmp gap cnt i items = .ok items' ∧ items'.Perm items ∧
      ∀ q, i + cnt ≤ q → items'[q]? = items[q]? := by
  intro cnt
  induction cnt with
  | zero => intro i items _; exact ⟨items, rfl, List.Perm.refl _, fun _ _ => rfl⟩
  | succ cnt ih =>
    intro i items h
    simp only [gapPass]
    obtain ⟨it1, h1, h2, h3⟩ := gapInsert_spec cmp gap hg items i (by omega)
    simp only [h1, Out.bind_ok]
    obtain ⟨it2, k1, k2, k3⟩ := ih (i + 1) it1 (by rw [h2.length_eq]; omega)
    refine ⟨it2, k1, k2.trans h2, ?_⟩
    intro q hq
    rw [k3 q (by omega), h3 q (by omega)]

theorem shellPasses_spec (cmp : Node → Node → Bool) (n : Nat) :
    ∀ (gaps : List Nat), (∀ g ∈ gaps, 1 ≤ g) → ∀ (items : List Node), n ≤ items.length →
    ∃ items', shellPasses cmp n gaps items = .ok items' ∧ items'.Perm items ∧
      ∀ q, n ≤ q → items'[q]? = items[q]? := by
  intro gaps
  induction gaps with
  | nil => intro _ items _; exact ⟨items, rfl, List.Perm.refl _, fun _ _ => rfl⟩
  | cons g gs ih =>
    intro hg items hn
    simp only [shellPasses]
    have hgs : ∀ x ∈ gs, 1 ≤ x := fun x hx => hg x (List.mem_cons_of_mem _ hx)
    by_cases h : g ≤ n
    · obtain ⟨it1, h1, h2, h3⟩ := gapPass_spec cmp g (hg g (by simp)) (n - g) g items (by omega)
      simp only [h1, Out.bind_ok]
      obtain ⟨it2, k1, k2, k3⟩ := ih hgs it1 (by rw [h2.length_eq]; exact hn)
      refine ⟨it2, k1, k2.trans h2, ?_⟩
      intro q hq
      rw [k3 q hq, h3 q (by omega)]
    · have : n - g = 0 := by omega
      rw [this]
      simp only [gapPass, Out.bind_ok]
      exact ih hgs items hn

/-- `SortHuffmanTreeItems(items, n, cmp)`: no panic, a permutation, nothing at index `≥ n` moves -/
theorem sortItems_spec (cmp : Node → Node → Bool) (items : List Node) (n : Nat)
    (hn : n ≤ items.length) :
    ∃ items', sortItems cmp items n = .ok items' ∧ items'.Perm items ∧
      ∀ q, n ≤ q → items'[q]? = items[q]? := by
  unfold sortItems
  by_cases h13 : n < 13
  · simp only [h13, ↓reduceIte]
    by_cases h0 : n = 0
    · subst h0
      exact ⟨items, rfl, List.Perm.refl _, fun _ _ => rfl⟩
    · obtain ⟨it1, h1, h2, h3⟩ := gapPass_spec cmp 1 (Nat.le_refl _) (n - 1) 1 items (by omega)
      exact ⟨it1, h1, h2, fun q hq => h3 q (by omega)⟩
  · simp only [h13, ↓reduceIte]
    refine shellPasses_spec cmp n _ ?_ items hn
    intro g hg
    have hall : ∀ x ∈ kShellGaps, 1 ≤ x := by decide
    exact hall g (List.mem_of_mem_drop hg)

/-- consequence for the first `n` items -/
theorem sortItems_take (cmp : Node → Node → Bool) (items items' : List Node) (n : Nat)
    (hn : n ≤ items.length) (h : sortItems cmp items n = .ok items') :
    items'.length = items.length ∧ (items'.take n).Perm (items.take n) ∧
      ∀ q, n ≤ q → items'[q]? = items[q]? := by
  obtain ⟨it, h1, h2, h3⟩ := sortItems_spec cmp items n hn
  rw [h] at h1
  injection h1 with h1
  subst h1
  refine ⟨h2.length_eq, ?_, h3⟩
  have hd : items'.drop n = items.drop n := by
    apply List.ext_getElem?
    intro k
    rw [List.getElem?_drop, List.getElem?_drop]
    exact h3 _ (by omega)
  have e1 : items' = items'.take n ++ items.drop n := by
    rw [← hd, List.take_append_drop]
  have e2 : items = items.take n ++ items.drop n := (List.take_append_drop n items).symm
  rw [e1] at h2
  conv at h2 => rhs; rw [e2]
  exact (List.perm_append_right_iff _).mp h2


/-! ### the last pass (gap 1) sorts by `total_count_` -/

/-- what the proofs need from a comparator: it refines the order of the counts
(true of `SortHuffmanTree` and of `SimpleSortHuffmanTree`) -/
def CmpOK (cmp : Node → Node → Bool) : Prop :=
  (∀ a b, cmp a b = true → a.count ≤ b.count) ∧ (∀ a b, cmp a b = false → b.count ≤ a.count)

theorem cmpSort_ok : CmpOK cmpSort := by
  constructor
  · intro a b h
    unfold cmpSort at h
    split at h
    · simp at h; omega
    · rename_i hc; simp at hc; omega
  · intro a b h
    unfold cmpSort at h
    split at h
    · simp at h; omega
    · rename_i hc; simp at hc; omega

theorem cmpSimple_ok : CmpOK cmpSimple := by
  constructor
  · intro a b h; simp [cmpSimple] at h; omega
  · intro a b h; simp [cmpSimple] at h; omega

/-- `items[q].total_count_` -/
def cntOf (items : List Node) (q : Nat) : Nat :=
  match items[q]? with
  | some nd => nd.count
  | none => 0

/-- the first `k` items are in non-decreasing count order -/
def SortedUpTo (items : List Node) (k : Nat) : Prop :=
  ∀ p q, p < q → q < k → cntOf items p ≤ cntOf items q

theorem cntOf_congr (a b : List Node) (q : Nat) (h : a[q]? = b[q]?) : cntOf a q = cntOf b q := by
  simp [cntOf, h]

/-- the shifting loop of one insertion with gap 1, started anywhere in its course -/
theorem gapShift1_spec (cmp : Node → Node → Bool) (hc : CmpOK cmp) (tmp : Node)
    (items : List Node) (i : Nat) (hi : i < items.length) :
    ∀ (f : Nat) (cur : List Node) (j : Nat), j ≤ i → j + 1 ≤ f → cur.length = items.length →
    (∀ p, p ≤ j → cur[p]? = items[p]?) →
    (∀ p, j < p → p ≤ i → cur[p]? = items[p - 1]? ∧ tmp.count ≤ cntOf items (p - 1)) →
    ∃ cur' j', gapShift cmp tmp 1 f cur j = .ok (cur', j') ∧ j' ≤ i ∧ cur'.length = items.length ∧
      (∀ p, p < j' → cur'[p]? = items[p]?) ∧
      (∀ p, j' < p → p ≤ i → cur'[p]? = items[p - 1]? ∧ tmp.count ≤ cntOf items (p - 1)) ∧
      (j' = 0 ∨ cntOf items (j' - 1) ≤ tmp.count) := by
  intro f
  induction f with
  | zero => intro cur j _ hf; omega
  | succ f ih =>
    intro cur j hji hf hlen hpre hpost
    simp only [gapShift]
    by_cases hge : j ≥ 1
    · simp only [hge, ↓reduceIte]
      have hj1 : j - 1 < cur.length := by omega
      rw [getAt_of_lt cur (j - 1) hj1]
      simp only [Out.bind_ok]
      have hx : cur[j - 1]? = items[j - 1]? := hpre (j - 1) (by omega)
      have hxc : (cur[j - 1]).count = cntOf items (j - 1) := by
        rw [← cntOf_congr cur items (j - 1) hx]
        simp [cntOf, List.getElem?_eq_getElem hj1]
      by_cases hcm : cmp tmp cur[j - 1] = true
      · simp only [hcm, ↓reduceIte]
        rw [setAt_of_lt cur j _ (by omega)]
        simp only [Out.bind_ok]
        apply ih (cur.set j cur[j - 1]) (j - 1) (by omega) (by omega) (by simp [hlen])
        · intro p hp
          rw [List.getElem?_set_ne (by omega)]
          exact hpre p (by omega)
        · intro p hp1 hp2
          by_cases hpj : p = j
          · subst hpj
            rw [List.getElem?_set_self (by omega)]
            refine ⟨?_, ?_⟩
            · rw [← hx, List.getElem?_eq_getElem hj1]
            · rw [← hxc]; exact hc.1 _ _ hcm
          · rw [List.getElem?_set_ne (fun h => hpj h.symm)]
            exact hpost p (by omega) hp2
      · have hcm' : cmp tmp cur[j - 1] = false := by
          cases h : cmp tmp cur[j - 1] with
          | true => exact absurd h hcm
          | false => rfl
        simp only [hcm', Bool.false_eq_true, ↓reduceIte]
        refine ⟨cur, j, rfl, hji, hlen, fun p hp => hpre p (by omega), hpost, Or.inr ?_⟩
        rw [← hxc]; exact hc.2 _ _ hcm'
    · simp only [hge, ↓reduceIte]
      exact ⟨cur, j, rfl, hji, hlen, fun p hp => hpre p (by omega), hpost, Or.inl (by omega)⟩

/-- one insertion with gap 1 extends the sorted prefix -/
theorem gapInsert1_sorted (cmp : Node → Node → Bool) (hc : CmpOK cmp) (items : List Node) (i : Nat)
    (hi : i < items.length) (hs : SortedUpTo items i) (items' : List Node)
    (h : gapInsert cmp 1 items i = .ok items') : SortedUpTo items' (i + 1) := by
  unfold gapInsert at h
  rw [getAt_of_lt items i hi] at h
  simp only [Out.bind_ok] at h
  obtain ⟨cur', j', h1, h2, h3, h4, h5, h6⟩ :=
    gapShift1_spec cmp hc items[i] items i hi (i + 1) items i (Nat.le_refl _) (Nat.le_refl _) rfl
      (fun _ _ => rfl) (fun p hp1 hp2 => by omega)
  rw [h1] at h
  simp only [Out.bind_ok] at h
  rw [setAt_of_lt cur' j' _ (by omega)] at h
  injection h with h
  subst h
  have hci : (items[i]).count = cntOf items i := by
    simp [cntOf, List.getElem?_eq_getElem hi]
  -- counts of the result
  have c_lt : ∀ p, p < j' → cntOf (cur'.set j' items[i]) p = cntOf items p := by
    intro p hp
    apply cntOf_congr
    rw [List.getElem?_set_ne (by omega)]; exact h4 p hp
  have c_eq : cntOf (cur'.set j' items[i]) j' = cntOf items i := by
    simp [cntOf, List.getElem?_set_self (show j' < cur'.length by omega), hci]
  have c_gt : ∀ p, j' < p → p ≤ i → cntOf (cur'.set j' items[i]) p = cntOf items (p - 1) ∧
      cntOf items i ≤ cntOf items (p - 1) := by
    intro p hp1 hp2
    have := h5 p hp1 hp2
    refine ⟨?_, by rw [← hci]; exact this.2⟩
    simp only [cntOf]
    rw [List.getElem?_set_ne (by omega), this.1]
  intro p q hpq hq
  by_cases hqj : q < j'
  · rw [c_lt p (by omega), c_lt q hqj]; exact hs p q hpq (by omega)
  · by_cases hqe : q = j'
    · subst hqe
      rw [c_lt p hpq, c_eq]
      rcases h6 with h0 | h6
      · omega
      · rw [hci] at h6
        by_cases hp1 : p = q - 1
        · rw [hp1]; exact h6
        · have := hs p (q - 1) (by omega) (by omega)
          omega
    · have hq2 := c_gt q (by omega) (by omega)
      rw [hq2.1]
      by_cases hpj : p < j'
      · rw [c_lt p hpj]
        by_cases hpe : p = q - 1
        · rw [hpe]; exact Nat.le_refl _
        · exact hs p (q - 1) (by omega) (by omega)
      · by_cases hpe : p = j'
        · subst hpe; rw [c_eq]; exact hq2.2
        · have hp2 := c_gt p (by omega) (by omega)
          rw [hp2.1]
          exact hs (p - 1) (q - 1) (by omega) (by omega)

theorem gapPass1_sorted (cmp : Node → Node → Bool) (hc : CmpOK cmp) :
    ∀ (cnt i : Nat) (items items' : List Node), i + cnt ≤ items.length → SortedUpTo items i →
    gapPass cmp 1 cnt i items = .ok items' → SortedUpTo items' (i + cnt) := by
  intro cnt
  induction cnt with
  | zero => intro i items items' _ hs h; simp [gapPass] at h; subst h; exact hs
  | succ cnt ih =>
    intro i items items' hlen hs h
    simp only [gapPass] at h
    obtain ⟨it1, h1, h2, _⟩ := gapInsert_spec cmp 1 (Nat.le_refl _) items i (by omega)
    rw [h1] at h
    simp only [Out.bind_ok] at h
    have hs1 := gapInsert1_sorted cmp hc items i (by omega) hs it1 h1
    have := ih (i + 1) it1 items' (by rw [h2.length_eq]; omega) hs1 h
    have e : i + 1 + cnt = i + (cnt + 1) := by omega
    rw [e] at this; exact this

theorem shellPasses_sorted (cmp : Node → Node → Bool) (hc : CmpOK cmp) (n : Nat) (hn : 1 ≤ n) :
    ∀ (gaps : List Nat), (∀ g ∈ gaps, 1 ≤ g) → gaps.getLast? = some 1 →
    ∀ (items items' : List Node), n ≤ items.length →
    shellPasses cmp n gaps items = .ok items' → SortedUpTo items' n := by
  intro gaps
  induction gaps with
  | nil => intro _ h; simp at h
  | cons g gs ih =>
    intro hg hlast items items' hlen h
    simp only [shellPasses] at h
    have hgs : ∀ x ∈ gs, 1 ≤ x := fun x hx => hg x (List.mem_cons_of_mem _ hx)
    cases gs with
    | nil =>
      simp at hlast
      subst hlast
      cases hp : gapPass cmp 1 (n - 1) 1 items with
      | panic => rw [hp] at h; simp at h
      | fuel => rw [hp] at h; simp at h
      | ok it1 =>
        rw [hp] at h
        simp only [Out.bind_ok, shellPasses] at h
        injection h with h
        subst h
        have := gapPass1_sorted cmp hc (n - 1) 1 items it1 (by omega)
          (fun p q hpq hq => by omega) hp
        have e : 1 + (n - 1) = n := by omega
        rw [e] at this; exact this
    | cons g2 gs2 =>
      have hlast' : (g2 :: gs2).getLast? = some 1 := by
        simpa [List.getLast?_cons_cons] using hlast
      by_cases hgn : g ≤ n
      · obtain ⟨it1, h1, h2, _⟩ := gapPass_spec cmp g (hg g (by simp)) (n - g) g items (by omega)
        rw [h1] at h
        simp only [Out.bind_ok] at h
        exact ih hgs hlast' it1 items' (by rw [h2.length_eq]; exact hlen) h
      · have : n - g = 0 := by omega
        rw [this] at h
        simp only [gapPass, Out.bind_ok] at h
        exact ih hgs hlast' items items' hlen h

/-- `SortHuffmanTreeItems` leaves the first `n` items in non-decreasing count order -/
theorem sortItems_sorted (cmp : Node → Node → Bool) (hc : CmpOK cmp) (items items' : List Node)
    (n : Nat) (hn : n ≤ items.length) (h : sortItems cmp items n = .ok items') :
    SortedUpTo items' n := by
  unfold sortItems at h
  by_cases h13 : n < 13
  · simp only [h13, ↓reduceIte] at h
    by_cases h0 : n = 0
    · intro p q _ hq; omega
    · have := gapPass1_sorted cmp hc (n - 1) 1 items items' (by omega)
        (fun p q hpq hq => by omega) h
      have e : 1 + (n - 1) = n := by omega
      rw [e] at this; exact this
  · simp only [h13, ↓reduceIte] at h
    refine shellPasses_sorted cmp hc n (by omega) _ ?_ ?_ items items' hn h
    · intro g hg
      have hall : ∀ x ∈ kShellGaps, 1 ≤ x := by decide
      exact hall g (List.mem_of_mem_drop hg)
    · split <;> decide

end BV.Lemmas.HuffmanSort
