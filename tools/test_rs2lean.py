#!/usr/bin/env python3
"""Regression tests of tools/rs2lean.py.

Part 1 (always): small Rust snippets covering every construct of the subset are translated from a scratch
tree, the generated Lean is run through `lake env lean` and every `#eval` is compared with the expected
value (computed by hand / by the Python reference next to the snippet); snippets that must be REJECTED
(constructs outside the subset) must produce a per-function error and no definition.

Part 2 (`--diff`): differential self-check against the real crate: for the functions listed in DIFF the
generated definitions of lean/BV/Gen/Fn*.lean are evaluated on a few hundred random inputs and compared with
the output of the real Rust function (`bvh rs2lean <fn> <args..>`, harness/src/rs2lean_diff.rs).

exit status 0 = all tests passed.
"""
import json, os, random, re, shutil, subprocess, sys

HERE = os.path.dirname(os.path.abspath(__file__))
VERIF = os.path.dirname(HERE)
LEAN = os.path.join(VERIF, "lean")
SCRATCH = os.environ.get("RS2LEAN_TEST_SCRATCH", "/var/tmp/w-rs2lean-test")

SNIPPETS = r'''
const K: usize = 3;
static kTab: [u32; 4] = [10, 20, 30, 40];
pub struct Pair { pub a: u32, pub b: u16 }
static kPairs: [Pair; 3] = [Pair { a: 1, b: 2 }, Pair { a: 3, b: 4 }, Pair { a: 5, b: 6 }];
pub enum Mode { A = 0, B = 1, C = 5 }
pub struct Inner { pub x: u32, pub y: usize }
pub struct Outer { pub inner: Inner, pub mode: Mode, pub flag: bool, pub arr: [u8; 2], pub opt: Option<u8>, pub skipped: Vec<u8> }

fn sum_to(n: usize) -> usize {
    let mut s = 0usize;
    for i in 0..n {
        s += i;
    }
    s
}
fn sum_incl_rev(n: u32) -> u32 {
    let mut s = 0u32;
    for i in (1..=n).rev() {
        s = s.wrapping_mul(3).wrapping_add(i);
    }
    s
}
fn first_ge(xs: &[u32], v: u32) -> usize {
    let mut r = xs.len();
    for i in 0..xs.len() {
        if xs[i] >= v {
            r = i;
            break;
        }
    }
    r
}
fn count_odd_skip(xs: &[u8]) -> u32 {
    let mut c = 0u32;
    for x in xs.iter() {
        if *x & 1 == 0 {
            continue;
        }
        c += 1;
    }
    c
}
fn find_ret(xs: &[u8], v: u8) -> Option<usize> {
    for (i, x) in xs.iter().enumerate() {
        if *x == v {
            return Some(i);
        }
    }
    None
}
fn collatz(mut n: u64) -> u32 {
    let mut steps = 0u32;
    while n != 1 {
        if n % 2 == 0 {
            n /= 2;
        } else {
            n = 3 * n + 1;
        }
        steps += 1;
    }
    steps
}
fn loop_brk(a: u32) -> u32 {
    let mut x = a;
    let mut k = 0u32;
    loop {
        if x < 10 {
            break;
        }
        x -= 10;
        k += 1;
    }
    k * 100 + x
}
fn while_ret(xs: &[u8]) -> i32 {
    let mut i = 0usize;
    while i < xs.len() {
        if xs[i] == 7 {
            return i as i32;
        }
        i += 1;
    }
    -1
}
fn merged_if(a: u32, b: u32) -> u32 {
    let mut x = a;
    let mut y = b;
    if a > b {
        x = a - b;
        y += 1;
    } else if a == b {
        y = 0;
    }
    let z = x * 2;
    if z > 10 {
        x = z;
    }
    x + y
}
fn arrays(n: u8) -> [u8; 4] {
    let mut a = [0u8; 4];
    let b: [u8; 3] = [1, 2, 3];
    a[0] = n;
    a[1] = b[2];
    a[2] |= 0x80;
    a[K] += b.len() as u8;
    a
}
fn fill(out: &mut [u16], v: u16) -> usize {
    for i in 0..out.len() {
        out[i] = v + i as u16;
    }
    out.len()
}
fn c2rust_idiom(depth: &[u8], len: usize) -> [u16; 4] {
    let mut bl = [0u16; 4];
    for i in 0usize..len {
        let _rhs = 1;
        let _lhs = &mut bl[depth[i] as usize];
        *_lhs = (*_lhs as i32 + _rhs) as u16;
    }
    bl
}
fn twice(x: u16) -> u16 { x.wrapping_mul(2) }
fn block_arg(next: &mut [u16], k: usize) -> u16 {
    twice({
        let _lhs = &mut next[k];
        let _old = *_lhs;
        *_lhs = (*_lhs as i32 + 1) as u16;
        _old
    })
}
fn set_inner(o: &mut Outer, v: u32) {
    o.inner.x = v;
    o.inner.y += 1;
    o.arr[1] = 9;
    if o.flag {
        o.mode = Mode::C;
    }
}
fn read_outer(o: &Outer) -> u32 {
    if o.mode == Mode::C { o.inner.x + o.arr[0] as u32 } else { o.opt.unwrap_or(7) as u32 }
}
fn call_mut(o: &mut Outer) -> u32 {
    set_inner(o, 5);
    read_outer(o)
}
fn alias_field(o: &mut Outer, v: u32) {
    let inner = &mut o.inner;
    inner.x = v;
    inner.y = 2;
}
fn mk_inner(x: u32) -> Inner {
    Inner { x, y: 4 }
}
fn mode_num(m: Mode) -> u32 {
    match m {
        Mode::A => 10,
        Mode::B | Mode::C => 20,
    }
}
fn mode_back(v: u32) -> Mode {
    if v == 0 { Mode::A } else { Mode::C }
}
fn tab(i: usize) -> u32 { kTab[i] + kPairs[i % 3].a + kPairs[i % 3].b as u32 }
fn tup(a: u32) -> (u32, bool) { (a + 1, a > 3) }
fn use_tup(a: u32) -> u32 {
    let (x, flag) = tup(a);
    if flag { x } else { 0 }
}
fn opt_chain(o: Option<u8>) -> u8 {
    if let Some(v) = o { v + 1 } else { 0 }
}
fn res_early(xs: &[u8]) -> Result<usize, ()> {
    let (a, mut b) = match find_ret(xs, 3) {
        Some(i) => (i, 1usize),
        None => return Err(()),
    };
    b += a;
    Ok(b)
}
fn slices(xs: &[u8], out: &mut [u8]) -> usize {
    out[1..3].clone_from_slice(&xs[0..2]);
    let mut t = 0usize;
    for v in xs[1..].iter() {
        t += *v as usize;
    }
    t
}
fn deferred(w: u8) -> (u8, u8) {
    let a;
    let b;
    if w > 3 {
        a = 1;
        b = w;
    } else {
        match w {
            0 => a = 5,
            _ => {
                assert_eq!(w, w);
                a = 6;
            }
        }
        b = 2;
    }
    (a, b)
}
fn nested_loops(n: usize) -> usize {
    let mut t = 0usize;
    for i in 0..n {
        let mut j = 0usize;
        while j < i {
            if j == 3 { break; }
            t += 1;
            j += 1;
        }
    }
    t
}
fn nested_ret(n: usize) -> usize {
    for i in 0..n {
        for j in 0..n {
            if i * j == 6 { return i * 10 + j; }
        }
    }
    99
}
fn safe_idx(xs: &[u8], i: usize, d: u8) -> u8 {
    assert!(d != 0);
    let v = xs[i] - d;
    v / d
}
fn safe_caller(xs: &[u8]) -> u8 {
    let mut t = 0u8;
    for i in 0..2usize {
        t = t.wrapping_add(safe_idx(xs, i, 2));
    }
    t
}
fn take_it(o: &mut Outer) -> Option<u8> {
    let r = o.opt.take();
    let old = core::mem::replace(&mut o.arr[0], 4);
    o.arr[1] = old;
    r
}
fn chars() -> u8 { b';' }
fn shadow_in_branch(a: u32) -> u32 {
    let x = a;
    let mut r = 0;
    if a > 2 {
        let y = x + 1;
        r = y;
        if a > 5 { return r; }
    }
    r + x
}
fn bad_closure(x: u32) -> u32 { let f = |y: u32| y + 1; f(x) }
fn bad_float(x: u32) -> u32 { (x as f32 * 2.0) as u32 }
fn bad_label(x: u32) -> u32 { let mut i = 0; 'a: loop { loop { i += 1; if i > x { break 'a; } } } i }
fn ok_label(x: u32) -> u32 { let mut i = 0; 'a: loop { i += 1; if i > x { break 'a; } } i }
fn bad_generic<T: Copy>(x: T) -> T { x }
fn bad_match(m: Mode) -> u32 { match m { Mode::A => 1, Mode::B => 2 } }
fn bad_macro(x: u32) -> u32 { println!("{}", x); x }
fn glob_match(o: &mut Inner, m: Mode, v: u32) -> bool {
    use crate::t::Mode::*;
    match m {
        A => { o.x = v }
        B => o.y = v as usize,
        _ => return false,
    }
    true
}
fn glob_shadow(m: Mode) -> u32 {
    use self::Mode::*;
    if m == A { 7 } else if m == C { 2 } else { 1 }
}
fn bad_use(x: u32) -> u32 { use std::cmp::min; min(x, 3) }
fn bad_glob(x: u32) -> u32 { use crate::other::Unknown::*; x }
'''

ITEMS = {"T": {
    "consts": [{"file": "src/t.rs", "name": "K"}, {"file": "src/t.rs", "name": "kTab"}, {"file": "src/t.rs", "name": "kPairs"}],
    "enums": {"Mode": "src/t.rs"},
    "structs_v": {"Pair": "src/t.rs", "Inner": "src/t.rs", "Outer": "src/t.rs"},
    "fns": [{"file": "src/t.rs", "fn": n} for n in
            ["sum_to", "sum_incl_rev", "first_ge", "count_odd_skip", "find_ret", "collatz", "loop_brk", "while_ret",
             "merged_if", "arrays", "fill", "c2rust_idiom", "twice", "block_arg", "set_inner", "read_outer", "call_mut",
             "alias_field", "mk_inner", "mode_num", "mode_back", "tab", "tup", "use_tup", "opt_chain", "res_early", "slices",
             "deferred", "nested_loops", "nested_ret", "take_it", "chars", "shadow_in_branch", "ok_label", "glob_match", "glob_shadow"]] +
           [{"file": "src/t.rs", "fn": "safe_idx", "safe": True}, {"file": "src/t.rs", "fn": "safe_caller", "safe": True}] +
           [{"file": "src/t.rs", "fn": n} for n in ["bad_closure", "bad_float", "bad_label", "bad_generic", "bad_match", "bad_macro", "bad_use", "bad_glob"]]}}
ITEMS["T"]["fns"][5]["fuel"] = "1000"

O1 = "({ inner := { x := 1, y := 2 }, mode := 1, flag := true, arr := [3, 4], opt := some 9 } : Outer)"
O2 = "({ inner := { x := 1, y := 2 }, mode := 0, flag := false, arr := [3, 4], opt := none } : Outer)"


def py_sum_incl_rev(n):
    s = 0
    for i in range(n, 0, -1):
        s = (s * 3 + i) % 2 ** 32
    return s


# (Lean expression, expected `#eval` output with whitespace removed)
CASES = [
    ("sum_to 10", "45"),
    ("sum_to 0", "0"),
    ("sum_incl_rev 5", str(py_sum_incl_rev(5))),
    ("first_ge [1, 5, 9, 12] 6", "2"),
    ("first_ge [1, 5] 6", "2"),
    ("count_odd_skip [1, 2, 3, 4, 5]", "3"),
    ("find_ret [4, 5, 6] 6", "some2"),
    ("find_ret [4, 5, 6] 7", "none"),
    ("collatz 27", "111"),
    ("loop_brk 47", "407"),
    ("while_ret [1, 2, 7, 7]", "2"),
    ("while_ret [1, 2]", "-1"),
    ("merged_if 9 2", str(14 + 3)),
    ("merged_if 2 2", "2"),
    ("merged_if 1 2", "3"),
    ("arrays 200", "[200,3,128,3]"),
    ("fill [0, 0, 0] 7", "(3,[7,8,9])"),
    ("c2rust_idiom [1, 3, 3, 0, 9] 4", "[1,1,0,2]"),
    ("block_arg [5, 6, 7] 1", "(12,[5,7,7])"),
    ("set_inner %s 77" % O1, "{inner:={x:=77,y:=3},mode:=5,flag:=true,arr:=[3,9],opt:=some9}"),
    ("read_outer %s" % O1, "9"),
    ("read_outer %s" % O2, "7"),
    ("(call_mut %s).1" % O1, "8"),
    ("(alias_field %s 6).inner" % O2, "{x:=6,y:=2}"),
    ("mk_inner 3", "{x:=3,y:=4}"),
    ("(mode_num 0, mode_num 1, mode_num 5)", "(10,20,20)"),
    ("(mode_back 0, mode_back 3)", "(0,5)"),
    ("tab 1", str(20 + 3 + 4)),
    ("use_tup 4", "5"),
    ("use_tup 2", "0"),
    ("(opt_chain (some 4), opt_chain none)", "(5,0)"),
    ("res_early [1, 3, 3]", "some2"),
    ("res_early [1]", "none"),
    ("slices [1, 2, 3] [9, 9, 9, 9]", "(5,[9,1,2,9])"),
    ("(deferred 7, deferred 0, deferred 2)", "((1,7),(5,2),(6,2))"),
    ("nested_loops 6", str(sum(min(i, 3) for i in range(6)))),
    ("nested_ret 5", "23"),
    ("nested_ret 2", "99"),
    ("safe_idx [9, 4] 0 2", "3"),
    ("safe_idx_ok [9, 4] 0 2", "true"),
    ("safe_idx_ok [9, 4] 2 2", "false"),      # index out of range
    ("safe_idx_ok [9, 4] 1 5", "false"),      # u8 underflow
    ("safe_idx_ok [9, 4] 1 0", "false"),      # assert / division by zero
    ("safe_caller_ok [9, 4]", "true"),
    ("safe_caller_ok [9, 1]", "false"),
    ("safe_caller_ok [9]", "false"),
    ("take_it %s" % O1, "(some9,{inner:={x:=1,y:=2},mode:=1,flag:=true,arr:=[4,3],opt:=none})"),
    ("chars", "59"),
    ("ok_label 4", "5"),
    ("(shadow_in_branch 1, shadow_in_branch 4, shadow_in_branch 9)", "(1,9,10)"),
    # `use Enum::*;` in a body: bare variant names in patterns and expressions; `{ a = b }` closing a block
    ("glob_match { x := 1, y := 2 } 0 9", "(true,{x:=9,y:=2})"),
    ("glob_match { x := 1, y := 2 } 1 9", "(true,{x:=1,y:=9})"),
    ("glob_match { x := 1, y := 2 } 5 9", "(false,{x:=1,y:=2})"),
    ("(glob_shadow 0, glob_shadow 1, glob_shadow 5)", "(7,1,2)"),
]
REJECTED = ["bad_closure", "bad_float", "bad_label", "bad_generic", "bad_match", "bad_macro", "bad_use", "bad_glob"]


def run_lean(text, name):
    p = os.path.join(SCRATCH, name)
    open(p, "w").write(text)
    r = subprocess.run(["lake", "env", "lean", p], cwd=LEAN, capture_output=True, text=True, timeout=1200)
    return r.returncode, r.stdout + r.stderr


def part1():
    shutil.rmtree(SCRATCH, ignore_errors=True)
    os.makedirs(os.path.join(SCRATCH, "repo", "src"))
    os.makedirs(os.path.join(SCRATCH, "gen"))
    open(os.path.join(SCRATCH, "repo", "src", "t.rs"), "w").write(SNIPPETS)
    json.dump(ITEMS, open(os.path.join(SCRATCH, "items.json"), "w"))
    r = subprocess.run([sys.executable, os.path.join(HERE, "rs2lean.py"), os.path.join(SCRATCH, "gen"),
                        "--repo", os.path.join(SCRATCH, "repo"), "--items", os.path.join(SCRATCH, "items.json")],
                       capture_output=True, text=True)
    try:
        rep = json.loads(r.stdout.strip().split("\n")[-1])
    except Exception:
        print("rs2lean crashed:\n" + r.stdout + r.stderr)
        return 1
    fails = 0
    errs = rep["errors"]
    for n in REJECTED:
        if not any(("fn %s " % n) in e for e in errs):
            print("FAIL: %s was not rejected" % n)
            fails += 1
    for e in errs:
        if not any(("fn %s " % n) in e for n in REJECTED):
            print("FAIL: unexpected translation error: " + e)
            fails += 1
    gen = open(os.path.join(SCRATCH, "gen", "FnT.lean")).read()
    for n in REJECTED:
        if re.search(r"^def %s\b" % n, gen, re.M):
            print("FAIL: a definition was emitted for the rejected %s" % n)
            fails += 1
    text = gen + "\nopen BV.Gen.FnT\n" + "".join("#eval %s\n" % c for c, _ in CASES)
    rc, out = run_lean(text, "T.lean")
    outs = [l for l in out.split("\n") if l.strip() != ""]
    if rc != 0 or "error" in out:
        print("FAIL: lean rejected the generated file:\n" + out[:6000])
        return fails + 1
    # every #eval prints one value, possibly over several lines: join and split by our own markers instead
    text2 = gen + "\nopen BV.Gen.FnT\n" + "".join('#eval IO.println ("@@%d " ++ toString (repr (%s)))\n' % (i, c) for i, (c, _) in enumerate(CASES))
    rc, out = run_lean(text2, "T2.lean")
    got = {}
    for m in re.finditer(r"@@(\d+) (.*?)(?=@@\d+ |\Z)", out, re.S):
        got[int(m.group(1))] = re.sub(r"\s+", "", m.group(2))
    for i, (c, want) in enumerate(CASES):
        g = got.get(i)
        if g is not None:
            g = g.replace("BV.Gen.FnT.", "").replace("(", "").replace(")", "")
        want = want.replace("(", "").replace(")", "")
        if g != want:
            print("FAIL: %s = %s, expected %s" % (c, g, want))
            fails += 1
    print("part 1: %d cases, %d rejected snippets, %d failures" % (len(CASES), len(REJECTED), fails))
    return fails



# ---------------------------------------------------------------- part 2: differential self-check against the crate
BVH = os.path.join(VERIF, ".cache", "target", "release", "bvh")
DIST = "{ distance_postfix_bits := np, num_direct_distance_codes := nd, alphabet_size := 0, max_distance := 0 }"
Z24 = "(List.replicate 24 0)"
# harness function -> (generated file key, Lean helper definition or None, Lean function applied to the harness arguments)
DIFF = {
    "Log2FloorNonZero": ("C18", None, "BV.Gen.FnC18.Log2FloorNonZero"),
    "GetInsertLengthCode": ("C18", None, "BV.Gen.FnC18.GetInsertLengthCode"),
    "GetCopyLengthCode": ("C18", None, "BV.Gen.FnC18.GetCopyLengthCode"),
    "PrefixEncodeCopyDistance": ("C18", None, "BV.Gen.FnC18.PrefixEncodeCopyDistance"),
    "BrotliEncoderMaxCompressedSize": ("C08", None, "BV.Gen.FnC08.BrotliEncoderMaxCompressedSize"),
    "BROTLI_DISTANCE_ALPHABET_SIZE": ("C15", None, "BV.Gen.FnC15.BROTLI_DISTANCE_ALPHABET_SIZE"),
    "SanitizeParams": ("C15", "def d_SanitizeParams (q lw : Int) (large cat app : Bool) := let p := BV.Gen.FnC15.SanitizeParams { (default : BV.Gen.FnC15.BrotliEncoderParams) with quality := q, lgwin := lw, large_window := large, catable := cat, appendable := app }; (p.quality, p.lgwin, p.appendable)", "d_SanitizeParams"),
    "BrotliInitDistanceParams": ("C15", "def d_Init (large : Bool) (np nd : Nat) := let p := BV.Gen.FnC15.BrotliInitDistanceParams { (default : BV.Gen.FnC15.BrotliEncoderParams) with large_window := large } np nd; (p.dist.distance_postfix_bits, p.dist.num_direct_distance_codes, p.dist.alphabet_size, p.dist.max_distance)", "d_Init"),
    "Command_new": ("C18v", "def d_new (np nd il cl clc dc : Nat) := let c := BV.Gen.FnC18v.Command_new %s il cl clc dc; (c.insert_len_, c.copy_len_, c.dist_extra_, c.cmd_prefix_, c.dist_prefix_)" % DIST, "d_new"),
    "distance_index_and_offset": ("C18v", "def d_dio (np nd il cl clc dc : Nat) := BV.Gen.FnC18v.distance_index_and_offset (BV.Gen.FnC18v.Command_new %s il cl clc dc) %s" % (DIST, DIST), "d_dio"),
    "copy_len_code": ("C18v", "def d_clc (np nd il cl clc dc : Nat) := BV.Gen.FnC18v.copy_len_code (BV.Gen.FnC18v.Command_new %s il cl clc dc)" % DIST, "d_clc"),
    "restore_distance_code": ("C18v,C18", "def d_rdc (np nd il cl clc dc : Nat) := let c := BV.Gen.FnC18v.Command_new %s il cl clc dc; BV.Gen.FnC18.restore_distance_code c.dist_extra_ c.dist_prefix_ np nd" % DIST, "d_rdc"),
    "GetBlockLengthPrefixCode": ("C18v", None, "BV.Gen.FnC18v.GetBlockLengthPrefixCode"),
    "encode_base_128": ("C15", None, "BV.Gen.FnC15.encode_base_128"),
    "BrotliConvertBitDepthsToSymbols": ("C17", None, "BV.Gen.FnC17.BrotliConvertBitDepthsToSymbols"),
    "BrotliSetDepth": ("C17", "def d_sd (p0 : Int) (pool : List BV.Gen.FnC17.HuffmanTree) (depth : List Nat) (md : Int) := let r := BV.Gen.FnC17.BrotliSetDepth p0 pool depth md; (r.1, r.2.2)", "d_sd"),
    "new_with_window_size": ("C16", "def d_nww (w : Nat) := BV.Gen.FnC16.serialize_to_buffer (BV.Gen.FnC16.new_with_window_size w) %s" % Z24, "d_nww"),
    "deserialize_serialize": ("C16", "def d_ds (buf : List Nat) := match BV.Gen.FnC16.deserialize_from_buffer buf with | some s => BV.Gen.FnC16.serialize_to_buffer s %s | none => (none, [])" % Z24, "d_ds"),
    "finish": ("C16", "def d_fin (w : Nat) (out : List Nat) := let r := BV.Gen.FnC16.finish (BV.Gen.FnC16.new_with_window_size w) out 0; (r.1, r.2.2.2, r.2.2.1, BV.Gen.FnC16.serialize_to_buffer r.2.1 %s)" % Z24, "d_fin"),
    "MakeUncompressedStream": ("C08", "def d_mus (inp : List Nat) (n : Nat) (out : List Nat) := let r := BV.Gen.FnC08.MakeUncompressedStream inp n out; if n > 1000 then (r.1, r.2.take 8, [(List.foldl (fun (a : Nat × Nat) b => (a.1 + 1, (a.2 + (a.1 + 1) * b) % 1000003)) (0, 0) r.2).2]) else (r.1, r.2, [])", "d_mus"),
    "FixedQueue": ("C07", "def d_fq (ops : List Nat) : List Nat := (ops.foldl (fun (acc : BV.Gen.FnC07.FixedQueue × List Nat) op => let q := acc.1; let out := acc.2; let st (q : BV.Gen.FnC07.FixedQueue) : List Nat := [BV.Gen.FnC07.size q, if BV.Gen.FnC07.can_push q then 1 else 0]; if op != 0 then let r := BV.Gen.FnC07.push q (op - 1); (r.2, out ++ [if r.1.isSome then 1 else 0] ++ st r.2) else let r := BV.Gen.FnC07.pop q; (r.2, out ++ (match r.1 with | some v => [1, v] | none => [0]) ++ st r.2)) (BV.Gen.FnC07.new, [])).2", "d_fq"),
}


def norm_ints(text):
    text = text.replace("some", " 1 ").replace("none", " 0 ").replace("true", " 1 ").replace("false", " 0 ")
    return [int(x) for x in re.findall(r"-?\d+", text)]


def part2(count=200, seed=1):
    if not os.path.exists(BVH):
        print("part 2: %s is missing (cargo build --release --offline in /verif/harness)" % BVH)
        return 1
    os.makedirs(SCRATCH, exist_ok=True)
    fails = 0
    total = 0
    only = [a.split("=")[1] for a in sys.argv if a.startswith("--fn=")]
    for name, (keys, helper, fn) in DIFF.items():
        if only and name not in only:
            continue
        r = subprocess.run([BVH, "rs2lean", name, str(count), "--seed", str(seed), "--out", SCRATCH], capture_output=True, text=True)
        lines = [l for l in r.stdout.split("\n") if " => " in l]
        if len(lines) != count:
            print("FAIL: harness produced %d of %d lines for %s: %s" % (len(lines), count, name, (r.stdout + r.stderr)[-300:]))
            fails += 1
            continue
        text = "".join("import BV.Gen.Fn%s\n" % k for k in keys.split(",")) + "set_option maxRecDepth 100000\n" + (helper + "\n" if helper else "")
        for i, l in enumerate(lines):
            args = l.split(" => ")[0]
            text += '#eval IO.println ("@@%d " ++ toString (repr (%s %s)))\n' % (i, fn, args)
        rc, out = run_lean(text, "D_%s.lean" % name)
        got = {}
        for m in re.finditer(r"@@(\d+) (.*?)(?=@@\d+ |\Z)", out, re.S):
            got[int(m.group(1))] = m.group(2).split("/var/tmp")[0]      # drop diagnostics of a following #eval
        bad = 0
        for i, l in enumerate(lines):
            want = norm_ints(l.split(" => ")[1])
            g = got.get(i)
            if g is None or norm_ints(g) != want:
                bad += 1
                if bad <= 3:
                    print("FAIL: %s %s: rust %s, generated Lean %s" % (name, l.split(" => ")[0][:200], want[:40], (norm_ints(g)[:40] if g is not None else out[-300:])))
        total += len(lines)
        if bad:
            fails += 1
            print("FAIL: %s: %d of %d cases disagree" % (name, bad, len(lines)))
    print("part 2: %d functions, %d cases compared, %d functions failing" % (len(DIFF), total, fails))
    return fails



# ---------------------------------------------------------------- part 3: seeded edits of translated functions
# (generated-file key, Props module, Rust file, old text, new text, must the equivalence module still build?)
# a SEMANTIC edit of a translated body must break the kernel-checked equation (or the translation itself); a
# HARMLESS rewrite (renamed locals, restructured `if`) must leave the module building.
SEEDED = [
    ("C19", "C19Gen", "src/enc/backward_references/mod.rs", "(h >> (64i32 - 17i32)) as u32", "(h >> (64i32 - 18i32)) as u32", False),
    ("C19", "C19Gen", "src/enc/backward_references/mod.rs",
     "let h: u32 = BROTLI_UNALIGNED_LOAD32(data).wrapping_mul(kHashMul32);\n    h >> (32i32 - 14i32)",
     "let product: u32 = BROTLI_UNALIGNED_LOAD32(data).wrapping_mul(kHashMul32);\n    let amount = 32i32 - 14i32;\n    product >> amount", True),
    ("C19", "C19Gen", "src/enc/static_dict.rs", "| ((p[5] as u64) << 40)", "| ((p[5] as u64) << 48)", False),
    ("C07", "C07Gen", "src/enc/fixed_queue.rs", "let index = (self.start + self.size) % self.data.len();", "let index = (self.start + self.size + 1) % self.data.len();", False),
    ("C07", "C07Gen", "src/enc/fixed_queue.rs", "        self.start += 1;\n        self.size -= 1;\n        ret\n    }\n    pub fn how_much",
     "        self.size -= 1;\n        self.start += 1;\n        let answer = ret;\n        answer\n    }\n    pub fn how_much", True),
    ("C07", "C07Gen", "src/enc/fixed_queue.rs", "if self.size == self.data.len() {\n            return Err(());\n        }", "if self.size + 1 == self.data.len() {\n            return Err(());\n        }", False),
]


def part3():
    os.makedirs(SCRATCH, exist_ok=True)
    repo = os.path.join(SCRATCH, "seeded_repo")
    fails = 0
    import gen_source
    real = gen_source.REPO
    only = [a.split("=", 1)[1].split(",") for a in sys.argv if a.startswith("--seeded-keys=")]
    for n, (key, mod, rfile, old, new, must_build) in enumerate(SEEDED + SEEDED_MORE):
        if only and key not in only[0]:
            continue
        shutil.rmtree(repo, ignore_errors=True)
        shutil.copytree(os.path.join(real, "src"), os.path.join(repo, "src"))
        path = os.path.join(repo, rfile)
        text = open(path).read()
        if text.count(old) != 1:
            print("FAIL: seeded edit %d: the text to replace occurs %d times in %s" % (n, text.count(old), rfile))
            fails += 1
            continue
        open(path, "w").write(text.replace(old, new))
        gdir = os.path.join(SCRATCH, "seeded_gen")
        shutil.rmtree(gdir, ignore_errors=True)
        os.makedirs(gdir)
        r = subprocess.run([sys.executable, os.path.join(HERE, "rs2lean.py"), gdir, "--repo", repo, "--only", key], capture_output=True, text=True)
        rep = json.loads(r.stdout.strip().split("\n")[-1])
        gen = open(os.path.join(gdir, "Fn%s.lean" % key)).read()
        props = open(os.path.join(LEAN, "BV", "Props", mod + ".lean")).read()
        imports = [l for l in gen.split("\n") if l.startswith("import ")]
        imports += [l for l in props.split("\n") if l.startswith("import ") and l.strip() != "import BV.Gen.Fn%s" % key and l not in imports]
        body = "\n".join(l for l in gen.split("\n") if not l.startswith("import ")) + "\n" + "\n".join(l for l in props.split("\n") if not l.startswith("import "))
        rc, out = run_lean("\n".join(imports) + "\n" + body, "S_%d.lean" % n)
        built = rc == 0 and not rep["errors"]
        if built != must_build:
            print("FAIL: seeded edit %d (%s, %s): module %s, expected %s\n%s" % (
                n, rfile, new[:60].replace("\n", " "), "builds" if built else "does not build", "to build" if must_build else "a broken equation", out[-600:] if must_build else ""))
            fails += 1
    print("part 3: %d seeded edits, %d failures" % (len(SEEDED + SEEDED_MORE), fails))
    return fails


# session 4 (w-gentie): seeded edits for the tie modules C15Gen (parameter functions, base-128, magic block), ...
SEEDED_MORE = [
    ("C15", "C15Gen", "src/enc/encode.rs", "    if params.catable {\n        params.appendable = true;\n    }\n}", "    if !params.catable {\n        params.appendable = true;\n    }\n}", False),
    ("C15", "C15Gen", "src/enc/encode.rs", "    params.quality = min(11i32, max(0i32, params.quality));", "    let lower = max(0i32, params.quality);\n    params.quality = min(11i32, lower);", True),
    ("C15", "C15Gen", "src/enc/encode.rs", "if params.quality >= 9i32 && (params.lgwin > lgblock) {", "if params.quality > 9i32 && (params.lgwin > lgblock) {", False),
    ("C15", "C15Gen", "src/enc/encode.rs", "total = delta.wrapping_add(tail) as u32;", "total = tail as u32;", False),
    ("C15", "C15Gen", "src/enc/encode.rs", "            let delta: u64 = self.unprocessed_input_size();\n            let tail: u64 = available_in as u64;\n            let limit: u32 = 1u32 << 30;\n            let total: u32;\n            if delta >= u64::from(limit)\n                || tail >= u64::from(limit)\n                || delta.wrapping_add(tail) >= u64::from(limit)",
     "            let pending: u64 = self.unprocessed_input_size();\n            let tail: u64 = available_in as u64;\n            let limit: u32 = 1u32 << 30;\n            let total: u32;\n            let delta = pending;\n            if delta >= u64::from(limit)\n                || tail >= u64::from(limit)\n                || delta.wrapping_add(tail) >= u64::from(limit)", True),
    ("C15", "C15Gen", "src/enc/brotli_bit_stream.rs", "        value >>= 7;\n        if value != 0 {\n            ret[index] |= 0x80;", "        value >>= 8;\n        if value != 0 {\n            ret[index] |= 0x80;", False),
    ("C15", "C15Gen", "src/enc/brotli_bit_stream.rs", "        value >>= 7;\n        if value != 0 {\n            ret[index] |= 0x80;", "        value >>= 7;\n        if value != 0 {\n            ret[index] = ret[index] | 0x80;", True),
    ("C15", "C15Gen", "src/enc/brotli_bit_stream.rs", "let magic_number: [u8; 3] = if params.catable && !params.use_dictionary {", "let magic_number: [u8; 3] = if params.catable {", False),
    ("C15", "C15Gen", "src/enc/brotli_bit_stream.rs", "    for magic in magic_number.iter() {\n        BrotliWriteBits(8u8, u64::from(*magic), storage_ix, storage);", "    for m in magic_number.iter() {\n        BrotliWriteBits(8u8, u64::from(*m), storage_ix, storage);", True),
    ("C15", "C15Gen", "src/enc/brotli_bit_stream.rs", "    BrotliWriteBits(8u8, u64::from(VERSION), storage_ix, storage);\n    for sh in", "    for sh in", False),
    # C15GenD (direct theorems)
    ("C15", "C15GenD", "src/enc/encode.rs", "            || (ndirect_msb << distance_postfix_bits) != num_direct_distance_codes", "            || (ndirect_msb << distance_postfix_bits) == num_direct_distance_codes", False),
    ("C15", "C15GenD", "src/enc/encode.rs", "        if params.mode == BrotliEncoderMode::BROTLI_MODE_FONT {\n            distance_postfix_bits = 1;\n            num_direct_distance_codes = 12;", "        if params.mode == BrotliEncoderMode::BROTLI_MODE_FONT {\n            distance_postfix_bits = 1;\n            num_direct_distance_codes = 13;", False),
    # C17Gen
    ("C17", "C17Gen", "src/enc/entropy_encode.rs", "            bits = (bits as i32 >> 4) as u16;", "            bits = (bits as i32 >> 3) as u16;", False),
    ("C17", "C17Gen", "src/enc/entropy_encode.rs", "    retval >>= (0usize.wrapping_sub(num_bits) & 0x3usize);", "    retval >>= (num_bits & 0x3usize);", False),
    ("C17", "C17Gen", "src/enc/entropy_encode.rs", "    let mut i: usize;\n    i = 4usize;\n    while i < num_bits {", "    let mut i: usize = 4usize;\n    while i < num_bits {", True),
    ("C17", "C17Gen", "src/enc/brotli_bit_stream.rs", "if depths[symbols[j]] < depths[symbols[i]] {", "if depths[symbols[j]] <= depths[symbols[i]] {", False),
    ("C17", "C17Gen", "src/enc/brotli_bit_stream.rs", "                    as i32\n                    != 0i32\n                {\n                    break 'break5;", "                    as i32\n                    > 1i32\n                {\n                    break 'break5;", False),
    ("C17", "C17Gen", "src/enc/brotli_bit_stream.rs", "            skip_some = 3;\n        }\n    }\n    BrotliWriteBits(2, skip_some, storage_ix, storage);", "            skip_some = 2;\n        }\n    }\n    BrotliWriteBits(2, skip_some, storage_ix, storage);", False),
    ("C17", "C17Gen", "src/enc/brotli_bit_stream.rs", "    for i in skip_some..codes_to_store {\n        let l = code_length_bitdepth[kStorageOrder[i as usize] as usize] as usize;", "    for idx in skip_some..codes_to_store {\n        let l = code_length_bitdepth[kStorageOrder[idx as usize] as usize] as usize;", True),
    ("C17", "C17Gen", "src/enc/entropy_encode.rs", "        code = (code + bl_count[i - 1] as i32) << 1;", "        code = (code + bl_count[i] as i32) << 1;", False),
    ("C17", "C17Gen", "src/enc/entropy_encode.rs", "    bl_count[0] = 0u16;\n    next_code[0] = 0u16;", "    next_code[0] = 0u16;", False),
    ("C17", "C17Gen", "src/enc/entropy_encode.rs", "        code = (code + bl_count[i - 1] as i32) << 1;\n        next_code[i] = code as u16;", "        let prev = bl_count[i - 1] as i32;\n        code = (code + prev) << 1;\n        next_code[i] = code as u16;", True),
    # C20Gen
    ("C20", "C20Gen", "src/enc/encode.rs", "            if value != 0 && value != 1 {\n                return false;\n            }", "            if value != 0 && value != 1 && value != 2 {\n                return false;\n            }", False),
    ("C20", "C20Gen", "src/enc/encode.rs", "            params.use_dictionary = (value == 0);", "            params.use_dictionary = (value != 0);", False),
    ("C20", "C20Gen", "src/enc/encode.rs", "        BROTLI_PARAM_LGWIN => params.lgwin = value as i32,\n        BROTLI_PARAM_LGBLOCK => params.lgblock = value as i32,", "        BROTLI_PARAM_LGWIN => params.lgblock = value as i32,\n        BROTLI_PARAM_LGBLOCK => params.lgwin = value as i32,", False),
    ("C20", "C20Gen", "src/enc/encode.rs", "        BROTLI_PARAM_MAGIC_NUMBER => params.magic_number = value != 0,\n", "", False),
    ("C20", "C20Gen", "src/enc/encode.rs", "        if self.is_initialized_ {\n            false\n        } else {\n            set_parameter(&mut self.params, p, value)\n        }", "        set_parameter(&mut self.params, p, value)", False),
    ("C20", "C20Gen", "src/enc/encode.rs", "        BROTLI_PARAM_APPENDABLE => params.appendable = value != 0,", "        BROTLI_PARAM_APPENDABLE => {\n            let on = value != 0;\n            params.appendable = on;\n        }", True),
    # C16Gen (constructors / predicates)
    ("C16", "C16Gen", "src/concat/mod.rs", "if self.num_bytes_read == 4 && (127 & self.bytes_so_far[0]) != 17 {", "if self.num_bytes_read == 4 && (127 & self.bytes_so_far[0]) != 16 {", False),
    ("C16", "C16Gen", "src/concat/mod.rs", "            last_bytes = [17u8, log_window_size | 64 | 128];", "            last_bytes = [17u8, log_window_size | 64];", False),
    ("C16", "C16Gen", "src/concat/mod.rs", "        if self.num_bytes_read == 4 && (127 & self.bytes_so_far[0]) != 17 {\n            return true;\n        }\n        self.num_bytes_read == 5", "        let first = self.bytes_so_far[0];\n        if self.num_bytes_read == 4 && (127 & first) != 17 {\n            return true;\n        }\n        self.num_bytes_read == 5", True),
    ("C16", "C16Gen", "src/concat/mod.rs", "        last_bytes |= 3 << bit_end;", "        last_bytes |= 1 << bit_end;", False),
    # C14Gen
    ("C18v", "C14Gen", "src/enc/command.rs", "let ret = (((offset + dextra) << n_postfix) + lcode + n_direct + 1) as isize;", "let ret = (((offset + dextra) << n_postfix) + lcode + n_direct + 2) as isize;", False),
    ("C18v", "C14Gen", "src/enc/command.rs", "        let ret = (((offset + dextra) << n_postfix) + lcode + n_direct + 1) as isize;\n        //assert!(ret != 0);\n        (0, ret)", "        let answer = (((offset + dextra) << n_postfix) + lcode + n_direct + 1) as isize;\n        (0, answer)", True),
    ("C20", "C20Gen", "src/enc/encode.rs", "total = delta.wrapping_add(tail) as u32;", "total = delta as u32;", False),
    ("C16", "C16Gen", "src/concat/mod.rs", "    mnibbles += 4;", "    mnibbles += 5;", False),
    # C18vGen
    ("C18v", "C18vGen", "src/enc/command.rs", "let copylen_code_delta = (copylen_code as i32 - copylen as i32) as i8;", "let copylen_code_delta = (copylen as i32 - copylen_code as i32) as i8;", False),
    ("C18v", "C18vGen", "src/enc/command.rs", "            (self.dist_prefix_ & 0x3ff) == 0,\n            &mut self.cmd_prefix_,", "            (self.dist_prefix_ & 0x3ff) != 0,\n            &mut self.cmd_prefix_,", False),
    ("C18v", "C18vGen", "src/enc/command.rs", "        self.insert_len_ = insertlen as u32;\n        let copylen_code_delta = (copylen_code as i32 - copylen as i32) as i8;", "        let copylen_code_delta = (copylen_code as i32 - copylen as i32) as i8;\n        self.insert_len_ = insertlen as u32;", True),
    ("C18v", "C18vGen", "src/enc/brotli_bit_stream.rs", "        && (len >= kBlockLengthPrefixCode[code.wrapping_add(1) as usize].offset)", "        && (len > kBlockLengthPrefixCode[code.wrapping_add(1) as usize].offset)", False),
    ("C18v", "C18vGen", "src/enc/brotli_bit_stream.rs", "    let bits: u64 = copyextraval << insnumextra | insextraval;", "    let bits: u64 = insextraval << insnumextra | copyextraval;", False),
    ("C18v", "C18vGen", "src/enc/brotli_bit_stream.rs", "let delta: i32 = ((modifier | ((modifier & 0x40) << 1)) as u8) as i8 as i32;", "let delta: i32 = ((modifier | ((modifier & 0x40) << 1)) as u8) as i32;", False),
    ("C18v", "C18vGen", "src/enc/brotli_bit_stream.rs", "    let bits: u64 = copyextraval << insnumextra | insextraval;\n    BrotliWriteBits(\n        insnumextra.wrapping_add(GetCopyExtra(copycode)) as u8,\n        bits,", "    let value: u64 = copyextraval << insnumextra | insextraval;\n    BrotliWriteBits(\n        insnumextra.wrapping_add(GetCopyExtra(copycode)) as u8,\n        value,", True),
]

if __name__ == "__main__":
    f = 0
    if "--diff-only" not in sys.argv and "--seeded-only" not in sys.argv:
        f = part1()
    if "--diff" in sys.argv or "--diff-only" in sys.argv:
        f += part2()
    if "--seeded" in sys.argv or "--seeded-only" in sys.argv:
        f += part3()
    sys.exit(1 if f else 0)
