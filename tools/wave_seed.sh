#!/bin/sh
# usage: WAVE=w9 VERIF_REV=<commit> MIRROR=/var/tmp/mirrorN tools/wave_seed.sh Cnn [extra check ids] — confirm the seed in /tmp/seed-$WAVE-Cnn/_seed and test it in a mirror
id=$1; shift
sd=/var/tmp/${WAVE:-w6}seeds/$id; mkdir -p $sd; cp /tmp/seed-${WAVE:-w6}-$id/_seed/patch.diff /tmp/seed-${WAVE:-w6}-$id/_seed/demo.rs /tmp/seed-${WAVE:-w6}-$id/_seed/notes.md $sd/ 2>/dev/null
cd /verif
conf=$(tools/confirm_seed.sh /tmp/seed-${WAVE:-w6}-$id $sd 2>/dev/null | tail -1)
echo "$conf" > $sd/confirm.json
echo "CONFIRM $id $conf"
rm -rf /tmp/seed-${WAVE:-w6}-$id/target
res=$(MIRROR=${MIRROR:-/var/tmp/mirror} VERIF_REV=${VERIF_REV:-HEAD} tools/mirror_seed.sh $sd/patch.diff $id "$@" 2>&1 | grep -E "^C[0-9][0-9] rc=")
echo "$res" > $sd/mirror.txt
echo "MIRROR $id: $res"
