#!/usr/bin/env python3
"""Orchestration of one property check (DESIGN.md section 5).

  ./check --setup
  ./check Cxx [quick|thorough]
  ./check Cxx --replay <file>

Pipeline per run:
  gen (Rust source -> BV/Gen/*.lean)  ->  lake build BV.Props.Cxx + bvdrive  ->  axiom audit
  -> cargo build of the harness against /repo's CURRENT tree (hooks on)
  -> correspondence (harness writes ops/impl, Lean driver answers, diff)
  -> search (property oracle on the real code; part of the harness run)
  -> evidence/<id>.json, verdict (exit 0 / `VIOLATION property=… replay=…` + exit 1)
"""
import fcntl
import hashlib
import json
import os
import re
import shutil
import subprocess
import sys
import time

VERIF = os.path.dirname(os.path.dirname(os.path.abspath(__file__)))
LEAN = os.path.join(VERIF, "lean")
HARNESS = os.path.join(VERIF, "harness")
CACHE = os.path.join(VERIF, ".cache")
REPO = os.environ.get("VERIF_REPO", "/repo")
sys.path.insert(0, os.path.join(VERIF, "tools"))
from props import PROPS  # noqa: E402

ALLOWED_AXIOMS = {"propext", "Classical.choice", "Quot.sound"}
ENV = dict(os.environ, CARGO_NET_OFFLINE="true", PIP_NO_INDEX="1", GOPROXY="off")


def sh(cmd, cwd=None, timeout=None, env=None):
    t0 = time.time()
    p = subprocess.run(cmd, cwd=cwd, shell=isinstance(cmd, str), stdout=subprocess.PIPE,
                       stderr=subprocess.STDOUT, text=True, timeout=timeout, env=env or ENV)
    return p.returncode, p.stdout, time.time() - t0


class Lock:
    def __enter__(self):
        os.makedirs(CACHE, exist_ok=True)
        self.f = open(os.path.join(CACHE, "build.lock"), "w")
        fcntl.flock(self.f, fcntl.LOCK_EX)
        return self

    def __exit__(self, *a):
        fcntl.flock(self.f, fcntl.LOCK_UN)
        self.f.close()


def repo_head():
    rc, out, _ = sh("git -C %s rev-parse HEAD; git -C %s status --porcelain | grep -v '^??' | head -20" % (REPO, REPO))
    lines = out.strip().split("\n")
    return {"head": lines[0] if lines else "?", "dirty": lines[1:]}


# --------------------------------------------------------------------------- Lean side
def gen():
    rc, out, _ = sh([sys.executable, os.path.join(VERIF, "tools", "gen_source.py"), os.path.join(LEAN, "BV", "Gen")])
    try:
        info = json.loads(out.strip().split("\n")[-1])
    except Exception:
        info = {"errors": ["gen_source.py crashed: " + out[-2000:]]}
    # function bodies: Rust -> Lean (tools/rs2lean.py), one generated file per property
    rc2, out2, _ = sh([sys.executable, os.path.join(VERIF, "tools", "rs2lean.py"), os.path.join(LEAN, "BV", "Gen")])
    try:
        info2 = json.loads(out2.strip().split("\n")[-1])
    except Exception:
        info2 = {"errors": ["rs2lean.py crashed: " + out2[-2000:]], "files": {}}
    info["errors"] = list(info.get("errors", [])) + ["rs2lean: " + e for e in info2.get("errors", [])]
    info["translated_fns"] = {k: v.get("fns") for k, v in info2.get("files", {}).items()}
    if any(v.get("changed") for v in info2.get("files", {}).values()):
        info["changed_source"] = True
    return info


def theorem_index(path):
    """[(line, name)] of theorem declarations in a Lean file"""
    out = []
    ns = ""
    for i, l in enumerate(open(path, encoding="utf-8"), 1):
        m = re.match(r"namespace\s+(\S+)", l)
        if m:
            ns = m.group(1)
        m = re.match(r"(?:private\s+)?theorem\s+(\S+)", l)
        if m:
            out.append((i, ns + "." + m.group(1) if ns else m.group(1)))
    return out


def count_examples(path):
    return sum(1 for l in open(path, encoding="utf-8") if re.match(r"example\b", l))


def lake_build(targets):
    rc, out, dt = sh(["lake", "build"] + targets, cwd=LEAN, timeout=3600)
    errors = []
    for m in re.finditer(r"^error: (\S+\.lean):(\d+):(\d+): (.*)$", out, re.M):
        errors.append({"file": m.group(1), "line": int(m.group(2)), "msg": m.group(4)[:300]})
    return rc, out, dt, errors


FORBIDDEN = re.compile(r"\bsorry\b|\badmit\b|^axiom\s|native_decide|bv_decide|implemented_by|\bunsafe\s|maxHeartbeats\s+0|ofReduceBool")


def strip_comments(src):
    src = re.sub(r"/-.*?-/", lambda m: "\n" * m.group(0).count("\n"), src, flags=re.S)
    src = re.sub(r"--[^\n]*", "", src)
    return src


def lean_sources_of(module, seen=None):
    """transitive closure of BV.* imports of a module -> file paths"""
    seen = seen if seen is not None else {}
    path = os.path.join(LEAN, module.replace(".", "/") + ".lean")
    if module in seen or not os.path.exists(path):
        return seen
    seen[module] = path
    for l in open(path, encoding="utf-8"):
        m = re.match(r"import\s+(BV\.\S+)", l)
        if m:
            lean_sources_of(m.group(1), seen)
    return seen


def audit(prop_modules):
    """#print axioms for every theorem of the Props modules; forbidden-token scan of all sources."""
    res = {"theorems": {}, "forbidden": [], "examples": 0, "failed": []}
    names = []
    for mod in prop_modules:
        path = os.path.join(LEAN, mod.replace(".", "/") + ".lean")
        names += [n for _, n in theorem_index(path)]
        res["examples"] += count_examples(path)
    srcs = {}
    for mod in prop_modules:
        lean_sources_of(mod, srcs)
    for mod, path in srcs.items():
        body = strip_comments(open(path, encoding="utf-8").read())
        for i, l in enumerate(body.split("\n"), 1):
            if FORBIDDEN.search(l):
                res["forbidden"].append("%s:%d: %s" % (os.path.relpath(path, LEAN), i, l.strip()[:120]))
    os.makedirs(os.path.join(CACHE, "audit"), exist_ok=True)
    apath = os.path.join(CACHE, "audit", "Audit_%s.lean" % hashlib.md5(" ".join(prop_modules).encode()).hexdigest()[:8])
    with open(apath, "w") as f:
        for mod in prop_modules:
            f.write("import %s\n" % mod)
        for n in names:
            f.write("#print axioms %s\n" % n)
    rc, out, dt = sh(["lake", "env", "lean", apath], cwd=LEAN, timeout=1800)
    cur = None
    text = out.replace("\n  ", " ")
    for m in re.finditer(r"'(\S+)' (does not depend on any axioms|depends on axioms: \[([^\]]*)\])", text):
        axs = [a.strip() for a in (m.group(3) or "").split(",") if a.strip()]
        res["theorems"][m.group(1)] = axs
    for n in names:
        if n not in res["theorems"]:
            res["failed"].append(n)
    res["bad_axioms"] = {n: [a for a in axs if a not in ALLOWED_AXIOMS] for n, axs in res["theorems"].items()
                         if any(a not in ALLOWED_AXIOMS for a in axs)}
    res["wall_s"] = dt
    res["raw_tail"] = out[-1500:] if rc != 0 else ""
    return res


# --------------------------------------------------------------------------- Rust side
def cargo_build(profiles=("release",)):
    lock_src = os.path.join(REPO, "Cargo.lock")
    if os.path.exists(lock_src):
        shutil.copyfile(lock_src, os.path.join(HARNESS, "Cargo.lock"))
    env = dict(ENV, CARGO_TARGET_DIR=os.path.join(CACHE, "target"))
    rc_all, out_all, dt_all = 0, "", 0.0
    for prof in profiles:
        rc, out, dt = sh(["cargo", "build", "--profile", prof, "--offline"], cwd=HARNESS, timeout=3600, env=env)
        rc_all = rc_all or rc
        out_all += out
        dt_all += dt
    return rc_all, out_all, dt_all


def run_driver(ops_path, model_path, shards=16):
    lines = open(ops_path).read().split("\n")
    if lines and lines[-1] == "":
        lines.pop()
    n = len(lines)
    shards = max(1, min(shards, n))
    drv = os.path.join(LEAN, ".lake", "build", "bin", "bvdrive")
    procs = []
    for s in range(shards):
        chunk = lines[s::shards]
        p = subprocess.Popen([drv], stdin=subprocess.PIPE, stdout=subprocess.PIPE, stderr=subprocess.PIPE, text=True)
        procs.append((p, chunk))
    # feed with threads to avoid pipe deadlock
    import threading
    outs = [None] * shards

    def feed(i):
        p, chunk = procs[i]
        o, e = p.communicate("\n".join(chunk) + ("\n" if chunk else ""))
        outs[i] = (o.split("\n"), p.returncode, e)
    ths = [threading.Thread(target=feed, args=(i,)) for i in range(shards)]
    [t.start() for t in ths]
    [t.join() for t in ths]
    merged = [""] * n
    crashed = []
    for s in range(shards):
        o, rc, e = outs[s]
        if o and o[-1] == "":
            o.pop()
        if rc != 0:
            crashed.append("shard %d rc=%s %s" % (s, rc, e[-300:]))
        for k, idx in enumerate(range(s, n, shards)):
            merged[idx] = o[k] if k < len(o) else "<driver-died>"
    with open(model_path, "w") as f:
        f.write("\n".join(merged) + ("\n" if merged else ""))
    return lines, merged, crashed


def load_known():
    out = []
    p = os.path.join(VERIF, "known_findings.jsonl")
    if os.path.exists(p):
        for l in open(p):
            l = l.strip()
            if l and not l.startswith("#") and not l.startswith("fixed:"):
                try:
                    out.append(json.loads(l))
                except Exception:
                    pass
    return out


def known_match(known, prop, v):
    for k in known:
        if k.get("property") != prop or k.get("status", "known") != "known":
            continue
        if k.get("signature") != v.get("signature"):
            continue
        cm = k.get("case_match", {})
        case = v.get("case", {})
        if all(case.get(a) == b for a, b in cm.items()):
            return k
    return None


# --------------------------------------------------------------------------- main
def setup():
    t0 = time.time()
    with Lock():
        info = gen()
        print("gen:", json.dumps(info))
        rc, out, dt, errs = lake_build(["BV", "bvdrive"])
        print("lake build: rc=%d %.0fs" % (rc, dt))
        if rc != 0:
            print(out[-4000:])
        # warm the cache of every property's theorem modules so that the first quick check of each property
        # does not pay for the cold Lean build; a module that fails here is reported by its own check
        mods = sorted({m for c in PROPS.values() for m in c["lean_modules"]})
        rc_p, out_p, dt_p, errs_p = lake_build(mods)
        print("lake build of %d property modules: rc=%d %.0fs" % (len(mods), rc_p, dt_p))
        if rc_p != 0:
            print(out_p[-3000:])
        rc2, out2, dt2 = cargo_build(("release", "dbgsem"))
        print("cargo build: rc=%d %.0fs" % (rc2, dt2))
        if rc2 != 0:
            print(out2[-4000:])
    print("setup done in %.0fs" % (time.time() - t0))
    return 0 if rc == 0 and rc2 == 0 else 1


def sh_group(cmd, cwd, timeout):
    """like sh(), but the command runs in its own process group which is killed as a whole on timeout
    (harness stages fork shard children); returns rc None on timeout"""
    import signal
    t0 = time.time()
    p = subprocess.Popen(cmd, cwd=cwd, stdout=subprocess.PIPE, stderr=subprocess.STDOUT, text=True, env=ENV, start_new_session=True)
    try:
        out, _ = p.communicate(timeout=timeout)
        return p.returncode, out, time.time() - t0
    except subprocess.TimeoutExpired:
        try:
            os.killpg(p.pid, signal.SIGKILL)
        except OSError:
            pass
        try:
            out, _ = p.communicate(timeout=30)
        except Exception:
            out = ""
        return None, out or "", time.time() - t0


def run_harness(prop, cfg, tier, seed, rundir, extra=None, search_only=False, stage_timeout=None, deadline=None):
    """run every harness stage of the property; returns (per-stage results).
    search_only: the escalated pass — only the implementation-side oracles matter (report.json violations);
    the Lean driver is not run again (the correspondence was compared at the quick tier), every stage is
    bounded by `stage_timeout` seconds and no new stage starts after `deadline` (time.time() value); a
    stage that runs out of time is skipped, it is not a failure."""
    stages = []
    bin_src = os.path.join(CACHE, "target", "release", "bvh")
    for st in cfg["stages"]:
        if deadline is not None and time.time() > deadline:
            break
        sdir = os.path.join(rundir, st["name"] + ("-esc" if search_only else ""))
        shutil.rmtree(sdir, ignore_errors=True)
        os.makedirs(sdir)
        binname = "bvh" if st.get("profile", "release") == "release" else "bvh-" + st["profile"]
        cmd = [os.path.join(rundir, binname)] + st["cmd"] + ["--tier", tier, "--seed", str(seed), "--out", sdir] + (extra or [])
        if search_only:
            rc, out, dt = sh_group(cmd, sdir, stage_timeout or 600)
            if rc is None:
                stages.append({"name": st["name"], "rc": 0, "wall_s": round(dt, 1), "log_tail": "", "timed_out": True})
                continue
        else:
            rc, out, dt = sh(cmd, cwd=sdir, timeout=st.get("timeout", 7200))
        res = {"name": st["name"], "rc": rc, "wall_s": round(dt, 1), "log_tail": out[-3000:]}
        rp = os.path.join(sdir, "report.json")
        if os.path.exists(rp):
            try:
                res["report"] = json.load(open(rp))
            except Exception as e:
                res["report_error"] = str(e)
        ops = os.path.join(sdir, "ops.txt")
        if search_only:
            for f in ("ops.txt", "impl.txt"):
                try:
                    os.remove(os.path.join(sdir, f))
                except OSError:
                    pass
        if not search_only and os.path.exists(ops) and os.path.getsize(ops) > 0:
            t1 = time.time()
            lines, model, crashed = run_driver(ops, os.path.join(sdir, "model.txt"))
            impl = open(os.path.join(sdir, "impl.txt")).read().split("\n")
            if impl and impl[-1] == "":
                impl.pop()
            dis = []
            for i, (o, m) in enumerate(zip(lines, model)):
                a = impl[i] if i < len(impl) else "<missing>"
                if a != m:
                    dis.append({"line": i + 1, "op": o[:2000], "impl": a[:2000], "model": m[:2000]})
                    if len(dis) >= 20:
                        break
            res["corr"] = {"lines": len(lines), "disagreements": dis, "driver_crashed": crashed,
                           "driver_wall_s": round(time.time() - t1, 1), "ndis": sum(1 for i, m in enumerate(model) if i < len(impl) and impl[i] != m)}
        stages.append(res)
    return stages


def moved_fns(prop, cfg):
    """functions (token hashes, tools/fn_hashes.py) that differ from the pinned baseline, restricted
    to the files the property is anchored in (properties.jsonl) plus cfg['extra_files']"""
    try:
        import fn_hashes
        ch = fn_hashes.diff()
        if ch is None:
            return []
        files = set(cfg.get("extra_files", []))
        for l in open(os.path.join(VERIF, "properties.jsonl")):
            d = json.loads(l)
            if d["id"] == prop:
                files |= set(d.get("anchors", {}).get("files", []))
        return [k for k in ch if k.split("::")[0] in files]
    except Exception as e:  # never let the bookkeeping decide a verdict
        return []


def check(prop, tier, seed, replay=None):
    t0 = time.time()
    cfg = PROPS[prop]
    # one run directory per process: concurrent checks of the same property must not share stage dirs;
    # directories left by runs whose process is gone are removed first
    rroot = os.path.join(CACHE, "run")
    os.makedirs(rroot, exist_ok=True)
    for d in os.listdir(rroot):
        m = re.match(r"%s-%s-(\d+)$" % (prop, tier), d)
        if m and not os.path.exists("/proc/%s" % m.group(1)):
            shutil.rmtree(os.path.join(rroot, d), ignore_errors=True)
    rundir = os.path.join(rroot, "%s-%s-%d" % (prop, tier, os.getpid()))
    os.makedirs(rundir, exist_ok=True)
    os.makedirs(os.path.join(VERIF, "evidence"), exist_ok=True)
    os.makedirs(os.path.join(VERIF, "replays"), exist_ok=True)
    head = repo_head()
    broken = []       # broken proof obligations
    notes = []
    with Lock():
        g = gen()
        moved = moved_fns(prop, cfg)
        if moved:
            notes.append("functions whose token hash differs from tools/fn_hashes.pinned.json in files this property is anchored in: " + ", ".join(moved[:12]) + (" …" if len(moved) > 12 else ""))
        # Lean modules of the property: CORE modules carry the property theorems over the hand-written models;
        # TIE modules (BV.Props.CnnGen, except those listed as direct) only prove "definition generated from the
        # Rust text = hand-written model" (tie (a) for control flow, an ADDITIONAL tie: the same functions are
        # compared with the compiled code by the correspondence run, tie (b)).  A tie module that no longer
        # builds (function rewritten outside the translator's subset, or the proof script no longer matches the
        # new term) degrades tie (a) for those functions: it is reported (TIE-DEGRADED line, evidence), the
        # search is escalated, and it is a violation only together with a disagreement or a failing input.
        direct = set(cfg.get("direct_gen_modules", ["BV.Props.C01Gen"]))
        tie_mods = [m for m in cfg["lean_modules"] if re.search(r"\.C\d\d[a-z]*Gen[A-Z]?$", m) and m not in direct]
        core_mods = [m for m in cfg["lean_modules"] if m not in tie_mods]
        rc, out, dt_lake, errs = lake_build(core_mods + ["bvdrive"])
        lean_ok = rc == 0
        tie_ok, tie_bad = [], {}
        if lean_ok and tie_mods:
            rc_t, out_t, dt_t, errs_t = lake_build(tie_mods)
            dt_lake += dt_t
            if rc_t == 0:
                tie_ok = list(tie_mods)
            else:
                for m in tie_mods:
                    rc_m, out_m, dt_m, errs_m = lake_build([m])
                    dt_lake += dt_m
                    if rc_m == 0:
                        tie_ok.append(m)
                    else:
                        idx = {}
                        msgs = []
                        for e in errs_m[:6]:
                            path = os.path.join(LEAN, e["file"])
                            if path not in idx and os.path.exists(path):
                                idx[path] = theorem_index(path)
                            th = "?"
                            for ln, name in idx.get(path, []):
                                if ln <= e["line"]:
                                    th = name
                            msgs.append("%s:%d in %s: %s" % (e["file"], e["line"], th, e["msg"][:160]))
                        tie_bad[m] = msgs or [out_m[-300:]]
        gen_core = [e for e in g.get("errors", []) if not e.startswith("rs2lean:")]
        gen_tie = [e for e in g.get("errors", []) if e.startswith("rs2lean:")]
        if gen_core:
            # an item that could not be harvested is missing from BV.Gen: modules that use it no
            # longer compile (caught below); items nobody of this property uses are only noted
            (broken if not lean_ok else notes).extend(["gen_source: " + e for e in gen_core])
        if gen_tie:
            notes.extend(["translator: " + e for e in gen_tie if e.split(":")[1].strip() == prop or not tie_bad][:12])
        if g.get("literals_reshaped"):
            notes.append("literal lists whose shape changed (pinned list kept, tie by correspondence): " + "; ".join(g["literals_reshaped"][:8]))
        if not lean_ok:
            idx = {}
            for e in errs:
                path = os.path.join(LEAN, e["file"])
                if path not in idx and os.path.exists(path):
                    idx[path] = theorem_index(path)
                th = "?"
                for ln, name in idx.get(path, []):
                    if ln <= e["line"]:
                        th = name
                broken.append("lean: %s:%d in %s: %s" % (e["file"], e["line"], th, e["msg"]))
            if not errs:
                broken.append("lean: lake build failed: " + out[-500:])
        aud = {"theorems": {}, "forbidden": [], "examples": 0, "failed": [], "bad_axioms": {}}
        if lean_ok:
            aud = audit(core_mods + tie_ok)
            for n in aud["failed"]:
                broken.append("audit: no axiom report for " + n)
            for n, ax in aud["bad_axioms"].items():
                broken.append("audit: %s depends on non-standard axioms %s" % (n, ax))
            for f in aud["forbidden"]:
                broken.append("audit: forbidden token " + f)
            if tier == "thorough":
                for mod in core_mods + tie_ok:
                    rcc, outc, dtc = sh(["lake", "env", "leanchecker", mod], cwd=LEAN, timeout=3600)
                    if rcc != 0:
                        broken.append("leanchecker: %s: %s" % (mod, outc[-300:]))
                    notes.append("leanchecker %s rc=%d %.0fs" % (mod, rcc, dtc))
        # driver must exist even when a Props module broke: build it alone
        if not lean_ok:
            rc_d, out_d, _, _ = lake_build(["bvdrive"])
            if rc_d != 0:
                broken.append("lean: model driver does not build: " + out_d[-300:])
        profiles = sorted({st.get("profile", "release") for st in cfg["stages"]} | {"release"})
        rc_c, out_c, dt_cargo = cargo_build(profiles)
        if rc_c != 0:
            broken.append("harness: cargo build failed against the current tree: " + out_c[-1500:])
        else:
            for prof in profiles:
                name = "bvh" if prof == "release" else "bvh-" + prof
                shutil.copyfile(os.path.join(CACHE, "target", prof, "bvh"), os.path.join(rundir, name + ".tmp"))
                os.chmod(os.path.join(rundir, name + ".tmp"), 0o755)
                os.replace(os.path.join(rundir, name + ".tmp"), os.path.join(rundir, name))
    stages = []
    if rc_c == 0:
        stages = run_harness(prop, cfg, tier, seed, rundir)
        # escalation: a broken obligation or a disagreement with nothing found -> thorough search
        found = any(s.get("report", {}).get("violations") for s in stages)
        dis = any(s.get("corr", {}).get("ndis") for s in stages)
        if (broken or dis or moved or tie_bad or g.get("literals_reshaped")) and not found and tier == "quick":
            notes.append("escalated search to thorough budget (%s without a failing input)" % (
                "broken obligation / disagreement" if (broken or dis) else "anchored functions changed since the pinned baseline / translator tie degraded"))
            # bounded: thorough budget of the implementation-side search only, <= ESC_STAGE s per stage and
            # <= ESC_TOTAL s in all (a harmless rewrite of an anchored function must not cost an hour)
            esc_stage = int(os.environ.get("VERIF_ESCALATE_STAGE_S", "420"))
            esc_total = int(os.environ.get("VERIF_ESCALATE_TOTAL_S", "900"))
            stages2 = run_harness(prop, cfg, "thorough", seed, os.path.join(rundir), None, search_only=True,
                                  stage_timeout=esc_stage, deadline=time.time() + esc_total)
            by_name = {s["name"]: s for s in stages}
            for s2 in stages2:
                if s2.get("timed_out"):
                    notes.append("escalated stage %s stopped after %.0f s (budget); its quick result stands" % (s2["name"], s2["wall_s"]))
                    continue
                v2 = s2.get("report", {}).get("violations") or []
                s1 = by_name.get(s2["name"])
                if s1 is None:
                    continue
                s1["escalated_wall_s"] = s2["wall_s"]
                if s2["rc"] != 0 and "report" not in s2:
                    notes.append("escalated stage %s crashed rc=%s: %s" % (s2["name"], s2["rc"], s2["log_tail"][-300:]))
                if v2:
                    s1.setdefault("report", {}).setdefault("violations", [])
                    s1["report"]["violations"] = list(s1["report"]["violations"]) + v2
                    s1["report"]["evaluations"] = s1["report"].get("evaluations", 0) + s2.get("report", {}).get("evaluations", 0)
    # ---- verdict
    known = load_known()
    lines_out = []
    violations = []
    known_hits = []
    for s in stages:
        if s["rc"] != 0 and "report" not in s:
            broken.append("harness stage %s crashed rc=%s: %s" % (s["name"], s["rc"], s["log_tail"][-600:]))
        for v in s.get("report", {}).get("violations", []):
            k = known_match(known, prop, v)
            if k:
                known_hits.append((k, v))
            else:
                violations.append(("impl-violates-property", s["name"], v))
        c = s.get("corr")
        if c:
            for d in c["disagreements"][:3]:
                violations.append(("model-impl-disagreement", s["name"], d))
            for cr in c["driver_crashed"]:
                broken.append("driver: " + cr)
    exit_code = 0
    seen_known = set()
    for k, v in known_hits:
        key = k.get("signature") + json.dumps(k.get("case_match", {}), sort_keys=True)
        if key in seen_known:
            continue
        seen_known.add(key)
        lines_out.append("KNOWN-FINDING: property=%s %s" % (prop, k.get("what", k.get("signature"))))
    impl_v = [v for v in violations if v[0] == "impl-violates-property"]
    dis_v = [v for v in violations if v[0] == "model-impl-disagreement"]
    if tie_bad:
        if impl_v or dis_v or broken:
            # together with a disagreement / failing input / broken core obligation the lost tie is part of the finding
            for m, msgs in tie_bad.items():
                broken.append("tie module %s no longer builds: %s" % (m, " | ".join(msgs[:3])))
        else:
            lines_out.append("TIE-DEGRADED: property=%s translator tie (a) lost for %s (rewritten outside the translator's subset or the equivalence proof no longer matches); property theorems, correspondence and search still check" % (prop, ", ".join(sorted(tie_bad))))
    replay_path = None
    if impl_v or dis_v or broken:
        exit_code = 1
        tag = hashlib.md5((json.dumps([str(v) for v in violations]) + json.dumps(broken)).encode()).hexdigest()[:8]
        replay_path = os.path.join(VERIF, "replays", "%s-%s.json" % (prop, tag))
        kind = "impl-violates-property" if impl_v else ("model-impl-disagreement" if dis_v else "proof-obligation-broken")
        first = (impl_v or dis_v or [None])[0]
        rep = {"property": prop, "kind": kind, "seed": seed, "tier": tier, "repo_head": head,
               "engine": first[1] if first else "lean-proofs",
               "case": first[2] if first else None,
               "all_impl_violations": [v[2] for v in impl_v][:20],
               "model_impl_disagreements": [v[2] for v in dis_v][:20],
               "broken_obligations": broken, "fingerprint_mismatches": moved,
               "gen": g, "notes": notes,
               "rerun": "./check %s --replay %s" % (prop, replay_path)}
        json.dump(rep, open(replay_path, "w"), indent=1)
        suffix = "" if impl_v else " no-failing-input-found"
        lines_out.append("VIOLATION property=%s replay=%s%s" % (prop, replay_path, suffix))
    # ---- evidence
    n_th = len(aud["theorems"]) + len(aud["failed"])
    obligations = n_th + aud["examples"] + n_th  # theorems + non-vacuity examples + audited axiom sets
    bad = set(aud["failed"]) | set(aud.get("bad_axioms", {}).keys())
    discharged = 0
    if lean_ok and not aud["forbidden"]:
        discharged = (n_th - len(aud["failed"])) + aud["examples"] + (n_th - len(bad))
    evals = sum(s.get("report", {}).get("evaluations", 0) for s in stages)
    nontriv = sum(s.get("report", {}).get("nontrivial", 0) for s in stages)
    samples = []
    counters = {}
    for s in stages:
        samples += s.get("report", {}).get("samples", [])[:4]
        for k2, v2 in s.get("report", {}).get("counters", {}).items():
            counters[s["name"] + "." + k2] = v2
    samples += ["theorem " + n for n in list(aud["theorems"].keys())[:6]]
    ev = {
        "property_id": prop, "tier": tier, "seed": seed, "level": "proof",
        "coverage": {
            "obligations": max(obligations, 1), "discharged": discharged,
            "checker_cmd": "cd /verif/lean && lake build %s && lake env lean <#print axioms of every theorem>%s" % (
                " ".join(cfg["lean_modules"]), " && lake env leanchecker <module>" if tier == "thorough" else ""),
            "trusted_base": cfg.get("trusted_base", []) + [
                "Lean 4.33.0 kernel; axioms used per theorem listed under axioms (allowed: propext, Classical.choice, Quot.sound; no native_decide/bv_decide/sorry)",
                "tools/gen_source.py (Rust data items -> Lean), harness (correspondence + oracles), rustc/cargo"],
            "theorems": aud["theorems"], "examples": aud["examples"], "broken_obligations": broken,
            "evaluations": evals, "distinct_nontrivial": nontriv,
            "rule": cfg.get("rule", ""), "samples": samples or ["(no cases ran)"],
            "exhaustive": bool(cfg.get("exhaustive", False)),
            "counters": counters,
            "correspondence": {s["name"]: {"lines": s.get("corr", {}).get("lines", 0), "disagreements": s.get("corr", {}).get("ndis", 0)} for s in stages},
            "gen": {k: g.get(k) for k in ("items", "fns", "translated_fns", "changed_source", "errors")},
            "stage_wall_s": {s["name"]: s["wall_s"] for s in stages},
            "repo_head": head, "notes": notes, "fingerprint_mismatches": moved,
            "tie_modules": {"checked": tie_ok, "degraded": tie_bad},
            "known_findings_hit": [k.get("signature") for k, _ in known_hits][:20],
        },
        "assumptions": cfg.get("assumptions", []),
        "wall_s": round(time.time() - t0, 1),
        "violations": len(impl_v) + len(dis_v) + (1 if broken else 0),
    }
    json.dump(ev, open(os.path.join(VERIF, "evidence", "%s.json" % prop), "w"), indent=1)
    for l in lines_out:
        print(l)
    print("%s %s: lean_ok=%s theorems=%d examples=%d corr_lines=%d evaluations=%d violations=%d broken=%d wall=%.0fs" % (
        prop, tier, lean_ok, len(aud["theorems"]), aud["examples"],
        sum(s.get("corr", {}).get("lines", 0) for s in stages), evals, len(impl_v) + len(dis_v), len(broken), time.time() - t0))
    return exit_code


def main():
    a = sys.argv[1:]
    if not a:
        print(__doc__)
        return 2
    if a[0] == "--setup":
        return setup()
    prop = a[0]
    if prop not in PROPS:
        print("unknown property", prop)
        return 2
    tier = os.environ.get("VERIF_TIER", "quick")
    replay = None
    i = 1
    while i < len(a):
        if a[i] in ("quick", "thorough"):
            tier = a[i]
        elif a[i] == "--replay":
            replay = a[i + 1]
            i += 1
        i += 1
    seed = int(os.environ.get("VERIF_SEED", "1") or 1)
    if replay:
        r = json.load(open(replay))
        seed = r.get("seed", seed)
        tier = r.get("tier", tier)
        print("replaying %s: seed=%s tier=%s kind=%s" % (replay, seed, tier, r.get("kind")))
    return check(prop, tier, seed, replay)


if __name__ == "__main__":
    sys.exit(main())
