#!/usr/bin/env python3
"""fn_hashes.py [--pin] — token hash of EVERY Rust function under /repo/src (items guarded by
#[cfg(brotli_verif)] stripped, comments and layout ignored, integer literals normalised).

The committed baseline tools/fn_hashes.pinned.json is the tree the hand-written models, the
generators and the budgets of the quick tier were written against.  run_check.py compares the
current tree with it: a function of a file the property is anchored in (plus the property's
`extra_files`) whose hash moved is NOT a failure — harmless rewrites are common — but
  (i) it is listed in the evidence and in every replay file,
 (ii) it escalates the search stages of that property to the thorough budget in a quick run.
`--pin` rewrites the baseline (done by hand after a `fix:` / hook commit lands in /repo, never by a check).
"""
import hashlib, json, os, sys
sys.path.insert(0, os.path.dirname(os.path.abspath(__file__)))
import gen_source as G

HERE = os.path.dirname(os.path.abspath(__file__))
PINNED = os.path.join(HERE, "fn_hashes.pinned.json")
SKIP = ("src/enc/verif_sched.rs",)


def rust_files():
    out = []
    root = os.path.join(G.REPO, "src")
    for d, _, fs in os.walk(root):
        for f in fs:
            if f.endswith(".rs"):
                rel = os.path.relpath(os.path.join(d, f), G.REPO)
                if rel not in SKIP:
                    out.append(rel)
    return sorted(out)


def fns_of(toks):
    """yield (name, token slice) for every fn item with a body, nested ones included"""
    n = len(toks)
    i = 0
    while i < n - 1:
        if toks[i][1] == "fn" and toks[i + 1][0] == "id":
            j = i
            bdepth = 0
            while j < n and not (toks[j][1] == "{" or (toks[j][1] == ";" and bdepth == 0)):
                if toks[j][1] in ("(", "["):
                    bdepth += 1
                elif toks[j][1] in (")", "]"):
                    bdepth -= 1
                j += 1
            if j >= n or toks[j][1] == ";":
                i = j + 1
                continue
            depth = 0
            k = j
            while k < n:
                if toks[k][1] == "{":
                    depth += 1
                elif toks[k][1] == "}":
                    depth -= 1
                    if depth == 0:
                        break
                k += 1
            yield toks[i + 1][1], toks[i:k + 1]
        i += 1


def rest_hash(toks):
    """hash of everything in the file that is not inside a fn body (consts, statics, types, macros)"""
    n = len(toks)
    keep = []
    i = 0
    spans = []
    for _name, _sl in ():
        pass
    # recompute spans of top-most fns
    i = 0
    while i < n - 1:
        if toks[i][1] == "fn" and toks[i + 1][0] == "id":
            j = i
            bdepth = 0
            while j < n and not (toks[j][1] == "{" or (toks[j][1] == ";" and bdepth == 0)):
                if toks[j][1] in ("(", "["):
                    bdepth += 1
                elif toks[j][1] in (")", "]"):
                    bdepth -= 1
                j += 1
            if j >= n or toks[j][1] == ";":
                keep.extend(toks[i:j + 1])
                i = j + 1
                continue
            depth = 0
            k = j
            while k < n:
                if toks[k][1] == "{":
                    depth += 1
                elif toks[k][1] == "}":
                    depth -= 1
                    if depth == 0:
                        break
                k += 1
            i = k + 1
            continue
        keep.append(toks[i])
        i += 1
    return G.fingerprint(keep)


def current():
    out = {}
    for rel in rust_files():
        try:
            toks = G.tokens_of(rel)
        except OSError:
            continue
        seen = {}
        for name, sl in fns_of(toks):
            occ = seen.get(name, 0)
            seen[name] = occ + 1
            out["%s::%s#%d" % (rel, name, occ)] = G.fingerprint(sl)
        out["%s::<items>" % rel] = rest_hash(toks)
    return out


def diff(cur=None):
    """list of keys whose hash differs from / is missing in / is new relative to the baseline"""
    cur = cur if cur is not None else current()
    try:
        pinned = json.load(open(PINNED))
    except (OSError, ValueError):
        return None
    ch = [k for k in cur if pinned.get(k) != cur[k]] + [k for k in pinned if k not in cur]
    return sorted(set(ch))


if __name__ == "__main__":
    cur = current()
    if "--pin" in sys.argv:
        json.dump(cur, open(PINNED, "w"), indent=0, sort_keys=True)
        print("pinned %d items" % len(cur))
    else:
        d = diff(cur)
        print(json.dumps({"items": len(cur), "changed": d}, indent=1))
