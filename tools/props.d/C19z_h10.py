# C19, H10 with a modelled Store (w-zopfli2): BV/Props/C19H10.lean over BV/Model/Zopfli.lean (H10.store / H10.storeRange)
if "BV.Props.C19H10" not in PROPS["C19"]["lean_modules"]:
    PROPS["C19"]["lean_modules"] = PROPS["C19"]["lean_modules"] + ["BV.Props.C19H10"]
PROPS["C19"]["level_text"] += " " + (
    "H10 WITH A MODELLED STORE (BV/Props/C19H10.lean): BV/Model/Zopfli.lean models the real Store of hash_to_binary_tree.rs (StoreAndFindMatchesH10 with max_length 128, max_backward window_mask - 15, no match "
    "output: re-rooting insertion into the binary tree) and the real StoreRange (stride-8 loop for long ranges, then the last 63 positions densely); `h10_store_range_is_generic` proves that this StoreRange IS the generic "
    "H10.storeRange of BV/Model/Hasher.lean instantiated with the modelled Store, so the H10 theorems above (bulk = per-position fold, partition irrelevance through the bulk entry point) hold with Store no longer opaque; "
    "`store_range_eq_fold_store_h10_model`: below 63 positions StoreRange = the per-position loop over the modelled Store; longer ranges are thinned by design (h10_store_range_thins)."
)
PROPS["C19"]["level_note"] += " " + (
    "H10 Store model: tied to the code only through stage `zopfli` of C01 (`sp` lines: the whole BrotliZopfliComputeShortestPath on a real H10 instance, which calls StoreAndFindMatchesH10 at every position and StoreRange on skips); "
    "there are no dedicated `hasher` correspondence lines for H10's Store / StoreRange / BulkStoreRange in C19's own stage yet, and H10's clone is not modelled."
)
