# C02, second module (worker w-multi2): compress_part's success condition derived from the stream model (C20 + C13 ledger).
if "BV.Props.C02Part" not in PROPS["C02"]["lean_modules"]:
    PROPS["C02"]["lean_modules"] = PROPS["C02"]["lean_modules"] + ["BV.Props.C02Part"]

def _c02_sub(field, old, new):
    txt = PROPS["C02"][field]
    PROPS["C02"][field] = txt.replace(old, new) if old in txt else txt + " " + new

_c02_sub("level_text",
    "compress_part reports Ok only for a finished stream (all qualities) and does report Ok when the stream fits BrotliEncoderMaxCompressedSize(len);",
    "compress_part reports Ok only for a finished stream (all qualities) and does report Ok when the stream fits BrotliEncoderMaxCompressedSize(len) - and the one-shot contract this needs of the encoder is no longer assumed: BV.Props.C02Part derives it from the stream model of C20/C13 with NO hypothesis on the payload encoder (finish_call_contract: in a fresh encoder, or any state satisfying the stream invariant in `processing` outside a metadata block, compress_stream(FINISH, piece, cap) returns true, bytes stored + room left = cap, and is_finished() holds afterwards IF AND ONLY IF everything the call produced, delivered plus pending, is <= cap bytes, in which case nothing is pending and the whole piece is consumed; from C20 stream_refines_contract + request_completes and C13 call_ledger), so that over the stream model compress_part makes exactly ONE call and answers Ok(complete stream) iff that output fits the job buffer and Err(InsufficientOutputSpace) otherwise (part_of_stream_model, part_ok_iff_finished);")
_c02_sub("level_note",
    "Job panics are outside the guarantee:",
    "C02Part's scope: the encoder state at the job's call is fresh (job 0; every job at quality 0/1 or with an empty prefix) or ANY state satisfying C20's invariant in `processing`; a quality >= 2 job with a non-empty prefix is NOT covered: after its dictionary call positions start at dict_size with custom_dictionary = true, and the stream model has neither the dictionary call nor that flag (its catable prelude keeps the bare assert last_processed_pos_ < 2, so from such a state the model predicts a panic and the Inv-form is vacuous there) - for those jobs the one-shot contract stays the recorded-answer hypothesis of part_succeeds_when_stream_fits, checked on every recomputed job (Ok => finished); that the output fits the job buffer is C08's bound (quality >= 2). Job panics are outside the guarantee:")
PROPS["C02"]["assumptions"] = [
    ("part_succeeds_when_stream_fits takes the encoder's answer as a recorded value; the one-shot contract behind it (FINISH with the whole input and enough room returns true, finished) is now PROVED over the stream model (BV.Props.C02Part finish_call_contract / part_of_stream_model, no oracle hypothesis) for a fresh encoder and for every invariant-satisfying `processing` state; still assumed: that the stream fits (C08's bound for quality >= 2; at quality 0/1 with lgwin < 14 the bound is too small and the job answers Err(InsufficientOutputSpace), allowed by the property), and, for quality >= 2 jobs with a non-empty prefix, the one-shot contract itself (the stream model has no dictionary call / custom_dictionary flag; exercised: every recomputed job Ok => finished)")
    if a.startswith("part_succeeds_when_stream_fits assumes") else a
    for a in PROPS["C02"]["assumptions"]]

# tie of BV/Model/StreamJob.lean (observed, jobParams, streamJob) for C02: the sjob lines of engine favor
PROPS["C02"]["stages"] = PROPS["C02"]["stages"] + [{"name": "favor", "cmd": ["favor"]}]
PROPS["C02"]["rule"] = PROPS["C02"]["rule"] + (
    " Stage favor (shared with C06), sjob lines: fresh-encoder jobs (job 0 at quality 0..11, any job at quality 0/1, empty prefixes, and quality 0/1 jobs whose buffer is too small) run through the REAL compress_part and through a recorded replica of its encoder calls; the model streamJob = compressPart over the stream machine with the recorded payload answers as oracle must return the same Ok(bytes)/Err (ties `observed` / `jobParams` / `streamJob` of BV/Model/StreamJob.lean, over which part_of_stream_model is stated).")
PROPS["C02"]["trusted_base"] = PROPS["C02"]["trusted_base"] + [
    "BV/Model/StreamJob.lean (compress_part's loop over the stream machine; tied by the sjob lines of harness/src/favor.rs) and, through it, the stream model BV/Model/Stream.lean of C20/C13"]

PROPS["C02"]["level_note"] = PROPS["C02"]["level_note"] + (
    " The favor_cpu_efficiency branch (the shared match index built on the calling thread before the last job runs) has no panic site in BV/Model/Multi.lean; that omission is justified by BV.Props.C06Hasher.favor_branch_never_panics (C06's module: for the kinds of quality 2..9 the BulkStoreRange calls of the branch read inside the input and write inside the constructor's tables), for quality 10/11 (H10, opaque Store) only by the no-panic oracle of the runs.")

PROPS["C02"]["level_text"] = PROPS["C02"]["level_text"] + (
    " multi_ok_over_stream_model (BV.Props.C02Part): CompressMulti with every job run over the stream machine on a fresh encoder - ALL jobs at quality 0/1 (no dictionary there; the qualities of the cut-stream defect), single-threaded calls, inputs shorter than the thread count - any spawner, any payload encoders, any capacity: Ok(k) implies that every job's FINISH call returned true with is_finished(), nothing pending and its whole piece consumed, the job's bytes are all the bytes that call produced, and output[..k] is the reference splice of these complete streams (multi_ok_sound composed with part_ok_iff_finished; no oracle hypothesis).")

# composition with C08Run (coordinator's last round): the "fits" hypothesis from LogGuard
if "BV.Props.C02Run" not in PROPS["C02"]["lean_modules"]:
    PROPS["C02"]["lean_modules"] = PROPS["C02"]["lean_modules"] + ["BV.Props.C02Run"]
PROPS["C02"]["level_text"] = PROPS["C02"]["level_text"] + (
    " part_succeeds_when_stream_fits_run_partial (BV.Props.C02Run): composed with C08Run's stream_total_le_bound_run, for a fresh-encoder job at quality >= 2 whose payload pieces obey LogGuard (the per-meta-block growth bound C08 guard_holds proves of WriteMetaBlockInternal - the only payload hypothesis) the job buffer of BrotliEncoderMaxCompressedSize(len) suffices and compress_part answers Ok with the complete stream: the `fits` hypothesis of part_of_stream_model is discharged."
    " PARTIAL: proved when the job's FINISH call followed by take_output(0) leaves the encoder FINISHED (the call consumed its whole piece; the early-return case - buffer full with input unconsumed - needs a drain-to-finish / schedule-independence lemma over run), with input_pos_ = piece length after the job and with C08's model of BrotliEncoderMaxCompressedSize <= C02's at that length as explicit hypotheses (the last proved below 2^14 bytes, kernel-checked at sample lengths above).")
PROPS["C02"]["assumptions"] = PROPS["C02"]["assumptions"] + [
    "part_succeeds_when_stream_fits_run_partial: LogGuard (C08's growth bound per emitted meta-block) + the three explicit hypotheses of the partial statement (call processed the FINISH; input_pos_ = piece length; the two models of BrotliEncoderMaxCompressedSize agree at that length). multi_succeeds_when_sized still assumes MemberOK (C03: well-formed catable members, non-empty pieces) and the per-job size bounds JobStream - now derivable from LogGuard for fresh-encoder jobs only (quality >= 2 jobs with a dictionary prefix are outside the stream model)",
]
