# C01, end-to-end composition for quality 2/3 (w-e2e, session 4): the payload model BV/Model/E2E.lean as a concrete
# oracle of the stream machine, tied by the `e2e` stage
for _m in ["BV.Props.C01E2E", "BV.Props.C01E2ERun"]:
    if _m not in PROPS["C01"]["lean_modules"]:
        PROPS["C01"]["lean_modules"] = PROPS["C01"]["lean_modules"] + [_m]
PROPS["C01"]["stages"] = PROPS["C01"]["stages"] + [{"name": "e2e", "cmd": ["e2e"]}]
PROPS["C01"]["level_text"] += " " + (
    "End-to-end instance for quality 2 and 3 (model BV/Model/E2E.lean `encodeDataPayload`, BV/Model/E2EStream.lean `payAns`/`stepLoop`): "
    "what encode_data does between the state machine and the writers — hasher choice (ChooseHasher: H2 / H3, fresh zero table), "
    "StitchToPreviousBlock, extend_last_command, BrotliCreateBackwardReferences, the emit-or-keep-accumulating decision "
    "(max_length / max_literals / max_commands / next_input_fits_metablock / should_flush), the last_insert_len merge "
    "(Command::init_insert), the empty-block early return, WriteMetaBlockInternal (compressed attempt by BrotliStoreMetaBlockFast / "
    "Trivial, the len+4 size fallback, the stored path), the dist_cache_/saved_dist_cache_ handling incl. the rollback when the block "
    "ends up stored and the catable placeholder cache — is an EXECUTABLE model, i.e. a concrete instance of the oracle the stream model "
    "takes as a parameter; should_compress (a float decision) is an arbitrary verdict. The `e2e` stage runs the real encoder on whole call "
    "histories (PROCESS / FLUSH / FINISH, catable / appendable / magic / large_window / size_hint variants, static dictionary on and off, "
    "multi-block inputs that keep a meta-block open across invocations and take the extend_last_command path; quick tier: 32 histories, about 9 CPU-seconds of driver time, 9 kept-open invocations and 3 on the extend_last_command path; thorough tier: 1200 histories, larger windows and texts) and the Lean driver COMPUTES from "
    "the input bytes alone — ring buffer, hasher tables, commands, distance caches, meta-block boundaries, stored/compressed decision and every "
    "output byte: per call the return value, bytes consumed, length and digest of the bytes produced, and per encode_data invocation emit/wrote "
    "flags, number and digest of the commands, dist_cache_ (16), saved_dist_cache_, last_insert_len_, num_literals_, last_processed_pos_, "
    "last_flush_pos_ are compared with what the real encoder did (output bytes, verif_stream_hook events, the bookkeeping log, the public "
    "commands_ field). The only thing taken from the real run is, per call, the digest of the real output, used solely to choose between the two "
    "possible verdicts of should_compress. "
    "Proved about this instance (BV.Props.C01E2E.payload_single_roundtrip): ONE encode_data invocation at quality 2 or 3 that covers one whole "
    "meta-block (no commands pending from an earlier invocation, forced by FLUSH / FINISH), for every hasher table the encoder may hold, every i32 "
    "distance cache, every verdict of should_compress, catable / appendable or not: if the model returns, the meta-block was emitted, the storage is "
    "w ++ bits, and the RFC 7932 reader started in the decoder state (history, dist_cache_[..4]) reads bits — as the end of the stream when is_last "
    "(incl. the separate empty last meta-block of appendable streams), as one non-last meta-block otherwise — to history ++ block. This composes "
    "commands_lockstep_basic (CreateBackwardReferences over the H2/H3 models, nothing assumed of the hasher), fast/trivial_metablock_roundtrip and "
    "wmbi_reads (size fallback, stored path) THROUGH the model of encode_data's own bookkeeping; its hypotheses are the ones already named in C01Chain "
    "(BlockOK = the ring slice holds the text, proved from RingOK; DictFaithful, vacuous with the dictionary off), positions below 2^30 and at most "
    "255 bits already in the storage; no hypothesis about the payload encoder. "
    "Chained (BV.Props.C01E2ERun): payload_step_roundtrip names the reader's final state — (history ++ block, dist_cache_[..4] AFTER the invocation), "
    "using w-compose's cbr_final_state for the compressed outcome and, for the stored outcome (verdict false or the len+4 fallback), the fact that the "
    "reader's ring is untouched while the model rolls dist_cache_ back to saved_dist_cache_ (wmbi_reads_state); it re-establishes the invariant Fresh "
    "(no pending commands, i32 cache of >= 4 entries, saved_dist_cache_ = dist_cache_[..4]), which ensure_initialized's state satisfies (fresh_init, "
    "incl. the catable placeholder cache). payload_run_roundtrip: for every sequence of forced invocations over a text T (FLUSH / FINISH histories: "
    "each invocation closes the meta-block [lf, ip) it was given), run by the payload model from a Fresh state, piece i is read by the RFC reader from "
    "(T[..ip_{i-1}], ring_{i-1}) to (T[..ip_i], ring_i = dist_cache_[..4] after invocation i), the last one as the end of the stream if is_last — the "
    "reader state is threaded through all pieces with no hypothesis about the payload encoder (per invocation: BlockOK, DictFaithful, positions < 2^30, "
    "< 256 storage bits). writePart_roundtrip (the closing half of encode_data) is stated for ANY command list in lock step with the decoder, so it also "
    "serves meta-blocks assembled from several CreateBackwardReferences calls."
)
PROPS["C01"]["level_note"] += " " + (
    "E2E model scope: quality 2 and 3 only (BasicHasher H2/H3; quality 4's H4/H54 + greedy block splitting is not composed); positions below "
    "3 GiB (HasherReset after the position wrap is outcome `fuel`); the commands_ re-allocation, prev_byte_/prev_byte2_, ChooseContextMode and the "
    "recoder callback are not modelled (not read by the quality 2/3 writers); the static dictionary enters through per-position slots supplied by "
    "the harness (the Lean project has no copy of the dictionary), EMIT_METADATA calls are not driven by the e2e stage. "
    "NOT proved: the whole-history statement C01_roundtrip_q23 (PiecesOK of C01_roundtrip_run discharged for the concrete oracle). Missing: (1) "
    "meta-blocks spanning several invocations (emit = false, extend_last_command, a second CreateBackwardReferences on the same command list): the "
    "closing half is ready (writePart_roundtrip takes any command list), the front half for a non-Fresh state — instantiating w-compose's Merged / "
    "Merged.extend with the model's pending commands — is not done; (2) the bit position: every piece is read at the position |w_i| of its own storage "
    "(carry + skeleton), gluing the pieces into one readMetaBlocks run over the delivered stream needs the reader to depend on the position only mod 8 "
    "(w-window's C04Run blocks_one / PayloadDecode is the reader-side bridge; the instantiation is not stated); (3) the induction over the log of "
    "delivered_is_framed_concat that supplies StepsOK (BlockOK from RingOK at every encode_data event, lf / ip / flags / carry from the log). "
    "payload_run_roundtrip covers, at the payload level, the histories in which every invocation is forced. The model itself has explicit "
    "panic outcomes (slice bounds of the hasher and the writers); the theorem is conditional on the model returning (the writers' no-panic is proved "
    "inside it, the hasher's and extend_last_command's slice bounds are not)."
)
PROPS["C01"]["trusted_base"] = PROPS["C01"]["trusted_base"] + [
    "model: BV/Model/E2E.lean mirrors encode_data from `let mut wrapped_last_processed_pos` to its end for quality 2/3 (extend_last_command, the should-continue decision, the last_insert_len merge, WriteMetaBlockInternal's dist-cache rollback); BV/Model/E2EStream.lean threads it through BV.Stream.slowStep",
]
