# C14, module C14Chain (w-compose, session 4): the payload hypothesis discharged for quality 2-9 by composition
# with the C01 chain (BV.Props.C01Chain). No new model, no new stage: both composed models are already tied
# (`recoder` correspondence for BV/Model/Recoder.lean, `hasher cbr` for BV/Model/Cbr.lean, stage of C01).
if "BV.Props.C14Chain" not in PROPS["C14"]["lean_modules"]:
    PROPS["C14"]["lean_modules"] = PROPS["C14"]["lean_modules"] + ["BV.Props.C14Chain"]
PROPS["C14"]["level_text"] += " " + (
    "Composition with the command generator (BV.Props.C14Chain): for quality 2-9 the payload hypothesis is a THEOREM. "
    "payload_ok_q29: PayloadOK holds for the command array of one CreateBackwardReferences call (model BV/Model/Cbr.lean, "
    "any hasher satisfying OpsOK - BasicHasher/AdvHasher/H9 by match_sound_*, so nothing about the three families is "
    "assumed), closed by the insert-only command as encode.rs does, for EVERY history (custom-dictionary tail ++ earlier "
    "input), i32 distance cache and carried last_insert_len; cmds_wf_q29: CmdsWF (DistWF + u32 insert length of every "
    "command) is derived from the writers' cmdOK plus the fixed fields of Command::init_insert, so the side condition "
    "'commands stored by Command::init with the block's distance parameters' is gone in that scope; "
    "recode_replays_input_q29 (+ _basic/_adv/_h9): if LogMetaBlock (any block-split description, any detection settings, "
    "any wrap position of the InputPair) does not panic on that array, started at recoder position = |history| with the "
    "distance cache of the start of the block, then the IR handed to the callback replays to history ++ meta-block input "
    "byte for byte and num_bytes_encoded advances by exactly the meta-block length - no payload hypothesis. A concrete run "
    "(8 literals, static-dictionary word, 20 closing literals; IR = [bsl 0, lit 0 8, dict 4 0 4 5, lit 12 20]) meets every "
    "hypothesis."
)
PROPS["C14"]["level_note"] += " " + (
    "Scope of the discharged payload hypothesis (C14Chain): quality 2-9, NPOSTFIX = NDIRECT = 0 (every non-FONT mode), ONE "
    "CreateBackwardReferences call per logged meta-block (encode.rs may merge several calls into one meta-block: the "
    "composition over calls is not stated), the chain's own hypotheses BlockOK (the ring buffer holds history ++ block "
    "from one window before the block: RingViewW, which ring_view_w proves from RingOK), OpsOK, DictFaithful (the "
    "looked-up static-dictionary slots agree with the word oracle; vacuous with use_dictionary off) and C14's OracleOK "
    "for the SAME oracle. PayloadOK stays a hypothesis for quality 10/11 (Zopfli: C01zzzzy's model), FONT mode and merged "
    "meta-blocks, and is judged there by the independent IR replay of engine `recoder` on every run."
)
PROPS["C14"]["assumptions"] = [
    ("PayloadOK: the RFC decoder run on the encoder's command array with the encoder's history reproduces the meta-block "
     "input - PROVED for quality 2-9 / NPOSTFIX = NDIRECT = 0 / one CreateBackwardReferences call per meta-block "
     "(payload_ok_q29, relative to C01Chain's BlockOK, OpsOK, DictFaithful); unproved (exercised) for quality 10/11, FONT "
     "mode and meta-blocks merged from several calls")
    if a.startswith("PayloadOK:") else
    (a + "; inside the scope of C14Chain (quality 2-9, NPOSTFIX = NDIRECT = 0) CmdsWF is derived from cmdOK for the "
         "commands CreateBackwardReferences emits and from the constant fields of init_insert (cmds_wf_q29), with no "
         "side condition")
    if a.startswith("DistWF for every command") else a
    for a in PROPS["C14"]["assumptions"]
]
