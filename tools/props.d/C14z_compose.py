# C14, module C14Chain (w-compose, session 4): the payload hypothesis discharged for quality 2-9 by composition
# with the C01 chain (BV.Props.C01Chain). No new model, no new stage: both composed models are already tied
# (`recoder` correspondence for BV/Model/Recoder.lean, `hasher cbr` for BV/Model/Cbr.lean, stage of C01).
if "BV.Props.C14Chain" not in PROPS["C14"]["lean_modules"]:
    PROPS["C14"]["lean_modules"] = PROPS["C14"]["lean_modules"] + ["BV.Props.C14Chain"]
PROPS["C14"]["level_text"] += " " + (
    "Composition with the command generator (BV.Props.C14Chain): for quality 2-9 the payload hypothesis is a THEOREM. "
    "payload_ok_q29: PayloadOK holds for the command array of one CreateBackwardReferences call (model BV/Model/Cbr.lean, "
    "any hasher satisfying OpsOK - BasicHasher/AdvHasher/H9 by match_sound_*, so nothing about the three families is "
    "assumed), closed by the insert-only command as encode.rs does, for EVERY history (custom-dictionary tail ++ earlier "
    "input), i32 distance cache and carried last_insert_len; cmds_wf_q29: CmdsWF (DistWF + u32 insert length of every "
    "command) is derived from the writers' cmdOK plus the fixed fields of Command::init_insert, so the side condition "
    "'commands stored by Command::init with the block's distance parameters' is gone in that scope; "
    "recode_replays_input_q29 (+ _basic/_adv/_h9): if LogMetaBlock (any block-split description, any detection settings, "
    "any wrap position of the InputPair) does not panic on that array, started at recoder position = |history| with the "
    "distance cache of the start of the block, then the IR handed to the callback replays to history ++ meta-block input "
    "byte for byte and num_bytes_encoded advances by exactly the meta-block length - no payload hypothesis. A concrete run "
    "(8 literals, static-dictionary word, 20 closing literals; IR = [bsl 0, lit 0 8, dict 4 0 4 5, lit 12 20]) meets every "
    "hypothesis. Merged meta-blocks (merged_metablock_q29, recode_replays_input_q29_merged; lemmas BV/Lemmas/CbrOpen.lean, "
    "CbrMerge.lean): encode.rs appends the commands of successive CreateBackwardReferences calls to one meta-block, the "
    "last_insert_len pending after a call becoming the insert length of the next call's first command; `Merged` records ANY "
    "sequence of such calls (per call any hasher type and state, the ring-buffer contents of that moment, the carried "
    "distance cache and last_insert_len), each call being covered by the loop theorem in its local view (cbr_open: the "
    "decoder's ring after a call IS the returned dist_cache) and embedded into the whole meta-block (openSteps_embed); the "
    "closed array of the whole meta-block satisfies cmdOK, lockstep, CmdsWF and PayloadOK, hence the IR replays to the "
    "input. extend_last_command (run by encode_data between two merged calls when the previous call ended exactly on a "
    "copy, last_insert_len = 0; lengthens that copy while the new input continues it) is the constructor Merged.extend: "
    "decoder-level hypotheses (the last command is executed as an LZ77 copy at distance D - LastCopy -, copying n more "
    "bytes at D reproduces the next n input bytes, the new command has the same insert length and distance fields and "
    "copy length / code n larger and is cmdOK/DistWF) under which decStep_extend shows the decoder executes the longer "
    "command, so merged_metablock_q29 covers call sequences with extensions; that the real function's tests imply "
    "these hypotheses is derived only for the FIELD part (merged_extend_of_e2e / extendLastCommand_fields: whatever "
    "w-e2e's tied model BV.E2E.extendLastCommand returns has the old insert length and distance fields and copy length / "
    "code exactly n larger, absent a carry out of the 25-bit field), not for LastCopy and the byte agreement. "
    "A two-call run (24 + 8 bytes, 12 literals carried over) is the non-vacuity example."
)
PROPS["C14"]["level_note"] += " " + (
    "Scope of the discharged payload hypothesis (C14Chain): quality 2-9, NPOSTFIX = NDIRECT = 0 (every non-FONT mode), any "
    "number of CreateBackwardReferences calls per logged meta-block, with extend_last_command steps between them "
    "(`Merged.call` / `Merged.extend`; that encode_data threads the calls as `Merged.call` demands - position = history + "
    "bytes searched so far, cache and last_insert_len handed on - and that extend_last_command's own tests establish "
    "Merged.extend's decoder-level hypotheses is read off encode.rs, not derived "
    "from w-stream's model), the chain's own hypotheses BlockOK (the ring buffer holds history ++ block "
    "from one window before the block: RingViewW, which ring_view_w proves from RingOK), OpsOK, DictFaithful (the "
    "looked-up static-dictionary slots agree with the word oracle; vacuous with use_dictionary off) and C14's OracleOK "
    "for the SAME oracle. PayloadOK stays a hypothesis for quality 10/11 (Zopfli: C01zzzzy's model), and FONT mode, "
    "and is judged there by the independent IR replay of engine `recoder` on every run."
)
PROPS["C14"]["assumptions"] = [
    ("PayloadOK: the RFC decoder run on the encoder's command array with the encoder's history reproduces the meta-block "
     "input - PROVED for quality 2-9 / NPOSTFIX = NDIRECT = 0, one call per meta-block (payload_ok_q29) or any number of "
     "merged calls with extend_last_command steps (merged_metablock_q29), relative to C01Chain's BlockOK (per call), "
     "OpsOK, DictFaithful and, per extension, Merged.extend's decoder-level hypotheses; unproved (exercised) for quality "
     "10/11 and FONT mode")
    if a.startswith("PayloadOK:") else
    (a + "; inside the scope of C14Chain (quality 2-9, NPOSTFIX = NDIRECT = 0) CmdsWF is derived from cmdOK for the "
         "commands CreateBackwardReferences emits and from the constant fields of init_insert (cmds_wf_q29), with no "
         "side condition")
    if a.startswith("DistWF for every command") else a
    for a in PROPS["C14"]["assumptions"]
]
