# Proposed by w-metablock (round 2): THIRD Lean module of C01 + the extended stage (same stage name `metablock`; no new stage).
# Builds: cd /verif/lean && lake build BV.Props.C01MetaBlockFull bvdrive ; cd /verif/harness && cargo build --release --offline
PROPS["C01"]["lean_modules"] = PROPS["C01"]["lean_modules"] + ["BV.Props.C01MetaBlockFull"]
PROPS["C01"]["level_text"] += (
    " THIRD MODULE (BV.Props.C01MetaBlockFull): the general writer BrotliStoreMetaBlock (quality >= 4) is inside the model"
    " (BV/Model/MetaBlockFull.lean: block-split codes and block switches, StoreTrivialContextMap, EncodeContextMap with MoveToFrontTransform and RunLengthCodeZeros,"
    " BlockEncoder entropy codes, literal contexts with the two lookup tables generated from constants.rs, distance contexts; the MetaBlockSplit is INPUT)"
    " together with the GENERAL RFC 7932 reader (NBLTYPES >= 1 with type/count codes and the second-to-last / last+1 rule, context modes, context maps with RLEMAX and inverse move-to-front, NTREES codes, block switches in the command loop)."
    " Proved: context_map_roundtrip - for every context map of 1..2^24 entries < num_clusters <= 256, behind any prefix and before any suffix, EncodeContextMap does not panic and the section 7.3 reader returns exactly (num_clusters, map)"
    " (mtf_inverse_roundtrip: MoveToFrontTransform is undone by the inverse transform; rle_zero_runs_roundtrip: RunLengthCodeZeros is undone by the reader's run expansion for every run length and every max_run_length_prefix 0..6; the symbol code through C17)."
    " block_switch_roundtrip (block-split code + every block switch read back), full_metablock_roundtrip (BrotliStoreMetaBlock under the general reader for every well-formed MetaBlockSplit: hypotheses MBOK + Covers) and wmbi_full_roundtrip (with the stored fallback of WriteMetaBlockInternal) are proved; for the greedy builder the well-formedness hypothesis is itself a theorem (BV.Props.C01Greedy, session 4)."
)
PROPS["C01"]["level_note"] += (
    " Third module: the model of BrotliStoreMetaBlock is tied to the code bit-exactly on ~1.7k calls per quick run with MetaBlockSplits built by the real BrotliBuildMetaBlockGreedy (+BrotliOptimizeHistograms) and generated ones"
    " (1..256 block types, context maps all-zero / cyclic / long runs / never-cluster-0, up to 256 clusters, single-symbol and superset histograms, context modes 0-3, NPOSTFIX/NDIRECT incl. (1,12) and random, large window);"
    " EncodeContextMap and BuildAndStoreBlockSplitCode+StoreBlockSwitch additionally as separate engines through the cfg(brotli_verif) hooks encode_context_map / store_block_switches (exhaustive small domains, zero runs 1..70000, up to 256 types);"
    " the Lean general reader is compared with both real decoders on the real writer's streams (`readg` lines). The two context lookup tables of the reader are the harvested source constants (not an independent transcription of RFC 7932 section 7.1)."
)
PROPS["C01"]["rule"] += (
    " | stage metablock, round 2: every second valid stream is additionally written by the real BrotliStoreMetaBlock (one MetaBlockSplit per meta-block: real greedy builder or generated), oracle: both decoders decode to the input;"
    " engines cmap (363 exhaustive + 124 zero-run boundary + 400/4000 random maps) and bsw (37 exhaustive + 400/4000 random type/length sequences): real bits == model bits and the Lean reader reads the map / the (type,length) sequence back."
)
PROPS["C01"]["assumptions"] = PROPS["C01"]["assumptions"] + [
    "third module: the MetaBlockSplit handed to BrotliStoreMetaBlock is well formed (first block type 0, types < num_types <= 256, block lengths >= 1 summing to the symbol count of the category, num_types = 1 => one block, context map entries < number of histograms <= 256, every histogram covers the symbols emitted under its cluster, histogram totals <= 2^25): produced by the clustering code, which is not modelled; exercised with the real greedy builder on every run",
    "third module: depth/bits tables of BlockEncoder are zero-initialised (StandardAlloc); distance alphabet size <= 544 (BROTLI_NUM_HISTOGRAM_DISTANCE_SYMBOLS)",
]
PROPS["C01"]["trusted_base"] = PROPS["C01"]["trusted_base"] + [
    "model: BV/Model/MetaBlockFull.lean mirrors NextBlockTypeCode, StoreBlockSwitch, BuildAndStoreBlockSplitCode, StoreVarLenUint8, StoreTrivialContextMap, IndexOf, MoveToFront, MoveToFrontTransform, RunLengthCodeZeros, EncodeContextMap, BlockEncoder::{new, build_and_store_entropy_codes, store_symbol, store_symbol_with_context}, Context, store_meta_block (brotli_bit_stream.rs), Command::distance_context (command.rs)",
    "hooks: verif_hooks::encode_context_map, verif_hooks::store_block_switches (cfg brotli_verif, /repo bdbfdc9); generated tables kUTF8ContextLookup, kSigned3BitContextLookup",
]
# fn_items.json additions proposed: NextBlockTypeCode, StoreBlockSwitch, BuildAndStoreBlockSplitCode, StoreTrivialContextMap, IndexOf, MoveToFront,
#   MoveToFrontTransform, RunLengthCodeZeros, EncodeContextMap, build_and_store_entropy_codes, store_symbol, store_symbol_with_context, Context, store_meta_block
#   (src/enc/brotli_bit_stream.rs), distance_context (src/enc/command.rs)
