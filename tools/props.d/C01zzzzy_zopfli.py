# C01, quality 10 / 11 (w-zopfli): H10 + Zopfli command generation — model BV/Model/Zopfli.lean, stage `zopfli`
PROPS["C01"]["stages"] = PROPS["C01"]["stages"] + [{"name": "zopfli", "cmd": ["zopfli"]}]
PROPS["C01"]["level_text"] += " " + (
    "ZOPFLI (quality 10 / 11; model BV/Model/Zopfli.lean = BrotliZopfliCreateCommands, ComputeShortestPathFromNodes, ComputeDistanceShortcut/Cache, "
    "StartPosQueue, EvaluateNode, ComputeMinimumCopyLength, UpdateZopfliNode, UpdateNodes, BrotliZopfliComputeShortestPath, ZopfliIterate, "
    "BrotliCreate(Hq)ZopfliBackwardReferences over an ABSTRACT cost type K with arbitrary operations and arbitrary cost arrays, plus StoreAndFindMatchesH10 / "
    "FindAllMatchesH10 / StoreRange of H10 with the static-dictionary answers as a recorded oracle): tied to the code by the stage `zopfli` — "
    "`sp` lines: the WHOLE real BrotliZopfliComputeShortestPath (H10 tree search, the sixteen distance-cache probes, queue, node updates, skip logic; dictionary on and off) "
    "against the model instantiated with K = Float32 and the literal-cost / log2 tables recorded from the real BrotliEstimateBitCostsForLiterals / FastLog2: bit-identical node arrays "
    "(length, distance, dcode_insert_length, u incl. the f32 cost bits); `cc` lines: the real node array through the model's zopfliCreateCommands = the real commands, dist_cache, "
    "last_insert_len, num_literals, and the model's commands satisfy cmdOK + lockstep and replay under the spec decoder (C14 replayCommands) to the text; `path` lines: "
    "ComputeShortestPathFromNodes. Search: every command of quality 10 and 11 over multi-block streams (ring wrapped, lgwin 10..12, positions beyond 2 GiB, dictionary words with all "
    "transforms) replayed by an independent RFC transcription with the DECODER's dictionary and TransformDictionaryWord."
)
PROPS["C01"]["level_note"] += " " + (
    "Zopfli: the quality-11 loops (hqLoop / ziLoop: match collection into the flat array, cur_match_pos bookkeeping, two passes) share every callee with the tied quality-10 path but are "
    "themselves only exercised through the search oracle (their node arrays are not observable without a hook)."
)
PROPS["C01"]["rule"] += (
    " | stage zopfli: per quick run 16 tasks x 500 quality-10 + 16 tasks x 300 quality-11 multi-block cases (1..4 blocks of 0..3000 bytes on ONE H10 instance, StitchToPreviousBlock + "
    "BrotliCreate(Hq)ZopfliBackwardReferences per block as encode.rs does, distance cache / last_insert_len / num_literals carried), generators lz / dict / periodic / runs, ring 2^11..2^13 with "
    "lgwin = ring-1, up to three ring sizes of history before the first block, base position 0 or beyond 2 GiB, dictionary on/off, initial cache 4,11,15,16 / earlier distances / 0x7ffffff0; "
    "oracle: per command field ranges, distance symbol resolved against the ring of last distances, distance <= min(position, 2^lgwin-16) => the copied bytes equal the input, else a dictionary "
    "reference (word length 4..24, transform < 121) whose expansion by the decoder's TransformDictionaryWord has exactly copy_len bytes and equals the input; num_literals, last_insert_len, "
    "cache = ring after every block; no panic; the pub pieces (BrotliZopfliComputeShortestPath + BrotliZopfliCreateCommands) agree with the wrapper run on a clone. Non-trivial = at least one "
    "copy or dictionary command. Signatures zopfli:<kind>:q10|q11, zopfli:panic, zopfli:glue-differs."
)
PROPS["C01"]["trusted_base"] = PROPS["C01"]["trusted_base"] + [
    "model: BV/Model/Zopfli.lean mirrors hq.rs (BrotliZopfliCreateCommands, ComputeShortestPathFromNodes, ComputeDistanceShortcut, ComputeDistanceCache, StartPosQueue, EvaluateNode, "
    "ComputeMinimumCopyLength, UpdateZopfliNode, UpdateNodes, BrotliZopfliComputeShortestPath, ZopfliIterate, BrotliCreateZopfliBackwardReferences, BrotliCreateHqZopfliBackwardReferences, "
    "FindAllMatchesH10) and hash_to_binary_tree.rs (StoreAndFindMatchesH10, Store, StoreRange, BackwardMatch, ZopfliNode accessors)",
]

# --- w-zopfli2 (session 4): theorems over the Zopfli model -------------------------------------------------------------
if "BV.Props.C01Zopfli" not in PROPS["C01"]["lean_modules"]:
    PROPS["C01"]["lean_modules"] = PROPS["C01"]["lean_modules"] + ["BV.Props.C01Zopfli"]
PROPS["C01"]["level_text"] += " " + (
    "ZOPFLI THEOREMS (BV/Props/C01Zopfli.lean, lemmas BV/Lemmas/ZopfliCmd.lean + ZopfliPath.lean): `zopfli_commands_lockstep` — for EVERY node array (any cost type, any costs) "
    "whose path from nodes[0].next is sound (`NodesOK`: every node reached along the `next` offsets describes, where its copy starts, either a copy with 1 <= distance <= min(position, window), "
    "length >= 2, length code = length, whose source bytes equal the target bytes in hist ++ mb, or a static-dictionary reference — distance beyond the window, no short code, word length 4..24 within the "
    "7-bit delta of the copy length, the decoder's word oracle expanding (word length, index, transform) to the next copy_length bytes; a non-zero short code denotes the node's distance under the RFC 7932 "
    "rules (C14's rfcDistance) relative to the ring of last distances, which evolves by the decoder's rule; the walk ends inside the block), every i32 distance cache and every pending last_insert_len: the "
    "commands of the modelled BrotliZopfliCreateCommands, closed with the insert-only command as encode.rs does, satisfy cmdOK + lockstep and the RFC decoder replays them to hist ++ mb — the SAME "
    "conclusion as C01Chain.commands_lockstep, so the meta-block writer theorems apply to quality 10 / 11 (`zopfli_fast_roundtrip` instantiates one). Covers what the quality 2-9 lemmas did not: distance "
    "codes chosen by Zopfli's own short-code table instead of ComputeDistanceCode, and dictionary words under transforms that ADD bytes (copy_len_code < copy_len, negative delta in Command::init's packing: "
    "`pack_fields`, `cmdOK_commandInit'`, `decStep_dict`). `shortest_path_nodesOK` (lemmas BV/Lemmas/ZopfliBack.lean): the modelled ComputeShortestPathFromNodes (tail skip + backward walk writing the `next` chain) turns "
    "every node array in which each WRITTEN node (a node failing the tail-skip test insert_length == 0 && length == 1) is sound relative to the ring of last distances of its OWN backward chain (`AllBack` / `BackOK` / `RingAt`) "
    "into an array that satisfies NodesOK; `path_commands_lockstep` composes the two (sound nodes -> ComputeShortestPathFromNodes -> BrotliZopfliCreateCommands -> cmdOK + lockstep + replay = hist ++ mb)."
)
PROPS["C01"]["level_note"] += " " + (
    "Zopfli theorems, the dynamic programme (goal: AllBack for the arrays UpdateNodes / ZopfliIterate produce): PARTLY proved. Proved: the invariant DPInv (BV/Lemmas/ZopfliInv.lean: every written node BackOK with an "
    "evaluated start position, every stored `shortcut` means SC, untouched nodes carry the infinite cost) implies the command theorems (`dp_commands_lockstep`); writing one sound node keeps it (`DPInv.write`, "
    "`Inv2.write_copy`, `Inv2.write_dict`); the sixteen distance-cache probes of UpdateNodes keep it for EVERY cost oracle (`cache_probes_sound_partial`: i32 sum, wrap/window/continuation filters, FindMatchLengthWithLimit "
    "against the ring transferred to the text by ring_match_is_text_match, Zopfli's short-code table = RFC symbols 0..15 `zopfli_short_code`); the match loop keeps it for every cost oracle and every MatchOK match list "
    "(`match_loop_sound_partial`: copies for every length up to the match length, dictionary references only with the match's own length). NOT proved: the glue `candidate` / UpdateNodes around the two loops (unfolding `candidate` "
    "makes the Lean kernel compare k + 2^64 in successor form inside the bound check of queue.at — a proof-engineering obstacle), EvaluateNode (ComputeDistanceCache = the ring RingAt of the position; StartPosQueue::push keeps entries sound; "
    "needs le(inf, literal cost) = false so that an untouched node never enters the queue), the outer loops (BrotliZopfliComputeShortestPath, ZopfliIterate, skip logic), and MatchOK for FindAllMatchesH10: only its short-distance loop is done (`h10_short_matches_sound_partial`: every match it reports is BackwardMatch::init(backward, len) with 1 <= backward <= min(max_backward, cur_ix), len <= max_length and len agreeing bytes at the two masked ring positions); the matches of the binary-tree walk StoreAndFindMatchesH10 compare only the bytes from min(best_len_left, best_len_right) on, so their soundness needs the ordering invariant of the tree over all earlier Store calls, which is not formulated yet. "
    "Until then `AllBack` is a HYPOTHESIS of path_commands_lockstep, covered per run only indirectly (the `cc` lines check cmdOK + lockstep + replay of the model's commands on every real node array). "
    "NPOSTFIX = NDIRECT = 0, one call = one meta-block, as in C01Chain."
)
PROPS["C01"]["assumptions"] = PROPS["C01"]["assumptions"] + [
    "C01Zopfli: zopfli_commands_lockstep assumes NodesOK (path_commands_lockstep: AllBack) of the node array — not yet derived from the dynamic programme; NPOSTFIX = NDIRECT = 0; window <= 2^30, "
    "params.dist.max_distance + 15 < 2^31 (standard alphabet: both <= 2^26 - 4); meta-block <= 2^24 bytes; distance cache entries are i32 and at least 4 are present",
    "C01Zopfli (partial theorems): the ring view of C01Chain (RingViewW over the slice the hashers read, tail <= ring, block <= tail, lo <= base - window), positions below 2^63; MatchOK for the match list "
    "(for dictionary matches: the decoder's word oracle expands (length code, index, transform) to the matched bytes, length code 4..24, length code <= length + 9, length <= length code + 64)",
]
