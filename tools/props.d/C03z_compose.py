# C03, module C03Catable (w-compose, session 4): the catable promise (assumption CatableBody) at the command level
# for quality 2-9, by composition of the C01 chain with a decoder-level position-independence theorem.
# New executable definitions: BV/Model/Catable.lean (catable parameter set), tied by the `catable ...` lines of the
# new stage `hasher catable` (harness/src/hasher_catable.rs), which also emits `hasher cbr` lines for catable runs
# and carries the search-stage oracle "foreign history / foreign ring replay" on the real CreateBackwardReferences.
if "BV.Props.C03Catable" not in PROPS["C03"]["lean_modules"]:
    PROPS["C03"]["lean_modules"] = PROPS["C03"]["lean_modules"] + ["BV.Props.C03Catable"]
if not any(s.get("name") == "hasher-catable" for s in PROPS["C03"]["stages"]):
    PROPS["C03"]["stages"] = PROPS["C03"]["stages"] + [{"name": "hasher-catable", "cmd": ["hasher", "catable"]}]
PROPS["C03"]["level_text"] += " " + (
    "The catable promise at the command level (BV.Props.C03Catable) - CatableBody is now a THEOREM for quality 2-9 "
    "commands and for quality 2-3 bits. replay_position_independent / lockstep_position_independent (pure RFC 7932 "
    "facts over C14's replayCommands, no encoder involved): if a decoder WITHOUT static dictionary, with history hist, "
    "distance ring ra and window W accepts a command array, then a decoder with ANY foreign prefix h' in front of the "
    "history, ANY ring that shares the non-poisoned entries of ra (an entry x is poisoned iff W + 3 < x: no short code "
    "built on it denotes a distance inside the window), any window >= W and ANY static dictionary accepts it and "
    "outputs h' ++ the same bytes, ending with rings that are related again. catable_block_position_independent composes "
    "this with the C01 chain: one CreateBackwardReferences call (model BV/Model/Cbr.lean, any hasher that returns no "
    "dictionary hit - for BasicHasher/AdvHasher/H9 with the dictionary off that is a theorem: basic/adv/h9_dictionary_off) "
    "over a block of a member whose earlier bytes are hist: every command is cmdOK, the decoder in the foreign state "
    "runs in lockstep and reproduces h' ++ hist ++ block, and its ring is related to the cache the call RETURNS (open "
    "form of the loop theorem, cbr_open: decoder ring = returned dist_cache), so the next block's hypothesis holds; "
    "catable_member_position_independent threads this over any number of meta-blocks; catable_member_from_init starts "
    "from the encoder's real catable initial state (BV/Model/Catable.lean: BROTLI_PARAM_CATABLE sets catable and "
    "appendable and clears use_dictionary, ensure_initialized writes 0x7ffffff0 into all 16 dist_cache_ and 4 "
    "saved_dist_cache_ slots): NO condition on the decoder's ring or history is left (catable_init_ring_free). "
    "catable_fast_bits_position_independent / catable_trivial_bits_position_independent: the BITS BrotliStoreMetaBlockFast "
    "/ Trivial emit (quality 2 / 3) are read by the RFC reader from the foreign state to h' ++ hist ++ block. "
    "catable_full_bits_position_independent (quality 4-9): for a block behind at least two member bytes (the stored "
    "prelude: behind it prev_byte/prev_byte2 and every literal context id are the same whatever precedes the member - "
    "litSymsOf_prefix), the bits BrotliStoreMetaBlock (storeMetaBlockFull: block splits, context maps, literal context "
    "modelling) emits with ANY well-formed MetaBlockSplit covering the emitted symbols (MBOK/Covers; for the greedy "
    "builder that is C01Greedy's greedy_split_wellformed) are read by the GENERAL RFC reader from the foreign state to "
    "h' ++ hist ++ block; the writers' command hypotheses are all discharged: cmdOK, lockstep, faithful "
    "(catable_block_faithful via faithful_of_final) and copy_len() >= 2 (catable_copylen2: with the dictionary off every "
    "sound match at a position with >= 4 bytes left is an LZ77 match of length >= 2). "
    "catable_greedy_bits_position_independent removes the MetaBlockSplit hypothesis for the greedy path: "
    "CreateBackwardReferences, BrotliBuildMetaBlockGreedy (BV.Greedy.buildGreedy, any float oracle with OracleOK, any "
    "static context map with StaticOK; w-greedy's greedy_split_wellformed), BrotliStoreMetaBlock - no panic, and the "
    "bits are read from every foreign state to h' ++ hist ++ block (BrotliOptimizeHistograms between builder and writer: "
    "w-greedy's greedy_optimized_roundtrip, not composed here). "
    "Necessity: dictionary_reference_is_position_dependent and default_cache_is_position_dependent are concrete "
    "counterexamples when the dictionary is on / the cache is the default [4,11,15,16]. On the real code the same "
    "statement is judged by stage `hasher catable`: members cut into blocks, BrotliCreateBackwardReferences on every "
    "real hasher type of quality 2-9 with the carried cache from the all-poison start at position 2, then an "
    "independent RFC replay behind a random foreign history, from a random foreign ring, with a window >= the "
    "encoder's: no short code may read a ring slot the member has not written, no distance may leave the member or "
    "the encoder's window, output == foreign ++ member."
)
PROPS["C03"]["level_note"] = PROPS["C03"]["level_note"].replace(
    "Partial: CatableBody (position independence of compressed meta-blocks) is an assumption about the encoder core;",
    "Partial: CatableBody (position independence of compressed meta-blocks) is proved at the COMMAND level for quality "
    "2-9, at the bit level for quality 2-3 and, relative to a well-formed MetaBlockSplit (MBOK/Covers), at the bit level "
    "for the quality 4-9 writer BrotliStoreMetaBlock (BV.Props.C03Catable, relative to the C01 chain's hypotheses); for "
    "quality 0/1 and 10/11 it remains an assumption about the encoder core;"
) + " " + (
    "C03Catable scope: NPOSTFIX = NDIRECT = 0; one CreateBackwardReferences call per meta-block; the chain's BlockOK (the "
    "ring buffer holds the member's text) and OpsOK; lgwin <= 30. The quality 4-9 statement takes the MetaBlockSplit as "
    "given (MBOK/Covers; BrotliOptimizeHistograms and the quality 10/11 splitter are not covered) and is about one "
    "meta-block written by storeMetaBlockFull, not about WriteMetaBlockInternal's stored fallback (wmbi_full_roundtrip "
    "composes the same way). Not covered: "
    "re-reading a compressed meta-block at a different BIT offset after the concatenator's shift: the READER half is "
    "proved (compressed_metablock_offset_independent: bits beginning with the compressed non-last header are read at "
    "every offset to the same state, consuming the same number of bits; readMetaBlock_compressed_shift), the WRITER half "
    "(the emitted bits begin with that header and do not depend on the bits before them - true by construction of the "
    "writer models, internal to fast_core/trivial_core/full_core, not exported) is not, so the bit-level theorems are "
    "stated at the offset the block was written for; "
    "quality 0/1 (fragment compressors: own last-distance state, no dictionary) and 10/11 "
    "(Zopfli). The catable parameter set BV/Model/Catable.lean is tied by 120 `catable setparam/init` lines per run "
    "(all flag combinations x values x qualities, against set_parameter and a real encoder after ensure_initialized); "
    "set_custom_dictionary with an EMPTY dictionary sets catable AFTER ensure_initialized, i.e. without poisoning the "
    "cache or clearing use_dictionary: such a stream is flagged catable internally but was never promised catable by "
    "the caller (not a C03 member)."
)
PROPS["C03"]["rule"] += " " + (
    "Stage hasher-catable: per hasher kind (all quality 2-9 kinds + small H5/H6 variants) 600 (small tables) / 240 / 60 "
    "members per quick run (x10 thorough) of 0..3 ring sizes, 1 in 3 salted with static-dictionary words, cut into "
    "blocks <= one ring tail, literal_byte_score variants; 3 foreign replays per member (foreign history 0..5000 "
    "random bytes, foreign ring random or the default, window in {same, 2W+16, 2^24-16}); non-trivial = the member "
    "produced at least one copy command. Correspondence: 120 `catable` parameter lines + ~290 `hasher cbr` lines of "
    "catable blocks (first block from the all-poison 16-entry cache)."
)
PROPS["C03"]["assumptions"] = [
    ("'decodes to the concatenation' additionally relies on the payload encoder's catable promise (distance cache "
     "poisoned, static dictionary off, first two bytes stored): PROVED at the command level for quality 2-9 and at the bit "
     "level for quality 2-3 and (given a well-formed MetaBlockSplit) 4-9 (BV.Props.C03Catable: catable_member_from_init, "
     "catable_*_bits_position_independent, relative to C01Chain's BlockOK/OpsOK); for quality 0/1/10/11 it is judged on the "
     "real code by two independent decoders (brotli-decompressor, libbrotlidec 1.0.9) and, for the commands of quality "
     "2-9, by the foreign-history replay of stage hasher-catable")
    if a.startswith("'decodes to the concatenation' additionally relies") else a
    for a in PROPS["C03"]["assumptions"]
]
PROPS["C03"]["trusted_base"] = PROPS["C03"]["trusted_base"] + [
    "model: BV/Model/Catable.lean mirrors the BROTLI_PARAM_CATABLE / BROTLI_PARAM_APPENDABLE arms of set_parameter, the catable line of SanitizeParams and the dist_cache_ / saved_dist_cache_ initialisation of ensure_initialized (src/enc/encode.rs); BV/Model/Cbr.lean (CreateBackwardReferences) and BV/Model/Recoder.lean (RFC command semantics) as in C01 / C14",
]
