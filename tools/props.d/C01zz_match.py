# C01, third module: the match finders' results replay (BV.Props.C01Match, worker w-hasher)
if "BV.Props.C01Match" not in PROPS["C01"]["lean_modules"]:
    PROPS["C01"]["lean_modules"] = PROPS["C01"]["lean_modules"] + ["BV.Props.C01Match"]
PROPS["C01"]["stages"] = PROPS["C01"]["stages"] + [{"name": "hasher-flm", "cmd": ["hasher", "flm"]}]
PROPS["C01"]["rule"] = PROPS["C01"].get("rule", "") + (
    " Third module BV.Props.C01Match (FindLongestMatch of BasicHasher/AdvHasher/H9, for EVERY table, distance cache, buffer and mask):"
    " match_sound_basic/adv/h9: a reported match has 0 < distance <= max_backward, len <= max_length, len_x_code = 0 and its len bytes agree in the ring, or is a dictionary reference described by a looked-up slot;"
    " match_without_dictionary_in_window, dict_reference_beyond_window; distance_code_sound (ComputeDistanceCode + PrefixEncodeCopyDistance decode under the RFC distance decoder to the distance, ring update iff code != 0);"
    " command_replays (the RFC decoder step of the Command::init command appends exactly the next insert+copy bytes; ring = updated cache); ring_match_is_text_match; found_copy_replays (composition for AdvHasher)."
    " The dictionary LOOKUP is an oracle (slots are inputs); replay of dictionary references through the word transform is not proved. Stage hasher-flm runs FindLongestMatch of the real hashers on natural, poisoned and random tables against the model and the soundness oracle.")
