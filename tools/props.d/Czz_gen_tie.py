# Translator tie for control flow (tools/rs2lean.py): per property, a module proving that the Lean
# definitions GENERATED from the current Rust function bodies equal the hand-written model.
_GEN_TIE = {
    "C18": ("BV.Props.C18Gen", "Log2FloorNonZero, GetInsertLengthCode, GetCopyLengthCode, combine_length_codes, PrefixEncodeCopyDistance, BrotliEncodeMlen, StoreVarLenUint8, Command::copy_len, Command::distance_context, Command::restore_distance_code",
            "log2_floor_non_zero_generated, get_insert_length_code_generated, get_copy_length_code_generated (every usize), combine_length_codes_generated (whole 24x24x2 domain), prefix_encode_copy_distance_generated (every code < 2^62, NPOSTFIX <= 3, NDIRECT <= 120), restore_distance_code_generated (every stored prefix with nbits <= 31, every extra), copy_len_generated, encode_mlen_generated (1..2^24), store_var_len_uint8_generated (every u64: the list of BrotliWriteBits calls)"),
    "C08": ("BV.Props.C08Gen", "BrotliEncoderMaxCompressedSize, BrotliEncoderMaxCompressedSizeMulti, BrotliEncodeMlen, BrotliStoreUncompressedMetaBlockHeader",
            "max_compressed_size_generated, max_compressed_size_multi_generated (every usize); encode_mlen_generated + store_uncompressed_header_generated: the generated write list of BrotliStoreUncompressedMetaBlockHeader, run on any writer, equals the stored-stream model's header writer for every legal MLEN"),
    "C02": ("BV.Props.C02Gen", "get_range", "get_range_generated_wrap (release semantics, num_threads != 0), get_range_generated (debug semantics: whenever the checked model returns)"),
    "C06": ("BV.Props.C02Gen", "get_range", "get_range_generated_wrap, get_range_generated"),
    "C01": ("BV.Props.C01Gen", "WrapPosition, BrotliEncodeMlen, StoreCompressedMetaBlockHeader",
            "stated DIRECTLY over the generated definition: wrap_position_closed_form, wrap_position_low_bits (low 30 bits survive), wrap_position_identity (< 3 GiB), wrap_position_range (fits u32; never below 1 GiB again; below 3 GiB once wrapped), wrap_position_distance (distances modulo 2 GiB) — every u64 position; store_compressed_header_generated: the generated write list of StoreCompressedMetaBlockHeader, run on any writer, equals the meta-block writer model's header (both ISLAST values, every legal MLEN)"),
    "C16": ("BV.Props.C16Gen", "parse_window_size, NewStreamData::new, NewStreamData::sufficient, BroCatli::new_brotli_file, BroCatli::new_with_window_size, BroCatli::append_eof_metablock_to_last_bytes (struct-by-value mode)", "parse_window_size_generated (>= 2 bytes: the model never panics and returns the generated answer), parse_window_size_generated_of_ok (any slice: whenever the model returns), new_stream_data_new_generated, sufficient_generated, new_brotli_file_generated (every state), new_with_window_size_generated / new_with_window_size_panics (every u8 argument: the generated state is the model's whenever the model returns; the generated debug no-panic condition holds exactly when the model does not panic), append_eof_generated / append_eof_ok_generated (every state with a two-byte last_bytes array: whenever the model returns — it panics on an unsanitised last byte and on each u8 overflow — the generated state is the model's and the generated no-panic condition holds)"),
    "C03": ("BV.Props.C16Gen", "parse_window_size, NewStreamData::new, NewStreamData::sufficient, BroCatli::new_brotli_file, BroCatli::new_with_window_size, BroCatli::append_eof_metablock_to_last_bytes", "parse_window_size_generated, parse_window_size_generated_of_ok, new_stream_data_new_generated, sufficient_generated, new_brotli_file_generated, new_with_window_size_generated, new_with_window_size_panics, append_eof_generated, append_eof_ok_generated"),
    "C12": ("BV.Props.C16Gen", "parse_window_size, NewStreamData::new, NewStreamData::sufficient, BroCatli::new_brotli_file, BroCatli::new_with_window_size, BroCatli::append_eof_metablock_to_last_bytes", "parse_window_size_generated, parse_window_size_generated_of_ok, new_stream_data_new_generated, sufficient_generated, new_brotli_file_generated, new_with_window_size_generated, new_with_window_size_panics, append_eof_generated, append_eof_ok_generated"),
    "C04": ("BV.Props.C04Gen", "BrotliStoreSyncMetaBlock, BrotliWriteEmptyLastMetaBlock (bit-writer functions: the generated value is the ordered list of BrotliWriteBits / JumpToByteBoundary calls)",
            "store_sync_meta_block_generated, write_empty_last_meta_block_generated: the generated operation list run on ANY writer (runOps, BV/Lemmas/RsWriter.lean) equals the header model"),
    "C15": ("BV.Props.C15Gen", "EncodeWindowBits, SanitizeParams (+ check_large_window_ok), ComputeLgBlock, ComputeRbBits, update_size_hint (+ unprocessed_input_size), encode_base_128, BrotliWriteMetadataMetaBlock (BrotliEncoderParams / BrotliEncoderStateStruct as Lean structures of their supported fields)",
            "encode_window_bits_generated (every lgwin < 64, both header forms), encode_window_bits_ignores_outs; sanitize_params_generated (EVERY parameter structure: the structure after the call is the one before with exactly quality, lgwin, appendable replaced by the model's sanitizeParams values — no other field is touched); compute_lg_block_generated (every structure); compute_rb_bits_generated (whenever 1 + max(lgwin, lgblock) fits an i32); update_size_hint_generated (every encoder state and available_in: the state afterwards is the state before with params.size_hint := the model's updateSizeHint of (size_hint, input_pos_ - last_processed_pos_ wrapping, available_in)); encode_base_128_generated (every u64: (byte count, bytes followed by zeros up to 10) of the model's encodeBase128) and encode_base_128_ok_generated (no index / overflow panic, every value); write_metadata_meta_block_generated (every parameter structure with a u64 size hint: the generated BrotliWriteBits / JumpToByteBoundary list of BrotliWriteMetadataMetaBlock, run on ANY writer, equals the model's writeMetadataMetaBlock — magic bytes by concatenation mode, VERSION, base-128 size hint)"),
}
# Further translated functions (session 3: loops, arrays, structs by value, enums, `_ok` companions).
# property -> [(Props module, generated file, functions, theorems)]
_GEN_TIE2 = {
    "C07": [("BV.Props.C07Gen", "FnC07", "FixedQueue::new, can_push, size, push, pop, how_much_free_space (T := usize; struct by value, `data` as a list of 16 options)",
             "new_generated, can_push_generated, size_generated, how_much_free_space_generated, push_generated (Err exactly when the model says full, else Ok and the model's queue), pop_generated (returned slot and new queue), push_ok_generated / pop_ok_generated (no index / overflow panic) — every queue with its 16 slots and start + size + 1 < 2^64")],
    "C19": [("BV.Props.C19Gen", "FnC19", "BROTLI_UNALIGNED_LOAD32, BROTLI_UNALIGNED_LOAD64, Hash14, H2Sub/H3Sub/H4Sub/H54Sub::HashBytes",
             "load32_generated, load64_generated (little-endian value of the loaded bytes), hash_bytes_h2/h3/h4/h54_generated (equal to the hash parameter of the model instances BV.Hasher.H2/H3/H4/H54 on every slice of >= 8 bytes), hash14_generated, load*_ok_generated / hash_bytes_ok_generated (the Rust code panics exactly on shorter slices)")],
}
_GEN_TIE2["C01"] = [("BV.Props.C01mGen", "FnC01m", "ComputeDistanceCode",
    "compute_distance_code_generated (equal to the match-finder model's computeDistanceCode — the distance-code step of emitCommand — for every usize distance / limit and every distance cache of >= 4 entries), compute_distance_code_ok_generated (no index or shift panic on such caches)")]
_GEN_TIE2["C17"] = [("BV.Props.C17Gen", "FnC17", "BrotliReverseBits, StoreStaticCodeLengthCode, StoreSimpleHuffmanTree, BrotliStoreHuffmanTreeOfHuffmanTreeToBitMask (BrotliConvertBitDepthsToSymbols and BrotliSetDepth are translated into the same file but not yet proved equal: correspondence only)",
    "reverse_bits_generated (equal to the model's reverseBits for every num_bits <= 16 and every u16: the while loop by induction on its iterations), store_static_code_length_code_generated (any writer), store_simple_symbols_generated + store_simple_generated (whenever the model's StoreSimpleHuffmanTree returns — it panics when the sort or the tail leaves the symbols/depths arrays — the generated double-for sort leaves the model's symbols array and the generated BrotliWriteBits list run on the same writer returns the same bits; num_symbols any usize, the NSYM 2 / 3 / 4 tails and the tree-select bit), store_huffman_tree_of_huffman_tree_generated (whenever the model returns: the codes_to_store scan, HSKIP and the per-length writes of the generated list give the model's bits)")]
_GEN_TIE2["C18"] = [("BV.Props.C18vGen", "FnC18v", "(by-value struct mode: Command and BrotliDistanceParams as Lean structures) Log2FloorNonZero, GetInsertLengthCode, GetCopyLengthCode, combine_length_codes, PrefixEncodeCopyDistance (same terms as in FnC18, by rfl), get_length_code, BlockLengthPrefixCode, GetBlockLengthPrefixCode, Command::copy_len_code, Command::init, Command::new, Command::init_insert, GetInsertExtra / GetInsertBase / GetCopyBase / GetCopyExtra, StoreCommandExtra (Command::distance_index_and_offset is translated into the same file but its model belongs to C14 and is not tied)",
    "get_length_code_generated (insert lengths < 22594 + 2^24, copy length codes 2 .. 2118 + 2^24), block_length_prefix_code_generated (EVERY length: the while loop = the model's table walk), get_block_length_prefix_code_generated (1 .. 2^24: code, n_extra, extra), copy_len_code_generated (every u32 copy_len_ field), init_generated / command_new_generated (every field of the command: insert_len_, copy_len_ = packCopyLen, dist_prefix_ / dist_extra_ = the model's packed prefix code and extra bits, cmd_prefix_ = getLengthCode with the implicit-distance flag; NPOSTFIX <= 3, NDIRECT <= 120, distance code < 2^62, copylen < 2^25), init_insert_generated, store_command_extra_generated (the generated write list is the model's single (nbits, value) field, on every command whose lengths lie in the format's buckets)")]
_GEN_TIE2["C20"] = [("BV.Props.C20Gen", "FnC20", "set_parameter (the free function: the `match` over BrotliEncoderParameter, whose variants the body imports with `use ...::*`, becomes a chain of tests on the discriminants read from src/enc/parameters.rs), BrotliEncoderStateStruct::set_parameter, SanitizeParams, ComputeLgBlock, EncodeWindowBits (parameter and encoder-state structs as Lean structures of their supported fields)",
    "set_parameter_generated (EVERY parameter id — the 27 of the match and every other number — and every u32 value: the generated function returns false with the parameters untouched exactly when the model's setParamRaw refuses, otherwise true with the model's value in every field the model keeps), state_set_parameter_generated (the method refuses on an initialised encoder, otherwise it is the free function on self.params: the model's setParameter), sanitize_generated and compute_lg_block_generated (every parameter structure, against BV.Stream.sanitize / computeLgBlock), encode_window_bits_generated (8 <= lgwin < 64, both forms, against BV.Stream.encodeWindowBits)")]
_GEN_TIE2["C14"] = [("BV.Props.C14Gen", "FnC18v", "Command::distance_index_and_offset (by-value struct mode)",
    "distance_index_and_offset_generated (every command with a u16 dist_prefix_ and every u32 NDIRECT: whenever the recoder model's distanceIndexAndOffset returns — it answers none for a debug-build overflow or an out-of-range shift — the generated function returns the same (index, offset) pair: short-code table, direct codes, long codes)")]
_GEN_TIE_LIST = {}
for _pid, (_mod, _fns, _ths) in _GEN_TIE.items():
    _GEN_TIE_LIST.setdefault(_pid, []).append((_mod, "Fn" + _mod[-6:-3], _fns, _ths))
for _pid, _l in _GEN_TIE2.items():
    _GEN_TIE_LIST.setdefault(_pid, []).extend(_l)
_TB = ("tools/rs2lean.py (parser + typed translation: integer arithmetic, loops through the fuel/fold combinators, arrays as lists, structs by value, "
       "enums as discriminants, Option/Result, bit-writer lists; self-checked by tools/test_rs2lean.py: construct regression, differential runs against the "
       "real functions, seeded edits) and lean/BV/Model/RsPrelude.lean (wrapS, toU, sop, clz: meaning of fixed-width signed arithmetic and leading_zeros; "
       "forRange*/whileLoop*: meaning of loops, fuel 2^64)")
for _pid, _l in _GEN_TIE_LIST.items():
    if _pid not in PROPS:
        continue
    for (_mod, _gen, _fns, _ths) in _l:
        if _mod in PROPS[_pid]["lean_modules"]:
            continue
        PROPS[_pid]["lean_modules"] = PROPS[_pid]["lean_modules"] + [_mod]
        PROPS[_pid]["rule"] = PROPS[_pid].get("rule", "") + (
            " Translator tie (control flow): tools/rs2lean.py re-translates the BODIES of " + _fns +
            " from the current Rust text into Lean on every run (BV/Gen/" + _gen + ".lean; release-build semantics: wrapping"
            " arithmetic, masked shift amounts, truncating casts; asserts dropped; `_ok` companions state the debug-build no-panic conditions) and " + _mod +
            " proves them equal to the hand-written model the property theorems are stated over: " + _ths +
            ". A change of a body changes the generated definition and the kernel re-checks the equation.")
    if _TB not in PROPS[_pid].get("trusted_base", []):
        PROPS[_pid]["trusted_base"] = [t for t in PROPS[_pid].get("trusted_base", []) if not t.startswith("tools/rs2lean.py")] + [_TB]

# C15: what the translator tie now covers (the sentence of C15.py predates it)
if "C15" in PROPS:
    PROPS["C15"]["level_note"] = PROPS["C15"]["level_note"].replace(
        "model = code is checked on the full grid on every run, not proved.",
        "model = code is checked on the full grid on every run; in addition SanitizeParams, ComputeLgBlock, ComputeRbBits, EncodeWindowBits, update_size_hint, encode_base_128 and BrotliWriteMetadataMetaBlock are PROVED equal to the Lean definitions generated from their current Rust text by tools/rs2lean.py (BV.Props.C15Gen; trusted: the translator), while ensure_initialized, the head of encode_data, the q0/q1 dispatch and store_uncompressed_meta_block remain tied by the grid only.")

if "C20" in PROPS:
    PROPS["C20"]["level_note"] = PROPS["C20"]["level_note"] + (" set_parameter (free function and method), SanitizeParams, ComputeLgBlock and EncodeWindowBits of the model are in addition PROVED equal to the Lean definitions generated from the current Rust text (BV.Props.C20Gen; trusted: tools/rs2lean.py); the theorem set_parameter_table of C20 therefore speaks about the real parameter table, not only about a hand copy of it.")

# C15: DIRECT theorems over generated definitions that have no hand-written model
if "C15" in PROPS and "BV.Props.C15GenD" not in PROPS["C15"]["lean_modules"]:
    PROPS["C15"]["lean_modules"] = PROPS["C15"]["lean_modules"] + ["BV.Props.C15GenD"]
    PROPS["C15"]["rule"] = PROPS["C15"].get("rule", "") + (
        " Direct theorems over generated code (BV.Props.C15GenD, no hand-written model in between): for EVERY parameter structure, the "
        "(NDIRECT, NPOSTFIX) pair ChooseDistanceParams hands to BrotliInitDistanceParams is legal for the meta-block header (chosen_valid: "
        "NPOSTFIX <= 3, NDIRECT <= 120 a multiple of 2^NPOSTFIX with a 4-bit quotient; illegal requests fall back to (0, 0)), qualities < 4 use (0, 0) "
        "and font mode (1, 12) (chosen_low_quality, chosen_font), the distance alphabet has 16 + NDIRECT + 24 * 2^(NPOSTFIX+1) symbols (62 * ... with "
        "large windows) and without large windows the largest distance is NDIRECT + 2^(26+NPOSTFIX) - 2^(NPOSTFIX+2) (choose_distance_params_small, "
        "choose_distance_params_large_alphabet), and no field other than dist is touched (choose_distance_params_frame). The large-window max_distance "
        "table of BrotliInitDistanceParams is translated but nothing is claimed about it.")
