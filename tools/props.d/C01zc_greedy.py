# C01, quality 4..9 (w-greedy, session 4): the GREEDY meta-block builder BrotliBuildMetaBlockGreedy — model BV/Model/Greedy.lean, stage `greedy`
PROPS["C01"]["stages"] = PROPS["C01"]["stages"] + [{"name": "greedy", "cmd": ["greedy"]}]
PROPS["C01"]["lean_modules"] = PROPS["C01"]["lean_modules"] + ["BV.Props.C01Greedy"]
PROPS["C01"]["level_text"] += " " + (
    "GREEDY BUILDER (quality 4..9; model BV/Model/Greedy.lean = InitBlockSplitter / InitContextBlockSplitter on the fresh MetaBlockSplit of encode.rs, "
    "BlockSplitterAddSymbol / ContextBlockSplitterAddSymbol, BlockSplitterFinishBlock / ContextBlockSplitterFinishBlock with all four branches and the is_final tail, "
    "MapStaticContexts, the command loop of BrotliBuildMetaBlockGreedyInternal; every floatX computation — BitsEntropy, the differences diff[j], the comparisons with "
    "split_threshold_ and diff[0] - 20.0 — goes through an ORACLE over an abstract carrier F with arbitrary entropy function, arithmetic and comparisons): tied to the code by "
    "the stage `greedy` — `build` lines: the WHOLE real BrotliBuildMetaBlockGreedy (num_contexts 1, 2, 3, 13 with the three static maps of encode.rs and random maps, context "
    "modes 0..3, literal- and command-heavy inputs in regions of different statistics) against the model with F = Float32 and BitsEntropy recomputed in the Lean driver: "
    "identical num_types, num_blocks, types, lengths of the three splits, literal context map and EVERY histogram entry; `log2` line: the two log2 tables of the crate and "
    "FastLog2 against the driver's recomputation."
    " PROVED (BV.Props.C01Greedy): greedy_split_wellformed - for EVERY float oracle satisfying the single IEEE-754 fact OracleOK (x < x - 20.0 is false; entropy function, +, -, <, > and "
    "thresholds otherwise arbitrary), every ring / history / context mode, num_contexts = 1 or 2..13 with a static map of >= 64 entries < num_contexts, every command array with cmdOK, "
    "copy_len() >= 2 and lockstep, |mb| + 512 <= 2^24 and at most 2^24 - 1024 commands: the builder does not panic (split.types / split.lengths indexed with num_blocks_, num_blocks_ - 1, "
    "num_blocks_ - 2 inside their max_num_blocks entries, histograms indexed with curr_histogram_ix_ / last_histogram_ix_ inside min(max_num_blocks, max_block_types + 1) * num_contexts, ring, "
    "static map, context map, no assert, no division by zero) and the MetaBlockSplit it returns satisfies EXACTLY the hypotheses MBOK + Covers x3 of full_metablock_roundtrip (first block type 0, "
    "types < num_types <= 256, lengths 1..2^24, num_types = 1 => one block, <= 256 literal histograms, context map entries < that number, every histogram counts the symbols emitted under it, "
    "totals <= 2^25, nothing above the alphabet); OracleOK is necessary (kernel-checked example: an oracle answering diff[1] < diff[0] - 20.0 with one block type makes the code index "
    "split.types[num_blocks_ - 2] with num_blocks_ = 1). greedy_metablock_roundtrip - builder followed by BrotliStoreMetaBlock: under the ring / history / command hypotheses of "
    "full_metablock_roundtrip and NONE on the MetaBlockSplit, neither panics and the general RFC 7932 reader reads the bits back to what replayCommands produces from the commands; "
    "greedy_wmbi_roundtrip - the same through WriteMetaBlockInternal's size decision (every should_compress verdict, appendable / catable / last). "
    "BrotliOptimizeHistograms (run by encode.rs between builder and writer; model optimizeHistograms over C17's BrotliOptimizeHuffmanCountsForRle, tied by the `opt=` field of the build "
    "lines: the three histogram digests behind the real BrotliOptimizeHistograms(64, mb)): optimize_histograms_keeps_wellformed - whenever it returns, only the histograms changed, every total "
    "grew by at most 2*length+1 (optimize_sum: the smoothing loop replaces a stride by its rounded mean, the zero-filling loop adds at most one per cell), entries at or above num_distance_codes "
    "are untouched, every non-zero count stays non-zero (C17 optimize_keep), so MBOK and the three Covers survive (rewritten_histograms_wellformed); optimize_histograms_total - "
    "BrotliOptimizeHistograms always returns on such a split (none of the six loops of BrotliOptimizeHuffmanCountsForRle leaves the histogram or the 704-byte good_for_rle buffer); "
    "greedy_optimized_roundtrip - the pipeline of encode.rs at quality 4..9: BrotliBuildMetaBlockGreedy, BrotliOptimizeHistograms(alphabet_size, mb), BrotliStoreMetaBlock - none of the three "
    "panics and the general RFC reader reads the bits back to what replayCommands produces from the commands. greedy_block_lengths - every block of the split records at least "
    "min_block_size (512 / 1024 / 512) symbols and the lengths of a category sum to its symbol count plus a padding of at most min_block_size in the last block (the final FinishBlock raises a "
    "short or empty last block to min_block_size: the lengths do NOT sum to the symbol count)."
)
PROPS["C01"]["level_note"] += " " + (
    "Greedy builder: one Lean definition covers BlockSplitter and ContextBlockSplitter (the four places where the two Rust functions differ are explicit `if plain`); "
    "histograms are held in slots of num_contexts (curr_histogram_ix_ / last_histogram_ix_ divided by num_contexts); a static context >= num_contexts (never produced by the "
    "static maps of encode.rs) panics in the model where the real code would count in the neighbouring slot. The driver recomputes logs_16 / logs_8 as (v as f64).log2() as f32; "
    "the harness compares the whole tables of the crate with that formula on every run and transmits the entries that differ (one: 39407)."
)
PROPS["C01"]["rule"] += (
    " | stage greedy: per quick run 448 cases (32 tasks x 14: literal-heavy up to 14000 literals in regions of 300..3000 bytes, command-heavy up to 2600 short commands, mixed, tiny, 8 x `types` (13 contexts, one block of 512 literals per byte range: the limit of 19 literal block types is reached, with correspondence line), 1 x `types256` (one context, 256 literal block types; search oracle only, too long for a line), "
    "1/7 malformed for the panic sites: short ring, command symbol >= 704, distance symbol >= 544, num_contexts 0 / 14 / 20, short static map, overlong insert). "
    "Oracle on the real code alone, every well-formed case: no panic; per category num_blocks >= 1, first type 0, types < num_types <= 256, a new type is the successor of the "
    "largest so far, every type used, lengths 1..2^24, all blocks but the last sum to less than the symbol count and all of them to at least it, num_types = 1 => one block; "
    "literal context map absent (num_contexts = 1) or 64 * num_types entries type * num_contexts + static_map[context] with at most 256 histograms; every histogram equals the "
    "exact count of the symbols emitted under it (independent walk over the commands); then BrotliOptimizeHistograms + the real BrotliStoreMetaBlock and both decoders decode to "
    "the input. Non-trivial = some category got >= 2 block types. Signatures greedy:panic, greedy:split-malformed:<what>, greedy:histogram-differs, greedy:roundtrip."
)
PROPS["C01"]["trusted_base"] = PROPS["C01"]["trusted_base"] + [
    "model: BV/Model/Greedy.lean mirrors InitBlockSplitter, InitContextBlockSplitter, BlockSplitterFinishBlock, ContextBlockSplitterFinishBlock, BlockSplitterAddSymbol, "
    "ContextBlockSplitterAddSymbol, MapStaticContexts, BrotliBuildMetaBlockGreedyInternal, BrotliBuildMetaBlockGreedy (metablock.rs), HistogramAddItem / HistogramAddHistogram / "
    "HistogramClear / ClearHistograms (histogram.rs), BrotliOptimizeHistograms (metablock.rs); driver BV/Drive/Greedy.lean recomputes shannon_entropy / BitsEntropy (bit_cost.rs) and FastLog2 / FastLog2u16 (util.rs) in Float32",
]

# the well-formedness of the MetaBlockSplit is no longer an assumption on the greedy path
PROPS["C01"]["assumptions"] = [
    ("third module: the MetaBlockSplit handed to BrotliStoreMetaBlock is well formed (MBOK + Covers: first block type 0, types < num_types <= 256, block lengths 1..2^24 covering the symbol "
     "count of the category, num_types = 1 => one block, context map entries < number of histograms <= 256, every histogram covers the symbols emitted under its cluster, histogram totals <= 2^25): "
     "PROVED for the split BrotliBuildMetaBlockGreedy returns (quality 4..9; BV.Props.C01Greedy.greedy_split_wellformed, composed with the writer in greedy_metablock_roundtrip); and preserved by "
     "the pass of BrotliOptimizeHistograms that encode.rs runs between builder and writer (optimize_histograms_total, optimize_histograms_keeps_wellformed, "
     "greedy_optimized_roundtrip); still an assumption for quality 10/11 (BrotliBuildMetaBlock = BrotliSplitBlock + cluster.rs, not "
     "modelled; exercised with the real builder on every run)")
    if a.startswith("third module: the MetaBlockSplit handed to BrotliStoreMetaBlock is well formed") else a
    for a in PROPS["C01"]["assumptions"]
] + [
    "greedy module: the float oracle satisfies OracleOK (x < x - 20.0 is false for every x: true of IEEE-754 binary32/binary64 including NaN and infinities; Lean's Float32 is opaque, so this is "
    "not derived for the driver's instance); the MetaBlockSplit handed to the builder is fresh (MetaBlockSplit::new(), as in encode.rs); a static context map has entries < num_contexts "
    "(kStaticContextMapSimpleUTF8 / Continuation / ComplexUTF8 do); |mb| + 512 <= 2^24 and n_commands + 1024 <= 2^24 (the final FinishBlock pads a short last block to min_block_size, and "
    "SplitOK of the writer theorem bounds block lengths by 2^24 although the format reaches 2^24 + 16624)",
]
