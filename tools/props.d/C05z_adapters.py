# C05: entry-point clause — reader/writer adapters must not let the caller's read/write slicing reach the bytes
PROPS["C05"]["stages"] = PROPS["C05"]["stages"] + [{"name": "adapters-pairs", "cmd": ["adapters", "c05"]}]
PROPS["C05"]["rule"] = PROPS["C05"]["rule"] + (
    "; stage adapters-pairs: CompressorReader drained with caller read sizes 8192 vs all-1-byte / odd cycle [1,3,17,1000,7,4097] / random / one huge read"
    " (own buffers 1, 7, 100, 4095, 4096, 4196, 65537 x quality 0/1/2/5 x lgwin 10/16/22, sources 20-210 KB) must give identical bytes; CompressorWriter with the same write-size schedules at quality >= 2 with size_hint set likewise"
    " (model side: BV.Props.C11 caller_read_sizes_do_not_move_chunk_boundaries — every encoder input is a suffix of one complete buffer load whatever the caller's read sizes)")
