# C10, module C10Chain (w-compose, session 4): the payload hypothesis of C10_roundtrip_partial discharged for
# quality 2-9 by composition with the C01 chain. No new model, no new stage (BV/Model/Dict.lean is tied by `dict`,
# BV/Model/Cbr.lean by `hasher cbr` of C01, the writers/reader by `metablock` of C01).
if "BV.Props.C10Chain" not in PROPS["C10"]["lean_modules"]:
    PROPS["C10"]["lean_modules"] = PROPS["C10"]["lean_modules"] + ["BV.Props.C10Chain"]
PROPS["C10"]["level_text"] += " " + (
    "Composition with the command generator (BV.Props.C10Chain): for quality 2-9 the payload hypothesis of "
    "C10_roundtrip_partial is a THEOREM. C10_roundtrip_q29_partial: for every non-empty dictionary and sanitised quality "
    ">= 2, with s = the encoder after set_custom_dictionary, prev = the input consumed so far and a block searched by "
    "CreateBackwardReferences (model BV/Model/Cbr.lean; any hasher satisfying OpsOK, i.e. BasicHasher/AdvHasher/H9 in ANY "
    "table state - whatever HasherPrependCustomDictionary stored) at encoder position d' + |prev| + last_insert_len, "
    "every command of the closed array satisfies the writers' cmdOK, and the RFC 7932 decoder that was handed the SAME "
    "dictionary (history = the tail it loaded below position 0, window from the header bits) runs in lockstep with the "
    "encoder and reproduces dictionary tail ++ prev ++ block: the chain (valid for arbitrary history) instantiated with "
    "hist = encHistory s ++ prev, turned into the decoder's view by histories_agree (dict_tail_in_ring) and "
    "header_wbits_used. dec_max_distance_is_replay_window: the window test of that replay, min(|history ++ produced|, "
    "2^wbits-16), is the real decoder's sticky max_distance state machine along any run of positions "
    "(dec_max_distance_closed). C10_fast_roundtrip_q29 / C10_trivial_roundtrip_q29 reach the BITS for quality 2 / 3: the "
    "RFC reader started in the decoder's state consumes exactly what BrotliStoreMetaBlockFast / Trivial emit and outputs "
    "dictionary tail ++ prev ++ block. C10_faithful_q29: the same command array is `faithful` for that decoder and leaves "
    "its distance ring equal to the dist_cache the call returns (cbr_final_state). C10_full_roundtrip_q49 reaches the BITS "
    "for quality 4-9: CreateBackwardReferences, then BrotliStoreMetaBlock (storeMetaBlockFull) with any well-formed "
    "MetaBlockSplit covering the emitted symbols (MBOK/Covers; greedy builder: C01Greedy), then the GENERAL RFC reader in the "
    "state of the decoder holding the dictionary (prev_byte/prev_byte2 = the last bytes of ITS history) = dictionary tail "
    "++ prev ++ block; cmdOK, lockstep, faithful and the payload are discharged, copy_len() >= 2 stays a hypothesis. A concrete 8-byte dictionary + 24-byte block (with a static-dictionary reference "
    "right behind the custom dictionary) meets every hypothesis."
)
PROPS["C10"]["level_note"] += " " + (
    "What remains after C10Chain ('_partial'): (1) BlockOK.ring - the ByteArray the match finders read holds dictionary "
    "tail ++ prev ++ block from one window before the block: C10 proves the dictionary part for its own ring model "
    "(dict_tail_in_ring), ring_view_w proves the whole of it for w-stream's ring model from RingOK; the two ring models "
    "and the hashers' ByteArray are not identified with each other in Lean (correspondence only: `dict ringw`, `stream`); "
    "(2) for the quality 4-9 writer (C10_full_roundtrip_q49) two hypotheses stay: copy_len() >= 2 for copying commands "
    "(a 1-byte static-dictionary match is reachable at extreme literal_byte_score; with the dictionary off it is a "
    "theorem, cbr_copylen2) and the well-formedness of the MetaBlockSplit (MBOK/Covers: greedy_split_wellformed for "
    "the greedy builder; BrotliOptimizeHistograms not covered); the stored fallback of WriteMetaBlockInternal composes "
    "through wmbi_full_roundtrip in the same way (not written); (3) quality 10/11 (Zopfli model of C01, no lockstep theorem); (4) one CreateBackwardReferences call per "
    "meta-block, NPOSTFIX = NDIRECT = 0; (5) the real decoder's copy path over the dictionary tail is "
    "dict_tail_readable / decoder_shrunk_ring_clobbers_dict, which is about brotli-decompressor, not about the stream. "
    "'quality 0/1 emit no static-dictionary reference' and the decoder hand model stay as before."
)
PROPS["C10"]["assumptions"] = [
    ("payload hypothesis of C10_roundtrip_partial (the emitted commands replay to the input under the encoder's own view "
     "of history and window): PROVED for quality 2-9 / NPOSTFIX = NDIRECT = 0 / one CreateBackwardReferences call per "
     "meta-block (C10_roundtrip_q29_partial, relative to C01Chain's BlockOK with hist = dictionary tail ++ earlier input, "
     "OpsOK, DictFaithful); still a hypothesis for quality 10/11 and FONT mode (checked end to end by the differential "
     "decode)")
    if a.startswith("payload hypothesis of C10_roundtrip_partial") else a
    for a in PROPS["C10"]["assumptions"]
]
