# C15, module C15Window (w-window, session 4): the window half — "a decoder limited to the declared window can
# decode the stream" — composed from the header theorems (C15) and the command-generator lock-step (C01Chain).
if "BV.Props.C15Window" not in PROPS["C15"]["lean_modules"]:
    PROPS["C15"]["lean_modules"] = PROPS["C15"]["lean_modules"] + ["BV.Props.C15Window"]
if not any(s.get("name") == "window" for s in PROPS["C15"]["stages"]):
    PROPS["C15"]["stages"] = PROPS["C15"]["stages"] + [{"name": "window", "cmd": ["window", "c15"]}]

PROPS["C15"]["level_text"] = PROPS["C15"]["level_text"].replace(
    "the window the match finders use never exceeds the declared one;",
    "the window the match finders use never exceeds the declared one (and equals it from quality 2 on);")
PROPS["C15"]["level_text"] += " " + (
    "Window half (BV.Props.C15Window): emitted_distances_within_declared_window — for every request with quality >= 2 (any integers, any flags) "
    "that leaves NPOSTFIX = NDIRECT = 0 (quality < 4, or a non-FONT mode), every meta-block processed by the CreateBackwardReferences model "
    "(quality 2-9 loop, BV/Model/Cbr.lean) WITH THE PARAMETERS ensure_initialized PRODUCES (sanitised lgwin, large_window, ChooseDistanceParams: "
    "the rs2lean-generated SanitizeParams / ComputeLgBlock / ChooseDistanceParams composed in call order, BV/Model/Window.lean), every sound hasher "
    "(instantiated with the BasicHasher, AdvHasher and H9 models with nothing assumed about them), every distance cache and pending insert: "
    "the window W that the independent RFC 9.1 reader derives from the header bits of that stream gives the sliding window 2^W - 16, and the block's "
    "commands are cmdOK, in lockstep with, and replayed to exactly history ++ block by, the RFC decoder RUN WITH THAT DECLARED WINDOW (the encoder's "
    "max_backward_limit and the declared window are proved equal: cbr_window_eq_declared; <= for every quality: cbr_window_le_declared); along that "
    "run every LZ77 copy has distance 1 <= d <= 2^W - 16 (copyEvents, written from RFC section 4/8 independently of decStep), every other copy is a "
    "static-dictionary reference that the decoder resolves with the same window the encoder used. All parameter hypotheses of C01Chain's BlockOK "
    "(NPOSTFIX = NDIRECT = 0, window <= 2^30, standard alphabet only up to 2^26 - 4 for window and max_distance) are DISCHARGED from the header model "
    "(blockOK_of_header, gen_init_dist: max_distance = 0x3FFFFFC / 0x7FFFFFC, alphabet 64 / 140); gen_init_header equates the generated side with the "
    "hand-written header model. Tie: stage `window` runs the real ensure_initialized on quality -2..13 x lgwin -5..40 x large_window x mode 0..6 x "
    "preset (NPOSTFIX, NDIRECT) (47 104 configurations) and compares quality, lgwin, lgblock, the four dist fields, last_bytes_, last_bytes_bits_ and "
    "the window read back from them with the generated composition, line by line. "
    "Bounded memory: decoder_limited_to_declared_window — for EVERY window, command list and word oracle the RFC decoder replaying from a history of which all but the last "
    "`window` (or more) bytes were discarded succeeds exactly when the full replay does and yields the full result minus the discarded bytes (decStep_drop / decSteps_drop / copyBytes_drop); "
    "cbr_block_decodes_with_window_memory instantiates it with 2^W - 16. Quality 0/1 (stated lemmas over the fragment model): q01_declared_window_covers_table_window "
    "(declared window >= 262128 = 2^18 - 16 = MAX_DISTANCE of the fragment writers), scan_candidate_within_table_window (every candidate the two-pass search loop returns lies within "
    "MAX_DISTANCE of the position), applyCopy_lz77_window_mono (an LZ77 copy within a smaller window is executed identically by a decoder with any larger window).")

_old_note = ("'A decoder limited to the declared window can decode the stream' is proved only as far as the parameters go (window used <= window declared); "
             "that no emitted distance exceeds that window is a property of the match finders, judged on the real code:")
_new_note = ("'A decoder limited to the declared window can decode the stream' is proved for the quality 2-9 command generator over its model "
             "(C15Window: the decoder run with the window read from the header replays every block; LZ77 distances <= 2^W - 16), relative to the hypotheses "
             "of C01Chain that are about DATA, not parameters (BlockData: the ring-buffer view RingViewW — itself proved from the RingBufferWrite invariant "
             "by ring_hypothesis_of_ringOK —, block <= one input block <= ring, block <= 2^24, text < 2^64; OpsOK / DictFaithful for the hasher and the "
             "static dictionary) and per CreateBackwardReferences call = one meta-block. NOT proved in Lean: FONT mode from quality 4 on (NPOSTFIX = 1, "
             "NDIRECT = 12: PlainDist fails, the lock-step lemmas are stated for 0/0); quality 10/11 (Zopfli) and the quality 0/1 fragment writers "
             "(stated only as lemmas: declared window >= 2^18 - 16, the search loop's candidates lie within MAX_DISTANCE, LZ77 copies are window-monotone; "
             "the induction through matchLoop / chain / createCommands to 'every distance word of the command buffer' — hypothesis (b) of C01Fragment — and quality 0's "
             "compress_fragment_fast are not done); custom dictionaries. Those, and the model-vs-code gap, are judged on the real code: stage `window` records every Copy command "
             "the real encoder hands to the meta-block callback (quality 2..11 incl. Zopfli, lgwin 10..16, both header forms, inputs whose only matches "
             "lie exactly at / just inside / just beyond 2^lgwin - 16) and checks 1 <= distance <= 2^W - 16 for the W read from the stream's own header; and")
if _old_note in PROPS["C15"]["level_note"]:
    PROPS["C15"]["level_note"] = PROPS["C15"]["level_note"].replace(_old_note, _new_note)
else:
    PROPS["C15"]["level_note"] += " " + _new_note[:-len("; and")] + "."

PROPS["C15"]["technique"] = PROPS["C15"]["technique"] + " + composition with the command-generator lock-step theorems (C01Chain) under the declared window"
PROPS["C15"]["rule"] = PROPS["C15"]["rule"] + (
    " Stage `window`: (1) grid quality -2..13 x lgwin -5..40 x large_window x mode 0..6 x preset (NPOSTFIX, NDIRECT) in {(0,0),(1,12),(2,4),(3,120),(4,0),(0,121),(1,3),(0,15)} "
    "(modes 3..6 with (0,0),(1,12) only) = 47 104 real ensure_initialized runs: correspondence line against the generated composition + independent RFC 9.1 reader; "
    "oracle: params.lgwin <= declared W with equality from quality 2, header form = request, plain requests leave NPOSTFIX = NDIRECT = 0 and max_distance 0x3FFFFFC / 0x7FFFFFC; "
    "(2) 528 real streams (quality 2..11 x lgwin 10..16 (quality 10/11: 10..14; thorough: ..18) x large_window x {3 periods of 2^lgwin-16, 2^lgwin-17, 2^lgwin-15 random bytes, repetitive text}), "
    "log_meta_block on: every Copy command of the callback has 1 <= distance <= 2^W - 16 (W from the stream's first bytes) and brotli-decompressor reproduces the input; "
    "non-trivial = grid point initialised and header parsed / stream with at least one Copy command that decoded")
PROPS["C15"]["assumptions"] = PROPS["C15"]["assumptions"] + [
    "C15Window: the hypotheses of C01Chain that are about data (ring-buffer view, block sizes, sound hasher OpsOK — proved for the three bucketed families —, DictFaithful for static-dictionary slots), one CreateBackwardReferences call per meta-block, NPOSTFIX = NDIRECT = 0 (PlainDist), quality 2-9",
    "C15Window: the call ORDER SanitizeParams; lgblock = ComputeLgBlock; ChooseDistanceParams; EncodeWindowBits(max(lgwin, 18) at quality 0/1) of ensure_initialized is transcribed by hand in BV/Model/Window.lean (the four bodies are generated from the Rust text); tied on the whole grid by stage `window`",
]
PROPS["C15"]["trusted_base"] = PROPS["C15"]["trusted_base"] + [
    "model: BV/Model/Window.lean (composition of the generated SanitizeParams, ComputeLgBlock, ChooseDistanceParams, BrotliInitDistanceParams, EncodeWindowBits as in ensure_initialized); BV/Model/Cbr.lean (CreateBackwardReferences, see C01)",
    "harness/src/window.rs (its own RFC 9.1 reader; the meta-block callback of compress_stream as the observer of emitted copy distances)",
]
