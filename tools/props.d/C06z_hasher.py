# C06, second module (worker w-multi2): favor_cpu_equiv over the CONCRETE hasher models of C19 + its own stage.
if "BV.Props.C06Hasher" not in PROPS["C06"]["lean_modules"]:
    PROPS["C06"]["lean_modules"] = PROPS["C06"]["lean_modules"] + ["BV.Props.C06Hasher"]
PROPS["C06"]["stages"] = PROPS["C06"]["stages"] + [{"name": "favor", "cmd": ["favor"]}]

def _c06_sub(field, old, new):
    txt = PROPS["C06"][field]
    PROPS["C06"][field] = txt.replace(old, new) if old in txt else txt + " " + new

_c06_sub("level_text",
    "favor_cpu_equiv: over an abstract hasher whose BulkStoreRange is additive over consecutive ranges and local (C19), the shared index pre-built by the favor-cpu branch equals the index the job builds itself provided the job's prefix is not truncated to the window - with kernel-evaluated counterexamples showing that each hypothesis is needed (truncated prefix; non-additive sweep-slot store; the old per-range guard on short ranges).",
    "favor_cpu_equiv: over an abstract hasher whose BulkStoreRange is additive over consecutive ranges and local, the shared index pre-built by the favor-cpu branch equals the index the job builds itself provided the job's prefix is not truncated to the window - with kernel-evaluated counterexamples showing that each hypothesis is needed (truncated prefix; non-additive sweep-slot store; the old per-range guard on short ranges)."
    " Both hypotheses are now PROVED (BV.Props.C06Hasher) for the executable models of BasicHasher (H2/H3/H4/H54), AdvHasher (H5/H5q5/H5q7/H6, every bucket_bits + block_bits <= 32) and H9: additivity from C19 (BulkStoreRange = fold of Store, incl. the 4-at-a-time and 32-at-a-time batched paths) and forRange_add; locality because Store at position ix reads the window [ix & mask, (ix & mask) + StoreLookahead()) and nothing else of the buffer - an index is an Option (none = Rust panic), so the equations also say both builds panic together."
    " Hence favor_cpu_equiv_basic/_adv/_h9/_real_kinds with no hypothesis about the hasher; job_index_basic/_adv/_h9: with the job side set_custom_dictionary_with_optional_precomputed_hasher modelled (early return at quality < 2 / empty prefix, truncation to the last 2^lgwin - 16 bytes DISCARDING the handed index, StoreLookaheadThenStore otherwise) the index the job's encoder holds is the same with favor on and off for EVERY prefix length, quality >= 2, every job index, thread count and input; debug_assert_holds_basic: the debug-build assertion orig_hasher == self.hasher_ cannot fire; favor_truncated_differs + truncated_job_uses_own_index: where the two indexes do differ (truncated prefix) the job provably uses its own.")
_c06_sub("level_note",
    "The hasher is abstract in favor_cpu_equiv: additivity/locality of the real BulkStoreRange implementations is C19's subject.",
    "favor_cpu_equiv is instantiated with the concrete hasher models of BV/Model/Hasher.lean (C19) for every kind ChooseHasher selects at quality 2..9; the favor loop (BV/Lemmas/MultiFavor.lean prebuilt), the job's own indexing (selfbuilt) and the job-side choice (BV/Lemmas/MultiFavorKinds.lean jobIndex) are tied to the code by stage `favor`: the favor loop replayed on the REAL hashers exactly as CompressMulti does (real get_range through its hook, StoreLookahead, stored_end, BulkStoreRange, clone_with_alloc), the real job encoder after set_custom_dictionary(_with_optional_precomputed_hasher) with and without the shared index - stored_end and all four index tables compared cell by cell (digest over every non-zero cell of num/buckets) with the model's, ~270 index lines per quick run (~2.5k thorough) over all nine modelled kinds, short ranges, truncated prefixes, empty prefixes."
    " H10 (quality 10/11): Store and the empty forest are opaque as in C19; favor_cpu_equiv_h10 proves additivity outright and reduces locality to ONE statement about the opaque Store (at position ix it reads data[.. ix + 128) only), not checked against hash_to_binary_tree.rs other than through its consequence: stage favor runs 32 H10 cases per quick run (quality 10/11, ranges around the 128-byte look-ahead, truncated prefixes) through the real-code oracles shared == own / job-on == job-off. Not modelled: that hasher_setup picks the same KIND for the shared index and inside the job (ChooseHasher reads quality, lgwin, size_hint, q9_5 - the stage compares the kinds of the two real indexes on every case, signature favor:kind-differs); that the quality 0/1 fragment compressors never read hasher_ (there the job keeps whatever it was handed). Index equality => byte equality still needs PURITY.")
PROPS["C06"]["assumptions"] = [a for a in PROPS["C06"]["assumptions"] if not a.startswith("favor_cpu_equiv: Additive and Local are hypotheses")] + [
    "favor_cpu_equiv_basic/_adv/_h9: no hypothesis about the hasher; P.Ok (the hash value fits u32 / the key indexes the tables) is proved for the real kinds (C19 concrete_kinds_ok); AdvHasher additionally j + 1 <= t and n <= 2^64 (positions are usize). The theorems are about index equality (tables cell by cell, or both builds panic); the consequence for bytes needs PURITY. H10 (quality 10/11): favor_cpu_equiv_h10 assumes that the opaque Store at position ix reads data[.. ix + 128) only",
]
PROPS["C06"]["rule"] = PROPS["C06"]["rule"] + (
    " Stage favor: case = quality 0..11 x lgwin 10..24 x size_hint {0, 2^20, 2^22+1} x 2..16 threads x job index x input (5 generators; classes: ranges shorter than the look-ahead, prefixes truncated to the window (lgwin 10..12), general, big-table kinds H54/H6/H9, H10 at quality 10/11 - oracles only);"
    " oracles on the real hashers: quality >= 2 => the job's index with the shared index handed in == the index it builds itself (PartialEq of UnionHasher) for every prefix length; untruncated non-empty prefix => shared index == own index; same hasher kind on both sides; no panic;"
    " correspondence: stored_end and the four index tables against prebuilt / selfbuilt / jobIndex of the Lean model; non-trivial = quality >= 2 and a non-empty shared index.")
PROPS["C06"]["trusted_base"] = PROPS["C06"]["trusted_base"] + [
    "BV/Lemmas/MultiFavorKinds.lean: basicModel/advModel/h9Model (the hasher models of C19 behind the abstract interface; constructor table sizes), jobIndex (hasher handling of set_custom_dictionary_with_optional_precomputed_hasher, release build); harness/src/favor.rs replays the favor loop through the public API + the get_range hook",
]

# third module: PURITY stated operationally and reduced (BV.Props.C06Pure)
if "BV.Props.C06Pure" not in PROPS["C06"]["lean_modules"]:
    PROPS["C06"]["lean_modules"] = PROPS["C06"]["lean_modules"] + ["BV.Props.C06Pure"]
PROPS["C06"]["level_text"] = PROPS["C06"]["level_text"] + (
    " PURITY made operational (BV.Props.C06Pure): a job's value is F(JobIn) for one function F of what compress_part is handed minus the allocator - quality, lgwin, thread_index, num_threads, its piece, its dictionary prefix and the match index its encoder HOLDS after set_custom_dictionary_with_optional_precomputed_hasher (jobIndex)."
    " favor_and_spawner_independent(_basic/_adv/_h9): under PURITY in this form, 1 <= t <= 16, quality >= 2, every capacity and job values without panic/spin, ALL SIX combinations of spawner (thread-per-job, pool, inline) and favor_cpu_efficiency (on, off) give the same CompressMulti result - JobIn is the same in all of them (the spawner is not an argument; the held index is equal by jobIndex_favor_irrelevant for every prefix length), hence the job values, hence the stitched bytes."
    " The modelled part of a job is pure by construction: streamJob (fresh encoder with compress_part's parameter changes, one FINISH call of the stream machine into BrotliEncoderMaxCompressedSize(len) bytes, compress_part's loop on what it observes) is a Lean function of (payload oracle, params, index, t, n, piece); the stream machine asks the payload encoder only through Req = (call site, last_processed_pos, input_pos, last_flush_pos, is_last, force_flush) - no allocator, thread or address (req_is_positions_and_flags); equal oracles give equal job values (stream_job_congr) and the value is decided by the one call (stream_job_value, from C02Part).")
_c06_sub("level_note",
    "Assumed, exercised only: PURITY = determinism of the single-stream encoder given (input, params, index, thread count, hasher state) - independence of allocator history, thread identity and pool freshness.",
    "Assumed, exercised only (3 spawners x fresh/reused pool x repeat x favor on/off byte comparison of stage multi): PURITY in the form of BV.Props.C06Pure - the job's value is a function of JobIn; what that leaves to the real code is that the PAYLOAD encoder (match finders, block splitter, entropy coders: the oracle of the stream model) is a function of the encoder state it is called in (ring content = prefix + piece, the index held, params, the request) and of nothing else - no read of uninitialised allocator memory, no dependence on addresses or history of the per-thread allocators, no thread-local/global state - and, for quality >= 2 jobs with a non-empty prefix, that the state after the dictionary call is the JobIn-determined one (the stream model has no dictionary call). The stream machine itself contributes no spawner dependence (it is a function; its requests are positions and flags).")
PROPS["C06"]["assumptions"] = [
    ("PURITY (BV.Props.C06Pure): job value = F(quality, lgwin, index, thread count, piece, dictionary prefix, index held by the job's encoder) for one F independent of spawner, thread, allocator history and of whether the index was handed in; stated hypothesis of inline_equals_pool_equals_threads / favor_and_spawner_independent; the stream-machine part is a theorem (streamJob), the payload-encoder part is exercised, not proved")
    if a.startswith("PURITY (job value is a function of") else a
    for a in PROPS["C06"]["assumptions"]]

# tie of BV/Model/StreamJob.lean (jobParams, observed, streamJob) through the sjob lines of stage favor
PROPS["C06"]["rule"] = PROPS["C06"]["rule"] + (
    " Stage favor, sjob lines (256 per quick run): jobs whose encoder is fresh at their call (job 0 at quality 0..11; any job at quality 0/1; jobs with an empty prefix; plus ~12 KB of random bytes at quality 0/1 with a 2^10/2^12 window, where the job buffer is too small and the job answers Err) run through the REAL compress_part (hook) and through a recorded replica of its encoder calls; the model streamJob replays the FINISH call with the recorded payload answers as oracle and must give the same Ok(bytes)/Err; oracle on the real code: replica == real job.")
PROPS["C06"]["level_note"] = PROPS["C06"]["level_note"] + (
    " BV/Model/StreamJob.lean (jobParams, observed, streamJob: compress_part as compressPart over compressStream) is tied to the real compress_part by the sjob lines of stage favor.")
PROPS["C06"]["trusted_base"] = PROPS["C06"]["trusted_base"] + [
    "BV/Model/StreamJob.lean: compress_part's parameter changes and its loop composed with the stream machine (fresh-encoder jobs only)"]

PROPS["C06"]["level_text"] = PROPS["C06"]["level_text"] + (
    " shared_index_is_partition: the BulkStoreRange calls of the favor loop are consecutive pieces [0,c1),[c1,c2),... (favorPieces: sorted cut points from 0, the last = stored_end) and the shared index is C19's runPieces over them (prebuilt_is_partition, every lifted BulkStoreRange), so by C19 partition_irrelevant_basic it is the one-position-at-a-time index of [0, stored_end); favor_cpu_equiv_h10: the binary-tree index with opaque Store.")

PROPS["C06"]["level_text"] = PROPS["C06"]["level_text"] + (
    " favor_branch_never_panics: for every kind ChooseHasher selects at quality 2..9, every t >= 1, job j <= t and n-byte input, the shared index handed to job j is `some` table(s) (lengths unchanged): every Store of the favor loop reads its look-ahead window inside input[.. range.end) and writes inside the tables InitializeH2..H9 allocate (hash ranges of the real hash functions proved: basicHash < 2^bucket_bits, AdvHasher key < bucket_size, H9 key < 2^15) - the favor branch, which runs on the calling thread and has no panic site in the CompressMulti model, cannot panic.")

PROPS["C06"]["level_text"] = PROPS["C06"]["level_text"] + (
    " stream_job_never_spins: with C20's fuel bound (a function of the initial state and the piece length; no hypothesis on the payload encoder) a modelled job is Ok, Err or panic, never spin.")

PROPS["C06"]["technique"] = PROPS["C06"]["technique"].replace(
    "abstract-hasher equivalence with counterexamples",
    "abstract-hasher equivalence with counterexamples, instantiated with the concrete hasher models of C19 (additivity/locality/no-panic proved per kind), PURITY reduced to a function of the job's inputs") + (
    " + stage favor: the favor loop and the job-side dictionary call replayed on the real hashers (tables compared cell by cell with the model) and fresh-encoder jobs of the real compress_part against the stream-machine job model")

PROPS["C06"]["level_text"] = PROPS["C06"]["level_text"] + (
    " job_dictionary_indexing_never_panics: likewise the index a job builds itself in set_custom_dictionary (StoreLookaheadThenStore over the kept part of its prefix, truncated or not) is `some` table(s) for every kind of quality 2..9 and every prefix length <= input length - so whichever index the job's encoder ends up holding, building it did not panic.")
