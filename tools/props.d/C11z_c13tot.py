# C11 addendum (worker w-c13tot): EncSane of the modelled encoder without OracleBounded
PROPS["C11"]["lean_modules"] = PROPS["C11"]["lean_modules"] + ["BV.Props.C11Sane"]
PROPS["C11"]["level_note"] = PROPS["C11"]["level_note"] + (
    " Addendum: EncSane of the stream-machine model as the adapters' encoder (no call reports more input consumed than offered nor more"
    " output than there was room for) is now proved for EVERY payload oracle, without OracleBounded (BV.Props.C11Sane enc_sane_stream_free,"
    " from the byte ledger Lemmas/StreamTotal.lean call_ledger); Since the rework of the termination potential (per-call storage bound callCap, state-only ranks over stateCap) EncProgress and the _stream"
    " termination theorems (write/flush/into_inner/read_returns_stream, copy_terminates_stream) are free of OracleBounded as well.")
