# C04, module C04Run (w-window, session 4): the decode half over whole histories, reader side explicit.
if "BV.Props.C04Run" not in PROPS["C04"]["lean_modules"]:
    PROPS["C04"]["lean_modules"] = PROPS["C04"]["lean_modules"] + ["BV.Props.C04Run"]

PROPS["C04"]["level_text"] = PROPS["C04"]["level_text"].replace(
    "Proof, partial for the decode half:",
    "Proof; the decode half is proved up to the payload hypothesis PiecesOK of C01 (BV.Props.C04Run, below):")
PROPS["C04"]["level_text"] = PROPS["C04"]["level_text"].replace(
    " The decode half of the property (prefix reproduces the input) is checked on the real code by the decoders at every completed flush and metadata block.",
    " Decode half over WHOLE HISTORIES (BV.Props.C04Run): flush_prefix_decodes_run — for every history on a fresh encoder (any parameters, any interleaving of PROCESS / FLUSH / "
    "EMIT_METADATA calls and take_output, any capacities, any payload oracle) that ends with a completed flush (Flushed: nothing pending, no carry, last_flush_pos_ = input_pos_ — "
    "flush_call_flushed derives it from flush_complete), the delivered BYTES are exactly header ++ the log's pieces in order (payload, skeleton, sync padding, metadata), a whole "
    "number of bytes, input_pos_ is the number of input bytes copied in, and under PiecesOK (each piece decodes to the range it covers: exactly the hypothesis of C01_roundtrip_run) "
    "they decode to EVERY input byte supplied so far, input.take input_pos_, without any ISLAST. flush_prefix_read_by_stream_reader — the same with the reader explicit: a STREAMING "
    "RFC reader (readStreamPrefix: window bits, then whole meta-blocks through the independent reader BV.MetaBlock.readMetaBlockFull while bits last; answers done / needMore content / stuck) "
    "and the decode relation DecRd = 'further complete non-last meta-blocks from the reader state reached so far (output AND distance ring) appending exactly these bytes', whose "
    "compositionality (nil, append) is PROVED; if the pieces decode in that sense, the reader fed exactly the delivered bytes answers needMore(input.take input_pos_): it yields every "
    "input byte supplied so far, does not error and does not wait for ISLAST (reader_needs_more_at_boundary), and continues from the same state when more bytes arrive (reader_resumes). "
    "sync_block_read_by_stream_reader — the padding block behind any carry lbb, at any bit position = lbb mod 8, is one complete non-last meta-block for that reader that leaves output and "
    "distance ring untouched and ends on a byte boundary; metadata_does_not_change_yield — deleting all sync / metadata-header / metadata-body events from a log changes neither the positions "
    "nor the number of input bytes covered. "
    "Histories WITH metadata, only the payload assumed: run_factsX (BV/Lemmas/StreamRunMd.lean) adds to the log of every history, proved atom by atom from the guards of the step relation (step_md, 19 cases) "
    "and lifted over calls, take_output and set_parameter: ALIGNMENT (every sync block `pad lbb` and metadata header `mdHeader n lbb` sits at a bit offset = lbb mod 8, lbb = the carry, incl. the 14-bit "
    "large-window header) and GROUPING (a metadata header for n <= 2^24 bytes is followed by body chunks totalling exactly n bytes before any other bit-carrying event; nothing is open after a completed flush). "
    "pad_readMetaBlock / md_block_readMetaBlock (BV/Lemmas/StreamRunMdRead.lean): under the independent RFC 9.2 reader the sync block behind ANY carry and a WHOLE metadata block (header for every n <= 2^24, "
    "zero fill, n payload bytes) at every such position are read as metadata with no content, ending byte aligned. body_blocks + flush_prefix_read_by_stream_reader_md: for every history that ends with a completed "
    "flush in state PROCESSING, if the header is read as (lgwin, large) and the PAYLOAD-ENCODER events (enc, fast) decode in the reader's sense (PayloadDecode(DecRd): nothing is asked of sync blocks, metadata headers "
    "or bodies), the streaming reader fed exactly the delivered bytes answers needMore(input.take covered), and covered = input_pos_ without one-shot blocks. "
    "Header: stream_header_is_declared_window — the window bits the STREAM model stages for a fresh encoder with parameters p are read by the RFC 9.1 reader as clampWindow(p) in the requested form "
    "(stream model's EncodeWindowBits = header model's on 10..30 x both forms, then C15 wbits_roundtrip), and run_factsX records that every window event of a log carries exactly those bits; "
    "flush_prefix_read_by_stream_reader_closed has NO header hypothesis left: the reader's window is 2^clampWindow(p) - 16 for the parameters p in force at the first compress_stream call. "
    "On the real code the same statement is checked by the decoders at every completed flush and metadata block.")

PROPS["C04"]["level_note"] = PROPS["C04"]["level_note"].replace(
    "Partial: decodability of compressed meta-blocks is the payload encoder (hypothesis MetaBlockDecodes of C01), not proved.",
    "What is left of the decode half is ONE hypothesis, PiecesOK.pieces of C01 (every emitted piece decodes to the input range it covers): for payload pieces that is the payload encoder "
    "(C01MetaBlock / C01Chain / C01Fragment prove it per writer under their own hypotheses; their instantiation to DecRd is not done here); for the pieces the state machine writes itself (sync blocks, metadata headers and bodies) it is PROVED "
    "against the streaming reader, with alignment and grouping derived from the run (run_factsX): flush_prefix_read_by_stream_reader_md assumes PayloadDecode only (the per-event PiecesOK form of "
    "flush_prefix_read_by_stream_reader stays for histories without metadata). The skeleton bits an `enc` event writes itself (magic-number metadata block, stored catable prelude) are part of that event's bits and so of its payload hypothesis. The header hypothesis of flush_prefix_read_by_stream_reader(_md) is discharged in "
    "flush_prefix_read_by_stream_reader_closed (stream_header_is_declared_window: a Lean theorem about the stream model, no correspondence step). Payload pieces: blocks_one turns the conclusion of the writer round-trip "
    "theorems of C01Chain / C01MetaBlock (one non-last meta-block read from a given reader state) into Blocks; the instantiation of PayloadDecode for a concrete encode_data oracle (reader state = decoder state of the "
    "previous pieces, distance ring = dist_cache) is not done here. The streaming reader reports `stuck` both for malformed input and for "
    "a cut inside a meta-block. One-shot (quality 0/1 fast path) blocks: flush_call_flushed excludes fastMode, the reader theorems assume no `fast` event.")
PROPS["C04"]["technique"] = PROPS["C04"]["technique"] + " + whole-history composition with C01's framing theorems and an explicit streaming RFC reader"
PROPS["C04"]["assumptions"] = [a for a in PROPS["C04"]["assumptions"] if not a.startswith("'a streaming decoder fed only the flushed prefix")] + [
    "'a streaming decoder fed only the flushed prefix reproduces every input byte' is proved (C04Run) relative to PiecesOK of C01: each emitted piece decodes to the input range it covers — for compressed meta-blocks the un-modelled payload encoder; additionally judged on the real code on every run by brotli-decompressor (prefix -> NeedsMoreInput(prefix) == input so far) and, for `prefix ++ 03`, by both decoders",
    "C04Run: spec-side streaming reader readPrefix / readStreamPrefix written by hand on top of BV.MetaBlock.readMetaBlockFull (RFC 7932 9.2; compressed meta-blocks restricted to one block type / one tree per category as there)",
]
