#!/usr/bin/env python3
"""Rust-source -> Lean translator for data items (DESIGN.md section 4a).

Reads the CURRENT working tree of the repository (default /repo) and writes
BV/Gen/Source.lean (tables, constants, capacities, literals harvested from
named functions) and BV/Gen/Fingerprints.lean (token hashes of the Rust
functions the hand-written models mirror).

It is a tokenizer + constant-expression evaluator, not a regex per table:
  static/const NAME : T = <expr>;
with <expr> built from integer literals (suffixes, underscores, hex/bin/oct),
identifiers naming other harvested items, arrays [a, b, ...] and [v; n],
struct literals  Name { f: e, ... } (kept as tuples in field order),
unary -, !, binary * / % + - << >> & ^ |, parentheses and `as T` casts.

Exit status 0 on success; 2 if a requested item is missing or cannot be
evaluated (the caller treats that as a broken proof obligation).
"""
import hashlib
import json
import os
import re
import sys

REPO = os.environ.get("VERIF_REPO", "/repo")

TOKEN_RE = re.compile(r"""
    (?P<ws>\s+)
  | (?P<lcomment>//[^\n]*)
  | (?P<bcomment>/\*.*?\*/)
  | (?P<str>b?"(?:\\.|[^"\\])*")
  | (?P<char>b?'(?:\\.|[^'\\])')
  | (?P<life>'[A-Za-z_][A-Za-z0-9_]*)
  | (?P<num>0x[0-9a-fA-F_]+(?:[iu](?:8|16|32|64|128|size))?
          |0b[01_]+(?:[iu](?:8|16|32|64|128|size))?
          |0o[0-7_]+(?:[iu](?:8|16|32|64|128|size))?
          |[0-9][0-9_]*(?:\.[0-9_]+)?(?:[eE][+-]?[0-9]+)?(?:[iuf](?:8|16|32|64|128|size))?)
  | (?P<id>[A-Za-z_][A-Za-z0-9_]*)
  | (?P<op><<=|>>=|\.\.=|\.\.\.|::|->|=>|==|!=|<=|>=|&&|\|\||<<|>>|\+=|-=|\*=|/=|%=|\^=|&=|\|=|\.\.|[-+*/%^&|!~=<>@.,;:#$?(){}\[\]])
""", re.X | re.S)


def tokenize(src):
    out = []
    pos = 0
    n = len(src)
    while pos < n:
        m = TOKEN_RE.match(src, pos)
        if not m:
            # unknown char: skip (e.g. unicode in comments already consumed)
            pos += 1
            continue
        kind = m.lastgroup
        if kind not in ("ws", "lcomment", "bcomment"):
            out.append((kind, m.group(kind)))
        pos = m.end()
    return out


_file_cache = {}


def strip_verif_items(toks):
    """drop every item guarded by #[cfg(brotli_verif)]: the models mirror the production code,
    hooks must never shadow it (e.g. a wrapper `fn compress_part` inside `mod verif_hooks`)"""
    out = []
    i = 0
    n = len(toks)
    guard = ["#", "[", "cfg", "(", "brotli_verif", ")", "]"]
    while i < n:
        if [t[1] for t in toks[i:i + 7]] == guard:
            j = i + 7
            # skip further attributes
            while j < n and toks[j][1] == "#":
                d = 0
                j += 1
                while j < n:
                    if toks[j][1] == "[":
                        d += 1
                    elif toks[j][1] == "]":
                        d -= 1
                        if d == 0:
                            j += 1
                            break
                    j += 1
            # skip one item: up to `;` at depth 0 or a balanced `{...}` block
            d = 0
            while j < n:
                v = toks[j][1]
                if v in ("(", "[", "{"):
                    d += 1
                elif v in (")", "]", "}"):
                    d -= 1
                    if d == 0 and v == "}":
                        j += 1
                        break
                elif v == ";" and d == 0:
                    j += 1
                    break
                j += 1
            i = j
            continue
        out.append(toks[i])
        i += 1
    return out


def tokens_of(relpath):
    if relpath not in _file_cache:
        with open(os.path.join(REPO, relpath), encoding="utf-8", errors="replace") as f:
            _file_cache[relpath] = strip_verif_items(tokenize(f.read()))
    return _file_cache[relpath]


class GenError(Exception):
    pass


def parse_int(tok):
    t = tok.replace("_", "")
    t = re.sub(r"[iu](8|16|32|64|128|size)$", "", t)
    if t.startswith("0x"):
        return int(t, 16)
    if t.startswith("0b"):
        return int(t, 2)
    if t.startswith("0o"):
        return int(t, 8)
    if re.fullmatch(r"[0-9]+", t):
        return int(t)
    raise GenError("not an integer literal: %s" % tok)


TYPE_WIDTH = {"u8": 8, "u16": 16, "u32": 32, "u64": 64, "usize": 64, "u128": 128,
              "i8": 8, "i16": 16, "i32": 32, "i64": 64, "isize": 64, "i128": 128}


def cast(v, ty):
    if not isinstance(v, int):
        return v
    if ty not in TYPE_WIDTH:
        return v
    w = TYPE_WIDTH[ty]
    v &= (1 << w) - 1
    if ty.startswith("i") and v >> (w - 1):
        v -= 1 << w
    return v


class ExprParser:
    """Precedence climbing over a token list."""
    BIN = [("|",), ("^",), ("&",), ("<<", ">>"), ("+", "-"), ("*", "/", "%")]

    def __init__(self, toks, env):
        self.t = toks
        self.i = 0
        self.env = env

    def peek(self):
        return self.t[self.i] if self.i < len(self.t) else ("eof", "")

    def next(self):
        tok = self.peek()
        self.i += 1
        return tok

    def expect(self, s):
        k, v = self.next()
        if v != s:
            raise GenError("expected %r, got %r" % (s, v))

    def parse(self, level=0):
        if level == len(self.BIN):
            return self.parse_cast()
        lhs = self.parse(level + 1)
        while self.peek()[1] in self.BIN[level]:
            op = self.next()[1]
            rhs = self.parse(level + 1)
            lhs = self.binop(op, lhs, rhs)
        return lhs

    @staticmethod
    def binop(op, a, b):
        if not (isinstance(a, int) and isinstance(b, int)):
            raise GenError("non-integer operand")
        return {"|": lambda: a | b, "^": lambda: a ^ b, "&": lambda: a & b,
                "<<": lambda: a << b, ">>": lambda: a >> b,
                "+": lambda: a + b, "-": lambda: a - b, "*": lambda: a * b,
                "/": lambda: a // b, "%": lambda: a % b}[op]()

    def parse_cast(self):
        v = self.parse_unary()
        while self.peek()[1] == "as":
            self.next()
            ty = self.parse_type()
            v = cast(v, ty)
        return v

    def parse_type(self):
        k, v = self.next()
        if v == "(":  # (u64)
            ty = self.parse_type()
            self.expect(")")
            return ty
        return v

    def parse_unary(self):
        k, v = self.peek()
        if v == "-":
            self.next()
            return -self.parse_unary()
        if v == "!":
            self.next()
            x = self.parse_unary()
            return ~x
        return self.parse_atom()

    def parse_atom(self):
        k, v = self.next()
        if k == "num":
            return parse_int(v)
        if v == "(":
            x = self.parse()
            self.expect(")")
            return x
        if v == "[":
            items = []
            if self.peek()[1] == "]":
                self.next()
                return items
            first = self.parse()
            if self.peek()[1] == ";":
                self.next()
                n = self.parse()
                self.expect("]")
                return [first] * n
            items.append(first)
            while self.peek()[1] == ",":
                self.next()
                if self.peek()[1] == "]":
                    break
                items.append(self.parse())
            self.expect("]")
            return items
        if k == "id":
            # path a::b::C
            name = v
            while self.peek()[1] == "::":
                self.next()
                name = self.next()[1]
            if self.peek()[1] == "{":  # struct literal
                self.next()
                fields = []
                while self.peek()[1] != "}":
                    self.next()  # field name
                    self.expect(":")
                    fields.append(self.parse())
                    if self.peek()[1] == ",":
                        self.next()
                self.expect("}")
                return tuple(fields)
            if name in ("true", "false"):
                return 1 if name == "true" else 0
            if name in self.env:
                return self.env[name]
            raise GenError("unknown identifier %s" % name)
        raise GenError("unexpected token %r" % v)


def find_item(toks, name, occurrence=0):
    """Return (type_tokens, expr_tokens) for `static|const NAME : T = expr ;`"""
    seen = 0
    for i in range(len(toks) - 2):
        if toks[i][1] in ("static", "const") and toks[i + 1][1] == name and toks[i + 2][1] == ":":
            if seen < occurrence:
                seen += 1
                continue
            j = i + 3
            depth = 0
            ty = []
            while not (toks[j][1] == "=" and depth == 0):
                if toks[j][1] in "([{<":
                    depth += 1
                if toks[j][1] in ")]}>":
                    depth -= 1
                ty.append(toks[j])
                j += 1
            j += 1
            ex = []
            depth = 0
            while not (toks[j][1] == ";" and depth == 0):
                if toks[j][1] in ("(", "[", "{"):
                    depth += 1
                if toks[j][1] in (")", "]", "}"):
                    depth -= 1
                ex.append(toks[j])
                j += 1
            return ty, ex
    raise GenError("item %s not found" % name)


def find_fn(toks, name, occurrence=0, impl_of=None):
    """Token slice of `fn name ... { body }` (whole item incl. signature)."""
    seen = 0
    i = 0
    n = len(toks)
    while i < n - 1:
        if toks[i][1] == "fn" and toks[i + 1][1] == name:
            if seen < occurrence:
                seen += 1
                i += 1
                continue
            j = i
            bdepth = 0  # a `;` inside `[T; N]` / `(..)` of the signature does not end the item
            while not (toks[j][1] == "{" or (toks[j][1] == ";" and bdepth == 0)):
                if toks[j][1] in ("(", "["):
                    bdepth += 1
                elif toks[j][1] in (")", "]"):
                    bdepth -= 1
                j += 1
            if toks[j][1] == ";":
                i = j
                continue
            depth = 0
            k = j
            while True:
                if toks[k][1] == "{":
                    depth += 1
                elif toks[k][1] == "}":
                    depth -= 1
                    if depth == 0:
                        break
                k += 1
            return toks[i:k + 1]
        i += 1
    raise GenError("fn %s not found" % name)


def fn_literals(ftoks):
    """Integer literals of a function body in source order."""
    out = []
    for k, v in ftoks:
        if k == "num":
            try:
                out.append(parse_int(v))
            except GenError:
                pass
    return out


def fingerprint(ftoks):
    h = hashlib.sha256()
    for k, v in ftoks:
        if k == "num":
            try:
                v = str(parse_int(v))
            except GenError:
                pass
        h.update(v.encode())
        h.update(b"\0")
    return h.hexdigest()[:16]


# ---------------------------------------------------------------------------
# What to harvest.  (file, rust name, lean name)
CONST_ITEMS = [
    ("src/enc/constants.rs", "BROTLI_NUM_BLOCK_LEN_SYMBOLS", None),
    ("src/enc/constants.rs", "kInsBase", None),
    ("src/enc/constants.rs", "kInsExtra", None),
    ("src/enc/constants.rs", "kCopyBase", None),
    ("src/enc/constants.rs", "kCopyExtra", None),
    ("src/enc/constants.rs", "BROTLI_NUM_HISTOGRAM_DISTANCE_SYMBOLS", None),
    ("src/enc/constants.rs", "BROTLI_NUM_LITERAL_SYMBOLS", None),
    ("src/enc/constants.rs", "BROTLI_NUM_COMMAND_SYMBOLS", None),
    ("src/enc/constants.rs", "BROTLI_WINDOW_GAP", None),
    ("src/enc/constants.rs", "BROTLI_MAX_NPOSTFIX", None),
    ("src/enc/constants.rs", "BROTLI_MAX_NDIRECT", None),
    ("src/enc/constants.rs", "kCodeLengthDepth", None),
    ("src/enc/constants.rs", "kCodeLengthBits", None),
    ("src/enc/constants.rs", "kBrotliMinWindowBits", None),
    ("src/enc/constants.rs", "kBrotliMaxWindowBits", None),
    ("src/enc/encode.rs", "BROTLI_LARGE_MAX_DISTANCE_BITS", None),
    ("src/enc/encode.rs", "BROTLI_LARGE_MIN_WBITS", None),
    ("src/enc/encode.rs", "BROTLI_LARGE_MAX_WBITS", None),
    ("src/enc/encode.rs", "BROTLI_MAX_DISTANCE_BITS", None),
    ("src/enc/encode.rs", "BROTLI_MAX_DISTANCE", None),
    ("src/enc/encode.rs", "BROTLI_MAX_ALLOWED_DISTANCE", None),
    ("src/enc/encode.rs", "BROTLI_NUM_DISTANCE_SHORT_CODES", None),
    ("src/enc/encode.rs", "BROTLI_NUM_DISTANCE_SYMBOLS", None),
    ("src/enc/brotli_bit_stream.rs", "MAX_SIMPLE_DISTANCE_ALPHABET_SIZE", None),
    ("src/enc/brotli_bit_stream.rs", "kBlockLengthPrefixCode", None),
    ("src/enc/brotli_bit_stream.rs", "MAX_SIZE_ENCODING", None),
    ("src/concat/mod.rs", "NUM_STREAM_HEADER_BYTES", None),
    ("src/enc/entropy_encode.rs", "MAX_HUFFMAN_BITS", None),
    ("src/enc/fixed_queue.rs", "MAX_THREADS", None),
    ("src/enc/constants.rs", "kZeroRepsBits", None),
    ("src/enc/constants.rs", "kZeroRepsDepth", None),
    ("src/enc/constants.rs", "kNonZeroRepsBits", None),
    ("src/enc/constants.rs", "kNonZeroRepsDepth", None),
    ("src/enc/constants.rs", "kStaticCommandCodeDepth", None),
    ("src/enc/constants.rs", "kStaticCommandCodeBits", None),
    ("src/enc/constants.rs", "kStaticDistanceCodeDepth", None),
    ("src/enc/constants.rs", "kStaticDistanceCodeBits", None),
    ("src/enc/constants.rs", "kUTF8ContextLookup", None),
    ("src/enc/constants.rs", "kSigned3BitContextLookup", None),
    ("src/enc/brotli_bit_stream.rs", "kStorageOrder", None),
    ("src/enc/brotli_bit_stream.rs", "kHuffmanBitLengthHuffmanCodeSymbols", None),
    ("src/enc/brotli_bit_stream.rs", "kHuffmanBitLengthHuffmanCodeBitLengths", None),
    ("src/enc/entropy_encode.rs", "gaps", "kShellGaps"),
    ("src/enc/entropy_encode.rs", "kLut", "kReverseLut"),
    ("src/lib.rs", "VERSION", "BROTLI_CRATE_VERSION"),
    # w-fragment (C01Fragment): tables of the quality-0/1 fragment writers
    ("src/enc/compress_fragment_two_pass.rs", "kNumExtraBits", "kFragNumExtraBits"),
    ("src/enc/compress_fragment_two_pass.rs", "kInsertOffset", "kFragInsertOffset"),
    ("src/enc/compress_fragment.rs", "kCmdHistoSeed", None),
    ("src/enc/encode.rs", "kDefaultCommandDepths", None),
    ("src/enc/encode.rs", "kDefaultCommandBits", None),
    ("src/enc/encode.rs", "kDefaultCommandCode", None),
    ("src/enc/encode.rs", "kDefaultCommandCodeNumBits", None),
]

# functions whose integer literals (in source order) are harvested as a list
# and whose token stream is fingerprinted.  (file, fn name, occurrence)
FN_ITEMS = json.load(open(os.path.join(os.path.dirname(os.path.abspath(__file__)), "fn_items.json")))


def lean_val(v):
    if isinstance(v, int):
        if v < 0:
            return "(%d : Int)" % v
        return str(v)
    if isinstance(v, tuple):
        return "(" + ", ".join(lean_val(x) for x in v) + ")"
    if isinstance(v, list):
        return "[" + ", ".join(lean_val(x) for x in v) + "]"
    raise GenError("cannot render %r" % (v,))


def lean_type(v):
    if isinstance(v, int):
        return "Int" if v < 0 else "Nat"
    if isinstance(v, tuple):
        return " × ".join(lean_type(x) for x in v)
    if isinstance(v, list):
        inner = lean_type(v[0]) if v else "Nat"
        if " " in inner:
            inner = "(" + inner + ")"
        return "List " + inner
    raise GenError("cannot type %r" % (v,))


def choose_literals(lname, harvested, pinned):
    """Positional literal lists parameterise the hand-written models (`lit l i`).  A change of a VALUE must reach
    the model (the theorems are then re-checked against the new constant); a change of the SHAPE of the list (a
    rewrite that adds, drops or reorders literals: `min(11, max(0, q))` -> `q.clamp(0, 11)`) makes the positions
    meaningless.  Rule: same list -> harvested; same length and a different multiset -> harvested (a constant was
    edited); otherwise (different length, or a permutation) -> the pinned list (tools/lits.pinned.json) is kept,
    the item is reported as reshaped, and what ties the model to the code for that function is the
    correspondence run (a semantic change then shows as a model/implementation disagreement)."""
    p = pinned.get(lname)
    if p is None or harvested == p:
        return harvested, None
    if len(harvested) == len(p) and sorted(harvested) != sorted(p):
        return harvested, None
    if len(harvested) == len(p):
        return p, "the literals are a permutation of the pinned list"
    return p, "%d literals now, %d pinned" % (len(harvested), len(p))


def main():
    outdir = [a for a in sys.argv[1:] if not a.startswith("--")]
    outdir = outdir[0] if outdir else "/verif/lean/BV/Gen"
    os.makedirs(outdir, exist_ok=True)
    env = {}
    lines = ["-- GENERATED by tools/gen_source.py from the current /repo working tree. Do not edit.",
             "namespace BV.Gen", ""]
    errors = []
    for path, name, lname in CONST_ITEMS:
        try:
            toks = tokens_of(path)
            ty, ex = find_item(toks, name)
            v = ExprParser(ex, env).parse()
            env[name] = v
            lines.append("/-- `%s` in `%s` -/" % (name, path))
            lines.append("def %s : %s := %s" % (lname or name, lean_type(v), lean_val(v)))
            lines.append("")
        except (GenError, OSError, IndexError) as e:
            errors.append("%s::%s: %s" % (path, name, e))
    fps = ["-- GENERATED by tools/gen_source.py. Do not edit.", "namespace BV.Gen", "",
           "/-- (rust file, fn name, occurrence, token-hash) of every function a model mirrors -/",
           "def fingerprints : List (String × String × Nat × String) := ["]
    fp_rows = []
    fp_json = {}
    pinned_path = os.path.join(os.path.dirname(os.path.abspath(__file__)), "lits.pinned.json")
    try:
        pinned_lits = json.load(open(pinned_path))
    except (OSError, ValueError):
        pinned_lits = {}
    harvested_all = {}
    reshaped = []
    for it in FN_ITEMS:
        path, fname, occ = it["file"], it["fn"], it.get("occ", 0)
        try:
            ft = find_fn(tokens_of(path), fname, occ)
            lits = fn_literals(ft)
            fp = fingerprint(ft)
            fp_rows.append('  ("%s", "%s", %d, "%s")' % (path, fname, occ, fp))
            fp_json["%s::%s#%d" % (path, fname, occ)] = fp
            if it.get("literals"):
                lname = it.get("lean", "lits_" + fname)
                harvested = [abs(x) for x in lits]
                harvested_all[lname] = harvested
                use, why = choose_literals(lname, harvested, pinned_lits)
                if why:
                    reshaped.append("%s (%s): %s" % (lname, path, why))
                lines.append("/-- integer literals of `fn %s` (%s), in source order%s -/" % (fname, path, "" if not why else " — PINNED list kept: " + why))
                lines.append("def %s : List Nat := %s" % (lname, lean_val(use)))
                lines.append("")
        except (GenError, OSError, IndexError) as e:
            lname = it.get("lean", "lits_" + fname)
            if it.get("literals") and lname in pinned_lits:
                # the function is gone (renamed / inlined / rewritten beyond the tokenizer): the models keep the
                # pinned literals; the correspondence run is what ties them to the code in that case
                reshaped.append("%s (%s): function not found (%s); pinned list kept" % (lname, path, e))
                lines.append("/-- integer literals of `fn %s` (%s): function NOT FOUND in the current tree, PINNED list kept -/" % (fname, path))
                lines.append("def %s : List Nat := %s" % (lname, lean_val(pinned_lits[lname])))
                lines.append("")
            else:
                errors.append("%s::fn %s: %s" % (path, fname, e))
    fps.append(",\n".join(fp_rows))
    fps.append("]")
    fps.append("")
    fps.append("end BV.Gen")
    # allocation-ledger items (C09): owning fields of the encoder state, cleanup list, site flags
    import gen_ledger
    _ll, _le = gen_ledger.emit(tokens_of, find_fn)
    lines.extend(_ll)
    errors.extend(_le)
    lines.append("end BV.Gen")

    def write_if_changed(p, content):
        try:
            if open(p).read() == content:
                return False
        except OSError:
            pass
        with open(p, "w") as f:
            f.write(content)
        return True

    c1 = write_if_changed(os.path.join(outdir, "Source.lean"), "\n".join(lines) + "\n")
    c2 = write_if_changed(os.path.join(outdir, "Fingerprints.lean"), "\n".join(fps) + "\n")
    write_if_changed(os.path.join(outdir, "fingerprints.json"), json.dumps(fp_json, indent=1, sort_keys=True) + "\n")
    if "--pin-lits" in sys.argv:
        with open(pinned_path, "w") as f:
            json.dump(harvested_all, f, indent=0, sort_keys=True)
    print(json.dumps({"changed_source": c1, "changed_fingerprints": c2, "errors": errors,
                      "items": len(CONST_ITEMS), "fns": len(FN_ITEMS), "literals_reshaped": reshaped}))
    return 2 if errors else 0


if __name__ == "__main__":
    sys.exit(main())
