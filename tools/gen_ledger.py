"""Extractor for the allocation ledger (property C09); called from gen_source.py.

Emits, from the CURRENT /repo sources (token level, no regex over raw text):

* encoderAllocFields   : the fields of `BrotliEncoderStateStruct` whose type owns allocator memory
                         (`…::AllocatedMemory`, `UnionHasher<…>`, `RingBuffer<…>`), in source order;
* cleanupFreedFields   : the `self.<field>` names that occur in `fn cleanup`, in source order;
* ringBufferAllocFields: the `AllocatedMemory`-typed fields of `struct RingBuffer`;
* hasherFreeArms       : for every `UnionHasher::<Variant>` arm of `UnionHasher::free`, the number of
                         blocks it releases (`free_cell` calls; `hasher.free(..)` counts as the number of
                         releases of `H10::free`, a `.free(` on a sub-object as one);
* hasherVariants       : the variants of `enum UnionHasher`;
* site flags (Bool)    : whether the C-ABI destroy / the 1-thread multi helper / writer Drop / reader
                         Drop / both exits of the copy function / both arms of compress_part run the
                         encoder cleanup, whether the q10 one-shot hasher is made from the state's own
                         allocator, whether set_custom_dictionary… frees the hasher it replaces (and the
                         pre-computed one when the dictionary is truncated), whether CompressMulti frees
                         every job's output unconditionally and has no `?` after the spawns.
"""


class LedgerGenError(Exception):
    pass


def _find_struct(toks, name):
    """fields of `struct name … { f: T, … }` as (field, [type tokens])"""
    for i in range(len(toks) - 1):
        if toks[i][1] == "struct" and toks[i + 1][1] == name:
            j = i + 2
            adepth = 0
            while not (toks[j][1] == "{" and adepth == 0):
                if toks[j][1] == "<":
                    adepth += 1
                elif toks[j][1] == ">":
                    adepth -= 1
                elif toks[j][1] == ">>":
                    adepth -= 2
                elif toks[j][1] == ";" and adepth == 0:
                    raise LedgerGenError("struct %s has no body" % name)
                j += 1
            j += 1
            fields = []
            while toks[j][1] != "}":
                # attributes / visibility
                while toks[j][1] == "#":
                    depth = 0
                    j += 1
                    while True:
                        if toks[j][1] == "[":
                            depth += 1
                        elif toks[j][1] == "]":
                            depth -= 1
                            if depth == 0:
                                j += 1
                                break
                        j += 1
                if toks[j][1] == "pub":
                    j += 1
                    if toks[j][1] == "(":
                        while toks[j][1] != ")":
                            j += 1
                        j += 1
                fname = toks[j][1]
                if toks[j + 1][1] != ":":
                    raise LedgerGenError("struct %s: cannot parse field at %r" % (name, toks[j:j + 3]))
                j += 2
                ty = []
                depth = 0
                while not (depth == 0 and toks[j][1] in (",", "}")):
                    if toks[j][1] in ("<", "(", "["):
                        depth += 1
                    elif toks[j][1] in (">", ")", "]"):
                        depth -= 1
                    elif toks[j][1] == ">>":
                        depth -= 2
                    ty.append(toks[j][1])
                    j += 1
                fields.append((fname, ty))
                if toks[j][1] == ",":
                    j += 1
            return fields
    raise LedgerGenError("struct %s not found" % name)


def _enum_variants(toks, name):
    for i in range(len(toks) - 1):
        if toks[i][1] == "enum" and toks[i + 1][1] == name:
            j = i + 2
            while toks[j][1] != "{":
                j += 1
            j += 1
            out = []
            depth = 0
            expect = True
            while not (toks[j][1] == "}" and depth == 0):
                t = toks[j][1]
                if t in ("(", "{", "<", "["):
                    depth += 1
                elif t in (")", "}", ">", "]"):
                    depth -= 1
                elif t == ">>":
                    depth -= 2
                elif depth == 0 and t == ",":
                    expect = True
                elif depth == 0 and expect and toks[j][0] == "id":
                    out.append(t)
                    expect = False
                j += 1
            return out
    raise LedgerGenError("enum %s not found" % name)


def _body(ftoks):
    """tokens strictly inside the outermost braces of a fn item"""
    k = 0
    while ftoks[k][1] != "{":
        k += 1
    return [t[1] for t in ftoks[k + 1:-1]]


def _count_seq(body, seq):
    n = 0
    for i in range(len(body) - len(seq) + 1):
        if body[i:i + len(seq)] == seq:
            n += 1
    return n


def _index_seq(body, seq, start=0):
    for i in range(start, len(body) - len(seq) + 1):
        if body[i:i + len(seq)] == seq:
            return i
    return -1


def _depth_at(body, idx):
    d = 0
    for t in body[:idx]:
        if t == "{":
            d += 1
        elif t == "}":
            d -= 1
    return d


def _lean_strs(xs):
    return "[" + ", ".join('"%s"' % x for x in xs) + "]"


def emit(tokens_of, find_fn):
    """returns (lean lines, errors)"""
    lines = []
    errors = []

    def guard(label, f):
        try:
            f()
        except (LedgerGenError, OSError, IndexError, ValueError) as e:
            errors.append("ledger::%s: %s" % (label, e))

    enc = "src/enc/encode.rs"

    def fields():
        fs = _find_struct(tokens_of(enc), "BrotliEncoderStateStruct")
        owning = [f for f, ty in fs if "AllocatedMemory" in ty or "UnionHasher" in ty or "RingBuffer" in ty]
        lines.append("/-- fields of `BrotliEncoderStateStruct` (%s) that own allocator memory -/" % enc)
        lines.append("def encoderAllocFields : List String := %s" % _lean_strs(owning))
        lines.append("")
        lines.append("/-- number of fields of `BrotliEncoderStateStruct` -/")
        lines.append("def encoderFieldCount : Nat := %d" % len(fs))
        lines.append("")
        rb = _find_struct(tokens_of(enc), "RingBuffer")
        lines.append("/-- `AllocatedMemory`-typed fields of `struct RingBuffer` -/")
        lines.append("def ringBufferAllocFields : List String := %s" % _lean_strs([f for f, ty in rb if "AllocatedMemory" in ty]))
        lines.append("")
        names = set(f for f, _ in fs)
        b = _body(find_fn(tokens_of(enc), "cleanup"))
        freed = []
        for i in range(len(b) - 2):
            if b[i] == "self" and b[i + 1] == "." and b[i + 2] in names and b[i + 2] != "m8":
                if b[i + 2] not in freed:
                    freed.append(b[i + 2])
        lines.append("/-- `self.<field>` names released in `fn cleanup` (%s) -/" % enc)
        lines.append("def cleanupFreedFields : List String := %s" % _lean_strs(freed))
        lines.append("")
    guard("fields", fields)

    def hasher():
        br = "src/enc/backward_references/mod.rs"
        toks = tokens_of(br)
        variants = _enum_variants(toks, "UnionHasher")
        lines.append("/-- variants of `enum UnionHasher` (%s) -/" % br)
        lines.append("def hasherVariants : List String := %s" % _lean_strs(variants))
        lines.append("")
        # `pub fn free(&mut self, alloc: &mut Alloc)` of impl UnionHasher: the one whose body matches on UnionHasher::
        fb = None
        occ = 0
        while True:
            try:
                cand = _body(find_fn(toks, "free", occ))
            except Exception:
                break
            if _count_seq(cand, ["UnionHasher", "::"]) >= len(variants) - 1:
                fb = cand
                break
            occ += 1
        if fb is None:
            raise LedgerGenError("UnionHasher::free not found")
        h10 = _body(find_fn(tokens_of("src/enc/backward_references/hash_to_binary_tree.rs"), "free", 2))
        h10n = _count_seq(h10, ["free_cell"]) + _count_seq(h10, [".", "free", "("])
        arms = []
        idxs = [i for i in range(len(fb) - 2) if fb[i] == "UnionHasher" and fb[i + 1] == "::" and fb[i + 2] in variants]
        for n, i in enumerate(idxs):
            v = fb[i + 2]
            end = idxs[n + 1] if n + 1 < len(idxs) else len(fb)
            seg = fb[i:end]
            if "=>" not in seg:
                continue  # the final `*self = UnionHasher::<Alloc>::default()` is not an arm
            k = _count_seq(seg, ["free_cell"])
            if _count_seq(seg, ["hasher", ".", "free", "("]) > 0:
                k += h10n
            arms.append((v, k))
        lines.append("/-- blocks released per arm of `UnionHasher::free` -/")
        lines.append("def hasherFreeArms : List (String × Nat) := [%s]" % ", ".join('("%s", %d)' % a for a in arms))
        lines.append("")
    guard("hasher", hasher)

    def flag(name, doc, val):
        lines.append("/-- %s -/" % doc)
        lines.append("def %s : Bool := %s" % (name, "true" if val else "false"))
        lines.append("")

    def flags():
        # C ABI destroy
        b = _body(find_fn(tokens_of("src/ffi/compressor.rs"), "BrotliEncoderDestroyInstance"))
        i = _index_seq(b, ["BrotliEncoderDestroyInstance", "("])
        if i < 0:
            i = _index_seq(b, [".", "cleanup", "("])
        flag("ffiDestroyCallsCleanup", "ffi `BrotliEncoderDestroyInstance` runs the encoder cleanup before releasing the state block (unconditionally)",
             i >= 0 and _depth_at(b, i) == 0)
        b = _body(find_fn(tokens_of("src/ffi/multicompress/mod.rs"), "help_brotli_encoder_compress_single"))
        i = _index_seq(b, ["BrotliEncoderDestroyInstance", "("])
        if i < 0:
            i = _index_seq(b, [".", "cleanup", "("])
        flag("ffiSingleCallsCleanup", "`help_brotli_encoder_compress_single` runs the encoder cleanup before returning (unconditionally)",
             i >= 0 and _depth_at(b, i) == 0)
        # one-shot q10 hasher
        b = _body(find_fn(tokens_of(enc), "encoder_compress"))
        i = _index_seq(b, ["BrotliMakeHasher", "("])
        own = i >= 0 and b[i + 2:i + 7] == ["&", "mut", "s_orig", ".", "m8"]
        flag("oneshotHasherFromStateAlloc", "`encoder_compress`: the quality-10 hasher is made from the state's own allocator", own)
        n_destroy = _count_seq(b, ["BrotliEncoderDestroyInstance", "("])
        flag("oneshotDestroys", "`encoder_compress` destroys the instance it created", n_destroy >= 1)
        # set_custom_dictionary
        b = _body(find_fn(tokens_of(enc), "set_custom_dictionary_with_optional_precomputed_hasher"))
        a = _index_seq(b, ["self", ".", "hasher_", "=", "opt_hasher"])
        d = _index_seq(b, ["DestroyHasher", "("])
        flag("setDictFreesReplacedHasher", "`set_custom_dictionary…` frees the hasher it replaces before the assignment",
             a >= 0 and 0 <= d < a and _depth_at(b, d) == 0)
        t = _index_seq(b, ["size", ">", "max_dict_size"])
        d2 = _index_seq(b, ["DestroyHasher", "("], t if t >= 0 else 0)
        flag("setDictTruncationFreesPrecomputed", "`set_custom_dictionary…` destroys a pre-computed hasher when the dictionary is truncated", t >= 0 and d2 > t)
        # writer Drop / reader Drop
        b = _body(find_fn(tokens_of("src/enc/writer.rs"), "drop"))
        i = _index_seq(b, ["BrotliEncoderDestroyInstance", "("])
        flag("writerDropDestroys", "`CompressorWriterCustomIo::drop` destroys the encoder unconditionally (also when `output` is `None`)", i >= 0 and _depth_at(b, i) == 0)
        b = _body(find_fn(tokens_of("src/enc/reader.rs"), "drop"))
        i = _index_seq(b, ["BrotliEncoderDestroyInstance", "("])
        flag("readerDropDestroys", "`StateWrapper::drop` destroys the encoder unconditionally", i >= 0 and _depth_at(b, i) == 0)
        # copy function: every `return` is preceded (same block) by a destroy, and the fall-through too
        b = _body(find_fn(tokens_of("src/enc/mod.rs"), "BrotliCompressCustomIoCustomDict"))
        n_ret = _count_seq(b, ["return", "Err"])
        ok = True
        start = 0
        while True:
            i = _index_seq(b, ["return", "Err"], start)
            if i < 0:
                break
            # look back to the opening brace of the enclosing block for a destroy
            depth = 0
            j = i
            found = False
            while j >= 0:
                if b[j] == "}":
                    depth += 1
                elif b[j] == "{":
                    if depth == 0:
                        break
                    depth -= 1
                elif depth == 0 and b[j] == "BrotliEncoderDestroyInstance":
                    found = True
                j -= 1
            ok = ok and found
            start = i + 1
        n_destroy = _count_seq(b, ["BrotliEncoderDestroyInstance", "("])
        flag("copyDestroysOnEveryExit", "`BrotliCompressCustomIoCustomDict`: the normal exit and every early `return Err` destroy the encoder first",
             ok and n_destroy >= n_ret + 1)
        # compress_part
        b = _body(find_fn(tokens_of("src/enc/threading.rs"), "compress_part"))
        i = _index_seq(b, ["BrotliEncoderDestroyInstance", "("])
        flag("compressPartDestroys", "`compress_part` destroys its encoder before building the result (both arms)", i >= 0 and _depth_at(b, i) == 0)
        e = _index_seq(b, ["Err", "(", "e", ")", "=>"])
        f = _index_seq(b, ["free_cell"], e if e >= 0 else 0)
        flag("compressPartErrArmFreesOutput", "`compress_part`: the error arm frees the output block it allocated", e >= 0 and f > e)
        # CompressMulti
        b = _body(find_fn(tokens_of("src/enc/threading.rs"), "CompressMulti"))
        loop = _index_seq(b, ["alloc_per_thread", ".", "iter_mut"])
        nq = b[loop:].count("?") if loop >= 0 else 1
        flag("multiNoQuestionMarkAfterSpawn", "`CompressMulti` has no `?` early return in or after the join loop", loop >= 0 and nq == 0)
        fc = _index_seq(b, ["free_cell"], loop if loop >= 0 else 0)
        okc = _index_seq(b, ["Ok", "(", "compressed_out", ")", "=>"], loop if loop >= 0 else 0)
        # the free_cell of a job's output sits directly in the `Ok(compressed_out) => {` arm (depth +1), not under an `if`
        flag("multiFreesEveryJobOutput", "`CompressMulti` frees every successful job's output block unconditionally",
             fc > okc >= 0 and _depth_at(b, fc) == _depth_at(b, okc) + 1)
        b = _body(find_fn(tokens_of("src/enc/threading.rs"), "CompressMultiSlice"))
        flag("multiSliceFreesInputCopy", "`CompressMultiSlice` frees its copy of the input", _count_seq(b, ["free_cell"]) >= 1)
    guard("flags", flags)

    # allocation skeletons of the call trees inside one encode_data call: a file of its own
    # (BV/Gen/LedgerSkel.lean, imports the skeleton model), never an error: what cannot be extracted is listed in
    # the file (`skelUnavailable`) and in LedgerSkel.notes.txt and stays a run-time check
    try:
        import os
        import sys
        import gen_skel
        import gen_source as _gs
        od = [a for a in sys.argv[1:] if not a.startswith("--")]
        od = od[0] if od else os.path.join(os.path.dirname(os.path.dirname(os.path.abspath(__file__))), "lean", "BV", "Gen")
        repo = getattr(_gs, "REPO", None) or getattr(sys.modules.get("__main__"), "REPO", "/repo")
        notes = gen_skel.generate(tokens_of, repo, od)
        with open(os.path.join(od, "LedgerSkel.notes.txt"), "w") as fh:
            fh.write("\n".join(notes) + ("\n" if notes else ""))
    except Exception as e:   # never take the generator down
        try:
            with open(os.path.join(od, "LedgerSkel.notes.txt"), "w") as fh:
                fh.write("skeleton extraction crashed: %r\n" % (e,))
        except Exception:
            pass
    return lines, errors
