#!/bin/sh
# Development aid: test a seeded regression WITHOUT touching /repo (workers may be building against it).
# Keeps a mirror of /verif and a clone of /repo under /var/tmp/mirror, applies the patch there and runs the
# named checks of the mirror against the mirror repo.
# usage: tools/mirror_seed.sh <patch.diff|-> <Cnn> [...]      ("-" = no patch: clean run)
set -e
M=${MIRROR:-/var/tmp/mirror}
patch="$1"; shift
mkdir -p $M
# the COMMITTED state of /verif (workers edit the working tree concurrently)
mkdir -p $M/verif $M/stage && rm -rf $M/stage/* && git -C /verif archive ${VERIF_REV:-HEAD} | tar -x -C $M/stage && rsync -a --delete --exclude '.cache' --exclude 'lean/.lake' --exclude 'lean/BV/Gen' --exclude 'replays' $M/stage/ $M/verif/
if [ ! -d $M/repo/.git ]; then git clone -q /repo $M/repo; fi
git -C $M/repo fetch -q /repo main && git -C $M/repo reset -q --hard FETCH_HEAD && git -C $M/repo clean -fdq -e target
cp /repo/Cargo.lock $M/repo/Cargo.lock 2>/dev/null || true
sed -i "s#path = \"/repo\"#path = \"$M/repo\"#" $M/verif/harness/Cargo.toml
sed -i "s#/verif/.cache/target#$M/verif/.cache/target#" $M/verif/harness/.cargo/config.toml
if [ "$patch" != "-" ]; then git -C $M/repo apply "$patch"; fi
cd $M/verif; mkdir -p .cache
for id in "$@"; do
  VERIF_REPO=$M/repo ./check $id ${TIER:-quick} > .cache/seed_$id.log 2>&1 && rc=0 || rc=$?
  echo "$id rc=$rc $(grep -m1 VIOLATION .cache/seed_$id.log | cut -c1-160) | $(tail -1 .cache/seed_$id.log)"
done
git -C $M/repo checkout -q -- .
