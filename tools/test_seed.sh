#!/bin/sh
# usage: tools/test_seed.sh <patch.diff> <Cnn> [<Cmm> ...]   — apply a seeded regression to /repo, run the
# named checks (quick), undo the change straight afterwards.  Prints one line per check.
patch="$1"; shift
cd /repo || exit 2
if ! git diff --quiet; then echo "/repo has uncommitted changes; refusing"; exit 2; fi
git apply "$patch" || { echo "patch does not apply"; exit 2; }
cd /verif
for id in "$@"; do
  ./check $id ${TIER:-quick} > .cache/seed_$id.log 2>&1; rc=$?
  echo "$id rc=$rc $(grep -m1 VIOLATION .cache/seed_$id.log) | $(tail -1 .cache/seed_$id.log)"
done
git -C /repo checkout -- .
