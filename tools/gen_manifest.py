#!/usr/bin/env python3
"""Writes /verif/MANIFEST.json from tools/props.py (so the manifest is always valid and current)."""
import json, os, subprocess, sys
VERIF = os.path.dirname(os.path.dirname(os.path.abspath(__file__)))
sys.path.insert(0, os.path.join(VERIF, "tools"))
from props import PROPS, NOT_YET

ALL = ["C%02d" % i for i in range(1, 21)]
hooks_commits = subprocess.run("git -C /repo log --format=%H --grep='^verif hook'", shell=True, stdout=subprocess.PIPE, text=True).stdout.split()
m = {
    "version": 1,
    "setup_cmd": "cd /verif && ./check --setup",
    "hooks": {
        "guard": "brotli_verif",
        "enable": "RUSTFLAGS=\"--cfg brotli_verif\" (set in /verif/harness/.cargo/config.toml; the harness crate path-depends on /repo and is rebuilt from the current working tree by every check)",
        "baseline_off_cmd": "cd /repo && cargo test --workspace --no-fail-fast --offline",
        "source_commits": hooks_commits,
        "add_only": False,
    },
    "engines": [
        {"name": "lean-proofs", "path": "lean/BV/Props", "serves_properties": sorted(PROPS.keys()), "kind_free_text": "Lean 4 property theorems over executable models (lake build + #print axioms audit)"},
        {"name": "gen-source", "path": "tools/gen_source.py", "serves_properties": sorted(PROPS.keys()), "kind_free_text": "translator: Rust tables/constants -> BV/Gen/Source.lean on every run; fingerprints of mirrored functions"},
        {"name": "harness", "path": "harness", "serves_properties": sorted(PROPS.keys()), "kind_free_text": "Rust crate (path-dep on /repo, cfg brotli_verif): correspondence drivers (impl vs Lean model over a line protocol) and property oracles on the real code"},
    ],
    "checks": [],
    "not_applicable": [],
    "notes": "hooks.add_only is false for exactly one place: in src/enc/worker_pool.rs the line `use std::sync::{Arc, Condvar, Mutex};` became two cfg alternatives and the two mentions of std::thread::{spawn, JoinHandle} go through aliases, so that the scheduler shim can be substituted under the guard; in src/enc/compress_fragment_two_pass.rs the condition `if ShouldCompress(..)` was split into `let should_compress = ShouldCompress(..); if should_compress` so that the guarded per-block log can record the answer; every other hook only adds code. Technique family: machine-checked proof in Lean 4 over hand-written executable models, tied to /repo by regeneration of data items and by a correspondence run on every check; see DESIGN.md.",
}
for pid in ALL:
    if pid in PROPS and PROPS[pid].get("claimed", True):
        c = PROPS[pid]
        m["checks"].append({
            "property_id": pid,
            "quick_cmd": "./check %s quick" % pid,
            "thorough_cmd": "./check %s thorough" % pid,
            "evidence_file": "/verif/evidence/%s.json" % pid,
            "replay_cmd_template": "./check %s --replay {path}" % pid,
            "engine": "lean-proofs+harness",
            "level_claimed": {"category": "proof", "text": c["level_text"], "design_ref": c.get("design_ref", "DESIGN.md section 8, " + pid)},
            "level_note": c["level_note"],
            "technique": c["technique"],
        })
    else:
        m["not_applicable"].append({"property_id": pid, "reason": NOT_YET.get(pid, "check not built yet (work in progress; the design for it is in DESIGN.md section 8) - not claimed")})
json.dump(m, open(os.path.join(VERIF, "MANIFEST.json"), "w"), indent=1)
print("MANIFEST.json: %d checks, %d not claimed" % (len(m["checks"]), len(m["not_applicable"])))
