#!/usr/bin/env python3
"""rs2lean.py — translate functions of /repo from Rust to Lean 4 (integer arithmetic, loops, arrays,
structs by value, fieldless enums, Option/Result, bit-writer functions).

Tie (a) of DESIGN.md section 4 for CONTROL FLOW: on every run the bodies of the functions listed in
tools/rs2lean_items.json are parsed from the current working tree and emitted as Lean definitions
(lean/BV/Gen/Fn<Cnn>.lean, one file per property so that a change to one property's function cannot
break another property's build).  Property files prove that each generated definition equals the
hand-written model (BV/Props/<Cnn>Gen.lean); a change of the Rust body changes the Lean definition and
the kernel re-checks the equation against the new text.

Semantics produced (release build semantics; recorded in the trusted base):
  * uN / usize (= u64) values are `Nat` kept below 2^N by every operation: + - * and the
    wrapping_* methods wrap modulo 2^N (a debug build would panic on plain + - * overflow: the
    `_ok` companion, below, carries those conditions);
  * iN values are `Int` kept in [-2^(N-1), 2^(N-1)) by `BV.Rs.wrapS`;
  * `a << b`, `a >> b` mask the shift amount with N-1 as release builds do;
  * `as` casts truncate / sign-extend as Rust does; `&mut` parameters (scalars, slices, structs,
    `&mut self`) become extra results (returned in parameter order after the function's own result);
  * slices and arrays are `List`; `x[i]` is `List.getD x i d`, `x[i] = v` is `List.set` (Rust would
    panic out of range), `x[a..b]` is `BV.Rs.slice`;
  * structs listed under "structs_v" become Lean structures holding their supported fields;
    structs listed under "structs" are flattened into the scalar fields the body reads;
  * fieldless enums are their discriminants (`Nat`);
  * `for i in a..b` is `BV.Rs.forRange*`, `while`/`loop` are `BV.Rs.whileLoop*` with fuel 2^64
    (or the item's "fuel"); the loop state is the tuple of the variables the body assigns;
  * assert!/debug_assert! are dropped (listed in the generated doc comment);
  * an item with "safe": true also gets `<name>_ok : … → Bool`: the conjunction, along the executed
    path, of every index-in-bounds, no-overflow (debug build), shift-in-range, non-zero-divisor,
    `unwrap`-on-some and assert condition — "the Rust function does not panic on these arguments".
Anything outside this subset is an error for that function only: it is then missing from the generated
file and the module that needs it does not compile — a broken proof obligation, reported as such.

usage: rs2lean.py [OUTDIR] [--repo PATH] [--items FILE] [--only KEY[,KEY..]]
"""
import json, os, sys
sys.path.insert(0, os.path.dirname(os.path.abspath(__file__)))
import gen_source as G

HERE = os.path.dirname(os.path.abspath(__file__))


class Unsupported(Exception):
    pass


class Retry(Exception):
    """a variable initialised with an unsuffixed literal turned out to have another integer type"""
    def __init__(self, name, ty):
        Exception.__init__(self, name)
        self.name, self.ty = name, ty


INT_TYPES = {"u8": ("U", 8), "u16": ("U", 16), "u32": ("U", 32), "u64": ("U", 64), "usize": ("U", 64),
             "i8": ("I", 8), "i16": ("I", 16), "i32": ("I", 32), "i64": ("I", 64), "isize": ("I", 64)}
BOOL = ("B", 1)
UNIT = ("T", [])
TYARGS = {}     # type-parameter substitution of the item being translated (e.g. {"T": ("U", 64)})


def lean_ty(t, paren=False):
    def p(s):
        return "(" + s + ")" if paren and " " in s else s
    if t == BOOL:
        return "Bool"
    if t[0] in ("U", "E"):
        return "Nat"
    if t[0] == "I":
        return "Int"
    if t[0] == "S":
        return p("List " + lean_ty(t[1], True))
    if t[0] == "T":
        if not t[1]:
            return "Unit"
        return p(" × ".join(lean_ty(x, True) for x in t[1]))
    if t[0] == "O":
        return p("Option (%s)" % lean_ty(t[1]))
    if t[0] == "W":
        return p("List BV.Rs.WOp")
    if t[0] == "ST":
        return t[1]
    raise Unsupported("type %r" % (t,))


def default_of(t):
    if t == BOOL:
        return "false"
    if t[0] in ("U", "E"):
        return "0"
    if t[0] == "I":
        return "(0 : Int)"
    if t[0] == "S":
        return "[]"
    if t[0] == "O":
        return "none"
    if t[0] == "T":
        return "(" + ", ".join(default_of(x) for x in t[1]) + ")"
    return "default"


# ------------------------------------------------------------------ parser (tokens -> AST)
ASSIGN_OPS = ("=", "+=", "-=", "*=", "/=", "%=", "<<=", ">>=", "&=", "|=", "^=")


class P:
    def __init__(self, toks):
        self.t = toks
        self.i = 0
        self.nostruct = 0
        self.labels = []

    def peek(self, k=0):
        return self.t[self.i + k][1] if self.i + k < len(self.t) else None

    def kind(self, k=0):
        return self.t[self.i + k][0] if self.i + k < len(self.t) else None

    def eat(self, v=None):
        if self.i >= len(self.t):
            raise Unsupported("unexpected end of input")
        tok = self.t[self.i]
        if v is not None and tok[1] != v:
            raise Unsupported("expected %r, found %r (token %d)" % (v, tok[1], self.i))
        self.i += 1
        return tok[1]

    def ty(self):
        if self.peek() == "&":
            self.eat()
            if self.kind() == "life":
                self.eat()
            mut = False
            if self.peek() == "mut":
                self.eat()
                mut = True
            inner = self.ty()
            return ("R", mut, inner)
        if self.peek() == "[":
            self.eat()
            inner = self.ty()
            if self.peek() == ";":
                self.eat()
                self.expr()
            self.eat("]")
            return ("S", inner)
        if self.peek() == "(":
            self.eat()
            parts = []
            trailing = False
            while self.peek() != ")":
                parts.append(self.ty())
                trailing = False
                if self.peek() == ",":
                    self.eat()
                    trailing = True
            self.eat(")")
            if len(parts) == 1 and not trailing:
                return parts[0]
            return ("T", parts)
        name = self.eat()
        while self.peek() == "::":
            self.eat()
            name = self.eat()
        if name in INT_TYPES:
            return INT_TYPES[name]
        if name == "bool":
            return BOOL
        if name in TYARGS:
            return TYARGS[name]
        if name in ("Result", "Option") and self.peek() == "<":
            self.eat("<")
            inner = self.ty()
            if name == "Result":
                self.eat(",")
                self.eat("(")
                self.eat(")")
            self.eat(">")
            return ("O", inner)
        if name == "Range" and self.peek() == "<":
            self.eat("<")
            inner = self.ty()
            self.eat(">")
            return ("T", [inner, inner])
        if self.peek() == "<":
            if TYARGS:
                # generic struct instantiated by the item's "tyargs": the arguments are dropped
                d = 0
                while True:
                    x = self.eat()
                    if x == "<":
                        d += 1
                    elif x == ">":
                        d -= 1
                        if d == 0:
                            break
                return ("ST", name)
            raise Unsupported("generic type %s" % name)
        return ("ST", name)

    def fn(self):
        while self.peek() != "fn":
            self.eat()
        self.eat("fn")
        name = self.eat()
        if self.peek() == "<":
            raise Unsupported("generic function")
        self.eat("(")
        params = []
        while self.peek() != ")":
            if self.peek() == "mut":
                self.eat()
            pn = self.eat()
            if pn == "&":
                if self.kind() == "life":
                    self.eat()
                mut = False
                if self.peek() == "mut":
                    self.eat()
                    mut = True
                self.eat("self")
                params.append(("self", ("R", mut, ("ST", "Self"))))
            elif pn == "self":
                params.append(("self", ("ST", "Self")))
            else:
                self.eat(":")
                params.append((pn, self.ty()))
            if self.peek() == ",":
                self.eat()
        self.eat(")")
        ret = None
        if self.peek() == "->":
            self.eat()
            ret = self.ty()
        if self.peek() == "where":
            raise Unsupported("where clause")
        body = self.block()
        return name, params, ret, body

    def block(self):
        self.eat("{")
        saved, self.nostruct = self.nostruct, 0
        stmts = []
        while self.peek() != "}":
            if self.peek() == ";":
                self.eat()
                continue
            stmts.append(self.stmt())
        self.eat("}")
        self.nostruct = saved
        return stmts

    def pattern(self):
        """let / for / if-let patterns: name | _ | (p, ..) | Some(p) | Ok(p) | Err(p) | None | path | literal"""
        if self.peek() in ("&", "ref"):
            self.eat()
            return self.pattern()
        if self.peek() == "mut":
            self.eat()
            return self.pattern()
        if self.peek() == "_":
            self.eat()
            return ("pwild",)
        if self.peek() == "(":
            self.eat()
            parts = []
            trailing = False
            while self.peek() != ")":
                parts.append(self.pattern())
                trailing = False
                if self.peek() == ",":
                    self.eat()
                    trailing = True
            self.eat(")")
            if len(parts) == 1 and not trailing:
                return parts[0]
            return ("ptuple", parts)
        if self.kind() in ("num", "char") or self.peek() == "-":
            lo = self.unary()
            if self.peek() == "..=":
                self.eat()
                return ("prange", lo, self.unary())
            return ("plit", lo)
        if self.kind() == "id":
            path = [self.eat()]
            while self.peek() == "::":
                self.eat()
                path.append(self.eat())
            if self.peek() == "(":
                self.eat()
                inner = []
                while self.peek() != ")":
                    inner.append(self.pattern())
                    if self.peek() == ",":
                        self.eat()
                self.eat(")")
                if len(path) == 1 and path[0] in ("Some", "Ok") and len(inner) == 1:
                    return ("psome", inner[0])
                if len(path) == 1 and path[0] == "Err" and len(inner) == 1:
                    return ("pnone",)
                raise Unsupported("pattern %s(..)" % "::".join(path))
            if len(path) == 1 and path[0] == "None":
                return ("pnone",)
            if len(path) == 1 and path[0] in ("true", "false"):
                return ("plit", ("bool", path[0] == "true"))
            if len(path) == 1 and not (path[0][0].isupper()):
                return ("pvar", path[0])
            return ("plit", ("path", path))
        raise Unsupported("pattern starting with %r" % self.peek())

    def macro_args(self):
        """the token slice between the parentheses of `name!( ... )`, split at top-level commas"""
        self.eat("(")
        depth = 1
        parts = [[]]
        while True:
            tok = self.t[self.i]
            self.i += 1
            if tok[1] in ("(", "[", "{"):
                depth += 1
            elif tok[1] in (")", "]", "}"):
                depth -= 1
                if depth == 0:
                    break
            if tok[1] == "," and depth == 1:
                parts.append([])
            else:
                parts[-1].append(tok)
        return [p for p in parts if p]

    def stmt(self):
        v = self.peek()
        if v == "use":
            # `use a::b::Enum::*;` inside a function body: the unit variants of a (configured, fieldless) enum
            # become usable by their bare names; anything else is refused
            self.eat()
            path = [self.eat()]
            while self.peek() == "::":
                self.eat()
                path.append(self.eat())
            self.eat(";")
            if len(path) < 2 or path[-1] != "*":
                raise Unsupported("use declaration other than a glob import of an enum's variants")
            return ("use_enum", path[-2])
        if v in ("let", "static", "const"):
            self.eat()
            pat = self.pattern()
            ty = None
            if self.peek() == ":":
                self.eat()
                ty = self.ty()
            if self.peek() == ";":
                self.eat()
                if pat[0] != "pvar":
                    raise Unsupported("uninitialised pattern binding")
                return ("letu", pat[1], ty)
            self.eat("=")
            e = self.expr()
            self.eat(";")
            if pat[0] == "pvar":
                return ("let", pat[1], ty, e)
            return ("letp", pat, ty, e)
        if v in ("assert", "debug_assert", "assert_eq", "debug_assert_eq", "assert_ne", "debug_assert_ne") and self.peek(1) == "!":
            start = self.i
            self.eat()
            self.eat("!")
            parts = self.macro_args()
            text = " ".join(t[1] for t in self.t[start:self.i])
            if self.peek() == ";":
                self.eat()
            cond = None
            try:
                es = []
                for ptoks in parts[:2 if ("_eq" in v or "_ne" in v) else 1]:
                    sub = P(list(ptoks))
                    es.append(sub.expr())
                    if sub.i != len(ptoks):
                        raise Unsupported("assert argument")
                if "_eq" in v:
                    cond = ("bin", "==", es[0], es[1])
                elif "_ne" in v:
                    cond = ("bin", "!=", es[0], es[1])
                else:
                    cond = es[0]
            except (Unsupported, IndexError):
                cond = None
            return ("assert", text, cond)
        if v == "return":
            self.eat()
            e = None if self.peek() in (";", "}") else self.expr()
            if self.peek() == ";":
                self.eat()
            return ("return", e)
        if v == "break":
            self.eat()
            if self.kind() == "life" and self.labels and self.labels[-1] == self.peek():
                self.eat()      # the label of the innermost loop: a plain break
            if self.peek() != ";" and self.peek() != "}":
                raise Unsupported("break with a label or value")
            if self.peek() == ";":
                self.eat()
            return ("break",)
        if v == "continue":
            self.eat()
            if self.kind() == "life" and self.labels and self.labels[-1] == self.peek():
                self.eat()
            if self.peek() != ";" and self.peek() != "}":
                raise Unsupported("continue with a label")
            if self.peek() == ";":
                self.eat()
            return ("continue",)
        label = None
        if self.kind() == "life":
            if self.peek(1) != ":" or self.peek(2) not in ("while", "loop", "for"):
                raise Unsupported("label")
            label = self.eat()
            self.eat(":")
            v = self.peek()
        if v in ("while", "loop", "for"):
            self.labels.append(label)
            try:
                if v == "while":
                    self.eat()
                    if self.peek() == "let":
                        raise Unsupported("while let")
                    self.nostruct += 1
                    c = self.expr()
                    self.nostruct -= 1
                    body = self.block()
                    return ("while", c, body)
                if v == "loop":
                    self.eat()
                    body = self.block()
                    return ("while", ("bool", True), body)
                self.eat()
                pat = self.pattern()
                self.eat("in")
                self.nostruct += 1
                it = self.expr()
                self.nostruct -= 1
                body = self.block()
                return ("for", pat, it, body)
            finally:
                self.labels.pop()
        e = self.expr()
        nxt = self.peek()
        if nxt in ASSIGN_OPS:
            self.eat()
            rhs = self.expr()
            if self.peek() != "}":      # `{ a = b }`: an assignment closing a block has the value `()`, as with `;`
                self.eat(";")
            if nxt != "=":
                rhs = ("bin", nxt[:-1], e, rhs)
            return ("assign", e, rhs)
        if nxt == ";":
            self.eat()
            return ("expr", e, True)
        return ("expr", e, False)   # tail expression (or an `if` statement without `;`)

    PREC = [("||",), ("&&",), ("==", "!=", "<", ">", "<=", ">="), ("|",), ("^",), ("&",), ("<<", ">>"),
            ("+", "-"), ("*", "/", "%")]

    def expr(self, level=0, nostruct=False):
        if level == 0:
            if self.peek() in ("..", "..="):
                incl = self.eat() == "..="
                hi = None if self.peek() in ("]", ")", "{", ",", ";") else self.expr(1)
                return ("range", None, hi, incl)
            lhs = self.expr(1)
            if self.peek() == "..":
                self.eat()
                if self.peek() in ("]", ")", "{", ",", ";", "}"):
                    return ("range", lhs, None, False)
                rhs = self.expr(1)
                return ("range", lhs, rhs, False)
            return lhs
        if level - 1 >= len(self.PREC):
            return self.cast()
        lhs = self.expr(level + 1)
        while self.peek() in self.PREC[level - 1]:
            op = self.eat()
            rhs = self.expr(level + 1)
            lhs = ("bin", op, lhs, rhs)
        return lhs

    def cast(self):
        e = self.unary()
        while self.peek() == "as":
            self.eat()
            paren = self.peek() == "("
            if paren:
                self.eat()
            t = self.ty()
            if paren:
                self.eat(")")
            e = ("cast", e, t)
        return e

    def unary(self):
        v = self.peek()
        if v in ("!", "-", "*"):
            self.eat()
            return ("un", v, self.unary())
        if v == "&":
            self.eat()
            if self.peek() == "mut":
                self.eat()
                return ("un", "&mut", self.unary())
            return self.unary()
        if v == "&&":       # `&&x`
            self.eat()
            return self.unary()
        return self.postfix()

    def args(self):
        self.eat("(")
        saved, self.nostruct = self.nostruct, 0
        args = []
        while self.peek() != ")":
            args.append(self.expr())
            if self.peek() == ",":
                self.eat()
        self.eat(")")
        self.nostruct = saved
        return args

    def postfix(self):
        e = self.primary()
        while True:
            v = self.peek()
            if v == "." and self.kind(1) == "id":
                self.eat()
                m = self.eat()
                if self.peek() == "::":
                    raise Unsupported("turbofish")
                if self.peek() == "(":
                    e = ("method", m, e, self.args())
                else:
                    e = ("field", m, e)
            elif v == "." and self.kind(1) == "num":
                self.eat()
                n = self.eat()
                if "." in n:        # `x.0.1` is tokenised as the float `0.1`
                    for part in n.split("."):
                        e = ("tfield", int(part), e)
                else:
                    e = ("tfield", int(n), e)
            elif v == "[":
                self.eat()
                saved, self.nostruct = self.nostruct, 0
                ix = self.expr()
                if self.peek() == "..=":
                    self.eat()
                    ix = ("range", ix, self.expr(1), True)
                self.nostruct = saved
                self.eat("]")
                e = ("index", e, ix)
            elif v == "?":
                raise Unsupported("`?` operator")
            else:
                return e

    def match_(self):
        """`match scrutinee { pat [| pat] => arm, ... }` as a chain of tests (the scrutinee is pure)"""
        self.eat("match")
        self.nostruct += 1
        scrut = self.expr()
        self.nostruct -= 1
        self.eat("{")
        arms = []
        default = None
        while self.peek() != "}":
            pats = []
            while True:
                pt = self.pattern()
                if pt[0] in ("pwild", "pvar"):
                    if pt[0] == "pvar":
                        raise Unsupported("match arm binding a name")
                    pats = None
                elif pt[0] == "plit":
                    pats.append(pt[1])
                else:
                    pats.append(pt)
                if self.peek() == "|":
                    self.eat()
                    continue
                break
            if self.peek() == "if":
                raise Unsupported("match guard")
            self.eat("=>")
            if self.peek() == "{":
                body = self.block()
            else:
                ae = self.expr()
                if self.peek() in ASSIGN_OPS:
                    op = self.eat()
                    rhs = self.expr()
                    if op != "=":
                        rhs = ("bin", op[:-1], ae, rhs)
                    body = [("assign", ae, rhs)]
                else:
                    body = [("expr", ae, False)]
            if self.peek() == ",":
                self.eat()
            if pats is None:
                default = body
            else:
                arms.append((pats, body))
        self.eat("}")
        # Option / Result scrutinee: `Some(x) => .., None => ..` becomes an if-let
        if arms and any(p[0] in ("psome", "pnone") for pats, _ in arms for p in pats):
            some = [(p, b) for p, b in arms if len(p) == 1 and p[0][0] == "psome"]
            none = [(p, b) for p, b in arms if len(p) == 1 and p[0][0] == "pnone"]
            if len(some) != 1 or len(some) + len(none) != len(arms) or len(none) > 1:
                raise Unsupported("match on Option/Result with these arms")
            other = none[0][1] if none else default
            if other is None:
                raise Unsupported("match on Option/Result is not exhaustive")
            return ("iflet", some[0][0][0][1], scrut, some[0][1], other)
        if default is None:
            # exhaustive match on a fieldless enum: the translation checks that every variant is covered
            if not arms:
                raise Unsupported("empty match")
            return ("ematch", scrut, arms)
        node_else = default
        for pats, body in reversed(arms):
            node_else = [("expr", ("if", self.pat_cond(scrut, pats), body, node_else), False)]
        return node_else[0][1]

    @staticmethod
    def pat_cond(scrut, pats):
        cond = None
        for pt in pats:
            if pt[0] == "prange":
                c = ("bin", "&&", ("bin", "<=", pt[1], scrut), ("bin", "<=", scrut, pt[2]))
            else:
                c = ("bin", "==", scrut, pt)
            cond = c if cond is None else ("bin", "||", cond, c)
        return cond

    def primary(self):
        k, v = self.kind(), self.peek()
        if k == "num":
            self.eat()
            for suf in sorted(INT_TYPES, key=len, reverse=True):
                if v.endswith(suf) and not v.startswith("0x") or (v.startswith("0x") and v.endswith(suf) and suf[0] in "ui" and len(v) > len(suf) + 2 and v[-len(suf) - 1] in "0123456789abcdefABCDEF_" and suf[0] not in "abcdef"):
                    return ("lit", G.parse_int(v), INT_TYPES[suf])
            if "." in v or (("e" in v or "E" in v) and not v.startswith("0x")) or v.endswith("f32") or v.endswith("f64"):
                raise Unsupported("float literal %s" % v)
            return ("lit", G.parse_int(v), None)
        if k == "char":
            self.eat()
            body = v[2:-1] if v.startswith("b") else v[1:-1]
            esc = {"\\n": 10, "\\r": 13, "\\t": 9, "\\0": 0, "\\\\": 92, "\\'": 39, '\\"': 34}
            if body in esc:
                c = esc[body]
            elif len(body) == 1:
                c = ord(body)
            elif body.startswith("\\x"):
                c = int(body[2:], 16)
            else:
                raise Unsupported("char literal %s" % v)
            return ("lit", c, ("U", 8) if v.startswith("b") else ("U", 32))
        if k == "str":
            raise Unsupported("string literal")
        if v == "(":
            self.eat()
            saved, self.nostruct = self.nostruct, 0
            items = []
            trailing = False
            while self.peek() != ")":
                items.append(self.expr())
                if self.peek() == "..=":
                    self.eat()
                    hi = self.expr(1)
                    items[-1] = ("rangei", items[-1], hi)
                trailing = False
                if self.peek() == ",":
                    self.eat()
                    trailing = True
            self.eat(")")
            self.nostruct = saved
            if len(items) == 1 and not trailing:
                return items[0]
            return ("tuple", items)
        if v == "[":
            self.eat()
            saved, self.nostruct = self.nostruct, 0
            items = []
            rep = None
            while self.peek() != "]":
                items.append(self.expr())
                if self.peek() == ";":
                    self.eat()
                    rep = self.expr()
                    break
                if self.peek() == ",":
                    self.eat()
            self.eat("]")
            self.nostruct = saved
            if rep is not None:
                return ("arrayrep", items[0], rep)
            return ("array", items)
        if v == "if":
            self.eat()
            if self.peek() == "let":
                self.eat()
                pat = self.pattern()
                self.eat("=")
                self.nostruct += 1
                scrut = self.expr()
                self.nostruct -= 1
                a = self.block()
                b = None
                if self.peek() == "else":
                    self.eat()
                    if self.peek() == "if":
                        b = [("expr", self.primary(), False)]
                    else:
                        b = self.block()
                if pat[0] == "psome":
                    return ("iflet", pat[1], scrut, a, b)
                if pat[0] == "pnone":
                    return ("if", ("method", "is_none", scrut, []), a, b)
                if pat[0] == "plit":
                    return ("if", ("bin", "==", scrut, pat[1]), a, b)
                raise Unsupported("if let with this pattern")
            self.nostruct += 1
            c = self.expr()
            self.nostruct -= 1
            a = self.block()
            b = None
            if self.peek() == "else":
                self.eat()
                if self.peek() == "if":
                    b = [("expr", self.primary(), False)]
                else:
                    b = self.block()
            return ("if", c, a, b)
        if v == "match":
            return self.match_()
        if v == "return":
            self.eat()
            return ("ret", None if self.peek() in (",", ";", "}") else self.expr())
        if v == "break":
            self.eat()
            return ("brk",)
        if v == "continue":
            self.eat()
            return ("cont",)
        if v == "{":
            return ("block", self.block())
        if v == "unsafe" and self.peek(1) == "{":
            raise Unsupported("unsafe block")
        if v in ("true", "false"):
            self.eat()
            return ("bool", v == "true")
        if v in ("|", "||", "move"):
            raise Unsupported("closure")
        if k == "id":
            path = [self.eat()]
            if self.peek() == "!":
                if self.peek(1) in ("(", "[", "{") and self.peek(1) != "=":
                    raise Unsupported("macro %s!" % path[0])
            while self.peek() == "::":
                self.eat()
                if self.peek() == "<":
                    raise Unsupported("turbofish")
                path.append(self.eat())
            if self.peek() == "(":
                return ("call", path, self.args())
            if self.peek() == "{" and not self.nostruct and path[-1][0].isupper() and self.kind(1) == "id" and self.peek(2) in (":", ",", "}"):
                self.eat("{")
                fields = []
                while self.peek() != "}":
                    if self.peek() == "..":
                        raise Unsupported("struct update syntax")
                    fname = self.eat()
                    if self.peek() == ":":
                        self.eat()
                        saved, self.nostruct = self.nostruct, 0
                        fe = self.expr()
                        self.nostruct = saved
                    else:
                        fe = ("path", [fname])
                    fields.append((fname, fe))
                    if self.peek() == ",":
                        self.eat()
                self.eat("}")
                return ("structlit", path[-1], fields)
            return ("path", path)
        raise Unsupported("expression starting with %r" % v)


# ------------------------------------------------------------------ typed translation
def pow2(w):
    return str(2 ** w)


def wrap(t, s):
    if t[0] == "U":
        return "((%s) %% %s)" % (s, pow2(t[1]))
    return "(BV.Rs.wrapS %d (%s))" % (t[1], s)


def is_int(t):
    return t is not None and t != BOOL and t[0] in "UI"


def walk(node, f):
    """generic pre-order traversal of AST tuples / lists"""
    if isinstance(node, tuple):
        f(node)
        for x in node:
            walk(x, f)
    elif isinstance(node, list):
        for x in node:
            walk(x, f)


def uses_name(node, name):
    hit = []

    def f(n):
        if n and n[0] == "path" and n[1] == [name]:
            hit.append(1)
    walk(node, f)
    return bool(hit)


def lv_root(e):
    """root variable name of an l-value expression, or None"""
    while True:
        if e[0] == "path" and len(e[1]) == 1:
            return e[1][0]
        if e[0] in ("field", "tfield"):
            e = e[2]
        elif e[0] == "index":
            e = e[1]
        elif e[0] == "un" and e[1] in ("*", "&mut"):
            e = e[2]
        else:
            return None


class Sig:
    """signature of a translated function: rparams = [(name, mode, type, flat)] with mode val|mut and
    flat = list of (field, type) for a flattened struct parameter; ret; outs = [(name, type)]"""
    def __init__(self, rparams, ret, outs, writer, has_guards, lean_name):
        self.rparams, self.ret, self.outs, self.writer = rparams, ret, outs, writer
        self.has_guards, self.lean_name = has_guards, lean_name
        self.safe = False


class Ctx:
    def __init__(self, ret_t, plain_final, wrap, fall, brk=None, cont=None):
        self.ret_t, self.plain_final, self.wrap, self.fall, self.brk, self.cont = ret_t, plain_final, wrap, fall, brk, cont

    def final(self, env, val):
        return self.wrap(self.plain_final(env, val))


class Tr:
    def __init__(self, consts, fns):
        self.consts = consts   # name -> (value, type or None)
        self.fns = fns         # name -> Sig
        self.asserts = []
        self.glob_enums = []   # enums whose unit variants a `use Enum::*;` of the body brought into scope
        self.sinks = set()     # names of the (&mut usize, &mut [u8]) bit-sink parameters
        self.cur_file = None
        self.foreign = set()   # callees whose translation comes from another file than the caller
        self.structs_v = {}    # struct name -> [(field, type)]
        self.enums = {}        # enum name -> {variant: discriminant}
        self.tables = {}       # table name -> (lean reference, type)
        self.okmode = False
        self.guards = []
        self.nguards = 0
        self.fuel = "18446744073709551616"
        self.protected = []    # stack of variable sets carried by enclosing merged ifs / loops
        self.tmp = 0
        self.self_ty = None
        self.uses_source = False
        self.deflit = set()    # variables whose type is the default of an unsuffixed literal
        self.lit_override = {}

    def fresh(self, base):
        self.tmp += 1
        return "%s_%d" % (base, self.tmp)

    def guard(self, g):
        self.guards.append(g)

    def scoped(self, f):
        saved, self.guards = self.guards, []
        try:
            r = f()
            g = self.guards
        finally:
            self.guards = saved
        return r, g

    def flush(self, env):
        """`let ok_ := ok_ && g1 && ..` for the guards collected since the last flush (ok-mode only)"""
        g, self.guards = self.guards, []
        if not g:
            return ""
        self.nguards += len(g)
        if not self.okmode:
            return ""
        return "let ok_ : Bool := (ok_ && %s)\n" % " && ".join(g)

    def note_callee(self, name):
        f = FN_FILES.get(name)
        if f and self.cur_file and f != self.cur_file:
            try:
                G.find_fn(G.tokens_of(self.cur_file), name, 0)
            except G.GenError:
                return      # imported, not shadowed by a file-local definition
            self.foreign.add("%s (from %s)" % (name, f))

    # ---- struct / tuple helpers
    def struct_of(self, t):
        name = t[1]
        if name == "Self":
            name = self.self_ty
        if name not in self.structs_v:
            raise Unsupported("struct %s is not listed under structs_v" % name)
        return name, self.structs_v[name]

    def field_ty(self, t, f):
        name, fields = self.struct_of(t)
        for fn_, ft in fields:
            if fn_ == f:
                return ft
        raise Unsupported("field %s.%s is not a supported field of the generated structure" % (name, f))

    @staticmethod
    def proj(s, k, n):
        """k-th component of an n-tuple term"""
        if n == 1:
            return s
        out = s
        for _ in range(k):
            out = "%s.2" % out
        if k < n - 1:
            out = "%s.1" % out
        return out

    # ---- l-values: (root name, [accessor], type); accessor = ("f", field) | ("i", lean index, elem type) | ("t", k, n)
    def lvalue(self, e, env):
        if e[0] == "path" and len(e[1]) == 1:
            name = e[1][0]
            if name not in env:
                raise Unsupported("unknown name %s" % name)
            ent = env[name]
            if len(ent) == 3:      # alias
                return ent[2][0], list(ent[2][1]), ent[1]
            return name, [], ent[1]
        if e[0] == "un" and e[1] in ("*", "&mut"):
            return self.lvalue(e[2], env)
        if e[0] == "field":
            root, accs, t = self.lvalue(e[2], env)
            if t is not None and t[0] == "STF":
                raise Unsupported("assignment to a field of a flattened struct parameter")
            if t is None or t[0] != "ST":
                raise Unsupported("field of a non-struct")
            return root, accs + [("f", e[1])], self.field_ty(t, e[1])
        if e[0] == "tfield":
            root, accs, t = self.lvalue(e[2], env)
            if t is None or t[0] != "T":
                raise Unsupported("tuple field of a non-tuple")
            return root, accs + [("t", e[1], len(t[1]))], t[1][e[1]]
        if e[0] == "index":
            root, accs, t = self.lvalue(e[1], env)
            if t is None or t[0] != "S":
                raise Unsupported("index into %r" % (t,))
            if e[2][0] == "range":
                raise Unsupported("slice range as an assignment target")
            i, ti = self.ex(e[2], env, ("U", 64))
            if ti != ("U", 64):
                raise Unsupported("index of type %r" % (ti,))
            return root, accs + [("i", i, t[1])], t[1]
        raise Unsupported("assignment target")

    def read_lv(self, env, root, accs, guard=True):
        s = env[root][0]
        t = env[root][1]
        for a in accs:
            if a[0] == "f":
                s = "%s.%s" % (s, a[1])
            elif a[0] == "t":
                s = self.proj(s, a[1], a[2])
            else:
                if guard:
                    self.guard("decide (%s < List.length %s)" % (a[1], s))
                s = "(List.getD %s %s %s)" % (s, a[1], default_of(a[2]))
        return s

    def write_lv(self, env, root, accs, val):
        def upd(cur, accs):
            if not accs:
                return val
            a = accs[0]
            if a[0] == "f":
                return "{ %s with %s := %s }" % (cur, a[1], upd("%s.%s" % (cur, a[1]), accs[1:]))
            if a[0] == "t":
                n = a[2]
                parts = [self.proj(cur, k, n) for k in range(n)]
                parts[a[1]] = upd(parts[a[1]], accs[1:])
                return "(" + ", ".join(parts) + ")"
            self.guard("decide (%s < List.length %s)" % (a[1], cur))
            if len(accs) == 1:
                return "(List.set %s %s %s)" % (cur, a[1], val)
            return "(List.set %s %s %s)" % (cur, a[1], upd("(List.getD %s %s %s)" % (cur, a[1], default_of(a[2])), accs[1:]))
        return upd(env[root][0], accs)

    # returns (lean string, type); `want` is the expected type or None
    def ex(self, e, env, want=None):
        k = e[0]
        if k == "lit":
            t = e[2] or want
            if t is None or not is_int(t):
                if t is not None and t[0] == "E":
                    raise Unsupported("integer literal where an enum is expected")
                t = ("I", 32)
            v = e[1]
            if t[0] == "U":
                return "%d" % (v % 2 ** t[1]), t
            return "(%d : Int)" % v, t
        if k == "bool":
            return ("true" if e[1] else "false"), BOOL
        if k == "path":
            name = e[1][-1]
            if len(e[1]) == 1 and name in env:
                ent = env[name]
                if len(ent) == 3:
                    return self.read_lv(env, ent[2][0], ent[2][1]), ent[1]
                if ent[1] is None or ent[1][0] == "?":
                    raise Unsupported("use of %s before it is assigned" % name)
                return ent[0], ent[1]
            if len(e[1]) == 1 and name == "None":
                if want and want[0] == "O":
                    return "none", want
                raise Unsupported("None without a known type")
            if len(e[1]) >= 2 and e[1][-2] in self.enums and name in self.enums[e[1][-2]]:
                return "%d" % self.enums[e[1][-2]][name], ("E", e[1][-2])
            if len(e[1]) == 2 and e[1][0] in INT_TYPES and name in ("MAX", "MIN"):
                t = INT_TYPES[e[1][0]]
                v = (2 ** t[1] - 1 if name == "MAX" else 0) if t[0] == "U" else (2 ** (t[1] - 1) - 1 if name == "MAX" else -2 ** (t[1] - 1))
                return ("%d" % v if t[0] == "U" else "(%d : Int)" % v), t
            if len(e[1]) == 1 and name not in self.consts:
                # a unit variant brought into scope by `use Enum::*;` (locals, matched above, and module-level
                # constants shadow glob imports; two globs offering the same name would be ambiguous in Rust)
                offers = [en for en in self.glob_enums if name in self.enums[en]]
                if len(offers) > 1:
                    raise Unsupported("variant %s offered by several glob imports" % name)
                if offers:
                    return "%d" % self.enums[offers[0]][name], ("E", offers[0])
            if name in self.consts:
                v, t = self.consts[name]
                t = t or want or ("U", 64)
                return ("%d" % v if t[0] == "U" else "(%d : Int)" % v), t
            if name in self.tables:
                return self.tables[name]
            raise Unsupported("unknown name %s" % "::".join(e[1]))
        if k == "un":
            if e[1] in ("*", "&mut"):
                return self.ex(e[2], env, want)
            s, t = self.ex(e[2], env, want)
            if e[1] == "!":
                if t == BOOL:
                    return "(!%s)" % s, t
                if t[0] == "U":
                    return "(%s - 1 - %s)" % (pow2(t[1]), s), t
                return "(-1 - %s)" % s, t
            if t[0] == "I":
                self.guard("(%s != (%d : Int))" % (s, -2 ** (t[1] - 1)))
                return wrap(t, "-%s" % s), t
            raise Unsupported("negation of unsigned")
        if k == "cast":
            s, t = self.ex(e[1], env, e[2] if e[1][0] == "lit" and e[1][2] is None else None)
            return self.cast(s, t, e[2]), e[2]
        if k == "bin":
            return self.bin(e, env, want)
        if k == "method":
            return self.method(e, env, want)
        if k == "call":
            return self.call(e, env, want)
        if k == "index":
            a, ta = self.ex(e[1], env)
            if ta[0] == "R":
                ta = ta[2]
            if ta[0] != "S":
                raise Unsupported("index into %r" % (ta,))
            if e[2][0] == "range":
                lo, hi = self.range_bounds(e[2], env, "(List.length %s)" % a)
                self.guard("decide (%s ≤ %s) && decide (%s ≤ List.length %s)" % (lo, hi, hi, a))
                return "(BV.Rs.slice %s %s %s)" % (a, lo, hi), ta
            i, ti = self.ex(e[2], env, ("U", 64))
            if ti != ("U", 64):
                raise Unsupported("index of type %r (usize expected)" % (ti,))
            self.guard("decide (%s < List.length %s)" % (i, a))
            return "(List.getD %s %s %s)" % (a, i, default_of(ta[1])), ta[1]
        if k == "field":
            base = e[2]
            if base[0] == "path" and len(base[1]) == 1 and base[1][0] in env and len(env[base[1][0]]) == 2 \
                    and env[base[1][0]][1] is not None and env[base[1][0]][1][0] == "STF":
                key = base[1][0] + "_" + e[1]
                if key in env:
                    return env[key][0], env[key][1]
                raise Unsupported("field %s.%s is not a scalar field of the struct (or the struct was not found)" % (base[1][0], e[1]))
            b, tb = self.ex(base, env)
            if tb[0] == "ST":
                return "%s.%s" % (b, e[1]), self.field_ty(tb, e[1])
            if tb[0] == "TS":
                names = [f for f, _ in tb[2]]
                if e[1] not in names:
                    raise Unsupported("field %s of table element %s" % (e[1], tb[1]))
                j = names.index(e[1])
                return self.proj(b, j, len(names)), tb[2][j][1]
            raise Unsupported("field access on %r" % (tb,))
        if k == "tfield":
            b, tb = self.ex(e[2], env)
            if tb[0] != "T" or e[1] >= len(tb[1]):
                raise Unsupported("tuple field of %r" % (tb,))
            return self.proj(b, e[1], len(tb[1])), tb[1][e[1]]
        if k == "tuple":
            parts = [self.ex(x, env, (want[1][j] if want and want[0] == "T" and j < len(want[1]) else None)) for j, x in enumerate(e[1])]
            return "(" + ", ".join(p[0] for p in parts) + ")", ("T", [p[1] for p in parts])
        if k == "range":
            if e[1] is None or e[2] is None or e[3]:
                raise Unsupported("range expression as a value")
            return self.ex(("tuple", [e[1], e[2]]), env, want)
        if k == "array":
            et = want[1] if want and want[0] == "S" else None
            parts = []
            for x in e[1]:
                s, t = self.ex(x, env, et)
                et = et or t
                parts.append((s, t))
            if any(t != et for _, t in parts):
                # an unsuffixed literal typed before the element type was known
                parts = [self.ex(x, env, et) for x in e[1]]
                if any(t != et for _, t in parts):
                    raise Unsupported("array literal with elements of different types")
            if et is None:
                raise Unsupported("empty array literal of unknown type")
            return "[" + ", ".join(p[0] for p in parts) + "]", ("S", et)
        if k == "arrayrep":
            et = want[1] if want and want[0] == "S" else None
            s, t = self.ex(e[1], env, et)
            n, tn = self.ex(e[2], env, ("U", 64))
            return "(List.replicate %s %s)" % (n, s), ("S", t)
        if k == "structlit":
            sname = self.self_ty if e[1] == "Self" else e[1]
            if sname not in self.structs_v:
                raise Unsupported("struct literal of %s (not listed under structs_v)" % sname)
            fields = dict(self.structs_v[sname])
            given = dict(e[2])
            parts = []
            for fn_, ft in self.structs_v[sname]:
                if fn_ not in given:
                    raise Unsupported("struct literal of %s without field %s" % (sname, fn_))
                s, t = self.ex(given[fn_], env, ft)
                if t != ft:
                    self.retry_for(given[fn_], t, ft)
                    raise Unsupported("field %s of %s: %r vs %r" % (fn_, sname, t, ft))
                parts.append("%s := %s" % (fn_, s))
            for fn_ in given:
                if fn_ not in fields:
                    raise Unsupported("field %s of %s is outside the generated structure" % (fn_, sname))
            return "({ %s } : %s)" % (", ".join(parts), sname), ("ST", sname)
        if k == "if":
            c, tc = self.ex(e[1], env, BOOL)
            if e[3] is None:
                raise Unsupported("if expression without else")
            (a, ta), ga = self.scoped(lambda: self.block_value(e[2], env, want))
            (b, tb), gb = self.scoped(lambda: self.block_value(e[3], env, want or ta))
            if want is None and ta != tb:
                # one branch was an unsuffixed literal typed by default: retype with the other
                (a, ta), ga = self.scoped(lambda: self.block_value(e[2], env, tb))
            if ta != tb:
                raise Unsupported("if branches of types %r and %r" % (ta, tb))
            if ga:
                self.guard("(!%s || (%s))" % (c, " && ".join(ga)))
            if gb:
                self.guard("(%s || (%s))" % (c, " && ".join(gb)))
            return "(if %s then %s else %s)" % (c, a, b), ta
        if k == "iflet":
            o, to = self.ex(e[2], env)
            if to[0] != "O":
                raise Unsupported("if let Some/Ok on %r" % (to,))
            if e[4] is None:
                raise Unsupported("if let expression without else")
            env2 = dict(env)
            binds = self.bind_pattern(e[1], "(Option.getD %s %s)" % (o, default_of(to[1])), to[1], env2)
            (a, ta), ga = self.scoped(lambda: self.block_value(e[3], env2, want))
            (b, tb), gb = self.scoped(lambda: self.block_value(e[4], env, want or ta))
            if ta != tb:
                raise Unsupported("if let branches of types %r and %r" % (ta, tb))
            if ga:
                self.guard("(!(Option.isSome %s) || (%s%s))" % (o, binds, " && ".join(ga)))
            if gb:
                self.guard("((Option.isSome %s) || (%s))" % (o, " && ".join(gb)))
            return "(if (Option.isSome %s) then (%s%s) else %s)" % (o, binds, a, b), ta
        if k == "ematch":
            return self.ex(self.ematch_to_if(e, env), env, want)
        if k == "block":
            return self.block_value(e[1], env, want)
        raise Unsupported("expression kind %s" % k)

    def ematch_to_if(self, e, env):
        """exhaustive `match` on a fieldless enum (no `_` arm): every variant must be covered"""
        _, ts = self.ex(e[1], env)
        if ts[0] != "E":
            raise Unsupported("match without a `_` arm on %r" % (ts,))
        covered = set()
        for pats, _ in e[2]:
            for pt in pats:
                if pt[0] != "path" or pt[1][-1] not in self.enums[ts[1]]:
                    raise Unsupported("match arm pattern on enum %s" % ts[1])
                covered.add(pt[1][-1])
        if covered != set(self.enums[ts[1]]):
            raise Unsupported("match on enum %s does not cover %s" % (ts[1], sorted(set(self.enums[ts[1]]) - covered)))
        node_else = e[2][-1][1]
        for pats, body in reversed(e[2][:-1]):
            node_else = [("expr", ("if", P.pat_cond(e[1], pats), body, node_else), False)]
        return node_else[0][1] if e[2][:-1] else ("block", node_else)

    def bind_pattern(self, pat, s, t, env):
        """lets (as one string, each ending in `; `) binding the names of `pat` to the value `s : t`"""
        if pat[0] == "pwild":
            return ""
        if pat[0] == "pvar":
            env[pat[1]] = (pat[1], t)
            return "let %s : %s := %s; " % (pat[1], lean_ty(t), s)
        if pat[0] == "ptuple":
            if t[0] != "T" or len(t[1]) != len(pat[1]):
                raise Unsupported("tuple pattern against %r" % (t,))
            out = ""
            for j, p in enumerate(pat[1]):
                out += self.bind_pattern(p, self.proj(s, j, len(pat[1])), t[1][j], env)
            return out
        raise Unsupported("pattern %s" % pat[0])

    def range_bounds(self, r, env, length):
        lo = "0"
        if r[1] is not None:
            lo, tl = self.ex(r[1], env, ("U", 64))
            if tl != ("U", 64):
                raise Unsupported("range bound of type %r" % (tl,))
        if r[2] is None:
            hi = length
        else:
            hi, th = self.ex(r[2], env, ("U", 64))
            if th != ("U", 64):
                raise Unsupported("range bound of type %r" % (th,))
            if r[3]:
                hi = "(%s + 1)" % hi
        return lo, hi

    def block_value(self, stmts, env, want):
        """a block used as a value: lets followed by a tail expression (no assignment to outer names, no return)"""
        env = dict(env)
        out = []

        def wrapg(gs):
            for g in gs:
                self.guard(("(" + " ".join(out) + " " + g + ")") if out else g)
        for j, st in enumerate(stmts):
            if st[0] == "let":
                (s, t), gs = self.scoped(lambda: self.ex(st[3], env, st[2]))
                wrapg(gs)
                if st[2] and st[2] != t:
                    raise Unsupported("let type mismatch %s" % st[1])
                out.append("let %s : %s := %s;" % (st[1], lean_ty(t), s))
                env[st[1]] = (st[1], t)
            elif st[0] == "assert":
                self.asserts.append(st[1])
                if st[2] is None:
                    self.guard("false /- unparsed assert -/")
                else:
                    (s, t), gs = self.scoped(lambda: self.ex(st[2], env, BOOL))
                    wrapg(gs + [s])
            elif st[0] == "expr" and not st[2] and j == len(stmts) - 1:
                (s, t), gs = self.scoped(lambda: self.ex(st[1], env, want))
                wrapg(gs)
                return "(" + " ".join(out) + " " + s + ")", t
            else:
                raise Unsupported("statement %s inside a value block" % st[0])
        raise Unsupported("value block without tail expression")

    def cast(self, s, t, to):
        if t == to:
            return s
        if t == BOOL:
            return "(if %s then %s else %s)" % (s, "1" if to[0] == "U" else "(1 : Int)", "0" if to[0] == "U" else "(0 : Int)")
        if t[0] == "E" and is_int(to):
            t = ("U", 64)
        if to == BOOL or to[0] not in "UI" or t[0] not in "UI":
            raise Unsupported("cast %r -> %r" % (t, to))
        if t[0] == "U" and to[0] == "U":
            return s if to[1] >= t[1] else "(%s %% %s)" % (s, pow2(to[1]))
        if t[0] == "I" and to[0] == "U":
            return "(BV.Rs.toU %d %s)" % (to[1], s)
        if t[0] == "U" and to[0] == "I":
            return ("((%s : Nat) : Int)" % s) if to[1] > t[1] else "(BV.Rs.wrapS %d ((%s : Nat) : Int))" % (to[1], s)
        return s if to[1] >= t[1] else "(BV.Rs.wrapS %d %s)" % (to[1], s)

    def in_range(self, t, s):
        if t[0] == "U":
            return "decide (%s < %s)" % (s, pow2(t[1]))
        return "decide ((%d : Int) ≤ %s) && decide (%s < (%d : Int))" % (-2 ** (t[1] - 1), s, s, 2 ** (t[1] - 1))

    def arith(self, op, a, b, t, tb=None, checked=False):
        if op in ("+", "*"):
            if checked:
                self.guard(self.in_range(t, "%s %s %s" % (a, op, b)))
            return wrap(t, "%s %s %s" % (a, op, b))
        if op == "-":
            if t[0] == "U":
                if checked:
                    self.guard("decide (%s ≤ %s)" % (b, a))
                return "((%s + %s - %s) %% %s)" % (a, pow2(t[1]), b, pow2(t[1]))
            if checked:
                self.guard(self.in_range(t, "%s - %s" % (a, b)))
            return wrap(t, "%s - %s" % (a, b))
        if op in ("/", "%"):
            self.guard("(%s != %s)" % (b, "0" if t[0] == "U" else "(0 : Int)"))
            if t[0] == "U":
                return "(%s %s %s)" % (a, op, b)
            if checked:
                self.guard("!(%s == (%d : Int) && %s == (-1 : Int))" % (a, -2 ** (t[1] - 1), b))
            return wrap(t, "Int.%s %s %s" % ("tdiv" if op == "/" else "tmod", a, b))
        if op in ("<<", ">>"):
            # shift amount: masked with width-1; may have any integer type
            if tb[0] == "I":
                amt = "(BV.Rs.toU 64 %s %% %d)" % (b, t[1])
                if checked:
                    self.guard("decide ((0 : Int) ≤ %s) && decide (%s < (%d : Int))" % (b, b, t[1]))
            else:
                amt = "(%s %% %d)" % (b, t[1])
                if checked:
                    self.guard("decide (%s < %d)" % (b, t[1]))
            if t[0] == "U":
                return ("((%s <<< %s) %% %s)" % (a, amt, pow2(t[1]))) if op == "<<" else "(%s >>> %s)" % (a, amt)
            return ("(BV.Rs.wrapS %d (%s * (2 : Int) ^ %s))" % (t[1], a, amt)) if op == "<<" else "(%s / (2 : Int) ^ %s)" % (a, amt)
        if op in ("&", "|", "^"):
            f = {"&": "&&&", "|": "|||", "^": "^^^"}[op]
            if t == BOOL:
                return "(%s %s %s)" % (a, {"&": "&&", "|": "||", "^": "^^"}[op], b)
            if t[0] == "U":
                return "(%s %s %s)" % (a, f, b)
            return "(BV.Rs.sop (fun x y => x %s y) %d %s %s)" % (f, t[1], a, b)
        raise Unsupported("operator %s" % op)

    def bin(self, e, env, want):
        op, l, r = e[1], e[2], e[3]
        if op in ("&&", "||"):
            a, _ = self.ex(l, env, BOOL)
            (b, _), gb = self.scoped(lambda: self.ex(r, env, BOOL))
            if gb:
                self.guard(("(!%s || (%s))" if op == "&&" else "(%s || (%s))") % (a, " && ".join(gb)))
            return "(%s %s %s)" % (a, op, b), BOOL
        if op in ("<<", ">>"):
            a, ta = self.ex(l, env, want)
            b, tb = self.ex(r, env, None if not (r[0] == "lit" and r[2] is None) else ("U", 32))
            if not is_int(ta) or not is_int(tb):
                raise Unsupported("shift of %r by %r" % (ta, tb))
            return self.arith(op, a, b, ta, tb, True), ta
        cmp_ = op in ("==", "!=", "<", ">", "<=", ">=")
        hint = None if cmp_ else want
        # type the side that knows its type first
        untyped = self.untyped
        if untyped(l) and not untyped(r):
            b, tb = self.ex(r, env, hint)
            a, ta = self.ex(l, env, tb)
        else:
            a, ta = self.ex(l, env, hint)
            b, tb = self.ex(r, env, ta)
        if ta != tb:
            for x, tx in ((l, tb), (r, ta)):
                if x[0] == "path" and len(x[1]) == 1 and x[1][0] in self.deflit and is_int(tx):
                    raise Retry(x[1][0], tx)
            raise Unsupported("operands of %s have types %r and %r" % (op, ta, tb))
        if cmp_:
            lop = {"==": "==", "!=": "!=", "<": "<", ">": ">", "<=": "≤", ">=": "≥"}[op]
            if op in ("==", "!="):
                return "(%s %s %s)" % (a, lop, b), BOOL
            if not is_int(ta) and ta[0] != "E":
                raise Unsupported("ordering of %r" % (ta,))
            return "(decide (%s %s %s))" % (a, lop, b), BOOL
        if not is_int(ta) and not (ta == BOOL and op in ("&", "|", "^")):
            raise Unsupported("operator %s on %r" % (op, ta))
        return self.arith(op, a, b, ta, None, True), ta

    @staticmethod
    def untyped(x):
        if x[0] == "lit" and x[2] is None:
            return True
        if x[0] == "path" and x[1] == ["None"]:
            return True
        if x[0] == "bin" and x[1] in ("<<", ">>"):
            return Tr.untyped(x[2])
        return x[0] == "bin" and x[1] not in ("&&", "||", "==", "!=", "<", ">", "<=", ">=") and Tr.untyped(x[2]) and Tr.untyped(x[3])

    def method(self, e, env, want):
        m, recv, args = e[1], e[2], e[3]
        if m == "contains" and recv[0] == "rangei" and len(args) == 1:
            x, tx = self.ex(args[0], env)
            lo, tl = self.ex(recv[1], env, tx)
            hi, th = self.ex(recv[2], env, tx)
            if not (tl == tx == th):
                raise Unsupported("range bounds and element have different types")
            return "((decide (%s ≤ %s)) && (decide (%s ≤ %s)))" % (lo, x, x, hi), BOOL
        if m in self.fns and self.fns[m].rparams and self.fns[m].rparams[0][0] == "self" and not (
                m in ("min", "max", "len")):
            return self.call_fn(m, [recv] + list(args), env, want)
        a, ta = self.ex(recv, env, want if m not in ("len", "is_some", "is_none", "unwrap", "unwrap_or", "is_ok", "is_err") else None)
        W = {"wrapping_add": "+", "wrapping_sub": "-", "wrapping_mul": "*", "wrapping_div": "/", "wrapping_rem": "%",
             "wrapping_shl": "<<", "wrapping_shr": ">>"}
        if m in W:
            if W[m] in ("<<", ">>"):
                b, tb = self.ex(args[0], env, ("U", 32))
                return self.arith(W[m], a, b, ta, tb), ta
            b, tb = self.ex(args[0], env, ta)
            if tb != ta:
                raise Unsupported("%s: %r vs %r" % (m, ta, tb))
            return self.arith(W[m], a, b, ta), ta
        if m == "leading_zeros" and ta[0] == "U":
            return "(BV.Rs.clz %d %s)" % (ta[1], a), ("U", 32)
        if m == "trailing_zeros" and ta[0] == "U":
            return "(BV.Rs.ctz %d %s)" % (ta[1], a), ("U", 32)
        if m in ("min", "max") and ta[0] in "UI":
            b, tb = self.ex(args[0], env, ta)
            return "(%s %s %s)" % (m, a, b), ta
        if m == "into" and not args and want is not None:
            return self.cast(a, ta, want), want
        if m in ("saturating_sub",) and ta[0] == "U":
            b, tb = self.ex(args[0], env, ta)
            return "(%s - %s)" % (a, b), ta
        if m == "len" and ta[0] == "S" and not args:
            return "(List.length %s)" % a, ("U", 64)
        if m in ("clone", "to_owned") and not args:
            return a, ta
        if m in ("split_at", "split_at_mut") and ta[0] == "S" and len(args) == 1 and recv[0] != "un":
            n, tn = self.ex(args[0], env, ("U", 64))
            if tn != ("U", 64):
                raise Unsupported("split_at argument type")
            self.guard("decide (%s ≤ List.length %s)" % (n, a))
            return "((BV.Rs.slice %s 0 %s), (BV.Rs.slice %s %s (List.length %s)))" % (a, n, a, n, a), ("T", [ta, ta])
        if ta[0] == "O":
            if m in ("is_some", "is_ok") and not args:
                return "(Option.isSome %s)" % a, BOOL
            if m in ("is_none", "is_err") and not args:
                return "(!(Option.isSome %s))" % a, BOOL
            if m == "unwrap" and not args:
                self.guard("(Option.isSome %s)" % a)
                return "(Option.getD %s %s)" % (a, default_of(ta[1])), ta[1]
            if m == "unwrap_or" and len(args) == 1:
                d, td = self.ex(args[0], env, ta[1])
                if td != ta[1]:
                    raise Unsupported("unwrap_or default type")
                return "(Option.getD %s %s)" % (a, d), ta[1]
        raise Unsupported("method %s on %r" % (m, ta))

    def call(self, e, env, want):
        path, args = e[1], e[2]
        name = path[-1]
        if name in ("min", "max") and len(args) == 2 and name not in self.fns:
            a, ta = self.ex(args[0], env, want)
            b, tb = self.ex(args[1], env, ta)
            if ta != tb:
                raise Unsupported("min/max operand types")
            return "(%s %s %s)" % (name, a, b), ta
        if name in ("Ok", "Some") and len(path) == 1 and len(args) == 1:
            inner = want[1] if want and want[0] == "O" else None
            v, tv = self.ex(args[0], env, inner)
            return "(some %s)" % v, ("O", tv)
        if name == "Err" and len(path) == 1:
            if not (want and want[0] == "O"):
                raise Unsupported("Err(..) without a known result type")
            return "none", want
        if name == "from" and len(path) == 2 and path[0] in INT_TYPES and len(args) == 1:
            s, t = self.ex(args[0], env)
            return self.cast(s, t, INT_TYPES[path[0]]), INT_TYPES[path[0]]
        if len(path) >= 2:
            q = "%s::%s" % (self.self_ty if path[-2] == "Self" else path[-2], name)
            if q in self.fns:
                return self.call_fn(q, args, env, want)
        if name in self.fns:
            return self.call_fn(name, args, env, want)
        raise Unsupported("call of %s" % "::".join(path))

    def call_args(self, name, sig, args, env):
        """Lean argument strings for a call of a translated function; returns (strings, [names of &mut roots])"""
        ss, outs = [], []
        if len(args) != len(sig.rparams):
            raise Unsupported("call of %s: arity" % name)
        for a, (pn, mode, pt, flat) in zip(args, sig.rparams):
            if flat is not None:
                b, tb = self.ex(a, env)
                if tb[0] == "ST" and tb[1] in self.structs_v or tb[0] == "ST" and tb[1] == "Self":
                    for fn_, ft in flat:
                        if self.field_ty(tb, fn_) != ft:
                            raise Unsupported("call of %s: field %s type" % (name, fn_))
                        ss.append("%s.%s" % (b, fn_))
                elif tb[0] == "STF":
                    for fn_, ft in flat:
                        key = b + "_" + fn_
                        if key not in env:
                            raise Unsupported("call of %s: field %s of %s is not available in the caller" % (name, fn_, b))
                        ss.append(env[key][0])
                else:
                    raise Unsupported("call of %s: struct argument %r" % (name, tb))
                continue
            if mode == "mut":
                root, accs, t = self.lvalue(a, env)
                if len(env[root]) != 2:
                    raise Unsupported("call of %s: &mut argument through an alias" % name)
                outs.append((root, accs))
                if accs:
                    sv = self.read_lv(env, root, accs)
                    if t != pt:
                        raise Unsupported("argument of %s: %r vs %r" % (name, t, pt))
                    ss.append(sv)
                    continue
                a = ("path", [root])
            sv, t = self.ex(a, env, pt)
            if t != pt and not (t[0] == "ST" and pt[0] == "ST" and self.struct_of(t)[0] == self.struct_of(pt)[0]):
                raise Unsupported("argument of %s: %r vs %r" % (name, t, pt))
            ss.append(sv)
        return ss, outs

    def call_fn(self, name, args, env, want):
        """a call in expression position: the callee has no out-parameters and is not a writer"""
        self.note_callee(name)
        sig = self.fns[name]
        if sig.outs or sig.writer:
            raise Unsupported("call of %s (out-parameters / bit writer) inside an expression" % name)
        ss, _ = self.call_args(name, sig, args, env)
        if sig.has_guards:
            if not sig.safe and self.okmode:
                raise Unsupported("`_ok` needs %s_ok: mark %s \"safe\"" % (sig.lean_name, name))
            self.guard("(%s_ok %s)" % (sig.lean_name, " ".join(ss)) if ss else "%s_ok" % sig.lean_name)
        return ("(%s %s)" % (sig.lean_name, " ".join(ss)) if ss else sig.lean_name), sig.ret

    # ---- analysis of statement lists
    def assigned(self, node, env):
        """names of `env` that the statements may assign (over-approximation), in env order"""
        hit = set()
        alias = {}

        def root_of(x):
            r = lv_root(x)
            while r in alias:
                r = alias[r]
            if r is not None and r in env and len(env[r]) == 3:
                r = env[r][2][0]
            return r

        def f(n):
            k = n[0] if n else None
            if k == "assign":
                hit.add(root_of(n[1]))
            elif k == "let" and isinstance(n[3], tuple) and n[3][0] == "un" and n[3][1] == "&mut":
                alias[n[1]] = lv_root(n[3])
            elif k == "let" and isinstance(n[3], tuple) and n[3][0] == "path" and len(n[3][1]) == 1 and n[3][1][0] in env \
                    and len(env[n[3][1][0]]) == 3:
                alias[n[1]] = n[3][1][0]
            elif k == "call":
                name = n[1][-1]
                if name in ("BrotliWriteBits", "JumpToByteBoundary") and "w_" in env:
                    hit.add("w_")
                if name == "replace" and n[2]:
                    hit.add(root_of(n[2][0]))
                sig = self.fns.get(name)
                if sig is not None:
                    if sig.writer:
                        hit.add("w_")
                    plain = [a for a in n[2] if not self.is_sink(a)]
                    for a, rp in zip(plain, sig.rparams):
                        if rp[1] == "mut":
                            hit.add(root_of(a))
                for a in n[2]:
                    if isinstance(a, tuple) and a[0] == "un" and a[1] == "&mut":
                        hit.add(root_of(a))
            elif k == "method":
                sig = self.fns.get(n[1])
                if sig is not None and sig.rparams and sig.rparams[0][0] == "self":
                    if sig.rparams[0][1] == "mut":
                        hit.add(root_of(n[2]))
                    if sig.writer:
                        hit.add("w_")
                    for a, rp in zip(n[3], sig.rparams[1:]):
                        if rp[1] == "mut":
                            hit.add(root_of(a))
                if n[1] in ("take", "clone_from_slice", "copy_from_slice", "push", "swap"):
                    hit.add(root_of(n[2]))
        walk(node, f)
        out = [v for v in env if v in hit and len(env[v]) == 2]
        if self.okmode and "ok_" not in out:
            out.append("ok_")
        return out

    def is_sink(self, a):
        a = a[2] if a[0] == "un" else a
        return a[0] == "path" and len(a[1]) == 1 and a[1][0] in self.sinks

    @staticmethod
    def escapes(node, loop_level=True):
        """(has return, has break/continue belonging to the enclosing loop)"""
        ret = [False]
        brk = [False]
        Tr.last_has_break = False

        def visit(n, inloop):
            if isinstance(n, list):
                for x in n:
                    visit(x, inloop)
                return
            if not isinstance(n, tuple) or not n:
                return
            k = n[0]
            if k in ("return", "ret"):
                ret[0] = True
            if k in ("break", "continue", "brk", "cont") and not inloop:
                brk[0] = True
                if k in ("break", "brk"):
                    Tr.last_has_break = True
            for x in n[1:]:
                visit(x, inloop or k in ("while", "for"))
        visit(node, False)
        return ret[0], brk[0]

    def tuple_of(self, env, vars_):
        if not vars_:
            return "()", "Unit"
        if len(vars_) == 1:
            return env[vars_[0]][0], lean_ty(env[vars_[0]][1])
        return "(" + ", ".join(env[v][0] for v in vars_) + ")", " × ".join(lean_ty(env[v][1], True) for v in vars_)

    def pat_of(self, env, vars_):
        if not vars_:
            return "_u"
        if len(vars_) == 1:
            return env[vars_[0]][0]
        return "(" + ", ".join(env[v][0] for v in vars_) + ")"

    # ---- statement sequences -> one Lean expression
    def seq(self, stmts, env, rest, ctx):
        """stmts ++ rest (rest: list of frames (statement list, env to restore or None), innermost first)"""
        if not stmts:
            if rest:
                (nstmts, outer), rest2 = rest[0], rest[1:]
                if outer is not None:
                    new = dict(outer)
                    for n_, ent in outer.items():
                        # a variable declared without a value outside and first assigned inside the block
                        if len(ent) == 2 and (ent[1] is None or ent[1][0] == "?") and n_ in env and env[n_][0] == ent[0]:
                            new[n_] = env[n_]
                    env = new
                return self.seq(nstmts, env, rest2, ctx)
            return ctx.fall(env)
        st, tail = stmts[0], stmts[1:]
        k = st[0]
        if k == "use_enum":
            if st[1] not in self.enums:
                raise Unsupported("glob import of %s, which is not a configured fieldless enum" % st[1])
            if st[1] not in self.glob_enums:
                self.glob_enums = self.glob_enums + [st[1]]
            return self.seq(tail, env, rest, ctx)
        if k == "assert":
            self.asserts.append(st[1])
            if st[2] is None:
                self.guard("false /- unparsed assert -/")
            else:
                try:
                    s, _ = self.ex(st[2], env, BOOL)
                    self.guard(s)
                except Unsupported:
                    self.guard("false /- untranslated assert -/")
            pre = self.flush(env)
            return pre + self.seq(tail, env, rest, ctx)
        if k == "letu":
            env2 = dict(env)
            env2[st[1]] = (self.decl_name(st[1], env), ("?", st[2]) if st[2] else None)
            return self.seq(tail, env2, rest, ctx)
        if k in ("let", "letp"):
            return self.let_stmt(st, tail, env, rest, ctx)
        if k == "assign":
            return self.assign_stmt(st, tail, env, rest, ctx)
        if k == "return":
            return self.return_stmt(st[1], env, ctx)
        if k == "break":
            if ctx.brk is None:
                raise Unsupported("break outside a loop")
            return ctx.brk(env)
        if k == "continue":
            if ctx.cont is None:
                raise Unsupported("continue outside a loop")
            return ctx.cont(env)
        if k in ("while", "for"):
            return self.loop_stmt(st, tail, env, rest, ctx)
        if k == "expr" and st[1][0] == "ret":
            return self.return_stmt(st[1][1], env, ctx)
        if k == "expr" and st[1][0] == "brk":
            return self.seq([("break",)], env, rest, ctx)
        if k == "expr" and st[1][0] == "cont":
            return self.seq([("continue",)], env, rest, ctx)
        if k == "expr" and st[1][0] in ("call", "method") and (st[2] or (not tail and all(not f[0] for f in rest) and ctx.ret_t is None)):
            r = self.effect_call(st[1], env)
            if r is not None:
                pre, val, t, env2 = r
                if t is not None and t != UNIT and not (st[2]):
                    raise Unsupported("call in statement position discards its result")
                return pre + self.seq(tail, env2, rest, ctx)
        if k == "expr":
            e = st[1]
            is_last = not tail and all(not f[0] for f in rest)
            if e[0] == "ematch":
                e = self.ematch_to_if(e, env)
            if e[0] in ("if", "iflet") and (st[2] or not is_last or ctx.ret_t is None or self.has_effect(e)):
                return self.if_stmt(e, tail, env, rest, ctx)
            if e[0] == "block" and (st[2] or not is_last or self.has_effect(("if", None, e[1], None))):
                return self.seq(e[1], env, [(tail, dict(env))] + rest, ctx)
            if not st[2] and is_last:
                return self.return_stmt(e, env, ctx, tail_pos=True)
            raise Unsupported("expression statement %r" % (st,))
        raise Unsupported("statement %s" % k)

    def decl_name(self, name, env):
        """Lean name for a Rust `let name`: fresh when it would capture a variable carried by an enclosing merged
        `if` / loop state, or one the continuation of an enclosing duplicated branch still reads"""
        for vs in self.protected:
            if name in vs:
                raise Unsupported("`let %s` shadows a variable carried through the enclosing if / loop" % name)
        return name

    def return_stmt(self, e, env, ctx, tail_pos=False):
        if e is None:
            pre = self.flush(env)
            return pre + ctx.final(env, None)
        if ctx.ret_t is None:
            raise Unsupported("value returned from a function without result type")
        pre_st, e2 = self.hoist_blocks(e, [], env)
        if pre_st:
            return self.seq(pre_st + [("return", e2)], env, [], ctx)
        if e[0] in ("call", "method"):
            r = self.effect_call(e, env)
            if r is not None:
                pre, val, t, env2 = r
                if t != ctx.ret_t:
                    raise Unsupported("return type %r vs %r" % (t, ctx.ret_t))
                return pre + ctx.final(env2, val)
        s, t = self.ex(e, env, ctx.ret_t)
        if t != ctx.ret_t:
            self.retry_for(e, t, ctx.ret_t)
            raise Unsupported(("tail type %r vs %r" if tail_pos else "return type %r vs %r") % (t, ctx.ret_t))
        pre = self.flush(env)
        return pre + ctx.final(env, s)

    def retry_for(self, e, t, want):
        if e[0] == "path" and len(e[1]) == 1 and e[1][0] in self.deflit and is_int(want) and t != want:
            raise Retry(e[1][0], want)
        if e[0] == "tuple" and t[0] == "T" and want[0] == "T" and len(t[1]) == len(want[1]) == len(e[1]):
            for x, tx, wx in zip(e[1], t[1], want[1]):
                self.retry_for(x, tx, wx)

    def effect_call(self, e, env):
        """a call with effects on variables (writer primitive, writer function, `&mut` arguments, `&mut self` method,
        `Option::take`, `mem::replace`, `clone_from_slice`): (lets, value string or None, type, new env); None when the
        call is an ordinary expression"""
        WR = "w_"
        if e[0] == "call":
            path, args = e[1], e[2]
            name = path[-1]
            if name == "BrotliWriteBits" and len(args) == 4 and self.is_sink(args[2]) and self.is_sink(args[3]) and WR in env:
                n, tn = self.ex(args[0], env, ("U", 8))
                v, tv = self.ex(args[1], env, ("U", 64))
                if tn[0] != "U" or tv != ("U", 64):
                    raise Unsupported("BrotliWriteBits argument types %r %r" % (tn, tv))
                pre = self.flush(env)
                return pre + "let %s := %s ++ [BV.Rs.WOp.bits %s %s]\n" % (WR, WR, n, v), None, None, env
            if name == "JumpToByteBoundary" and len(args) == 2 and self.is_sink(args[0]) and self.is_sink(args[1]) and WR in env:
                return "let %s := %s ++ [BV.Rs.WOp.align]\n" % (WR, WR), None, None, env
            if name == "replace" and len(path) >= 2 and path[-2] == "mem" and len(args) == 2:
                root, accs, t = self.lvalue(args[0], env)
                old = self.read_lv(env, root, accs)
                v, tv = self.ex(args[1], env, t)
                if tv != t:
                    raise Unsupported("mem::replace types")
                tmp = self.fresh("old")
                new = self.write_lv(env, root, accs, v)
                pre = self.flush(env)
                env2 = dict(env)
                env2[tmp] = (tmp, t)
                return pre + "let %s : %s := %s\nlet %s : %s := %s\n" % (tmp, lean_ty(t), old, env[root][0], lean_ty(env[root][1]), new), tmp, t, env2
            if name not in self.fns:
                return None
            sig = self.fns[name]
            recv_args = args
        else:
            m, recv, args = e[1], e[2], e[3]
            if m == "take" and not args:
                root, accs, t = self.lvalue(recv, env)
                if t[0] != "O":
                    raise Unsupported("take() on %r" % (t,))
                old = self.read_lv(env, root, accs)
                tmp = self.fresh("taken")
                new = self.write_lv(env, root, accs, "none")
                pre = self.flush(env)
                env2 = dict(env)
                env2[tmp] = (tmp, t)
                return pre + "let %s : %s := %s\nlet %s : %s := %s\n" % (tmp, lean_ty(t), old, env[root][0], lean_ty(env[root][1]), new), tmp, t, env2
            if m == "swap" and len(args) == 2:
                root, accs, t = self.lvalue(recv, env)
                if t[0] != "S":
                    raise Unsupported("swap on %r" % (t,))
                cur = self.read_lv(env, root, accs)
                a, ta = self.ex(args[0], env, ("U", 64))
                b, tb = self.ex(args[1], env, ("U", 64))
                if ta != ("U", 64) or tb != ("U", 64):
                    raise Unsupported("swap index types")
                self.guard("decide (%s < List.length %s) && decide (%s < List.length %s)" % (a, cur, b, cur))
                d = default_of(t[1])
                val = "(List.set (List.set %s %s (List.getD %s %s %s)) %s (List.getD %s %s %s))" % (cur, a, cur, b, d, b, cur, a, d)
                (new, _g) = self.scoped(lambda: self.write_lv(env, root, accs, val))
                pre = self.flush(env)
                return pre + "let %s : %s := %s\n" % (env[root][0], lean_ty(env[root][1]), new), None, None, env
            if m in ("clone_from_slice", "copy_from_slice") and len(args) == 1:
                src, ts = self.ex(args[0], env)
                if recv[0] == "index" and recv[2][0] == "range":
                    root, accs, t = self.lvalue(recv[1], env)
                    cur = self.read_lv(env, root, accs)
                    lo, hi = self.range_bounds(recv[2], env, "(List.length %s)" % cur)
                    self.guard("decide (%s ≤ %s) && decide (%s ≤ List.length %s) && (%s - %s == List.length %s)" % (lo, hi, hi, cur, hi, lo, src))
                    val = "(BV.Rs.splice %s %s %s)" % (cur, lo, src)
                else:
                    root, accs, t = self.lvalue(recv, env)
                    cur = self.read_lv(env, root, accs)
                    self.guard("(List.length %s == List.length %s)" % (cur, src))
                    val = src
                if t != ts or t[0] != "S":
                    raise Unsupported("clone_from_slice types %r %r" % (t, ts))
                new = self.write_lv(env, root, accs, val)
                pre = self.flush(env)
                return pre + "let %s : %s := %s\n" % (env[root][0], lean_ty(env[root][1]), new), None, None, env
            if m not in self.fns or not self.fns[m].rparams or self.fns[m].rparams[0][0] != "self":
                return None
            name, sig = m, self.fns[m]
            recv_args = [recv] + list(args)
        if not sig.outs and not sig.writer:
            return None
        self.note_callee(name)
        plain = [a for a in recv_args if not self.is_sink(a)]
        if sig.writer != (len(plain) != len(recv_args)):
            raise Unsupported("call of %s: writer arguments do not match" % name)
        if sig.writer and WR not in env:
            raise Unsupported("call of writer %s from a non-writer" % name)
        ss, out_names = self.call_args(name, sig, plain, env)
        if len(out_names) != len(sig.outs):
            raise Unsupported("call of %s: out-parameters" % name)
        if sig.has_guards:
            if not sig.safe and self.okmode:
                raise Unsupported("`_ok` needs %s_ok: mark %s \"safe\"" % (sig.lean_name, name))
            self.guard("(%s_ok %s)" % (sig.lean_name, " ".join(ss)) if ss else "%s_ok" % sig.lean_name)
        binders = []
        val = None
        env2 = dict(env)
        if sig.ret is not None:
            val = self.fresh("r")
            binders.append(val)
            env2[val] = (val, sig.ret)
        post = ""
        for (root, accs), (on, ot) in zip(out_names, sig.outs):
            if not accs:
                binders.append(env[root][0])
            else:
                tmp = self.fresh("out")
                binders.append(tmp)
                (new, _g) = self.scoped(lambda: self.write_lv(env, root, accs, tmp))
                post += "let %s : %s := %s\n" % (env[root][0], lean_ty(env[root][1]), new)
        binders += ([("%s_new" % WR)] if sig.writer else [])
        callee = "(%s %s)" % (sig.lean_name, " ".join(ss)) if ss else sig.lean_name
        pre = self.flush(env)
        pre += "let %s := %s\n" % (binders[0] if len(binders) == 1 else "(" + ", ".join(binders) + ")", callee)
        pre += post
        if sig.writer:
            pre += "let %s := %s ++ %s_new\n" % (WR, WR, WR)
        return pre, val, sig.ret, env2

    def hoist_blocks(self, e, tail, env):
        """`f(a, { effects; v })`: statements to run first and the expression with the block replaced"""
        if e[0] not in ("call", "method"):
            return [], e
        args = list(e[2] if e[0] == "call" else e[3])
        idx = [j for j, a in enumerate(args) if a[0] == "block" and self.has_effect(("if", None, a[1], None))]
        if not idx:
            return [], e
        pre = []
        last = idx[-1]
        for j in range(last + 1):
            a = args[j]
            tmp = self.fresh("arg")
            if a[0] == "block" and j in idx:
                body = a[1]
                if not body or body[-1][0] != "expr" or body[-1][2]:
                    raise Unsupported("block argument without a value")
                for st in body[:-1]:
                    if st[0] in ("let", "letu") and (uses_name(tail, st[1])):
                        raise Unsupported("block argument declares %s, which the following statements use" % st[1])
                pre += list(body[:-1]) + [("let", tmp, None, body[-1][1])]
            else:
                if a[0] == "un" and a[1] == "&mut":
                    continue
                pre.append(("let", tmp, None, a))
            args[j] = ("path", [tmp])
        new = (e[0], e[1], args) if e[0] == "call" else (e[0], e[1], e[2], args)
        return pre, new

    def let_stmt(self, st, tail, env, rest, ctx):
        init = st[3]
        ty = st[2]
        pre_st, init2 = self.hoist_blocks(init, tail, env)
        if pre_st:
            return self.seq(pre_st + [(st[0], st[1], ty, init2)] + tail, env, rest, ctx)
        # `let x = &mut a[i];` / `let d = &mut p.dist;` : an alias with the index frozen now
        if st[0] == "let" and init[0] == "un" and init[1] == "&mut":
            root, accs, t = self.lvalue(init[2], env)
            pre = ""
            frozen = []
            env2 = dict(env)
            for a in accs:
                if a[0] == "i":
                    tmp = self.fresh("ix")
                    pre += "let %s : Nat := %s\n" % (tmp, a[1])
                    env2[tmp] = (tmp, ("U", 64))
                    frozen.append(("i", tmp, a[2]))
                else:
                    frozen.append(a)
            self.guards = [g for g in self.guards]   # the index guard is emitted at each use
            g = self.flush(env)
            env2[st[1]] = (None, t, (root, frozen))
            return g + pre + self.seq(tail, env2, rest, ctx)
        # diverging initialiser: `let p = if c { v } else { return .. };` / `match x { Ok(v) => v, Err(_) => return .. }`
        if init[0] in ("if", "iflet") and self.diverges(init):
            return self.if_stmt(self.push_let(init, st), tail, env, rest, ctx)
        if init[0] in ("call", "method"):
            r = self.effect_call(init, env)
            if r is not None:
                pre, val, t, env2 = r
                if val is None:
                    raise Unsupported("let bound to a call without value")
                return pre + self.bind_let(st, val, t, tail, env2, rest, ctx)
        if init[0] == "block" and self.has_effect(("if", None, init[1], None)):
            body = init[1]
            if not body or body[-1][0] != "expr" or body[-1][2]:
                raise Unsupported("block initialiser without a value")
            for s_ in body[:-1]:
                if s_[0] in ("let", "letu") and uses_name(tail, s_[1]):
                    raise Unsupported("block initialiser declares %s, which the following statements use" % s_[1])
            return self.seq(list(body[:-1]) + [(st[0], st[1], ty, body[-1][1])] + tail, env, rest, ctx)
        if st[0] == "let" and ty is None and self.untyped(init) and init[0] != "path":
            if st[1] in self.lit_override:
                ty = self.lit_override[st[1]]
            else:
                self.deflit.add(st[1])
        elif st[0] == "let":
            self.deflit.discard(st[1])
        s, t = self.ex(init, env, ty)
        if ty and ty != t:
            raise Unsupported("let %s: annotated %r, value %r" % (st[1], ty, t))
        pre = self.flush(env)
        return pre + self.bind_let(st, s, t, tail, env, rest, ctx)

    def bind_let(self, st, s, t, tail, env, rest, ctx):
        env2 = dict(env)
        if st[0] == "let":
            ln = self.decl_name(st[1], env)
            env2[st[1]] = (ln, t)
            return "let %s : %s := %s\n%s" % (ln, lean_ty(t), s, self.seq(tail, env2, rest, ctx))
        names = []
        walk(st[1], lambda n: names.append(n[1]) if n and n[0] == "pvar" else None)
        for n_ in names:
            self.decl_name(n_, env)
        tmp = self.fresh("t")
        binds = self.bind_pattern(st[1], tmp, t, env2)
        lines = "let %s : %s := %s\n" % (tmp, lean_ty(t), s)
        lines += "".join(b + "\n" for b in binds.split("; ") if b)
        return lines + self.seq(tail, env2, rest, ctx)

    @staticmethod
    def diverges(e):
        def block_div(b):
            if not b:
                return False
            last = b[-1]
            if last[0] in ("return", "break", "continue"):
                return True
            return last[0] == "expr" and last[1][0] in ("ret", "brk", "cont")
        a = e[2] if e[0] == "if" else e[3]
        b = e[3] if e[0] == "if" else e[4]
        return block_div(a) or block_div(b or [])

    @staticmethod
    def push_let(init, st):
        """move `let pat = ` into the non-diverging branches of an if / if-let initialiser"""
        def conv(b):
            if not b:
                raise Unsupported("initialiser branch without value")
            last = b[-1]
            if last[0] in ("return", "break", "continue") or (last[0] == "expr" and last[1][0] in ("ret", "brk", "cont")):
                return list(b)
            if last[0] == "expr" and not last[2]:
                if last[1][0] in ("if", "iflet") and Tr.diverges(last[1]):
                    return list(b[:-1]) + [("expr", Tr.push_let(last[1], st), True)]
                return list(b[:-1]) + [(st[0], st[1], st[2], last[1]), ("__leak",)]
            raise Unsupported("initialiser branch without value")
        if init[0] == "if":
            return ("if", init[1], conv(init[2]), conv(init[3] or []))
        return ("iflet", init[1], init[2], conv(init[3]), conv(init[4] or []))

    def assign_stmt(self, st, tail, env, rest, ctx):
        lhs, rhs = st[1], st[2]
        compound = rhs[0] == "bin" and rhs[2] is st[1]
        pre_st, rhs2 = self.hoist_blocks(rhs if not compound else rhs[3], tail, env)
        if pre_st:
            new_rhs = rhs2 if not compound else ("bin", rhs[1], lhs, rhs2)
            return self.seq(pre_st + [("assign", lhs, new_rhs)] + tail, env, rest, ctx)
        # first assignment of a variable declared without a value
        if lhs[0] == "path" and len(lhs[1]) == 1 and lhs[1][0] in env and len(env[lhs[1][0]]) == 2 and \
                (env[lhs[1][0]][1] is None or env[lhs[1][0]][1][0] == "?"):
            name = lhs[1][0]
            want = env[name][1][1] if env[name][1] else None
            r = self.effect_call(rhs, env) if rhs[0] in ("call", "method") else None
            if r is not None:
                pre, s, t, env = r
            else:
                if want is None and name in self.lit_override:
                    want = self.lit_override[name]
                elif want is None and self.untyped(rhs) and rhs[0] != "path":
                    if name in self.lit_override:
                        want = self.lit_override[name]
                    else:
                        self.deflit.add(name)
                s, t = self.ex(rhs, env, want)
                pre = self.flush(env)
            if want and t != want:
                raise Unsupported("assignment to %s: %r vs %r" % (name, want, t))
            env2 = dict(env)
            env2[name] = (env[name][0], t)
            return pre + "let %s : %s := %s\n%s" % (env[name][0], lean_ty(t), s, self.seq(tail, env2, rest, ctx))
        root, accs, t = self.lvalue(lhs, env)
        if len(env[root]) != 2:
            raise Unsupported("assignment target")
        if compound:
            cur = self.read_lv(env, root, accs)
            op = rhs[1]
            if op in ("<<", ">>"):
                b, tb = self.ex(rhs[3], env, None if not (rhs[3][0] == "lit" and rhs[3][2] is None) else ("U", 32))
                s, t2 = self.arith(op, cur, b, t, tb, True), t
            else:
                b, tb = self.ex(rhs[3], env, t)
                if tb != t:
                    raise Unsupported("operands of %s= have types %r and %r" % (op, t, tb))
                s, t2 = self.arith(op, cur, b, t, None, True), t
            pre0 = ""
        else:
            r = self.effect_call(rhs, env) if rhs[0] in ("call", "method") else None
            if r is not None:
                pre0, s, t2, env = r
            else:
                pre0 = ""
                s, t2 = self.ex(rhs, env, t)
        if t2 != t:
            if root in self.deflit and not accs and is_int(t2):
                raise Retry(root, t2)
            raise Unsupported("assignment to %s: %r vs %r" % (root, t, t2))
        new = self.write_lv(env, root, accs, s)
        pre = self.flush(env)
        env2 = dict(env)
        env2[root] = (env[root][0], env[root][1])
        return pre0 + pre + "let %s : %s := %s\n%s" % (env[root][0], lean_ty(env[root][1]), new, self.seq(tail, env2, rest, ctx))

    def if_stmt(self, e, tail, env, rest, ctx):
        if e[0] == "iflet":
            o, to = self.ex(e[2], env)
            if to[0] != "O":
                raise Unsupported("if let Some/Ok on %r" % (to,))
            pre = self.flush(env)
            tmp = self.fresh("opt")
            envb = dict(env)
            envb[tmp] = (tmp, to)
            inner = self.fresh("some")
            then = [("__bind", e[1], "(Option.getD %s %s)" % (tmp, default_of(to[1])), to[1])] + list(e[3])
            c = "(Option.isSome %s)" % tmp
            return pre + "let %s : %s := %s\n" % (tmp, lean_ty(to), o) + self.if_core(c, then, e[4], tail, envb, rest, ctx)
        c, _ = self.ex(e[1], env, BOOL)
        pre = self.flush(env)
        return pre + self.if_core(c, e[2], e[3], tail, env, rest, ctx)

    def if_core(self, c, then, els, tail, env, rest, ctx):
        els = els or []
        node = ("if", None, then, els)
        has_ret, has_brk = self.escapes([then, els])
        leak = any(s and s[0] == "__leak" for b in (then, els) for s in b)
        cont_len = len(tail) + sum(len(f[0]) for f in rest)
        small = cont_len == 0 or (cont_len == 1 and not rest and tail[0][0] in ("expr", "return") and
                                  not (tail[0][0] == "expr" and tail[0][1][0] in ("if", "iflet", "ematch", "block", "call", "method")))
        if has_ret or has_brk or leak or small:
            # the continuation is duplicated into both branches
            frame = (tail, None if leak else dict(env))
            a = self.seq_branch(then, env, [frame] + rest, ctx)
            b = self.seq_branch(els, env, [frame] + rest, ctx)
            return "if %s then\n%s\nelse\n%s" % (c, indent(a), indent(b))
        # merged: the variables either branch assigns become the value of the `if`
        vars_ = self.assigned([then, els], env)
        ends = []

        def fall(env_):
            ends.append(env_)
            return "\0"      # placeholder for the tuple, filled in once both branches are known
        bctx = Ctx(ctx.ret_t, None, None, fall)
        self.protected.append(set(vars_))
        try:
            a = self.seq_branch(then, env, [], bctx)
            b = self.seq_branch(els, env, [], bctx)
        finally:
            self.protected.pop()
        # variables declared without a value and assigned in both branches
        typed = {}
        for v in vars_:
            ts = [en[v][1] for en in ends]
            if any(t is None or t[0] == "?" for t in ts):
                if all(t is None or t[0] == "?" for t in ts):
                    typed[v] = None
                    continue
                raise Unsupported("%s is assigned in one branch only before its first use" % v)
            if any(t != ts[0] for t in ts):
                good = [t for t in ts if "('I', 32)" not in repr(t)]
                if good and v not in self.lit_override and all(t == good[0] for t in good):
                    raise Retry(v, good[0])
                raise Unsupported("%s has different types in the branches" % v)
            typed[v] = ts[0]
        vars_ = [v for v in vars_ if typed[v] is not None]
        if not vars_:
            return self.seq(tail, env, rest, ctx)
        env2 = dict(env)
        for v in vars_:
            env2[v] = (env[v][0], typed[v])
        tup, tty = self.tuple_of(env2, vars_)
        a = a.replace("\0", tup)
        b = b.replace("\0", tup)
        if len(vars_) == 1:
            head = "let %s : %s := (if %s then\n%s\nelse\n%s)\n" % (tup, tty, c, indent(a), indent(b))
        else:
            head = "let %s := ((if %s then\n%s\nelse\n%s) : %s)\n" % (tup, c, indent(a), indent(b), tty)
        return head + self.seq(tail, env2, rest, ctx)

    def seq_branch(self, stmts, env, rest, ctx):
        stmts = list(stmts)
        if stmts and stmts[0][0] == "__bind":
            _, pat, s, t = stmts[0]
            env = dict(env)
            binds = self.bind_pattern(pat, s, t, env)
            return "".join(b + "\n" for b in binds.split("; ") if b) + self.seq_branch2(stmts[1:], env, rest, ctx)
        return self.seq_branch2(stmts, env, rest, ctx)

    def seq_branch2(self, stmts, env, rest, ctx):
        stmts = [s for s in stmts if s[0] != "__leak"]
        return self.seq(stmts, env, rest, ctx)

    def loop_stmt(self, st, tail, env, rest, ctx):
        body = st[2] if st[0] == "while" else st[3]
        has_ret, has_brk = self.escapes(body)
        has_break = Tr.last_has_break
        vars_ = self.assigned([st[1], body] if st[0] == "while" else body, env)
        for v in vars_:
            if env[v][1] is None or env[v][1][0] == "?":
                raise Unsupported("%s is first assigned inside a loop" % v)
        tup, tty = self.tuple_of(env, vars_)
        pat = self.pat_of(env, vars_)
        pre = ""
        head_lets = ""
        benv = dict(env)
        if st[0] == "for":
            lo, hi, ivar, it, head_lets, rev = self.for_head(st, env, benv, vars_)
            pre = self.flush(env)
        simple = st[0] == "for" and not has_ret and not has_brk
        kind = "" if simple else ("R" if has_ret else ("C" if st[0] == "for" else ""))
        if simple:
            fall = lambda env_: self.tuple_of(env_, vars_)[0]
            bctx = Ctx(ctx.ret_t, None, None, fall)
        else:
            nxt = lambda env_: "BV.Rs.Ctl.next %s" % self.tuple_of(env_, vars_)[0]
            brk = lambda env_: "BV.Rs.Ctl.brk %s" % self.tuple_of(env_, vars_)[0]
            wrapr = (lambda s: "BV.Rs.Ctl.ret (%s)" % s) if has_ret else None
            bctx = Ctx(ctx.ret_t, ctx.plain_final, wrapr, nxt, brk, nxt)
        self.protected.append(set(vars_))
        try:
            if st[0] == "while":
                (c, _), gs = self.scoped(lambda: self.ex(st[1], benv, BOOL))
                self.guards += gs
                gpre = self.flush(benv)
                b = self.seq(body, benv, [], bctx)
                inner = gpre + "if %s then\n%s\nelse\n  BV.Rs.Ctl.brk %s" % (c, indent(b), tup if not self.okmode or not gs else self.tuple_of(benv, vars_)[0])
            else:
                inner = head_lets + self.seq(body, benv, [], bctx)
        finally:
            self.protected.pop()
        if st[0] == "while":
            loop = "BV.Rs.whileLoop%s %s (%s : %s) (fun %s =>\n%s)" % ("R" if has_ret else "", self.fuel, tup, tty, pat, indent(inner))
        else:
            loop = "BV.Rs.forRange%s %s %s (%s : %s) (fun %s %s =>\n%s)" % (kind, lo, hi, tup, tty, it, pat, indent(inner))
        if has_ret:
            if st[0] == "while" and st[1] == ("bool", True) and not has_break and not tail and not rest and ctx.ret_t is not None:
                # `loop { .. return .. }` as the last statement: only reached when the fuel runs out
                cont = ctx.final(env, default_of(ctx.ret_t))
            else:
                cont = self.seq(tail, env, rest, ctx)
            return pre + "match %s with\n| .ret r_ => %s\n| .done %s =>\n%s" % (loop, ctx.wrap("r_"), pat, indent(cont))
        return pre + "let %s := %s\n%s" % (pat, loop, self.seq(tail, env, rest, ctx))

    def for_head(self, st, env, benv, vars_):
        pat, it = st[1], st[2]
        rev = False
        if it[0] == "method" and it[1] == "rev" and not it[3]:
            rev = True
            it = it[2]
        enum = False
        if it[0] == "method" and it[1] == "enumerate" and not it[3]:
            enum = True
            it = it[2]
        if it[0] == "rangei":
            it = ("range", it[1], it[2], True)
        if it[0] == "range":
            if enum or it[1] is None or it[2] is None:
                raise Unsupported("for over this range")
            lo, tl = self.ex(it[1], env, None if not (it[1][0] == "lit" and it[1][2] is None) else None)
            hi, th = self.ex(it[2], env, None)
            lit_lo = it[1][0] == "lit" and it[1][2] is None
            lit_hi = it[2][0] == "lit" and it[2][2] is None
            if lit_lo and not lit_hi:
                lo, tl = self.ex(it[1], env, th)
            elif lit_hi and not lit_lo:
                hi, th = self.ex(it[2], env, tl)
            elif lit_lo and lit_hi:
                lo, tl = self.ex(it[1], env, ("U", 64))
                hi, th = self.ex(it[2], env, ("U", 64))
            if tl != th or tl[0] != "U":
                raise Unsupported("for range over %r .. %r" % (tl, th))
            if it[3]:
                hi = "(%s + 1)" % hi
            if pat[0] == "pwild":
                name = self.fresh("i")
            elif pat[0] == "pvar":
                name = pat[1]
            else:
                raise Unsupported("for pattern")
            if name in vars_:
                raise Unsupported("loop variable is assigned in the body")
            lets = ""
            if rev:
                k_ = self.fresh("k")
                lets = "let %s : Nat := %s + %s - 1 - %s\n" % (name, lo, hi, k_)
                benv[name] = (name, tl)
                return lo, hi, name, k_, lets, rev
            benv[name] = (name, tl)
            return lo, hi, name, name, lets, rev
        # `for x in xs.iter()` / `for (i, x) in xs.iter().enumerate()` / `for x in xs[..n].iter()`
        if it[0] == "method" and it[1] in ("iter", "into_iter") and not it[3]:
            it = it[2]
        r = lv_root(it[1] if it[0] == "index" else it)
        if r in vars_:
            raise Unsupported("the loop body assigns the list it iterates over")
        xs, tx = self.ex(it, env)
        if tx[0] != "S":
            raise Unsupported("for over %r" % (tx,))
        if rev:
            raise Unsupported("reversed iteration over a list")
        iname = self.fresh("i")
        if enum:
            if pat[0] != "ptuple" or len(pat[1]) != 2 or pat[1][0][0] not in ("pvar", "pwild"):
                raise Unsupported("enumerate pattern")
            if pat[1][0][0] == "pvar":
                iname = pat[1][0][1]
            pat = pat[1][1]
        benv[iname] = (iname, ("U", 64))
        lets = self.bind_pattern(pat, "(List.getD %s %s %s)" % (xs, iname, default_of(tx[1])), tx[1], benv)
        lets = "".join(b + "\n" for b in lets.split("; ") if b)
        return "0", "(List.length %s)" % xs, iname, iname, lets, rev

    def has_effect(self, e):
        def st_eff(stmts):
            for s in stmts or []:
                if s[0] in ("assign", "return", "break", "continue", "while", "for") or (s[0] == "expr" and s[1][0] in ("ret", "call", "brk", "cont")):
                    return True
                if s[0] == "expr" and s[1][0] == "method" and (s[2] or s[1][1] in ("clone_from_slice", "copy_from_slice", "take", "swap")):
                    return True
                if s[0] == "let" and s[3][0] == "un" and s[3][1] == "&mut":
                    return True
                if s[0] == "expr" and s[1][0] in ("if", "iflet") and self.has_effect(s[1]):
                    return True
                if s[0] == "expr" and s[1][0] == "ematch" and any(st_eff(b) for _, b in s[1][2]):
                    return True
                if s[0] == "expr" and s[1][0] == "block" and st_eff(s[1][1]):
                    return True
            return False
        if e[0] == "iflet":
            return st_eff(e[3]) or st_eff(e[4])
        return st_eff(e[2]) or st_eff(e[3])


def indent(s):
    return "\n".join("  " + l for l in s.split("\n"))


FN_FILES = {}   # translated function name -> source file


LEAN_KEYWORDS = {"prefix", "postfix", "infix", "infixl", "infixr", "notation", "end", "at", "show", "have", "fun",
                 "then", "do", "open", "section", "namespace", "instance", "theorem", "def", "where", "with", "by", "local",
                 "macro", "syntax", "deriving", "extends", "variable", "universe", "example", "axiom", "calc", "suffices",
                 "obtain", "using", "Type", "Prop", "Sort", "exists", "forall"}


def skip_attr(toks, j):
    d = 0
    j += 1
    while True:
        if toks[j][1] == "[":
            d += 1
        elif toks[j][1] == "]":
            d -= 1
            if d == 0:
                return j + 1
        j += 1


def struct_field_tokens(path, sname):
    """[(field name, type tokens)] of `struct sname` in file `path`, in declaration order"""
    toks = G.tokens_of(path)
    for i in range(len(toks) - 2):
        if toks[i][1] == "struct" and toks[i + 1][1] == sname:
            j = i + 2
            while toks[j][1] != "{":
                if toks[j][1] == ";":
                    return []
                j += 1
            j += 1
            out = []
            while toks[j][1] != "}":
                # [pub [(crate)]] name : type ,
                if toks[j][1] == "#":
                    j = skip_attr(toks, j)
                    continue
                if toks[j][1] == "pub":
                    j += 1
                    if toks[j][1] == "(":
                        while toks[j][1] != ")":
                            j += 1
                        j += 1
                    continue
                name = toks[j][1]
                assert toks[j + 1][1] == ":", "struct field syntax"
                j += 2
                tt = []
                d = 0
                while not (toks[j][1] == "," and d == 0) and not (toks[j][1] == "}" and d == 0):
                    if toks[j][1] in ("<", "(", "["):
                        d += 1
                    elif toks[j][1] in (">", ")", "]"):
                        d -= 1
                    elif toks[j][1] == ">>":
                        d -= 2
                    tt.append(toks[j])
                    j += 1
                if toks[j][1] == ",":
                    j += 1
                out.append((name, tt))
            return out
    raise Unsupported("struct %s not found in %s" % (sname, path))


def struct_fields(path, sname):
    """scalar fields (name, type) of `struct sname` in file `path`, in declaration order"""
    out = []
    for name, tt in struct_field_tokens(path, sname):
        tv = [t[1] for t in tt]
        if len(tv) == 1 and tv[0] in INT_TYPES:
            out.append((name, INT_TYPES[tv[0]]))
        elif tv == ["bool"]:
            out.append((name, BOOL))
    return out


def struct_fields_v(path, sname, known_structs, enums):
    """the fields of `struct sname` the by-value mode supports: integers, bool, listed fieldless enums, listed
    structs, Option / tuples / arrays / slices of those"""
    def ok(t):
        if t == BOOL or t[0] in "UI":
            return True
        if t[0] == "ST":
            if t[1] in enums:
                return True
            return t[1] in known_structs
        if t[0] in ("S", "O"):
            return ok(t[1])
        if t[0] == "T":
            return all(ok(x) for x in t[1])
        return False

    def fix(t):
        if t[0] == "ST" and t[1] in enums:
            return ("E", t[1])
        if t[0] in ("S", "O"):
            return (t[0], fix(t[1]))
        if t[0] == "T":
            return ("T", [fix(x) for x in t[1]])
        return t
    out = []
    for name, tt in struct_field_tokens(path, sname):
        try:
            p = P(list(tt))
            t = p.ty()
            if p.i != len(tt) or not ok(t):
                continue
        except (Unsupported, IndexError):
            continue
        if name in LEAN_KEYWORDS:
            name += "_"
        out.append((name, fix(t)))
    return out


def enum_variants(path, ename):
    toks = G.tokens_of(path)
    for i in range(len(toks) - 2):
        if toks[i][1] == "enum" and toks[i + 1][1] == ename:
            j = i + 2
            while toks[j][1] != "{":
                j += 1
            j += 1
            out = {}
            nxt = 0
            while toks[j][1] != "}":
                if toks[j][1] == "#":
                    j = skip_attr(toks, j)
                    continue
                name = toks[j][1]
                j += 1
                if toks[j][1] in ("(", "{"):
                    raise Unsupported("enum %s has a variant with fields" % ename)
                if toks[j][1] == "=":
                    j += 1
                    ex = []
                    while toks[j][1] not in (",", "}"):
                        ex.append(toks[j])
                        j += 1
                    nxt = G.ExprParser(ex, {}).parse()
                out[name] = nxt
                nxt += 1
                if toks[j][1] == ",":
                    j += 1
            return out
    raise Unsupported("enum %s not found in %s" % (ename, path))


def uses_field(toks, pn, fname):
    for i in range(len(toks) - 2):
        if toks[i][1] == pn and toks[i + 1][1] == "." and toks[i + 2][1] == fname:
            return True
    return False


def fix_enum_types(t, enums):
    if t is None:
        return None
    if t[0] == "ST" and t[1] in enums:
        return ("E", t[1])
    if t[0] == "R":
        return ("R", t[1], fix_enum_types(t[2], enums))
    if t[0] in ("S", "O"):
        return (t[0], fix_enum_types(t[1], enums))
    if t[0] == "T":
        return ("T", [fix_enum_types(x, enums) for x in t[1]])
    return t


def translate(path, fname, occ, consts, fns, lean_name=None, structs=None, self_ty=None, ctxinfo=None, item=None):
    ctxinfo = ctxinfo or {}
    item = item or {}
    TYARGS.clear()
    for k_, v_ in list((ctxinfo.get("tyargs") or {}).items()) + list((item.get("tyargs") or {}).items()):
        TYARGS[k_] = INT_TYPES[v_]
    toks = G.find_fn(G.tokens_of(path), fname, occ)
    toks = [(k, v + "_") if (k == "id" and v in LEAN_KEYWORDS) else (k, v) for k, v in toks]
    name, params, ret, body = P(list(toks)).fn()
    enums = ctxinfo.get("enums", {})
    structs_v = ctxinfo.get("structs_v", {})
    ret = fix_enum_types(ret, enums)
    if ret is not None and ret[0] == "ST" and ret[1] == "Self":
        ret = ("ST", self_ty)
    params = [(pn, fix_enum_types(pt, enums)) for pn, pt in params]
    lname = lean_name or name

    overrides = {}

    def run(okmode):
        for _ in range(8):
            try:
                return run1(okmode)
            except Retry as r:
                if r.name in overrides:
                    raise Unsupported("conflicting integer types for %s" % r.name)
                overrides[r.name] = r.ty
        raise Unsupported("too many literal-typed variables")

    def run1(okmode):
        tr = Tr(consts, fns)
        tr.lit_override = overrides
        tr.cur_file = path
        tr.okmode = okmode
        tr.structs_v = structs_v
        tr.enums = enums
        tr.tables = ctxinfo.get("tables", {})
        tr.self_ty = self_ty
        if item.get("fuel"):
            tr.fuel = "(%s)" % item["fuel"]
        env = {}
        lean_params = []
        outs = []
        rparams = []
        writer = False
        sink_ix = [pn for pn, pt in params if pt == ("R", True, ("U", 64)) and pn == "storage_ix"]
        sink_st = [pn for pn, pt in params if pt == ("R", True, ("S", ("U", 8))) and pn == "storage"]
        if sink_ix and sink_st:
            writer = True
            tr.sinks = {sink_ix[0], sink_st[0]}
            env["w_"] = ("w_", ("W",))
        for pn, pt in params:
            if pn in tr.sinks:
                continue
            st = pt[2] if pt[0] == "R" else pt
            ln = "self_" if pn == "self" else pn
            if pn == "self" and item.get("ignore_self"):
                if any(v == "self" for _, v in toks[toks.index(("id", "self")) + 1:] if True):
                    raise Unsupported("\"ignore_self\" but the body uses self")
                continue
            if st[0] == "ST":
                sname = self_ty if st[1] == "Self" else st[1]
                if sname in structs_v:
                    t = ("ST", sname)
                    env[pn] = (ln, t)
                    lean_params.append("(%s : %s)" % (ln, sname))
                    mut = pt[0] == "R" and pt[1]
                    if mut:
                        outs.append((pn, t))
                    rparams.append((pn, "mut" if mut else "val", t, None))
                    continue
                if pt[0] == "R" and pt[1]:
                    raise Unsupported("&mut struct parameter %s (struct %s is not listed under structs_v)" % (pn, sname))
                if not structs or sname not in structs:
                    raise Unsupported("struct type %s of parameter %s is not listed" % (sname, pn))
                env[pn] = (pn, ("STF", sname))
                flat = []
                for fn_, ft in struct_fields(structs[sname], sname):
                    if uses_field(toks, pn, fn_):
                        key = pn + "_" + fn_
                        env[key] = (key, ft)
                        lean_params.append("(%s : %s)" % (key, lean_ty(ft)))
                        flat.append((fn_, ft))
                rparams.append((pn, "val", ("STF", sname), flat))
                continue
            if pt[0] == "R":
                inner = pt[2]
                if pt[1]:
                    lean_ty(inner)
                    outs.append((pn, inner))
                    env[pn] = (ln, inner)
                    lean_params.append("(%s : %s)" % (ln, lean_ty(inner, True) if inner[0] in ("S", "O", "T") else lean_ty(inner)))
                    rparams.append((pn, "mut", inner, None))
                    continue
                pt = inner
            env[pn] = (ln, pt)
            lean_params.append("(%s : %s)" % (ln, lean_ty(pt)))
            rparams.append((pn, "val", pt, None))
        res_types = ([ret] if ret else []) + [t for _, t in outs] + ([("W",)] if writer else [])
        if not res_types:
            raise Unsupported("function without result")

        def plain_final(env_, val):
            if okmode:
                return "ok_"
            parts = ([val] if ret else []) + [env_[n][0] for n, _ in outs] + (["w_"] if writer else [])
            if ret and val is None:
                raise Unsupported("missing return value")
            return parts[0] if len(parts) == 1 else "(" + ", ".join(parts) + ")"
        if okmode:
            env["ok_"] = ("ok_", BOOL)
        ctx = Ctx(ret, plain_final, lambda s: s, lambda env_: plain_final(env_, None))
        body_s = tr.seq(body, env, [], ctx)
        if writer:
            body_s = "let w_ : List BV.Rs.WOp := []\n" + body_s
        if okmode:
            body_s = "let ok_ : Bool := true\n" + body_s
        return tr, body_s, lean_params, res_types, outs, rparams, writer

    tr, body_s, lean_params, res_types, outs, rparams, writer = run(False)
    rt = " × ".join(lean_ty(t, len(res_types) > 1) if t[0] in ("T",) else lean_ty(t) for t in res_types)
    doc = "`fn %s` of `%s` (occurrence %d), translated by tools/rs2lean.py" % (fname, path, occ)
    if outs:
        doc += "; results: %s" % ", ".join((["return value"] if ret else []) + ["*" + n for n, _ in outs])
    if tr.foreign:
        doc += "; callees bound to the translation of a same-named function of ANOTHER file (the file-local one is not in the subset): " + ", ".join(sorted(tr.foreign))
    if tr.asserts:
        doc += "; dropped: " + " | ".join(a.replace("-/", "- /") for a in tr.asserts)
    text = "/-- %s -/\ndef %s %s : %s :=\n%s\n" % (doc, lname, " ".join(lean_params), rt, indent(body_s))
    sig = Sig(rparams, ret, outs, writer, tr.nguards > 0, lname)
    err = None
    if item.get("safe"):
        try:
            tr2, body2, lp2, _, _, _, _ = run(True)
            text += "\n/-- no-panic condition of `fn %s` (debug build): the conjunction, along the executed path, of every index-in-bounds, no-overflow, shift-in-range, non-zero-divisor, unwrap and assert condition -/\ndef %s_ok %s : Bool :=\n%s\n" % (
                fname, lname, " ".join(lp2), indent(body2))
            sig.safe = True
        except Unsupported as e:
            err = "%s_ok: %s" % (lname, e)
    return text, sig, tr, err


PRELUDE_IMPORT = "import BV.Model.RsPrelude\n"


def emit_struct(sname, fields):
    lines = ["/-- the supported fields of the Rust `struct %s` (by-value mode of tools/rs2lean.py) -/" % sname,
             "structure %s where" % sname]
    for fn_, ft in fields:
        lines.append("  %s : %s" % (fn_, lean_ty(ft)))
    lines.append("  deriving Repr, DecidableEq, Inhabited")
    return "\n".join(lines) + "\n"


def main():
    argv = sys.argv[1:]
    opts = {}
    pos = []
    i = 0
    while i < len(argv):
        if argv[i] in ("--repo", "--items", "--only"):
            opts[argv[i][2:]] = argv[i + 1]
            i += 2
        else:
            pos.append(argv[i])
            i += 1
    if "repo" in opts:
        G.REPO = opts["repo"]
    outdir = pos[0] if pos else os.path.join(os.path.dirname(HERE), "lean", "BV", "Gen")
    items = json.load(open(opts.get("items") or os.path.join(HERE, "rs2lean_items.json")))
    only = set(opts["only"].split(",")) if "only" in opts else None
    harvested = {name: (lname or name) for _, name, lname in G.CONST_ITEMS}
    harvested_file = {name: f for f, name, _ in G.CONST_ITEMS}
    report = {"files": {}, "errors": []}
    for prop, spec in items.items():
        if only is not None and prop not in only:
            continue
        FN_FILES.clear()
        consts = {}
        tables = {}
        local_defs = []
        uses_source = False
        enums = {}
        for en, ef in (spec.get("enums") or {}).items():
            try:
                enums[en] = enum_variants(ef, en)
            except (Unsupported, G.GenError, OSError, IndexError) as e:
                report["errors"].append("%s: enum %s: %s" % (prop, en, e))
        for c in spec.get("consts", []):
            try:
                toks = G.tokens_of(c["file"])
                ty, ex = G.find_item(toks, c["name"])
                v = G.ExprParser(ex, {k: vv[0] for k, vv in consts.items()}).parse()
                if isinstance(v, list):
                    # a table: element type from the declaration `[T; N]`
                    tp = P([(k, vv + "_") if (k == "id" and vv in LEAN_KEYWORDS) else (k, vv) for k, vv in ty])
                    tt = tp.ty()
                    if tt[0] != "S":
                        raise Unsupported("table type")
                    et = tt[1]
                    if et[0] == "ST":
                        flds = struct_fields(c.get("struct_file", c["file"]), et[1])
                        et = ("TS", et[1], flds)
                        if not v or not isinstance(v[0], tuple) or len(v[0]) != len(flds):
                            raise Unsupported("table of struct %s: fields" % tt[1][1])
                    if c["name"] in harvested and harvested_file[c["name"]] == c["file"]:
                        tables[c["name"]] = ("BV.Gen.%s" % harvested[c["name"]], ("S", et))
                        uses_source = True
                    else:
                        nm = c.get("lean", c["name"])
                        local_defs.append("/-- `%s` in `%s` -/\ndef %s : %s := %s\n" % (c["name"], c["file"], nm, G.lean_type(v), G.lean_val(v)))
                        tables[c["name"]] = (nm, ("S", et))
                    continue
                tname = [t[1] for t in ty if t[0] == "id"]
                consts[c["name"]] = (v, INT_TYPES.get(tname[-1]) if tname else None)
            except (Unsupported, G.GenError, OSError, IndexError) as e:
                report["errors"].append("%s: const %s: %s" % (prop, c["name"], e))
        structs_v = {}
        struct_text = []
        TYARGS.clear()
        for k_, v_ in (spec.get("tyargs") or {}).items():
            TYARGS[k_] = INT_TYPES[v_]
        for sn, sf in (spec.get("structs_v") or {}).items():
            try:
                structs_v[sn] = struct_fields_v(sf, sn, set(structs_v), enums)
                struct_text.append(emit_struct(sn, structs_v[sn]))
            except (Unsupported, G.GenError, OSError, IndexError, AssertionError) as e:
                report["errors"].append("%s: struct %s: %s" % (prop, sn, e))
        ctxinfo = {"enums": enums, "structs_v": structs_v, "tables": tables, "tyargs": spec.get("tyargs")}
        fns = {}
        body = []
        for it in spec["fns"]:
            try:
                text, sig, tr, err = translate(it["file"], it["fn"], it.get("occ", 0), consts, fns, it.get("lean"),
                                               spec.get("structs"), it.get("self"), ctxinfo, it)
                body.append(text)
                fns[it["fn"]] = sig
                FN_FILES[it["fn"]] = it["file"]
                if it.get("lean"):
                    fns[it["lean"]] = sig
                if it.get("self"):
                    fns["%s::%s" % (it["self"], it["fn"])] = sig
                if err:
                    report["errors"].append("%s: fn %s (%s): %s" % (prop, it["fn"], it["file"], err))
            except (Unsupported, G.GenError, OSError, IndexError, KeyError, AssertionError) as e:
                report["errors"].append("%s: fn %s (%s): %s" % (prop, it["fn"], it["file"], e))
        out = ["-- GENERATED by tools/rs2lean.py from the current /repo working tree. Do not edit.",
               PRELUDE_IMPORT + ("import BV.Gen.Source\n" if uses_source else ""), "set_option linter.unusedVariables false", "", "namespace BV.Gen.Fn%s" % prop, ""]
        out += struct_text + local_defs + body
        out.append("end BV.Gen.Fn%s" % prop)
        content = "\n".join(out) + "\n"
        p = os.path.join(outdir, "Fn%s.lean" % prop)
        try:
            same = open(p).read() == content
        except OSError:
            same = False
        if not same:
            with open(p, "w") as f:
                f.write(content)
        report["files"]["Fn%s.lean" % prop] = {"fns": len(fns), "changed": not same}
    print(json.dumps(report))
    return 2 if report["errors"] else 0


if __name__ == "__main__":
    sys.exit(main())
