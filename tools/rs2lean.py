#!/usr/bin/env python3
"""rs2lean.py — translate small, loop-free integer functions of /repo from Rust to Lean 4.

Tie (a) of DESIGN.md section 4 for CONTROL FLOW of arithmetic helpers: on every run the bodies
of the functions listed in tools/rs2lean_items.json are parsed from the current working tree and
emitted as Lean definitions (lean/BV/Gen/Fn<Cnn>.lean, one file per property so that a change to
one property's function cannot break another property's build).  Property files prove that each
generated definition equals the hand-written model (BV/Props/<Cnn>Gen.lean); a change of the Rust
body changes the Lean definition and the kernel re-checks the equation against the new text.

Semantics produced (release build semantics; recorded in the trusted base):
  * uN / usize (= u64) values are `Nat` kept below 2^N by every operation: + - * and the
    wrapping_* methods wrap modulo 2^N (a debug build would panic on plain + - * overflow: the
    models' theorems state the no-overflow ranges separately where a property needs them);
  * iN values are `Int` kept in [-2^(N-1), 2^(N-1)) by `BV.Rs.wrapS`;
  * `a << b`, `a >> b` mask the shift amount with N-1 as release builds do;
  * `as` casts truncate / sign-extend as Rust does; `&mut` scalar parameters become extra results
    (returned in parameter order after the function's own result);
  * `x[i]` on a slice parameter is `List.getD x i 0` (Rust would panic out of range);
  * assert!/debug_assert! are dropped (listed in the generated doc comment).
Anything outside this subset (loops, references to non-scalar state, generics, floats) is an error
for that function only: it is then missing from the generated file and the module that needs it
does not compile — a broken proof obligation, reported as such.
"""
import json, os, sys
sys.path.insert(0, os.path.dirname(os.path.abspath(__file__)))
import gen_source as G

HERE = os.path.dirname(os.path.abspath(__file__))


class Unsupported(Exception):
    pass


INT_TYPES = {"u8": ("U", 8), "u16": ("U", 16), "u32": ("U", 32), "u64": ("U", 64), "usize": ("U", 64),
             "i8": ("I", 8), "i16": ("I", 16), "i32": ("I", 32), "i64": ("I", 64), "isize": ("I", 64)}
BOOL = ("B", 1)


def lean_ty(t):
    if t == BOOL:
        return "Bool"
    if t[0] == "U":
        return "Nat"
    if t[0] == "I":
        return "Int"
    if t[0] == "S":
        return "List " + lean_ty(t[1])
    if t[0] == "T":
        return " × ".join(lean_ty(x) for x in t[1])
    if t[0] == "O":
        return "Option (%s)" % lean_ty(t[1])
    if t[0] == "W":
        return "List BV.Rs.WOp"
    raise Unsupported("type %r" % (t,))


# ------------------------------------------------------------------ parser (tokens -> AST)
class P:
    def __init__(self, toks):
        self.t = toks
        self.i = 0

    def peek(self, k=0):
        return self.t[self.i + k][1] if self.i + k < len(self.t) else None

    def kind(self, k=0):
        return self.t[self.i + k][0] if self.i + k < len(self.t) else None

    def eat(self, v=None):
        tok = self.t[self.i]
        if v is not None and tok[1] != v:
            raise Unsupported("expected %r, found %r (token %d)" % (v, tok[1], self.i))
        self.i += 1
        return tok[1]

    def ty(self):
        if self.peek() == "&":
            self.eat()
            if self.kind() == "life":
                self.eat()
            mut = False
            if self.peek() == "mut":
                self.eat()
                mut = True
            inner = self.ty()
            return ("R", mut, inner)
        if self.peek() == "[":
            self.eat()
            inner = self.ty()
            if self.peek() == ";":
                self.eat()
                self.expr()
            self.eat("]")
            return ("S", inner)
        if self.peek() == "(":
            self.eat()
            parts = []
            while self.peek() != ")":
                parts.append(self.ty())
                if self.peek() == ",":
                    self.eat()
            self.eat(")")
            return ("T", parts)
        name = self.eat()
        while self.peek() == "::":
            self.eat()
            name = self.eat()
        if name in INT_TYPES:
            return INT_TYPES[name]
        if name == "bool":
            return BOOL
        if name in ("Result", "Option") and self.peek() == "<":
            self.eat("<")
            inner = self.ty()
            if name == "Result":
                self.eat(",")
                self.eat("(")
                self.eat(")")
            self.eat(">")
            return ("O", inner)
        if name == "Range" and self.peek() == "<":
            self.eat("<")
            inner = self.ty()
            self.eat(">")
            return ("T", [inner, inner])
        if self.peek() == "<":
            raise Unsupported("generic type %s" % name)
        return ("ST", name)

    def fn(self):
        while self.peek() != "fn":
            self.eat()
        self.eat("fn")
        name = self.eat()
        if self.peek() == "<":
            raise Unsupported("generic function")
        self.eat("(")
        params = []
        while self.peek() != ")":
            if self.peek() == "mut":
                self.eat()
            pn = self.eat()
            if pn == "&":
                if self.kind() == "life":
                    self.eat()
                mut = False
                if self.peek() == "mut":
                    self.eat()
                    mut = True
                self.eat("self")
                if mut:
                    raise Unsupported("&mut self receiver")
                params.append(("self", ("R", False, ("ST", "Self"))))
            elif pn == "self":
                params.append(("self", ("ST", "Self")))
            else:
                self.eat(":")
                params.append((pn, self.ty()))
            if self.peek() == ",":
                self.eat()
        self.eat(")")
        ret = None
        if self.peek() == "->":
            self.eat()
            ret = self.ty()
        body = self.block()
        return name, params, ret, body

    def block(self):
        self.eat("{")
        stmts = []
        while self.peek() != "}":
            stmts.append(self.stmt())
        self.eat("}")
        return stmts

    def stmt(self):
        v = self.peek()
        if v == "let":
            self.eat()
            if self.peek() == "mut":
                self.eat()
            name = self.eat()
            ty = None
            if self.peek() == ":":
                self.eat()
                ty = self.ty()
            self.eat("=")
            e = self.expr()
            self.eat(";")
            return ("let", name, ty, e)
        if v in ("assert", "debug_assert", "assert_eq", "debug_assert_eq") and self.peek(1) == "!":
            start = self.i
            self.eat()
            self.eat("!")
            depth = 0
            while True:
                x = self.eat()
                if x == "(":
                    depth += 1
                elif x == ")":
                    depth -= 1
                    if depth == 0:
                        break
            text = " ".join(t[1] for t in self.t[start:self.i])
            if self.peek() == ";":
                self.eat()
            return ("assert", text)
        if v == "return":
            self.eat()
            e = None if self.peek() == ";" else self.expr()
            if self.peek() == ";":
                self.eat()
            return ("return", e)
        if v in ("while", "loop", "for") or self.kind() == "life":
            raise Unsupported("loop")
        e = self.expr()
        nxt = self.peek()
        if nxt in ("=", "+=", "-=", "*=", "/=", "%=", "<<=", ">>=", "&=", "|=", "^="):
            self.eat()
            rhs = self.expr()
            self.eat(";")
            if nxt != "=":
                rhs = ("bin", nxt[:-1], e, rhs)
            return ("assign", e, rhs)
        if nxt == ";":
            self.eat()
            return ("expr", e, True)
        return ("expr", e, False)   # tail expression (or an `if` statement without `;`)

    PREC = [("||",), ("&&",), ("==", "!=", "<", ">", "<=", ">="), ("|",), ("^",), ("&",), ("<<", ">>"),
            ("+", "-"), ("*", "/", "%")]

    def expr(self, level=0, nostruct=False):
        if level == 0:
            lhs = self.expr(1)
            if self.peek() == "..":
                self.eat()
                rhs = self.expr(1)
                return ("tuple", [lhs, rhs])
            return lhs
        if level - 1 >= len(self.PREC):
            return self.cast()
        lhs = self.expr(level + 1)
        while self.peek() in self.PREC[level - 1]:
            op = self.eat()
            rhs = self.expr(level + 1)
            lhs = ("bin", op, lhs, rhs)
        return lhs

    def cast(self):
        e = self.unary()
        while self.peek() == "as":
            self.eat()
            paren = self.peek() == "("
            if paren:
                self.eat()
            t = self.ty()
            if paren:
                self.eat(")")
            e = ("cast", e, t)
        return e

    def unary(self):
        v = self.peek()
        if v in ("!", "-", "*"):
            self.eat()
            return ("un", v, self.unary())
        if v == "&":
            self.eat()
            if self.peek() == "mut":
                self.eat()
                return ("un", "&mut", self.unary())
            return self.unary()
        return self.postfix()

    def postfix(self):
        e = self.primary()
        while True:
            v = self.peek()
            if v == "." and self.kind(1) == "id":
                self.eat()
                m = self.eat()
                args = []
                if self.peek() == "(":
                    self.eat()
                    while self.peek() != ")":
                        args.append(self.expr())
                        if self.peek() == ",":
                            self.eat()
                    self.eat(")")
                    e = ("method", m, e, args)
                else:
                    e = ("field", m, e)
            elif v == "[":
                self.eat()
                ix = self.expr()
                self.eat("]")
                e = ("index", e, ix)
            else:
                return e

    def match_(self):
        """`match scrutinee { lit [| lit] => arm, ..., _ => arm }` as a chain of ifs (the scrutinee is pure)"""
        self.eat("match")
        scrut = self.expr()
        self.eat("{")
        arms = []
        default = None
        while self.peek() != "}":
            pats = []
            while True:
                if self.peek() == "_":
                    self.eat()
                    pats = None
                else:
                    lo = self.unary()
                    if self.peek() == "..=":
                        self.eat()
                        lo = ("prange", lo, self.unary())
                    pats.append(lo)
                if self.peek() == "|":
                    self.eat()
                    continue
                break
            self.eat("=>")
            if self.peek() == "{":
                body = self.block()
            else:
                body = [("expr", self.expr(), False)]
            if self.peek() == ",":
                self.eat()
            if pats is None:
                default = body
            else:
                arms.append((pats, body))
        self.eat("}")
        if default is None:
            raise Unsupported("match without a `_` arm")
        node_else = default
        for pats, body in reversed(arms):
            cond = None
            for pt in pats:
                if pt[0] == "prange":
                    c = ("bin", "&&", ("bin", "<=", pt[1], scrut), ("bin", "<=", scrut, pt[2]))
                else:
                    c = ("bin", "==", scrut, pt)
                cond = c if cond is None else ("bin", "||", cond, c)
            node_else = [("expr", ("if", cond, body, node_else), False)]
        return node_else[0][1]

    def primary(self):
        k, v = self.kind(), self.peek()
        if k == "num":
            self.eat()
            for suf in sorted(INT_TYPES, key=len, reverse=True):
                if v.endswith(suf) and not v.startswith("0x") or (v.startswith("0x") and v.endswith(suf) and suf[0] in "ui" and len(v) > len(suf) + 2 and v[-len(suf) - 1] in "0123456789abcdefABCDEF_" and suf[0] not in "abcdef"):
                    return ("lit", G.parse_int(v), INT_TYPES[suf])
            return ("lit", G.parse_int(v), None)
        if v == "(":
            self.eat()
            items = []
            trailing = False
            while self.peek() != ")":
                items.append(self.expr())
                if self.peek() == "..=":
                    self.eat()
                    hi = self.expr(1)
                    items[-1] = ("rangei", items[-1], hi)
                trailing = False
                if self.peek() == ",":
                    self.eat()
                    trailing = True
            self.eat(")")
            if len(items) == 1 and not trailing:
                return items[0]
            return ("tuple", items)
        if v == "if":
            self.eat()
            c = self.expr()
            a = self.block()
            b = None
            if self.peek() == "else":
                self.eat()
                if self.peek() == "if":
                    b = [("expr", self.primary(), False)]
                else:
                    b = self.block()
            return ("if", c, a, b)
        if v == "match":
            return self.match_()
        if v == "return":
            self.eat()
            return ("ret", None if self.peek() in (",", ";", "}") else self.expr())
        if v == "{":
            return ("block", self.block())
        if v in ("true", "false"):
            self.eat()
            return ("bool", v == "true")
        if k == "id":
            path = [self.eat()]
            while self.peek() == "::":
                self.eat()
                path.append(self.eat())
            if self.peek() == "(":
                self.eat()
                args = []
                while self.peek() != ")":
                    args.append(self.expr())
                    if self.peek() == ",":
                        self.eat()
                self.eat(")")
                return ("call", path, args)
            return ("path", path)
        raise Unsupported("expression starting with %r" % v)


# ------------------------------------------------------------------ typed translation
def pow2(w):
    return str(2 ** w)


def wrap(t, s):
    if t[0] == "U":
        return "((%s) %% %s)" % (s, pow2(t[1]))
    return "(BV.Rs.wrapS %d (%s))" % (t[1], s)


class Tr:
    def __init__(self, consts, fns):
        self.consts = consts   # name -> (value, type or None)
        self.fns = fns         # name -> (param types, result type, out types, writer?)
        self.asserts = []
        self.sinks = set()     # names of the (&mut usize, &mut [u8]) bit-sink parameters
        self.cur_file = None
        self.foreign = set()   # callees whose translation comes from another file than the caller

    def note_callee(self, name):
        f = FN_FILES.get(name)
        if f and self.cur_file and f != self.cur_file:
            try:
                G.find_fn(G.tokens_of(self.cur_file), name, 0)
            except G.GenError:
                return      # imported, not shadowed by a file-local definition
            self.foreign.add("%s (from %s)" % (name, f))

    # returns (lean string, type); `want` is the expected type or None
    def ex(self, e, env, want=None):
        k = e[0]
        if k == "lit":
            t = e[2] or want
            if t is None:
                t = ("I", 32)
            if t == BOOL or t[0] not in "UI":
                raise Unsupported("literal of type %r" % (t,))
            v = e[1]
            if t[0] == "U":
                return "%d" % (v % 2 ** t[1]), t
            return "(%d : Int)" % v, t
        if k == "bool":
            return ("true" if e[1] else "false"), BOOL
        if k == "path":
            name = e[1][-1]
            if len(e[1]) == 1 and name in env:
                return env[name][0], env[name][1]
            if name in self.consts:
                v, t = self.consts[name]
                t = t or want or ("U", 64)
                return ("%d" % v if t[0] == "U" else "(%d : Int)" % v), t
            raise Unsupported("unknown name %s" % "::".join(e[1]))
        if k == "un":
            if e[1] in ("*", "&mut"):
                return self.ex(e[2], env, want)
            s, t = self.ex(e[2], env, want)
            if e[1] == "!":
                if t == BOOL:
                    return "(!%s)" % s, t
                if t[0] == "U":
                    return "(%s - 1 - %s)" % (pow2(t[1]), s), t
                return "(-1 - %s)" % s, t
            if t[0] == "I":
                return wrap(t, "-%s" % s), t
            raise Unsupported("negation of unsigned")
        if k == "cast":
            s, t = self.ex(e[1], env, e[2] if e[1][0] == "lit" and e[1][2] is None else None)
            return self.cast(s, t, e[2]), e[2]
        if k == "bin":
            return self.bin(e, env, want)
        if k == "method":
            return self.method(e, env, want)
        if k == "call":
            return self.call(e, env, want)
        if k == "index":
            a, ta = self.ex(e[1], env)
            if ta[0] == "R":
                ta = ta[2]
            if ta[0] != "S":
                raise Unsupported("index into %r" % (ta,))
            i, ti = self.ex(e[2], env, ("U", 64))
            d = "0" if ta[1][0] == "U" else "(0 : Int)"
            return "(List.getD %s %s %s)" % (a, i, d), ta[1]
        if k == "field":
            base = e[2]
            if base[0] == "path" and len(base[1]) == 1 and base[1][0] in env and env[base[1][0]][1][0] == "ST":
                key = base[1][0] + "_" + e[1]
                if key in env:
                    return env[key][0], env[key][1]
                raise Unsupported("field %s.%s is not a scalar field of the struct (or the struct was not found)" % (base[1][0], e[1]))
            raise Unsupported("field access on a non-parameter")
        if k == "tuple":
            parts = [self.ex(x, env, (want[1][j] if want and want[0] == "T" else None)) for j, x in enumerate(e[1])]
            return "(" + ", ".join(p[0] for p in parts) + ")", ("T", [p[1] for p in parts])
        if k == "if":
            c, tc = self.ex(e[1], env, BOOL)
            if e[3] is None:
                raise Unsupported("if expression without else")
            a, ta = self.block_value(e[2], env, want)
            b, tb = self.block_value(e[3], env, want or ta)
            if want is None and ta != tb:
                # one branch was an unsuffixed literal typed by default: retype with the other
                a, ta = self.block_value(e[2], env, tb)
            return "(if %s then %s else %s)" % (c, a, b), ta
        if k == "block":
            return self.block_value(e[1], env, want)
        raise Unsupported("expression kind %s" % k)

    def block_value(self, stmts, env, want):
        """a block used as a value: lets followed by a tail expression (no assignment to outer names, no return)"""
        env = dict(env)
        out = []
        for j, st in enumerate(stmts):
            if st[0] == "let":
                s, t = self.ex(st[3], env, st[2])
                if st[2] and st[2] != t:
                    raise Unsupported("let type mismatch %s" % st[1])
                out.append("let %s : %s := %s;" % (st[1], lean_ty(t), s))
                env[st[1]] = (st[1], t)
            elif st[0] == "assert":
                self.asserts.append(st[1])
            elif st[0] == "expr" and not st[2] and j == len(stmts) - 1:
                s, t = self.ex(st[1], env, want)
                return "(" + " ".join(out) + " " + s + ")", t
            else:
                raise Unsupported("statement %s inside a value block" % st[0])
        raise Unsupported("value block without tail expression")

    def cast(self, s, t, to):
        if t == to:
            return s
        if t == BOOL:
            return "(if %s then %s else %s)" % (s, "1" if to[0] == "U" else "(1 : Int)", "0" if to[0] == "U" else "(0 : Int)")
        if to == BOOL or to[0] not in "UI" or t[0] not in "UI":
            raise Unsupported("cast %r -> %r" % (t, to))
        if t[0] == "U" and to[0] == "U":
            return s if to[1] >= t[1] else "(%s %% %s)" % (s, pow2(to[1]))
        if t[0] == "I" and to[0] == "U":
            return "(BV.Rs.toU %d %s)" % (to[1], s)
        if t[0] == "U" and to[0] == "I":
            return ("((%s : Nat) : Int)" % s) if to[1] > t[1] else "(BV.Rs.wrapS %d ((%s : Nat) : Int))" % (to[1], s)
        return s if to[1] >= t[1] else "(BV.Rs.wrapS %d %s)" % (to[1], s)

    def arith(self, op, a, b, t, tb=None):
        if op in ("+", "*"):
            return wrap(t, "%s %s %s" % (a, op, b))
        if op == "-":
            if t[0] == "U":
                return "((%s + %s - %s) %% %s)" % (a, pow2(t[1]), b, pow2(t[1]))
            return wrap(t, "%s - %s" % (a, b))
        if op in ("/", "%"):
            if t[0] == "U":
                return "(%s %s %s)" % (a, op, b)
            return wrap(t, "Int.%s %s %s" % ("tdiv" if op == "/" else "tmod", a, b))
        if op in ("<<", ">>"):
            # shift amount: masked with width-1; may have any integer type
            if tb[0] == "I":
                amt = "(BV.Rs.toU 64 %s %% %d)" % (b, t[1])
            else:
                amt = "(%s %% %d)" % (b, t[1])
            if t[0] == "U":
                return ("((%s <<< %s) %% %s)" % (a, amt, pow2(t[1]))) if op == "<<" else "(%s >>> %s)" % (a, amt)
            return ("(BV.Rs.wrapS %d (%s * (2 : Int) ^ %s))" % (t[1], a, amt)) if op == "<<" else "(%s / (2 : Int) ^ %s)" % (a, amt)
        if op in ("&", "|", "^"):
            f = {"&": "&&&", "|": "|||", "^": "^^^"}[op]
            if t == BOOL:
                return "(%s %s %s)" % (a, {"&": "&&", "|": "||", "^": "^^"}[op], b)
            if t[0] == "U":
                return "(%s %s %s)" % (a, f, b)
            return "(BV.Rs.sop (fun x y => x %s y) %d %s %s)" % (f, t[1], a, b)
        raise Unsupported("operator %s" % op)

    def bin(self, e, env, want):
        op, l, r = e[1], e[2], e[3]
        if op in ("&&", "||"):
            a, _ = self.ex(l, env, BOOL)
            b, _ = self.ex(r, env, BOOL)
            return "(%s %s %s)" % (a, op, b), BOOL
        if op in ("<<", ">>"):
            a, ta = self.ex(l, env, want)
            b, tb = self.ex(r, env, None if not (r[0] == "lit" and r[2] is None) else ("U", 32))
            return self.arith(op, a, b, ta, tb), ta
        cmp_ = op in ("==", "!=", "<", ">", "<=", ">=")
        hint = None if cmp_ else want
        # type the side that knows its type first
        def untyped(x):
            return x[0] == "lit" and x[2] is None
        if untyped(l) and not untyped(r):
            b, tb = self.ex(r, env, hint)
            a, ta = self.ex(l, env, tb)
        else:
            a, ta = self.ex(l, env, hint)
            b, tb = self.ex(r, env, ta)
        if ta != tb:
            raise Unsupported("operands of %s have types %r and %r" % (op, ta, tb))
        if cmp_:
            lop = {"==": "==", "!=": "!=", "<": "<", ">": ">", "<=": "≤", ">=": "≥"}[op]
            if op in ("==", "!="):
                return "(%s %s %s)" % (a, lop, b), BOOL
            return "(decide (%s %s %s))" % (a, lop, b), BOOL
        return self.arith(op, a, b, ta), ta

    def method(self, e, env, want):
        m, recv, args = e[1], e[2], e[3]
        if m == "contains" and recv[0] == "rangei" and len(args) == 1:
            x, tx = self.ex(args[0], env)
            lo, tl = self.ex(recv[1], env, tx)
            hi, th = self.ex(recv[2], env, tx)
            if not (tl == tx == th):
                raise Unsupported("range bounds and element have different types")
            return "((decide (%s ≤ %s)) && (decide (%s ≤ %s)))" % (lo, x, x, hi), BOOL
        a, ta = self.ex(recv, env, want)
        W = {"wrapping_add": "+", "wrapping_sub": "-", "wrapping_mul": "*", "wrapping_div": "/", "wrapping_rem": "%",
             "wrapping_shl": "<<", "wrapping_shr": ">>"}
        if m in W:
            if W[m] in ("<<", ">>"):
                b, tb = self.ex(args[0], env, ("U", 32))
                return self.arith(W[m], a, b, ta, tb), ta
            b, tb = self.ex(args[0], env, ta)
            if tb != ta:
                raise Unsupported("%s: %r vs %r" % (m, ta, tb))
            return self.arith(W[m], a, b, ta), ta
        if m == "leading_zeros" and ta[0] == "U":
            return "(BV.Rs.clz %d %s)" % (ta[1], a), ("U", 32)
        if m == "trailing_zeros" and ta[0] == "U":
            return "(BV.Rs.ctz %d %s)" % (ta[1], a), ("U", 32)
        if m in ("min", "max") and ta[0] in "UI":
            b, tb = self.ex(args[0], env, ta)
            return "(%s %s %s)" % (m, a, b), ta
        if m == "into" and not args and want is not None:
            return self.cast(a, ta, want), want
        if m in ("saturating_sub",) and ta[0] == "U":
            b, tb = self.ex(args[0], env, ta)
            return "(%s - %s)" % (a, b), ta
        raise Unsupported("method %s on %r" % (m, ta))

    def call(self, e, env, want):
        path, args = e[1], e[2]
        name = path[-1]
        if name in ("min", "max") and len(args) == 2:
            a, ta = self.ex(args[0], env, want)
            b, tb = self.ex(args[1], env, ta)
            if ta != tb:
                raise Unsupported("min/max operand types")
            return "(%s %s %s)" % (name, a, b), ta
        if name in ("Ok", "Some") and len(path) == 1 and len(args) == 1:
            inner = want[1] if want and want[0] == "O" else None
            v, tv = self.ex(args[0], env, inner)
            return "(some %s)" % v, ("O", tv)
        if name == "Err" and len(path) == 1:
            if not (want and want[0] == "O"):
                raise Unsupported("Err(..) without a known result type")
            return "none", want
        if name == "from" and len(path) == 2 and path[0] in INT_TYPES and len(args) == 1:
            s, t = self.ex(args[0], env)
            return self.cast(s, t, INT_TYPES[path[0]]), INT_TYPES[path[0]]
        if name in self.fns:
            self.note_callee(name)
            pts, rt, outs, writer = self.fns[name]
            if outs or writer:
                raise Unsupported("call of %s (out-parameters / bit writer) inside an expression" % name)
            ss = []
            for a, pt in zip(args, pts):
                s, t = self.ex(a, env, pt)
                if t != pt:
                    raise Unsupported("argument of %s: %r vs %r" % (name, t, pt))
                ss.append(s)
            return "(%s %s)" % (name, " ".join(ss)), rt
        raise Unsupported("call of %s" % "::".join(path))

    # ---- statement sequences -> one Lean expression; `result(env, value)` builds the returned term
    def seq(self, stmts, env, rest, ret_t, result):
        """stmts ++ rest (rest: list of statement lists still to run, innermost first)"""
        if not stmts:
            if rest:
                return self.seq(rest[0], env, rest[1:], ret_t, result)
            return result(env, None)
        st, tail = stmts[0], stmts[1:]
        k = st[0]
        if k == "assert":
            self.asserts.append(st[1])
            return self.seq(tail, env, rest, ret_t, result)
        if k == "let":
            s, t = self.ex(st[3], env, st[2])
            if st[2] and st[2] != t:
                raise Unsupported("let %s: annotated %r, value %r" % (st[1], st[2], t))
            env2 = dict(env)
            env2[st[1]] = (st[1], t)
            return "let %s : %s := %s\n%s" % (st[1], lean_ty(t), s, self.seq(tail, env2, rest, ret_t, result))
        if k == "assign":
            lhs = st[1]
            if lhs[0] == "un" and lhs[1] == "*":
                lhs = lhs[2]
            if lhs[0] != "path" or len(lhs[1]) != 1 or lhs[1][0] not in env:
                raise Unsupported("assignment target")
            name = lhs[1][0]
            t = env[name][1]
            rhs = st[2]
            if rhs[0] == "bin" and rhs[2] is st[1]:
                rhs = ("bin", rhs[1], lhs, rhs[3])
            s, t2 = self.ex(rhs, env, t)
            if t2 != t:
                raise Unsupported("assignment to %s: %r vs %r" % (name, t, t2))
            env2 = dict(env)
            env2[name] = (name, t)
            return "let %s : %s := %s\n%s" % (name, lean_ty(t), s, self.seq(tail, env2, rest, ret_t, result))
        if k == "return":
            if st[1] is None:
                return result(env, None)
            s, t = self.ex(st[1], env, ret_t)
            if t != ret_t:
                raise Unsupported("return type %r vs %r" % (t, ret_t))
            return result(env, s)
        if k == "expr" and st[1][0] == "ret":
            return self.seq([("return", st[1][1])], env, [], ret_t, result)
        if k == "expr" and st[1][0] == "call" and (st[2] or (not tail and not rest and ret_t is None)):
            # a call in statement position: a bit-writer primitive, another writer function, or a
            # function with `&mut` scalar out-parameters
            path, args = st[1][1], st[1][2]
            name = path[-1]
            WR = "w_"
            def is_sink(a):
                a = a[2] if a[0] == "un" else a
                return a[0] == "path" and len(a[1]) == 1 and a[1][0] in self.sinks
            if name == "BrotliWriteBits" and len(args) == 4 and is_sink(args[2]) and is_sink(args[3]) and WR in env:
                n, tn = self.ex(args[0], env, ("U", 8))
                v, tv = self.ex(args[1], env, ("U", 64))
                if tn[0] != "U" or tv != ("U", 64):
                    raise Unsupported("BrotliWriteBits argument types %r %r" % (tn, tv))
                return "let %s := %s ++ [BV.Rs.WOp.bits %s %s]\n%s" % (WR, WR, n, v, self.seq(tail, env, rest, ret_t, result))
            if name == "JumpToByteBoundary" and len(args) == 2 and is_sink(args[0]) and is_sink(args[1]) and WR in env:
                return "let %s := %s ++ [BV.Rs.WOp.align]\n%s" % (WR, WR, self.seq(tail, env, rest, ret_t, result))
            if name in self.fns:
                self.note_callee(name)
                pts, rt, outs, writer = self.fns[name]
                plain = [a for a in args if not is_sink(a)]
                if writer != (len(plain) != len(args)):
                    raise Unsupported("call of %s: writer arguments do not match" % name)
                if writer and WR not in env:
                    raise Unsupported("call of writer %s from a non-writer" % name)
                if len(plain) != len(pts):
                    raise Unsupported("call of %s: arity" % name)
                ss = []
                out_names = []
                for a, pt in zip(plain, pts):
                    if a[0] == "un" and a[1] == "&mut":
                        tgt = a[2]
                        if tgt[0] != "path" or len(tgt[1]) != 1 or tgt[1][0] not in env:
                            raise Unsupported("&mut argument of %s" % name)
                        out_names.append(tgt[1][0])
                        a = tgt
                    sv, t = self.ex(a, env, pt)
                    if t != pt:
                        raise Unsupported("argument of %s: %r vs %r" % (name, t, pt))
                    ss.append(sv)
                if len(out_names) != len(outs):
                    raise Unsupported("call of %s: out-parameters" % name)
                if rt is not None:
                    raise Unsupported("call of %s in statement position discards its result" % name)
                binders = list(out_names) + ([("%s_new" % WR)] if writer else [])
                callee = "(%s %s)" % (name, " ".join(ss)) if ss else name
                env2 = dict(env)
                pre = "let %s := %s\n" % (binders[0] if len(binders) == 1 else "(" + ", ".join(binders) + ")", callee)
                if writer:
                    pre += "let %s := %s ++ %s_new\n" % (WR, WR, WR)
                return pre + self.seq(tail, env2, rest, ret_t, result)
            raise Unsupported("call of %s in statement position" % "::".join(path))
        if k == "expr":
            e = st[1]
            is_last = not tail and not rest
            if e[0] == "if" and (st[2] or not is_last or ret_t is None or self.has_effect(e)):
                # statement-form if: the continuation is duplicated into both branches
                c, _ = self.ex(e[1], env, BOOL)
                cont = [tail] + rest
                a = self.seq(e[2], env, cont, ret_t, result)
                b = self.seq(e[3] or [], env, cont, ret_t, result)
                return "if %s then\n%s\nelse\n%s" % (c, indent(a), indent(b))
            if e[0] == "block" and (st[2] or not is_last):
                return self.seq(e[1], env, [tail] + rest, ret_t, result)
            if not st[2] and is_last:
                s, t = self.ex(e, env, ret_t)
                if t != ret_t:
                    raise Unsupported("tail type %r vs %r" % (t, ret_t))
                return result(env, s)
            raise Unsupported("expression statement")
        raise Unsupported("statement %s" % k)

    def has_effect(self, e):
        def st_eff(stmts):
            for s in stmts or []:
                if s[0] in ("assign", "return") or (s[0] == "expr" and s[1][0] in ("ret", "call")):
                    return True
                if s[0] == "expr" and s[1][0] == "if" and self.has_effect(s[1]):
                    return True
                if s[0] == "expr" and s[1][0] == "block" and st_eff(s[1][1]):
                    return True
            return False
        return st_eff(e[2]) or st_eff(e[3])


def indent(s):
    return "\n".join("  " + l for l in s.split("\n"))


FN_FILES = {}   # translated function name -> source file


LEAN_KEYWORDS = {"prefix", "postfix", "infix", "infixl", "infixr", "notation", "end", "at", "show", "have", "fun",
                 "then", "do", "open", "section", "namespace", "instance", "theorem", "def", "where", "with", "by", "local",
                 "macro", "syntax", "deriving", "extends", "variable", "universe", "example", "axiom", "calc", "suffices",
                 "obtain", "using", "Type", "Prop", "Sort", "exists", "forall"}


def struct_fields(path, sname):
    """scalar fields (name, type) of `struct sname` in file `path`, in declaration order"""
    toks = G.tokens_of(path)
    for i in range(len(toks) - 2):
        if toks[i][1] == "struct" and toks[i + 1][1] == sname:
            j = i + 2
            while toks[j][1] != "{":
                if toks[j][1] == ";":
                    return []
                j += 1
            j += 1
            out = []
            depth = 0
            while not (toks[j][1] == "}" and depth == 0):
                # [pub [(crate)]] name : type ,
                if toks[j][1] == "#":
                    d = 0
                    j += 1
                    while True:
                        if toks[j][1] == "[":
                            d += 1
                        elif toks[j][1] == "]":
                            d -= 1
                            if d == 0:
                                j += 1
                                break
                        j += 1
                    continue
                if toks[j][1] == "pub":
                    j += 1
                    if toks[j][1] == "(":
                        while toks[j][1] != ")":
                            j += 1
                        j += 1
                    continue
                name = toks[j][1]
                assert toks[j + 1][1] == ":", "struct field syntax"
                j += 2
                tt = []
                d = 0
                while not (toks[j][1] == "," and d == 0) and not (toks[j][1] == "}" and d == 0):
                    if toks[j][1] in ("<", "(", "["):
                        d += 1
                    elif toks[j][1] in (">", ")", "]"):
                        d -= 1
                    tt.append(toks[j][1])
                    j += 1
                if toks[j][1] == ",":
                    j += 1
                if len(tt) == 1 and tt[0] in INT_TYPES:
                    out.append((name, INT_TYPES[tt[0]]))
                elif tt == ["bool"]:
                    out.append((name, BOOL))
            return out
    raise Unsupported("struct %s not found in %s" % (sname, path))


def uses_field(toks, pn, fname):
    for i in range(len(toks) - 2):
        if toks[i][1] == pn and toks[i + 1][1] == "." and toks[i + 2][1] == fname:
            return True
    return False


def translate(path, fname, occ, consts, fns, lean_name=None, structs=None, self_ty=None):
    toks = G.find_fn(G.tokens_of(path), fname, occ)
    toks = [(k, v + "_") if (k == "id" and v in LEAN_KEYWORDS) else (k, v) for k, v in toks]
    name, params, ret, body = P(list(toks)).fn()
    tr = Tr(consts, fns)
    tr.cur_file = path
    env = {}
    lean_params = []
    outs = []
    ptypes = []
    writer = False
    sink_ix = [pn for pn, pt in params if pt == ("R", True, ("U", 64)) and pn == "storage_ix"]
    sink_st = [pn for pn, pt in params if pt == ("R", True, ("S", ("U", 8))) and pn == "storage"]
    if sink_ix and sink_st:
        writer = True
        tr.sinks = {sink_ix[0], sink_st[0]}
        env["w_"] = ("w_", ("W",))
    for pn, pt in params:
        if pn in tr.sinks:
            continue
        st = pt[2] if pt[0] == "R" else pt
        if st[0] == "ST":
            if pt[0] == "R" and pt[1]:
                raise Unsupported("&mut struct parameter %s" % pn)
            sname = self_ty if st[1] == "Self" else st[1]
            if not structs or sname not in structs:
                raise Unsupported("struct type %s of parameter %s is not listed" % (sname, pn))
            env[pn] = (pn, ("ST", sname))
            for fn_, ft in struct_fields(structs[sname], sname):
                if uses_field(toks, pn, fn_):
                    key = pn + "_" + fn_
                    env[key] = (key, ft)
                    lean_params.append("(%s : %s)" % (key, lean_ty(ft)))
                    ptypes.append(ft)
            continue
        if pt[0] == "R":
            inner = pt[2]
            if pt[1]:
                if inner == BOOL or inner[0] in "UI":
                    outs.append((pn, inner))
                    env[pn] = (pn, inner)
                    lean_params.append("(%s : %s)" % (pn, lean_ty(inner)))
                    ptypes.append(inner)
                    continue
                raise Unsupported("&mut %r parameter" % (inner,))
            pt = inner
        env[pn] = (pn, pt)
        lean_params.append("(%s : %s)" % (pn, lean_ty(pt)))
        ptypes.append(pt)
    res_types = ([ret] if ret else []) + [t for _, t in outs] + ([("W",)] if writer else [])
    if not res_types:
        raise Unsupported("function without result")

    def result(env_, val):
        parts = ([val] if ret else []) + [env_[n][0] for n, _ in outs] + (["w_"] if writer else [])
        if ret and val is None:
            raise Unsupported("missing return value")
        return parts[0] if len(parts) == 1 else "(" + ", ".join(parts) + ")"

    body_s = tr.seq(body, env, [], ret, result)
    if writer:
        body_s = "let w_ : List BV.Rs.WOp := []\n" + body_s
    lname = lean_name or name
    rt = " × ".join(lean_ty(t) for t in res_types)
    doc = "`fn %s` of `%s` (occurrence %d), translated by tools/rs2lean.py" % (fname, path, occ)
    if outs:
        doc += "; results: %s" % ", ".join((["return value"] if ret else []) + ["*" + n for n, _ in outs])
    if tr.foreign:
        doc += "; callees bound to the translation of a same-named function of ANOTHER file (the file-local one is not in the subset): " + ", ".join(sorted(tr.foreign))
    if tr.asserts:
        doc += "; dropped: " + " | ".join(a.replace("-/", "- /") for a in tr.asserts)
    text = "/-- %s -/\ndef %s %s : %s :=\n%s\n" % (doc, lname, " ".join(lean_params), rt, indent(body_s))
    sig = (ptypes, ret if not outs else ("T", res_types), [t for _, t in outs] if not ret else [])
    # callers may use functions that only return a value
    return text, (ptypes, ret, outs, writer)


PRELUDE_IMPORT = "import BV.Model.RsPrelude\n"


def main():
    outdir = sys.argv[1] if len(sys.argv) > 1 else os.path.join(os.path.dirname(HERE), "lean", "BV", "Gen")
    items = json.load(open(os.path.join(HERE, "rs2lean_items.json")))
    report = {"files": {}, "errors": []}
    for prop, spec in items.items():
        consts = {}
        for c in spec.get("consts", []):
            try:
                toks = G.tokens_of(c["file"])
                ty, ex = G.find_item(toks, c["name"])
                v = G.ExprParser(ex, {k: vv[0] for k, vv in consts.items()}).parse()
                tname = [t[1] for t in ty if t[0] == "id"]
                consts[c["name"]] = (v, INT_TYPES.get(tname[-1]) if tname else None)
            except (G.GenError, OSError, IndexError) as e:
                report["errors"].append("%s: const %s: %s" % (prop, c["name"], e))
        fns = {}
        out = ["-- GENERATED by tools/rs2lean.py from the current /repo working tree. Do not edit.",
               PRELUDE_IMPORT, "set_option linter.unusedVariables false", "", "namespace BV.Gen.Fn%s" % prop, ""]
        for it in spec["fns"]:
            try:
                text, sig = translate(it["file"], it["fn"], it.get("occ", 0), consts, fns, it.get("lean"),
                                      spec.get("structs"), it.get("self"))
                out.append(text)
                fns[it["fn"]] = sig
                FN_FILES[it["fn"]] = it["file"]
                if it.get("lean"):
                    fns[it["lean"]] = sig
            except (Unsupported, G.GenError, OSError, IndexError) as e:
                report["errors"].append("%s: fn %s (%s): %s" % (prop, it["fn"], it["file"], e))
        out.append("end BV.Gen.Fn%s" % prop)
        content = "\n".join(out) + "\n"
        p = os.path.join(outdir, "Fn%s.lean" % prop)
        try:
            same = open(p).read() == content
        except OSError:
            same = False
        if not same:
            with open(p, "w") as f:
                f.write(content)
        report["files"]["Fn%s.lean" % prop] = {"fns": len(fns), "changed": not same}
    print(json.dumps(report))
    return 2 if report["errors"] else 0


if __name__ == "__main__":
    sys.exit(main())
