#!/bin/sh
# run every claimed check (quick) on the current tree; print a one-line summary each
cd "$(dirname "$0")/.." || exit 2
for id in $(python3 -c "
import json
for c in json.load(open('MANIFEST.json'))['checks']: print(c['property_id'])"); do
  ./check $id ${1:-quick} > .cache/last_$id.log 2>&1; rc=$?
  echo "$id rc=$rc $(tail -1 .cache/last_$id.log)"
done
