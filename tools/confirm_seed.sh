#!/bin/sh
# usage: tools/confirm_seed.sh <worktree> <seed dir> — confirm a seeded regression independently:
# suite passes with the change; demo fails with it and passes without it.  Prints a JSON line.
wt="$1"; sd="$2"
cd "$wt" || exit 2
git checkout -q -- src 2>/dev/null
git apply "$sd/patch.diff" || { echo "{\"seed\":\"$sd\",\"error\":\"patch does not apply\"}"; exit 1; }
suite=$(CARGO_NET_OFFLINE=true cargo test --workspace --no-fail-fast --offline 2>&1 | grep -E "^test result" | awk '{p+=$4; f+=$6} END {print p" passed "f" failed"}')
mkdir -p tests; demo=$(ls $sd/demo*.rs | head -1); cp "$demo" tests/seed_demo.rs
feat=""; grep -q "ffi::" "$demo" && feat="--features ffi-api"
with=$(CARGO_NET_OFFLINE=true timeout 900 cargo test --offline $feat --test seed_demo -- --test-threads=1 2>&1 | grep -E "^test result" | head -1)
git checkout -q -- src
without=$(CARGO_NET_OFFLINE=true timeout 900 cargo test --offline $feat --test seed_demo -- --test-threads=1 2>&1 | grep -E "^test result" | head -1)
rm -rf tests
echo "{\"seed\":\"$sd\",\"suite_with_change\":\"$suite\",\"demo_with_change\":\"$with\",\"demo_without_change\":\"$without\"}"
