"""Per-property configuration of the check pipeline."""

COMMON_ASSUME = [
    "usize = u64 (x86-64); Rust integer casts are modelled as explicit `% 2^N`",
    "the Lean model is hand-written; it is tied to the code by the correspondence run of this check (model and implementation on the same inputs) and by regenerating tables/constants from the Rust source",
]

PROPS = {
    "C18": {
        "lean_modules": ["BV.Props.C18"],
        "stages": [{"name": "arith", "cmd": ["arith"]}],
        "exhaustive": True,
        "level_text": "Proof (complete for the arithmetic): Lean 4 theorems, for every value with no bound beyond the format's own, that the insert/copy/block-length codes, the 704-way command symbol and the distance (symbol, nbits, extra) triple denote exactly the encoded value under the RFC 7932 tables, which are proved equal to the tables regenerated from the Rust source on every run; the hand-written model of the Rust functions is tied to the code exhaustively (digest protocol over the whole stated domain).",
        "level_note": "Trusted: Lean kernel (+ propext, Classical.choice, Quot.sound), gen_source.py, the exhaustive correspondence harness. Modelled rather than verified: the Rust functions GetInsertLengthCode, GetCopyLengthCode, combine_length_codes, PrefixEncodeCopyDistance, restore_distance_code, BlockLengthPrefixCode, BrotliEncodeMlen, StoreVarLenUint8, StoreCommandExtra, copy_len_code are mirrored by hand in BV/Model/PrefixArith.lean; model = code is checked on the full domain on every run, not proved.",
        "technique": "Lean 4 proof over executable model + exhaustive model/implementation correspondence",
        "rule": "digest protocol over the whole stated domain: insert/copy lengths 0..2^24(+), block lengths 1..2^24, all 1152 (ins,copy,last) triples, MLEN 1..2^24, distance codes for all 64 (npostfix, ndirect=k<<npostfix) settings over 0..2^20 (quick) / 0..2^26 (thorough) plus +-3 around every bucket boundary up to 2^31; every enumerated value is a distinct domain point, checked against the Lean model (digest) and against a second transcription of the RFC 7932 tables (oracle)",
        "assumptions": COMMON_ASSUME + [
            "RFC 7932 tables are transcribed by hand twice (Lean spec side, Rust oracle side); the generated Rust tables are proved equal to the Lean transcription",
        ],
        "trusted_base": ["model: BV/Model/PrefixArith.lean mirrors command.rs / brotli_bit_stream.rs helper functions line by line"],
    },
}

CONCAT_ASSUME = COMMON_ASSUME + [
    "nothing inside src/concat/mod.rs is assumed: the whole file is mirrored by BV/Model/Concat.lean (incl. every panic site as an explicit outcome); 'model = code' is checked by running both on the same recorded call sequences on every run (sampled, not proved)",
    "'decodes to the concatenation' additionally relies on the payload encoder's catable promise (distance cache poisoned, static dictionary off, first two bytes stored): not modelled, judged on the real code by two independent decoders (brotli-decompressor, libbrotlidec 1.0.9)",
]
PROPS["C16"] = {
    "lean_modules": ["BV.Props.C16"],
    "stages": [{"name": "concat", "cmd": ["concat", "bytes"]},
               {"name": "concat-dbgsem", "cmd": ["concat", "bytes"], "profile": "dbgsem"}],
    "level_text": "Proof: Lean 4 theorems over a complete line-by-line model of the concatenator: an invariant Inv holds initially and is preserved by new_brotli_file/stream/finish on ARBITRARY input bytes and capacities; under Inv no panic site of the model (about 60, one per Rust index/subtraction/assert/unwrap) is reachable; cursors stay within the buffers; header parsers are total; every call makes progress or returns a code the protocol can act on. Tied to the code by running model and implementation on identical call sequences (every 2-byte prefix x continuations, mutated/truncated/random members, all slicings down to 1 byte and zero-capacity calls).",
    "level_note": "Trusted: Lean kernel + 3 standard axioms, the hand-written model BV/Model/Concat.lean (tied by correspondence, sampled), harness. Hypothesis `Started` (new_brotli_file was called before stream) is the documented API protocol.",
    "technique": "Lean 4 invariant proof over executable model + model/implementation correspondence on recorded call sequences",
    "rule": "scenarios = (window override, member byte strings, slicing schedule); members: every 2-byte prefix (step 5 in quick, all in thorough) x 4 continuations as 2nd and as 1st member, mutated/truncated/random-byte/valid members 1..6 per scenario; each scenario is run under the reference slicing, 1-byte feeding with zero-capacity calls, random slicings, save/restore and the C ABI; non-trivial = scenario whose reference run ended with success and was decoded",
    "assumptions": CONCAT_ASSUME,
    "trusted_base": ["model: BV/Model/Concat.lean mirrors src/concat/mod.rs completely (parse_window_size, detect_varlen_offset, flush_previous_stream, shift_and_check_new_stream_header, stream, finish, serialize/deserialize, new_with_window_size) and the cursor arithmetic of src/ffi/broccoli.rs"],
}
PROPS["C12"] = {
    "lean_modules": ["BV.Props.C12"],
    "stages": [{"name": "concat", "cmd": ["concat", "all"]}],
    "level_text": "Proof: Lean 4 theorems over the complete concatenator model: serialize/deserialize round-trips every state (so save/restore is the identity and the C ABI wrappers equal the Rust calls with exact cursor arithmetic); the look-ahead taken for a new member is exactly 4 (5 for the 14-bit window form) bytes whatever else is available; calls without input/output room change nothing observable; slicing_irrelevant: from member start (fresh after new_brotli_file, partial look-ahead, waiting for room) or any later state, any two slicings of the same bytes into input buffers and any two schedules of output capacities (including zero-capacity calls) give the same emitted bytes, the same final code (every terminal error included), the same owed tail and pending state - one induction over arbitrary schedules, covering the strip emitting its byte in the same call that realigns the header. Tied to the code by correspondence on identical call sequences and by comparing the real code across slicings, save/restore and the C ABI.",
    "level_note": "Trusted: Lean kernel + 3 standard axioms, hand-written model (correspondence, sampled), harness. Hypotheses: Inv and Started (new_brotli_file called before stream), the caller follows the more-input/more-output protocol (the model's runAll driver).",
    "technique": "Lean 4 proof (round-trip + induction over schedules) over executable model + correspondence + cross-slicing comparison of the real code",
    "rule": "same scenarios as C03/C16; each scenario's reference run is compared with runs under 1-byte feeding, zero-capacity calls, random slicings, save/restore after every call and the C ABI (state serialised on every call); non-trivial = reference run succeeded and was decoded",
    "assumptions": CONCAT_ASSUME,
    "trusted_base": ["model: BV/Model/Concat.lean (complete port of src/concat/mod.rs + broccoli.rs cursor arithmetic)"],
}
PROPS["C03"] = {
    "lean_modules": ["BV.Props.C03"],
    "stages": [{"name": "concat", "cmd": ["concat", "valid"]}],
    "level_text": "Proof, partial: Lean 4 theorems over the complete concatenator model for the bit-level splice: parse_window_size inverts EncodeWindowBits for every window 10..30 and form; new_with_window_size mimics an empty stream of that window; the end marker is stripped exactly at every bit alignment (incl. straddling a byte) and re-appended by finish (strip_then_finish for all alignments); the realigned header equals tail bits ++ the member's first meta-block header bits after its window field; header forms must agree; concat_bits: for a first member and any number of acceptable later members under ANY slicing and capacities every stream call answers NeedsMoreInput, finish reports Success and the output, as a bit string, is bits(m0 minus marker) ++ for each later member (its header bits after the window field ++ re-computed byte-alignment padding ++ its remaining bytes minus marker) ++ [1,1] ++ padding. 'Output decodes to the concatenation' composes this with the catable promise of the payload encoder, which is not modelled: that half is judged on the real code by two independent decoders on every run. Members shorter than the look-ahead are covered by member_run_classified (they contribute nothing), not by concat_bits.",
    "level_note": "Trusted: Lean kernel + 3 standard axioms, hand-written model (correspondence, sampled), harness, the two decoders. Partial: CatableBody (position independence of compressed meta-blocks) is an assumption about the encoder core; the whole-stream composition concat_bits is stated per step.",
    "technique": "Lean 4 proof of the bit-level splice over executable model + correspondence + differential decode with two independent decoders",
    "rule": "scenarios = 1..8 members from the real encoder (appendable/catable x quality x lgwin x magic x large-window) and from an independent stored-stream builder (every header form, first block metadata with 0..3 skip bytes / uncompressed with 4..6 nibbles), contents incl. empty and 1-3 bytes, optional window override, 1 in 8 mixing header forms; non-trivial = concatenator reported success and the output was decoded by both decoders and compared with the concatenated contents",
    "assumptions": CONCAT_ASSUME,
    "trusted_base": ["model: BV/Model/Concat.lean (complete port of src/concat/mod.rs)"],
}

PROPS["C07"] = {
    "lean_modules": ["BV.Props.C07"],
    "stages": [{"name": "pool", "cmd": ["pool"]},
               {"name": "multi-c07", "cmd": ["multi", "c07"]}],
    "level_text": "Proof (liveness stated over finite prefixes with finitely many spurious wake-ups): Lean 4 theorems over a labelled transition system of the worker pool (one transition per critical section; condition variable as an explicit wait set with notify_all and spurious wake-ups; Arc strong count of the shared input; FixedQueue modelled concretely incl. its swap-into-hole removal), for ANY number of workers >= 1, any contract-abiding program (any number of batches of <= MAX_THREADS jobs, any join order) and ANY interleaving: an inductive invariant; no unwrap()/assert can fire; each job runs exactly once; each join returns its own job's value; the input's strong count is 1 once everything is joined; no lost wake-up; deadlock freedom; a potential function bounding the number of thread steps (termination); drop stops every worker; reusability. MAX_THREADS is the generated constant. Tied to the code by running the REAL pool under a deterministic scheduler shim and replaying the recorded schedule in the model: per-step traces must be equal.",
    "level_note": "Trusted: Lean kernel + 3 standard axioms; the LTS granularity (one atomic step per critical section) is justified by the mutex, and mutual exclusion / data-race freedom by safe Rust; OS scheduler fairness and the hardware memory model are outside the model. Under cfg(brotli_verif) worker_pool.rs takes Mutex/Condvar/spawn/JoinHandle from src/enc/verif_sched.rs (real threads, one runnable at a time); with the guard off the std primitives are used. The caller contract (<= 15 un-joined jobs at each spawn) is what CompressMulti guarantees; contract_is_needed shows the panic outside it.",
    "technique": "Lean 4 invariant/refinement proof over an LTS + trace correspondence of the real pool under a deterministic scheduler shim",
    "rule": "scenario = workers (1..4 mostly, up to 16) x submitter program (1..4 batches of 1..16 jobs, joins in random order interleaved with spawns, unwrap checks, drop) x schedule drawn online from one PRNG state (uniform / sticky / with 0-30% spurious wake-ups); plus random push/pop/remove sequences on FixedQueue; non-trivial = pool scenario with at least one job that ran to completion without violation; oracles on the real code: per-index execution counters, join values, strong count, no stuck state, no panic",
    "assumptions": COMMON_ASSUME + ["weak fairness of the OS scheduler and finitely many spurious wake-ups (for eventual return)", "sequential consistency at lock granularity (guaranteed by the mutex)"],
    "trusted_base": ["model: BV/Model/Pool.lean + BV/Model/FixedQueue.lean mirror src/enc/worker_pool.rs (do_work, spawn, join, Drop) and src/enc/fixed_queue.rs", "scheduler shim src/enc/verif_sched.rs (cfg brotli_verif)"],
}


# properties registered but not yet claimed (check still being built / not quiet yet): id -> reason
UNCLAIMED = {
}
NOT_YET = dict(UNCLAIMED)
for _k in ("C01", "C04", "C05"):
    NOT_YET.setdefault(_k, "check under construction (stream-machine model exists for C20; theorems and registration for this property in progress) - not claimed yet")

# ---------------------------------------------------------------------------------------------
# Per-property registrations written by the property-group workers live in tools/props.d/Cnn.py
# (one file each, so that concurrent edits cannot clobber each other); each is exec'd with
# PROPS / COMMON_ASSUME in scope.
import glob as _glob, os as _os
for _f in sorted(_glob.glob(_os.path.join(_os.path.dirname(_os.path.abspath(__file__)), "props.d", "C*.py"))):
    exec(compile(open(_f).read(), _f, "exec"))
for _k in UNCLAIMED:
    if _k in PROPS:
        PROPS[_k]["claimed"] = False
