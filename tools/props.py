"""Per-property configuration of the check pipeline."""

COMMON_ASSUME = [
    "usize = u64 (x86-64); Rust integer casts are modelled as explicit `% 2^N`",
    "the Lean model is hand-written; it is tied to the code by the correspondence run of this check (model and implementation on the same inputs) and by regenerating tables/constants from the Rust source",
]

PROPS = {
    "C18": {
        "lean_modules": ["BV.Props.C18"],
        "stages": [{"name": "arith", "cmd": ["arith"]}],
        "exhaustive": True,
        "level_text": "Proof (complete for the arithmetic): Lean 4 theorems, for every value with no bound beyond the format's own, that the insert/copy/block-length codes, the 704-way command symbol and the distance (symbol, nbits, extra) triple denote exactly the encoded value under the RFC 7932 tables, which are proved equal to the tables regenerated from the Rust source on every run; the hand-written model of the Rust functions is tied to the code exhaustively (digest protocol over the whole stated domain).",
        "level_note": "Trusted: Lean kernel (+ propext, Classical.choice, Quot.sound), gen_source.py, the exhaustive correspondence harness. Modelled rather than verified: the Rust functions GetInsertLengthCode, GetCopyLengthCode, combine_length_codes, PrefixEncodeCopyDistance, restore_distance_code, BlockLengthPrefixCode, BrotliEncodeMlen, StoreVarLenUint8, StoreCommandExtra, copy_len_code are mirrored by hand in BV/Model/PrefixArith.lean; model = code is checked on the full domain on every run, not proved.",
        "technique": "Lean 4 proof over executable model + exhaustive model/implementation correspondence",
        "rule": "digest protocol over the whole stated domain: insert/copy lengths 0..2^24(+), block lengths 1..2^24, all 1152 (ins,copy,last) triples, MLEN 1..2^24, distance codes for all 64 (npostfix, ndirect=k<<npostfix) settings over 0..2^20 (quick) / 0..2^26 (thorough) plus +-3 around every bucket boundary up to 2^31; every enumerated value is a distinct domain point, checked against the Lean model (digest) and against a second transcription of the RFC 7932 tables (oracle)",
        "assumptions": COMMON_ASSUME + [
            "RFC 7932 tables are transcribed by hand twice (Lean spec side, Rust oracle side); the generated Rust tables are proved equal to the Lean transcription",
        ],
        "trusted_base": ["model: BV/Model/PrefixArith.lean mirrors command.rs / brotli_bit_stream.rs helper functions line by line"],
    },
}

NOT_YET = {}
