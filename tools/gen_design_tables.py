#!/usr/bin/env python3
"""Regenerates the two generated tables of DESIGN.md section 13 (defects fixed / known, seeded
regressions) from known_findings.jsonl and seeded/*/meta.json."""
import json, os, re, glob
V = os.path.dirname(os.path.dirname(os.path.abspath(__file__)))
fixed, known = [], []
for l in open(os.path.join(V, "known_findings.jsonl")):
    l = l.strip()
    if l.startswith("fixed:"):
        m = re.match(r"fixed: property=(\S+) (\S+) (.*)", l)
        if m: fixed.append(m.groups())
    elif l.startswith("{"):
        known.append(json.loads(l))
t = ["| property | fix commit | what failed (trigger, effect) |", "|---|---|---|"]
for p, h, w in fixed:
    t.append("| %s | %s | %s |" % (p, h, w.replace("|", "/")))
t += ["", "Known findings (recorded, not repaired; the check prints `KNOWN-FINDING` and exits 0):", "", "| property | signature | what |", "|---|---|---|"]
for k in known:
    t.append("| %s | `%s` | %s |" % (k["property"], k["signature"], k["what"].replace("|", "/")))
fixed_md = "\n".join(t)
s = ["| seed | property | needs in order to manifest | result of the property's quick check |", "|---|---|---|---|"]
for d in sorted(glob.glob(os.path.join(V, "seeded", "*"))):
    mp = os.path.join(d, "meta.json")
    if not os.path.exists(mp): continue
    m = json.load(open(mp))
    s.append("| %s | %s | %s | %s |" % (os.path.basename(d), m["property"], m["needs_to_manifest"].replace("|", "/"), m["checks"].replace("|", "/")))
seeds_md = "\n".join(s)
p = os.path.join(V, "DESIGN.md")
txt = open(p).read()
def put(txt, tag, body):
    a, b = "<!-- BEGIN:%s -->" % tag, "<!-- END:%s -->" % tag
    if a in txt:
        return re.sub(re.escape(a) + ".*?" + re.escape(b), a + "\n" + body + "\n" + b, txt, flags=re.S)
    return txt
# theorem inventory per property
import sys
sys.path.insert(0, os.path.join(V, "tools"))
from props import PROPS
inv = ["| property | Lean modules | theorems | names |", "|---|---|---|---|"]
for pid in sorted(PROPS):
    names = []
    for mod in PROPS[pid]["lean_modules"]:
        f = os.path.join(V, "lean", mod.replace(".", "/") + ".lean")
        if os.path.exists(f):
            names += re.findall(r"^theorem\s+(\S+)", open(f).read(), re.M)
    inv.append("| %s | %s | %d | %s |" % (pid, ", ".join(PROPS[pid]["lean_modules"]), len(names), ", ".join(names)))
def loc(pat):
    n = 0
    for f in glob.glob(os.path.join(V, "lean", "BV", pat)):
        n += sum(1 for _ in open(f))
    return n
inv += ["", "Size of the Lean development: models %d lines, drivers %d, lemma files %d, property files %d." % (loc("Model/*.lean"), loc("Drive/*.lean"), loc("Lemmas/*.lean"), loc("Props/*.lean"))]
txt = put(txt, "INVENTORY", "\n".join(inv))
# per-property status as built: what is proved, what is assumed, what is only exercised (from the registrations)
st = []
for pid in sorted(PROPS):
    c = PROPS[pid]
    st.append("#### %s" % pid)
    st.append("")
    st.append("*Modules:* %s. *Stages:* %s." % (", ".join("`%s`" % m for m in c["lean_modules"]),
              ", ".join("`bvh %s`%s" % (" ".join(x["cmd"]), " (profile %s)" % x["profile"] if x.get("profile") else "") for x in c["stages"])))
    st.append("")
    st.append("*Proved / level:* " + c.get("level_text", "").strip())
    st.append("")
    if c.get("level_note"):
        st.append("*Trusted, assumed, partial:* " + c["level_note"].strip())
        st.append("")
    if c.get("rule"):
        st.append("*What the run covers:* " + c["rule"].strip())
        st.append("")
txt = put(txt, "STATUS", "\n".join(st))
txt = put(txt, "FIXED", fixed_md)
txt = put(txt, "SEEDS", seeds_md)
open(p, "w").write(txt)
print("fixed", len(fixed), "known", len(known), "seeds", len(s) - 2)
